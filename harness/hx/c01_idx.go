package main

import (
	"fmt"
	"os"
	"time"

	"github.com/LemoFoundationLtd/lemochain-core/chain/params"
	"github.com/LemoFoundationLtd/lemochain-core/chain/types"
	"github.com/LemoFoundationLtd/lemochain-core/common"
	"github.com/LemoFoundationLtd/lemochain-core/common/log"
)

// c01idx — C01 oracle scenario "does block validity depend on what the node confirmed before?".
//
// TransferAssetTx looks the issuer of an asset code up in a DATABASE-WIDE index (ChainDatabase.GetAssetCode →
// BeansDB) that is filled by the store's background writer once the block holding the CreateAssetTx has become
// STABLE on this node — not in the per-block account view. Two honest nodes that hold exactly the same blocks
// but have seen different confirmations therefore execute the same transfer differently.
//
// Scenario (nodes A = miner, B = validator; same blocks 1..2 on both):
//
//	block 1: fund U, H;  block 2: U creates asset, (block 3) U issues it to H
//	variant "miner-ahead":  only A receives the confirmations that make the create block stable; A then mines a
//	    block with H's TransferAssetTx (A packs it); B re-executes that honest block.
//	variant "validator-ahead": only B is ahead; A's miner discards the transfer (consistent, counted only).
//	variant "both": both confirmed: control, must be accepted.
func init() { subs["c01idx"] = c01idx }

func c01idx(c *Ctx) {
	if os.Getenv("HX_LOG") != "" {
		log.Setup(log.LevelDebug, false, false)
	}
	rounds := 2
	if c.Tier == "thorough" {
		rounds = 6
	}
	for r := 0; r < rounds; r++ {
		for _, variant := range []string{"both", "miner-ahead", "validator-ahead"} {
			c01idxRound(c, r, variant)
		}
	}
}

func c01idxRound(c *Ctx, r int, variant string) {
	w := NewWorld(3, 1700000000, 10000)
	a, b := w.NewNode(3), w.NewNode(3)
	defer a.Close()
	defer b.Close()
	u, h, x := detKey(fmt.Sprintf("idx-u-%d", r)), detKey(fmt.Sprintf("idx-h-%d", r)), detKey("idx-x")
	t := w.GenesisT + 10
	exp := func() uint64 { return uint64(t) + 600 }
	parent := a.BC.CurrentBlock()
	step := func(txs types.Transactions, want int) *types.Block {
		t += 7 + uint32(c.Rnd.Intn(5))
		blk, _, err := a.Build(parent, t, txs, nil)
		if err != nil {
			panic(fmt.Sprintf("c01idx: build failed: %v", err))
		}
		if len(blk.Txs) != want {
			panic(fmt.Sprintf("c01idx: miner packed %d of %d txs (first tx type %d)", len(blk.Txs), len(txs), txs[0].Type()))
		}
		if err := a.Insert(CloneBlock(blk)); err != nil {
			panic(fmt.Sprintf("c01idx: node A rejects its own block: %v", err))
		}
		if err := b.Insert(CloneBlock(blk)); err != nil {
			panic(fmt.Sprintf("c01idx: node B rejects a setup block: %v", err))
		}
		parent = blk
		return blk
	}
	step(types.Transactions{
		txTransfer(w.FounderKey, keyAddr(u), lemo(1000), TxOpt{Exp: exp(), Msg: "fu"}),
		txTransfer(w.FounderKey, keyAddr(h), lemo(1000), TxOpt{Exp: exp(), Msg: "fh"})}, 2)
	create := mkTx(u, nil, nil, []byte(fmt.Sprintf(`{"category":1,"isDivisible":true,"decimal":2,"isReplenishable":true,"totalSupply":"0","issuer":"%s","profile":{"name":"A","symbol":"A"}}`, keyAddr(u).String())), params.CreateAssetTx, TxOpt{Exp: exp(), Msg: "create"})
	code := create.Hash()
	bCreate := step(types.Transactions{create}, 1)
	// confirmations of all deputies for the create block, delivered to the chosen nodes only
	confirm := func(n *Node) {
		var sigs []types.SignData
		for _, k := range w.DeputyKeys {
			sigs = append(sigs, Confirm(bCreate, k))
		}
		n.BC.InsertConfirms(bCreate.Height(), bCreate.Hash(), sigs)
		// the code -> issuer index is written by the store's background goroutine: wait for it (bounded)
		for i := 0; i < 400; i++ {
			if is, err := n.DB.GetAssetCode(code); err == nil && is != (common.Address{}) {
				return
			}
			time.Sleep(10 * time.Millisecond)
		}
		c.Count("idx:" + variant + ":index-not-written-in-4s")
	}
	switch variant {
	case "both":
		confirm(a)
		confirm(b)
	case "miner-ahead":
		confirm(a)
	case "validator-ahead":
		confirm(b)
	}
	if a.BC.CurrentBlock().Hash() != b.BC.CurrentBlock().Hash() {
		panic("c01idx: nodes do not hold the same head")
	}
	issue := txIssueAsset(u, keyAddr(h), code, "5000", "m", TxOpt{Exp: exp()})
	id := issue.Hash()
	_ = x
	t += 9
	blk, _, err := a.Build(parent, t, types.Transactions{issue}, nil)
	if err != nil {
		panic(fmt.Sprintf("c01idx: build failed: %v", err))
	}
	if len(blk.Txs) == 0 {
		// the miner discarded the tx: no block to disagree about
		c.Count("idx:" + variant + ":miner-discards-issue")
		return
	}
	c.Count("idx:" + variant + ":miner-packs-issue")
	errB := b.Insert(CloneBlock(blk))
	if errB != nil {
		c.Count("idx:" + variant + ":validator-rejects")
		sa, sb := a.BC.StableBlock().Height(), b.BC.StableBlock().Height()
		c.Fail("c01/honest-block-rejected/asset-tx-needs-locally-stable-asset",
			fmt.Sprintf("variant %s: nodes A and B hold the same blocks (head %s, height %d); A has received the confirmations of the block with the CreateAssetTx (stable height %d), B not yet (stable height %d); A mines block %d with one IssueAssetTx of that asset (id %s) and packs it; B re-executes the honest block and rejects it: %v",
				variant, parent.Hash().Prefix(), parent.Height(), sa, sb, blk.Height(), id.Prefix(), errB),
			map[string]interface{}{"variant": variant, "round": r, "assetCode": code.Hex(), "height": blk.Height(), "stableA": sa, "stableB": sb})
	} else {
		c.Count("idx:" + variant + ":validator-accepts")
	}
}

package main

// C01, clause "the block result does not depend on hash-map iteration order": the PUBLISHED change-log list.
//
// `hx c01full` = the ledger scenario of `hx c01` (unchanged, same PRNG stream) followed by the merge-order cases below;
// `hx c01merge` = the merge-order cases alone.
//
// A case drives a REAL account.Manager on a real store: SafeAccount setters build the raw journal (versions taken by the
// real GetNextVersion), `transaction.Refund` is called for a refund list (the loop of assembler.refundCandidateDeposit; its
// order comes out of a Go map in the engine, here the harness picks it), then the real ChangeVotesByBalance,
// Manager.MergeChangeLogs, Manager.Finalise, GetChangeLogs, GetVersionRoot, and Save + a new Manager for the next block.
// All 19 change-log types are driven: besides the generic setters (`mo-w`), SetAssetCode incl. nil (`mo-asset`),
// SetAssetCodeState (`mo-astate`), SetAssetCodeTotalSupply (`mo-supply`), SetSuicide (`mo-suicide`) and the real tx handler
// RunAssetEnv.ModifyAssetProfileTx (`mo-modprof`: the profile reaches it as a Go map); the published line of an AddEventLog
// carries the Index updateVersion wrote. `mo-site` rows (c01_sites.go): every map range of the block-execution packages.
// Every generated block is Saved: oracle c01/block-not-savable/<cause>.
// Every call is one `mo-…` op line; the Lean driver (Driver/C01.lean → LemoModel.MergeOrder) answers the same lines from
// the op lines alone (initial state = empty database: nothing the code under test computed is fed to the model).
// Compared: the raw journal (type, extra, provisional version, OldVal, NewVal), the journal length after the vote pass,
// the published list field by field (address, type, extra, version, canonical NewVal) and the version records.
//
// Direct oracle c01/order-dependent/published-logs: the same block is executed again from the same parent on fresh
// Managers — identical calls (Go re-randomises every map range), other interleavings of the per-account call sequences,
// other orders of the refund list, other untouched accounts in the cache — and must publish the identical list, log root
// and version root.

import (
	"encoding/json"
	"fmt"
	"math/big"
	"os"
	"sort"
	"strings"

	"github.com/LemoFoundationLtd/lemochain-core/chain/account"
	"github.com/LemoFoundationLtd/lemochain-core/chain/params"
	"github.com/LemoFoundationLtd/lemochain-core/chain/transaction"
	"github.com/LemoFoundationLtd/lemochain-core/chain/types"
	"github.com/LemoFoundationLtd/lemochain-core/common"
	"github.com/LemoFoundationLtd/lemochain-core/store"
)

func init() {
	subs["c01merge"] = func(c *Ctx) { c01Merge(c, c.N) }
	subs["c01full"] = func(c *Ctx) {
		ledgerScenario(c, "c01")
		n := c.N / 2
		if n < 40 {
			n = 40
		}
		c01Merge(c, n)
	}
}

// ---- labels -------------------------------------------------------------------------------------------------------

// labels 3..9 are order-isomorphic to their strings ("k3" < … < "k9"): the asset-profile ops use only those (sort.Strings
// in ModifyAssetProfileTx vs. the numeric sort of the model)
var moKeyNames = map[int]string{1: types.CandidateKeyIsCandidate, 2: types.CandidateKeyDepositAmount, 3: "k3", 4: "k4", 5: "k5", 6: "k6", 7: "k7", 8: "k8", 9: "k9"}

func moKeyLabel(s string) int {
	for k, v := range moKeyNames {
		if v == s {
			return k
		}
	}
	return 99
}

// candidate-state / asset-id strings: 0 "", 1 "true", 2 "false", 3..999 "vN", 1000+n = the decimal numeral n
func moStr(v int64) string {
	switch {
	case v == 0:
		return ""
	case v == 1:
		return "true"
	case v == 2:
		return "false"
	case v < 1000:
		return fmt.Sprintf("v%d", v)
	}
	return fmt.Sprint(v - 1000)
}

func moStrLabel(s string) string {
	switch {
	case s == "":
		return "0"
	case s == "true":
		return "1"
	case s == "false":
		return "2"
	case strings.HasPrefix(s, "v"):
		return s[1:]
	}
	n, ok := new(big.Int).SetString(s, 10)
	if !ok {
		return "?" + s
	}
	return n.Add(n, big.NewInt(1000)).String()
}

func moAddr(n *big.Int) common.Address { return common.BigToAddress(n) }
func moHash(k int) common.Hash         { return common.BigToHash(big.NewInt(int64(k))) }

func moBytes(v int64) []byte {
	if v == 0 {
		return []byte{}
	}
	return big.NewInt(v).Bytes()
}

func moSigners(v int64) types.Signers {
	if v == 0 {
		return types.Signers{}
	}
	return types.Signers{{Address: common.BigToAddress(big.NewInt(v)), Weight: 60}, {Address: common.BigToAddress(big.NewInt(v + 1)), Weight: 50}}
}

// canonical label of a NewVal / OldVal of a log of type t ("_" = not a cell value)
func moValLabel(t types.ChangeLogType, v interface{}, isOld bool) string {
	switch t {
	case account.BalanceLog, account.VotesLog, account.AssetCodeTotalSupplyLog:
		if b, ok := v.(big.Int); ok {
			return b.String()
		}
	case account.VoteForLog:
		if a, ok := v.(common.Address); ok {
			return a.Big().String()
		}
	case account.StorageLog:
		if b, ok := v.([]byte); ok {
			return new(big.Int).SetBytes(b).String()
		}
	case account.AssetIdLog, account.CandidateStateLog, account.AssetCodeStateLog:
		if s, ok := v.(string); ok {
			return moStrLabel(s)
		}
	case account.AssetCodeLog:
		if a, ok := v.(*types.Asset); ok {
			return moAssetLabel(a)
		}
	case account.SuicideLog:
		if !isOld {
			if v == nil {
				return "0"
			}
			return fmt.Sprintf("?%T", v)
		}
		if d, ok := v.(*types.AccountData); ok && d != nil {
			empty := func(h common.Hash) bool { return h == (common.Hash{}) || h == common.Sha3Nil }
			if d.Balance.Sign() != 0 || !empty(d.CodeHash) || !empty(d.StorageRoot) {
				return "1"
			}
			return "0"
		}
	case account.EquityLog:
		if v == nil {
			return "0"
		}
		if e, ok := v.(*types.AssetEquity); ok {
			if e == nil {
				return "0"
			}
			return e.Equity.String()
		}
	case account.StorageRootLog, account.AssetCodeRootLog, account.AssetIdRootLog, account.EquityRootLog:
		return "R"
	}
	if isOld {
		return "_"
	}
	switch t {
	case account.CandidateLog:
		if p, ok := v.(*types.Profile); ok && p != nil {
			keys := make([]int, 0)
			for k := range *p {
				keys = append(keys, moKeyLabel(k))
			}
			sort.Ints(keys)
			acc := new(big.Int)
			for _, k := range keys {
				acc.Mul(acc, big.NewInt(100))
				acc.Add(acc, big.NewInt(int64(k)))
				acc.Mul(acc, big.NewInt(1000000))
				l, _ := new(big.Int).SetString(moStrLabel((*p)[moKeyNames[k]]), 10)
				if l == nil {
					return "?profile"
				}
				acc.Add(acc, l)
			}
			return acc.String()
		}
	case account.CodeLog:
		if c, ok := v.(types.Code); ok {
			if len(c) == 0 {
				return "0"
			}
			return fmt.Sprint(int(c[len(c)-1]))
		}
	case account.AddEventLog:
		if e, ok := v.(*types.Event); ok && e != nil && len(e.Data) == 1 {
			return fmt.Sprint(int(e.Data[0]))
		}
	case account.SignerLog:
		if s, ok := v.(types.Signers); ok {
			if len(s) == 0 {
				return "0"
			}
			return s[0].Address.Big().String()
		}
	}
	return fmt.Sprintf("?%T", v)
}

// label of a *types.Asset: 0 = nil, else (profile·1000 + Category)·10^6 + TotalSupply (LemoModel.MergeOrder.assetLabel)
func moAssetLabel(a *types.Asset) string {
	if a == nil {
		return "0"
	}
	keys := make([]int, 0)
	for k := range a.Profile {
		keys = append(keys, moKeyLabel(k))
	}
	sort.Ints(keys)
	acc := new(big.Int)
	for _, k := range keys {
		acc.Mul(acc, big.NewInt(100))
		acc.Add(acc, big.NewInt(int64(k)))
		acc.Mul(acc, big.NewInt(1000000))
		l, _ := new(big.Int).SetString(moStrLabel(a.Profile[moKeyNames[k]]), 10)
		if l == nil {
			return "?asset-profile"
		}
		acc.Add(acc, l)
	}
	acc.Mul(acc, big.NewInt(1000))
	acc.Add(acc, big.NewInt(int64(a.Category)))
	acc.Mul(acc, big.NewInt(1000000))
	if a.TotalSupply != nil {
		acc.Add(acc, a.TotalSupply)
	}
	return acc.String()
}

func moExtraLabel(l *types.ChangeLog) string {
	switch e := l.Extra.(type) {
	case nil:
		return "0"
	case *account.ProfileChangeLogExtra:
		if e == nil {
			return "?nil-extra"
		}
		n := new(big.Int).Mul(e.UUID.Big(), big.NewInt(100))
		return n.Add(n, big.NewInt(int64(moKeyLabel(e.Key)))).String()
	case common.Hash:
		return e.Big().String()
	case string:
		return fmt.Sprint(moKeyLabel(e))
	}
	return fmt.Sprintf("?%T", l.Extra)
}

// published line; an AddEventLog also shows the Index updateVersion wrote into its event record
func moShowLog(l *types.ChangeLog) string {
	s := fmt.Sprintf("%s:%d:%s:%d:%s", l.Address.Big().String(), uint32(l.LogType), moExtraLabel(l), l.Version, moValLabel(l.LogType, l.NewVal, false))
	if l.LogType == account.AddEventLog {
		if e, ok := l.NewVal.(*types.Event); ok && e != nil {
			s += fmt.Sprintf("#%d", e.Index)
		}
	}
	return s
}

func moShowRaw(l *types.ChangeLog) string {
	old := moValLabel(l.LogType, l.OldVal, true)
	return fmt.Sprintf("%s:%d:%s:%d:%s>%s", l.Address.Big().String(), uint32(l.LogType), moExtraLabel(l), l.Version, old, moValLabel(l.LogType, l.NewVal, false))
}

func moJoin(l []string) string {
	if len(l) == 0 {
		return "-"
	}
	return strings.Join(l, ";")
}

// ---- ops ----------------------------------------------------------------------------------------------------------

type moOp struct {
	kind  string // w prof refund votes asset astate supply suicide modprof
	sup   int64      // asset: total supply (val = id label, 0 = nil asset; extra = asset code; prof = profile)
	addr  *big.Int
	ty    int
	extra int
	val   int64
	vaddr *big.Int   // type 17 only: the address voted for (nil: val)
	prof  [][2]int64 // sorted by key
}

func (o moOp) line() string {
	switch o.kind {
	case "w":
		if o.vaddr != nil {
			return fmt.Sprintf("mo-w %s %d %d %s", o.addr, o.ty, o.extra, o.vaddr)
		}
		return fmt.Sprintf("mo-w %s %d %d %d", o.addr, o.ty, o.extra, o.val)
	case "prof":
		if len(o.prof) == 0 {
			return fmt.Sprintf("mo-prof %s -", o.addr)
		}
		ps := make([]string, len(o.prof))
		for i, p := range o.prof {
			ps[i] = fmt.Sprintf("%d:%d", p[0], p[1])
		}
		return fmt.Sprintf("mo-prof %s %s", o.addr, strings.Join(ps, ","))
	case "refund":
		return fmt.Sprintf("mo-refund %s", o.addr)
	case "asset":
		return fmt.Sprintf("mo-asset %s %d %d %d %s", o.addr, o.extra, o.val, o.sup, o.profStr())
	case "astate":
		return fmt.Sprintf("mo-astate %s %d %d %d", o.addr, o.extra/100, o.extra%100, o.val)
	case "supply":
		return fmt.Sprintf("mo-supply %s %d %d", o.addr, o.extra, o.val)
	case "suicide":
		return fmt.Sprintf("mo-suicide %s", o.addr)
	case "modprof":
		return fmt.Sprintf("mo-modprof %s %d %s", o.addr, o.extra, o.profStr())
	}
	return "mo-votes"
}

func (o moOp) profStr() string {
	if len(o.prof) == 0 {
		return "-"
	}
	ps := make([]string, len(o.prof))
	for i, p := range o.prof {
		ps[i] = fmt.Sprintf("%d:%d", p[0], p[1])
	}
	return strings.Join(ps, ",")
}

func (o moOp) profile() types.Profile {
	p := make(types.Profile)
	for _, kv := range o.prof {
		p[moKeyNames[int(kv[0])]] = moStr(kv[1])
	}
	return p
}

// apply runs one op on the real manager; the answer is what the op line is answered with
func (o moOp) apply(am *account.Manager) string {
	out, msg := SafeMsg(func() string { return o.applyRaw(am) })
	moLastPanic = msg
	return out
}

// moLastPanic: the message of the last panic (class counting only)
var moLastPanic string

func (o moOp) applyRaw(am *account.Manager) string {
	return func() string {
		switch o.kind {
		case "refund":
			transaction.Refund(moAddr(o.addr), am)
			return "ok"
		case "votes":
			transaction.ChangeVotesByBalance(am)
			return fmt.Sprintf("ok n=%d", len(am.GetChangeLogs()))
		case "prof":
			p := make(types.Profile)
			for _, kv := range o.prof {
				p[moKeyNames[int(kv[0])]] = moStr(kv[1])
			}
			am.GetAccount(moAddr(o.addr)).SetCandidate(p)
			return "ok"
		case "asset":
			var a *types.Asset
			if o.val != 0 {
				a = &types.Asset{Category: uint32(o.val), IsDivisible: true, AssetCode: moHash(o.extra), Decimal: 2,
					TotalSupply: big.NewInt(o.sup), IsReplenishable: true, Issuer: moAddr(o.addr), Profile: o.profile()}
			}
			if err := am.GetAccount(moAddr(o.addr)).SetAssetCode(moHash(o.extra), a); err != nil {
				return "err"
			}
			return "ok"
		case "astate":
			if err := am.GetAccount(moAddr(o.addr)).SetAssetCodeState(moHash(o.extra/100), moKeyNames[o.extra%100], moStr(o.val)); err != nil {
				return "err"
			}
			return "ok"
		case "supply":
			if err := am.GetAccount(moAddr(o.addr)).SetAssetCodeTotalSupply(moHash(o.extra), big.NewInt(o.val)); err != nil {
				return "err"
			}
			return "ok"
		case "suicide":
			am.GetAccount(moAddr(o.addr)).SetSuicide(true)
			return "ok"
		case "modprof":
			// the REAL tx handler (asset_tx.go): the profile reaches it as a Go map inside the tx data
			data, err := json.Marshal(&types.ModifyAssetInfo{AssetCode: moHash(o.extra), UpdateProfile: o.profile()})
			if err != nil {
				panic(err)
			}
			if err := transaction.NewRunAssetEnv(am).ModifyAssetProfileTx(moAddr(o.addr), data); err != nil {
				return "err"
			}
			return "ok"
		}
		acc := am.GetAccount(moAddr(o.addr))
		var err error
		switch types.ChangeLogType(o.ty) {
		case account.BalanceLog:
			acc.SetBalance(big.NewInt(o.val))
		case account.VotesLog:
			acc.SetVotes(big.NewInt(o.val))
		case account.VoteForLog:
			if o.vaddr != nil {
				acc.SetVoteFor(common.BigToAddress(o.vaddr))
			} else {
				acc.SetVoteFor(common.BigToAddress(big.NewInt(o.val)))
			}
		case account.StorageLog:
			err = acc.SetStorageState(moHash(o.extra), moBytes(o.val))
		case account.AssetIdLog:
			err = acc.SetAssetIdState(moHash(o.extra), moStr(o.val))
		case account.EquityLog:
			if o.val == 0 {
				err = acc.SetEquityState(moHash(o.extra), nil)
			} else {
				err = acc.SetEquityState(moHash(o.extra), &types.AssetEquity{AssetCode: moHash(o.extra), AssetId: moHash(o.extra), Equity: big.NewInt(o.val)})
			}
		case account.CandidateStateLog:
			acc.SetCandidateState(moKeyNames[o.extra], moStr(o.val))
		case account.CodeLog:
			if o.val == 0 {
				acc.SetCode(types.Code{})
			} else {
				acc.SetCode(types.Code{0x60, byte(o.val)})
			}
		case account.AddEventLog:
			acc.PushEvent(&types.Event{Address: moAddr(o.addr), Topics: []common.Hash{moHash(int(o.val))}, Data: []byte{byte(o.val)}})
		case account.SignerLog:
			err = acc.SetSingers(moSigners(o.val))
		default:
			return "unknown-type"
		}
		if err != nil {
			return "err"
		}
		return "ok"
	}()
}

// ---- one block on the real code -------------------------------------------------------------------------------------

type moResult struct {
	answers   []string // per op
	whys      []string // per op: panic message (classes only)
	preVotes  int
	voteLogs  int
	journal   string
	published string
	logRoot   common.Hash
	verRoot   common.Hash
	am        *account.Manager
	logs      types.ChangeLogSlice
}

// moRunBlock executes ops on a fresh Manager over `parent`, then loads `extras` into the cache, merges and finalises.
// preload: accounts fetched into the cache before anything else, in this order.
func moRunBlock(db *store.ChainDatabase, parent common.Hash, ops []moOp, preload []*big.Int, extras []*big.Int) (res *moResult, panicked string) {
	res = &moResult{}
	defer func() {
		if r := recover(); r != nil {
			panicked = fmt.Sprint(r)
		}
	}()
	am := account.NewManager(parent, db)
	res.am = am
	for _, a := range preload {
		am.GetAccount(moAddr(a))
	}
	snap := func() {
		raw := make([]string, 0)
		for _, l := range am.GetChangeLogs() {
			raw = append(raw, moShowRaw(l))
		}
		res.journal = moJoin(raw)
	}
	for _, o := range ops {
		if o.kind == "votes" {
			snap() // the raw journal up to the vote pass (the vote logs come in Go map order: only their number is compared)
			res.preVotes = len(am.GetChangeLogs())
		}
		ans := o.apply(am)
		res.answers = append(res.answers, ans)
		why := ""
		if ans == "panic" {
			why = moLastPanic
			if len(why) > 40 {
				why = why[:40]
			}
		}
		res.whys = append(res.whys, why)
		if o.kind == "votes" {
			res.voteLogs = len(am.GetChangeLogs()) - res.preVotes
		}
	}
	if res.journal == "" {
		snap()
	}
	for _, a := range extras {
		am.GetAccount(moAddr(a))
	}
	am.MergeChangeLogs()
	if err := am.Finalise(); err != nil {
		return res, "finalise: " + err.Error()
	}
	logs := am.GetChangeLogs()
	res.logs = logs
	pub := make([]string, 0, len(logs))
	type pair struct {
		a common.Address
		t types.ChangeLogType
	}
	seen := map[pair]bool{}
	recs := make([]string, 0)
	for _, l := range logs {
		pub = append(pub, moShowLog(l))
		p := pair{l.Address, l.LogType}
		if !seen[p] {
			seen[p] = true
			recs = append(recs, fmt.Sprintf("%s:%d=%d", l.Address.Big().String(), uint32(l.LogType), am.GetAccount(l.Address).GetVersion(l.LogType)))
		}
	}
	res.published = moJoin(pub) + " | " + moJoin(recs)
	res.logRoot = logs.MerkleRootSha()
	res.verRoot = am.GetVersionRoot()
	return res, ""
}

// moCommit stores the block and saves the accounts; returns the new block hash
func moCommit(db *store.ChainDatabase, parent common.Hash, height uint32, res *moResult, salt int) common.Hash {
	header := &types.Header{
		ParentHash:   parent,
		MinerAddress: common.HexToAddress("0x0a0b"),
		TxRoot:       (types.Transactions{}).MerkleRootSha(),
		Height:       height,
		GasLimit:     params.GenesisGasLimit,
		Extra:        fmt.Sprintf("mo%d", salt),
		Time:         1538209751 + height,
		VersionRoot:  res.verRoot,
		LogRoot:      res.logRoot,
	}
	block := types.NewBlock(header, nil, res.logs)
	h := block.Hash()
	if err := db.SetBlock(h, block); err != nil {
		panic("mo: SetBlock: " + err.Error())
	}
	if err := res.am.Save(h); err != nil {
		panic(moSaveError("mo: Save: " + err.Error()))
	}
	return h
}

// moSaveError: Manager.Save refused the block (recovered by the caller of moCommit)
type moSaveError string

// ---- generator ----------------------------------------------------------------------------------------------------------

type moGen struct {
	c     *Ctx
	univ  []*big.Int // accounts
	cands []*big.Int // registered candidates (deposit recorded at genesis)
	pool  *big.Int
}

func moBig(s string) *big.Int {
	n, ok := new(big.Int).SetString(s, 0)
	if !ok {
		panic("moBig " + s)
	}
	return n
}

func newMoGen(c *Ctx) *moGen {
	g := &moGen{c: c, pool: params.DepositPoolAddress.Big()}
	// addresses on both sides of the pool (0x1001), small and 160-bit wide, some sharing long prefixes
	for _, s := range []string{"0x9", "0x10", "0xfff", "0x1000", "0x1002", "0x2001",
		"0xff00000000000000000000000000000000000001", "0xff00000000000000000000000000000000000100",
		"0x0100000000000000000000000000000000000000", "0x00ffffffffffffffffffffffffffffffffffffff"} {
		g.univ = append(g.univ, moBig(s))
	}
	g.cands = []*big.Int{g.univ[1], g.univ[4], g.univ[6], g.univ[0]}
	return g
}

// the genesis block of every run: candidates with deposits and votes, voters, committed storage / equity / asset ids
func (g *moGen) genesisOps() []moOp {
	ops := []moOp{{kind: "w", addr: g.pool, ty: 1, val: 5000}}
	for i, a := range g.cands {
		ops = append(ops,
			moOp{kind: "prof", addr: a, prof: [][2]int64{{1, 1}, {2, 1000 + int64(100*(i+1))}}},
			moOp{kind: "w", addr: a, ty: 18, val: 500},
			moOp{kind: "w", addr: a, ty: 1, val: int64(40 * i)})
	}
	for i, a := range g.univ {
		ops = append(ops, moOp{kind: "w", addr: a, ty: 17, vaddr: g.cands[i%len(g.cands)]})
	}
	// committed asset records (non-zero asset-code roots in the later blocks), one account with committed storage + code
	ops = append(ops,
		moOp{kind: "asset", addr: g.univ[1], extra: 1, val: 1, sup: 100, prof: [][2]int64{{3, 3}, {4, 4}}},
		moOp{kind: "asset", addr: g.univ[5], extra: 2, val: 2, sup: 50},
		moOp{kind: "asset", addr: g.univ[7], extra: 1, val: 1, sup: 10, prof: [][2]int64{{5, 1}}},
		moOp{kind: "w", addr: g.univ[7], ty: 2, extra: 1, val: 3},
		moOp{kind: "w", addr: g.univ[7], ty: 8, extra: 1, val: 2},
		moOp{kind: "w", addr: g.univ[8], ty: 8, extra: 2, val: 3})
	return ops
}

// asset records, SetSuicide, the ModifyAssetProfileTx handler
func (g *moGen) randomAssetOp() moOp {
	r := g.c.Rnd
	a := []*big.Int{g.univ[1], g.univ[5], g.univ[7], g.univ[2], g.univ[8]}[r.Intn(5)]
	if r.Intn(8) == 0 {
		a = g.pickAddr()
	}
	code := 1 + r.Intn(2)
	if r.Intn(4) != 0 {
		// mostly an (account, code) pair that holds a committed asset record
		switch r.Intn(3) {
		case 0:
			a, code = g.univ[1], 1
		case 1:
			a, code = g.univ[5], 2
		default:
			a, code = g.univ[7], 1
		}
	}
	randProf := func(maxKeys int) [][2]int64 {
		var p [][2]int64
		for k := 3; k <= 9 && len(p) < maxKeys; k++ {
			if r.Intn(3) == 0 {
				p = append(p, [2]int64{int64(k), int64(1 + r.Intn(4))})
			}
		}
		return p
	}
	switch r.Intn(12) {
	case 0, 1:
		return moOp{kind: "asset", addr: a, extra: code, val: int64(1 + r.Intn(2)), sup: []int64{0, 10, 50, 100}[r.Intn(4)], prof: randProf(3)}
	case 2:
		return moOp{kind: "asset", addr: a, extra: code}
	case 3, 4:
		return moOp{kind: "astate", addr: a, extra: code*100 + 3 + r.Intn(5), val: int64(1 + r.Intn(4))}
	case 5:
		return moOp{kind: "supply", addr: a, extra: code, val: []int64{0, 10, 50, 100, 150}[r.Intn(5)]}
	case 6:
		if r.Intn(3) == 0 {
			a = g.pickAddr()
		}
		return moOp{kind: "suicide", addr: a}
	case 7:
		return moOp{kind: "w", addr: a, ty: 15, val: int64(1 + r.Intn(5))}
	}
	p := randProf(5)
	if len(p) == 0 && r.Intn(4) != 0 {
		p = [][2]int64{{int64(3 + r.Intn(7)), int64(1 + r.Intn(4))}, {int64(3 + r.Intn(7)), int64(1 + r.Intn(4))}}
		if p[0][0] == p[1][0] {
			p = p[:1]
		} else if p[0][0] > p[1][0] {
			p[0], p[1] = p[1], p[0]
		}
	}
	return moOp{kind: "modprof", addr: a, extra: code, prof: p}
}

func (g *moGen) pickAddr() *big.Int { return g.univ[g.c.Rnd.Intn(len(g.univ))] }

func (g *moGen) randomOp() moOp {
	r := g.c.Rnd
	a := g.pickAddr()
	if r.Intn(12) == 0 {
		a = g.pool
	}
	small := []int64{0, 1, 2, 3}
	if r.Intn(4) == 0 {
		return g.randomAssetOp()
	}
	switch r.Intn(14) {
	case 0, 1, 2, 3:
		return moOp{kind: "w", addr: a, ty: 1, val: []int64{0, 5, 10, 15, 25, 40, 100, 155, 1000}[r.Intn(9)]}
	case 4:
		return moOp{kind: "w", addr: a, ty: 18, val: []int64{500, 600, 700}[r.Intn(3)]}
	case 5:
		if r.Intn(3) == 0 {
			return moOp{kind: "w", addr: a, ty: 17, vaddr: g.cands[r.Intn(len(g.cands))]}
		}
		return moOp{kind: "w", addr: a, ty: 17, val: []int64{0, 16, 4098, 9, 4095}[r.Intn(5)]}
	case 6, 7:
		return moOp{kind: "w", addr: a, ty: 2, extra: 1 + r.Intn(3), val: small[r.Intn(4)]}
	case 8:
		return moOp{kind: "w", addr: a, ty: 10, extra: 1 + r.Intn(2), val: small[r.Intn(4)]}
	case 9:
		return moOp{kind: "w", addr: a, ty: 8, extra: 1 + r.Intn(2), val: small[r.Intn(3)]}
	case 10:
		return moOp{kind: "w", addr: a, ty: 13, extra: 3 + r.Intn(2), val: small[r.Intn(4)]}
	case 11:
		// SetCode(empty) only on an account that never holds code: overwriting stored code with empty code makes
		// Manager.Save fail in the store (empty value) — not reachable through the engine (CREATE refuses a collision)
		if r.Intn(3) == 0 {
			return moOp{kind: "w", addr: g.univ[3], ty: 14, val: 0}
		}
		if a.Cmp(g.univ[3]) == 0 {
			a = g.univ[5]
		}
		return moOp{kind: "w", addr: a, ty: 14, val: int64(1 + r.Intn(2))}
	case 12:
		if r.Intn(2) == 0 {
			return moOp{kind: "w", addr: a, ty: 15, val: int64(1 + r.Intn(5))}
		}
		return moOp{kind: "w", addr: a, ty: 19, val: small[r.Intn(4)]}
	}
	// candidate-related: flag, deposit, whole profile
	switch r.Intn(3) {
	case 0:
		return moOp{kind: "w", addr: a, ty: 13, extra: 1, val: int64(1 + r.Intn(2))}
	case 1:
		return moOp{kind: "w", addr: a, ty: 13, extra: 2, val: []int64{0, 1050, 1100, 1300}[r.Intn(4)]}
	}
	prof := [][2]int64{}
	if r.Intn(2) == 0 {
		prof = append(prof, [2]int64{1, int64(1 + r.Intn(2))})
	}
	if r.Intn(2) == 0 {
		prof = append(prof, [2]int64{3, int64(3 + r.Intn(2))})
	}
	return moOp{kind: "prof", addr: a, prof: prof}
}

// interleave returns another interleaving of ops that keeps every account's own subsequence (setter ops only)
func moInterleave(c *Ctx, ops []moOp) []moOp {
	byAddr := map[string][]moOp{}
	var keys []string
	for _, o := range ops {
		k := o.addr.String()
		if _, ok := byAddr[k]; !ok {
			keys = append(keys, k)
		}
		byAddr[k] = append(byAddr[k], o)
	}
	out := make([]moOp, 0, len(ops))
	for len(keys) > 0 {
		i := c.Rnd.Intn(len(keys))
		k := keys[i]
		out = append(out, byAddr[k][0])
		byAddr[k] = byAddr[k][1:]
		if len(byAddr[k]) == 0 {
			keys = append(keys[:i], keys[i+1:]...)
		}
	}
	return out
}

func c01Merge(c *Ctx, n int) {
	oldRate := params.VoteExchangeRate
	params.VoteExchangeRate = big.NewInt(10)
	defer func() { params.VoteExchangeRate = oldRate }()

	dir, err := os.MkdirTemp("", "hx-c01merge-")
	if err != nil {
		panic(err)
	}
	defer os.RemoveAll(dir)
	db := store.NewChainDataBase(dir)
	defer db.Close()

	g := newMoGen(c)

	// the table of merged types, against the real needMerge
	for t := 0; t <= 21; t++ {
		b := 0
		if account.VerifNeedMerge(types.ChangeLogType(t)) {
			b = 1
		}
		c.Op(fmt.Sprintf("mo-needmerge %d %d", t, b), "ok")
	}

	// every map range of the block-execution packages, against the committed table (c01_sites.go)
	c01Sites(c)

	c.Op(fmt.Sprintf("mo-new %s %s", params.VoteExchangeRate, g.pool), "ok")
	// block 0
	gops := g.genesisOps()
	gres, p := moRunBlock(db, common.Hash{}, gops, nil, nil)
	if p != "" {
		panic("mo genesis: " + p)
	}
	for i, o := range gops {
		c.Op(o.line(), gres.answers[i])
	}
	c.Op("mo-journal", gres.journal)
	c.Op("mo-publish", gres.published)
	gh := moCommit(db, common.Hash{}, 0, gres, 0)
	if _, err := db.SetStableBlock(gh); err != nil {
		panic(err)
	}
	c.Op("mo-commit", "ok")
	c.Op("mo-mark", "ok")

	reps := 20
	if c.Tier == "thorough" {
		reps = 40
	}
	salt := 1
	for cs := 0; cs < n; cs++ {
		c.Op("mo-back", "ok")
		parent, height := gh, uint32(1)
		blocks := 1 + c.Rnd.Intn(3)
		for b := 0; b < blocks; b++ {
			// setter phase
			var setters []moOp
			k := 3 + c.Rnd.Intn(22)
			for i := 0; i < k; i++ {
				o := g.randomOp()
				// a contract created and destroyed in one block: CodeLog, [storage write,] SuicideLog of one account
				if o.kind == "suicide" && c.Rnd.Intn(3) == 0 {
					setters = append(setters, moOp{kind: "w", addr: o.addr, ty: 14, val: int64(1 + c.Rnd.Intn(2))})
					if c.Rnd.Intn(2) == 0 {
						setters = append(setters, moOp{kind: "w", addr: o.addr, ty: 2, extra: 1 + c.Rnd.Intn(3), val: int64(1 + c.Rnd.Intn(3))})
					}
					c.Count("mo-class:code-then-suicide")
				}
				setters = append(setters, o)
				// several events of one account in one block (Index 0, 1, 2 …), other logs in between
				if o.kind == "w" && o.ty == 15 {
					for c.Rnd.Intn(2) == 0 {
						if c.Rnd.Intn(2) == 0 {
							setters = append(setters, g.randomOp())
						}
						setters = append(setters, moOp{kind: "w", addr: o.addr, ty: 15, val: int64(1 + c.Rnd.Intn(5))})
					}
				}
				// no-op changes and A→B→A runs: repeat the slot with another / the same value
				if c.Rnd.Intn(4) == 0 {
					o2 := g.randomOp()
					if o.kind == "w" && o2.kind == "w" && o2.ty == o.ty && o.ty != 14 {
						o2.addr, o2.extra = o.addr, o.extra
						setters = append(setters, o2)
						if c.Rnd.Intn(2) == 0 {
							setters = append(setters, o)
						}
					}
				}
			}
			// refund phase: some candidates (random order), now and then an account without a deposit record
			var refunds []moOp
			if c.Rnd.Intn(3) != 0 {
				perm := c.Rnd.Perm(len(g.cands))
				m := 1 + c.Rnd.Intn(len(g.cands))
				for _, i := range perm[:m] {
					refunds = append(refunds, moOp{kind: "refund", addr: g.cands[i]})
				}
				if c.Rnd.Intn(6) == 0 {
					refunds = append(refunds, moOp{kind: "refund", addr: g.univ[2]})
				}
			}
			ops := append(append(append([]moOp{}, setters...), refunds...), moOp{kind: "votes"})
			var extras []*big.Int
			for i := c.Rnd.Intn(3); i > 0; i-- {
				extras = append(extras, g.pickAddr())
			}
			res, p := moRunBlock(db, parent, ops, nil, extras)
			if p != "" {
				c.Fail("c01/merge-pipeline-panic", p, map[string]interface{}{"case": cs, "block": b})
				break
			}
			refundPanic := false
			for i, o := range ops {
				if o.kind == "votes" {
					c.Op("mo-journal", res.journal)
				}
				c.Op(o.line(), res.answers[i])
				c.Count("mo-op:" + o.kind + ":" + strings.SplitN(res.answers[i], " ", 2)[0])
				if o.kind == "w" {
					c.Count(fmt.Sprintf("mo-type:%d", o.ty))
				}
				if o.kind == "refund" && res.answers[i] == "panic" {
					refundPanic = true
					c.Count("mo-refund-panic:" + strings.ReplaceAll(res.whys[i], " ", "-"))
				}
			}
			ex := make([]string, len(extras))
			for i, e := range extras {
				ex[i] = e.String()
			}
			c.Op(strings.TrimSpace("mo-publish "+strings.Join(ex, " ")), res.published)
			moClasses(c, res)

			// ---- direct oracle: other orders, same block ----
			want := res.published + " " + res.logRoot.Hex() + " " + res.verRoot.Hex()
			check := func(kind string, ops2 []moOp, preload, extras2 []*big.Int) {
				r2, p2 := moRunBlock(db, parent, ops2, preload, extras2)
				got := ""
				if p2 != "" {
					got = "PANIC " + p2
				} else {
					got = r2.published + " " + r2.logRoot.Hex() + " " + r2.verRoot.Hex()
				}
				c.Count("mo-oracle:" + kind)
				if got != want {
					lines := make([]string, len(ops2))
					for i, o := range ops2 {
						lines[i] = o.line()
					}
					c.Fail("c01/order-dependent/published-logs/"+kind,
						fmt.Sprintf("the same block published another list under %s: first run `%s`, this run `%s`", kind, want, got),
						map[string]interface{}{"case": cs, "block": b, "ops": lines})
				}
			}
			for i := 0; i < reps; i++ {
				check("same-calls", ops, nil, extras)
			}
			for i := 0; i < 4; i++ {
				o2 := append(append(moInterleave(c, setters), refunds...), moOp{kind: "votes"})
				check("interleaving", o2, nil, extras)
			}
			if len(refunds) > 1 && !refundPanic {
				for i := 0; i < 4; i++ {
					rf := make([]moOp, len(refunds))
					for j, pi := range c.Rnd.Perm(len(refunds)) {
						rf[j] = refunds[pi]
					}
					o2 := append(append(append([]moOp{}, setters...), rf...), moOp{kind: "votes"})
					check("refund-order", o2, nil, extras)
				}
			}
			for i := 0; i < 3; i++ {
				// other accounts in the cache: loaded first in a random order, and other untouched extras
				pre := make([]*big.Int, 0)
				for _, pi := range c.Rnd.Perm(len(g.univ)) {
					if c.Rnd.Intn(2) == 0 {
						pre = append(pre, g.univ[pi])
					}
				}
				check("cache-contents", ops, pre, []*big.Int{g.pickAddr(), moBig("0x7777")})
			}

			// Save of EVERY generated block (the journals are ones the EVM can produce): oracle
			// c01/block-not-savable/<cause>. SetCode followed by SetSuicide on one account in one block used to make
			// Account.Save write the (by then nil) code under the zero hash, which the store refuses (/repo cbf3870).
			{
				saveErr := ""
				var next common.Hash
				func() {
					defer func() {
						if r := recover(); r != nil {
							if e, ok := r.(moSaveError); ok {
								saveErr = string(e)
								return
							}
							panic(r)
						}
					}()
					next = moCommit(db, parent, height, res, salt)
				}()
				salt++
				c.Count("mo-save")
				if saveErr != "" {
					lines := make([]string, len(ops))
					coded := map[string]bool{}
					cause := "other"
					for i, o := range ops {
						lines[i] = o.line()
						if o.kind == "w" && o.ty == 14 && o.val != 0 {
							coded[o.addr.String()] = true
						}
						if o.kind == "suicide" && coded[o.addr.String()] {
							cause = "code-then-suicide"
						}
					}
					c.Count("mo-save-failed:" + cause)
					c.Fail("c01/block-not-savable/"+cause, "Manager.Save refused a block whose journal the engine can produce: "+saveErr+" | published "+res.published,
						map[string]interface{}{"case": cs, "block": b, "ops": lines})
					break
				}
				if b+1 >= blocks {
					break
				}
				parent = next
				height++
				c.Op("mo-commit", "ok")
				c.Count("mo-commit")
			}
		}
	}
}

// moClasses records which branches of the pipeline a block hit
func moClasses(c *Ctx, res *moResult) {
	raw := strings.Split(res.journal, ";")
	pubPart := strings.SplitN(res.published, " | ", 2)[0]
	pub := []string{}
	if pubPart != "-" {
		pub = strings.Split(pubPart, ";")
	}
	if res.journal == "-" {
		raw = nil
	}
	if len(pub) < len(raw) {
		c.Count("mo-class:merged-or-dropped")
	}
	if len(pub) == 0 && len(raw) > 0 {
		c.Count("mo-class:everything-dropped")
	}
	accts := map[string]bool{}
	for _, p := range pub {
		f := strings.Split(p, ":")
		accts[f[0]] = true
		c.Count("mo-pub-type:" + f[1])
		if f[1] == "15" && !strings.HasSuffix(f[4], "#0") {
			c.Count("mo-class:event-index>0")
		}
		if f[4] == "R" {
			c.Count("mo-class:root-log:" + f[1])
		}
		if f[3] != "1" {
			c.Count("mo-class:version>1")
		}
	}
	c.Count(fmt.Sprintf("mo-class:accounts:%d", len(accts)))
	vl := res.voteLogs
	if vl > 6 {
		vl = 6
	}
	c.Count(fmt.Sprintf("mo-class:vote-pass-logs:%d", vl))
	// several raw logs of one merged slot
	slots := map[string]int{}
	for _, r := range raw {
		f := strings.Split(r, ":")
		slots[f[0]+":"+f[1]+":"+f[2]]++
	}
	for k, v := range slots {
		f := strings.Split(k, ":")
		if v > 1 && (f[1] == "1" || f[1] == "18" || f[1] == "17" || f[1] == "10") {
			c.Count("mo-class:chain-on-merged-slot:" + f[1])
		}
	}
}

package main

// C01, clause "the block result does not depend on hash-map iteration order" — inventory of the places where the
// block-execution packages range over a Go MAP.
//
// The sources of  chain/transaction  chain/vm  chain/account  chain/consensus  chain/types  (production build: no test
// files, no `verif` hook files) are type-checked (go/types, repo packages from source, everything else faked) and every
// `range` statement whose operand is a map (or whose type could not be resolved: marked `?`) becomes one row
//
//     file|function|operand|callees of the body|non-local assignment targets of the body|early exits
//
// (callees = the names of all functions / methods / conversions called inside the loop body, sorted, unique). The rows
// are op lines `mo-site <row>` that the Lean driver answers from the committed table LemoModel.MapRangeSites.table, where
// every row carries the reason why the visiting order cannot reach the block result (or the order parameter of
// LemoModel.MergeOrder that stands for it). A NEW map range, or a loop body that calls something else than it did when the
// table was written (e.g. a setter instead of collecting keys for a sort), is a `table-mismatch`.

import (
	"fmt"
	"go/ast"
	"go/build"
	"go/parser"
	"go/token"
	"go/types"
	"os"
	"path/filepath"
	"sort"
	"strings"
)

const c01Mod = "github.com/LemoFoundationLtd/lemochain-core"

var c01SiteDirs = []string{"chain/transaction", "chain/vm", "chain/account", "chain/consensus", "chain/types"}

type c01SitePkg struct {
	files []*ast.File
	names []string
	pkg   *types.Package
	info  *types.Info
}

type c01SiteScan struct {
	repo string
	fset *token.FileSet
	pkgs map[string]*c01SitePkg
	fake map[string]*types.Package
}

func (s *c01SiteScan) Import(path string) (*types.Package, error) {
	if path == "unsafe" {
		return types.Unsafe, nil
	}
	if path == c01Mod || strings.HasPrefix(path, c01Mod+"/") {
		p, err := s.load(path)
		if err != nil {
			return nil, err
		}
		return p.pkg, nil
	}
	if p, ok := s.fake[path]; ok {
		return p, nil
	}
	name := path[strings.LastIndex(path, "/")+1:]
	if i := strings.Index(name, "."); i > 0 {
		name = name[:i]
	}
	name = strings.ReplaceAll(name, "-", "_")
	p := types.NewPackage(path, name)
	p.MarkComplete()
	s.fake[path] = p
	return p, nil
}

func (s *c01SiteScan) load(path string) (*c01SitePkg, error) {
	if p, ok := s.pkgs[path]; ok {
		if p.pkg == nil {
			return nil, fmt.Errorf("import cycle through %s", path)
		}
		return p, nil
	}
	rel := strings.TrimPrefix(strings.TrimPrefix(path, c01Mod), "/")
	dir := filepath.Join(s.repo, rel)
	p := &c01SitePkg{}
	s.pkgs[path] = p
	ents, err := os.ReadDir(dir)
	if err != nil {
		return nil, err
	}
	ctx := build.Default
	ctx.BuildTags = nil
	ctx.CgoEnabled = true
	type pf struct {
		f *ast.File
		n string
	}
	var all []pf
	cnt := map[string]int{}
	for _, e := range ents {
		n := e.Name()
		if e.IsDir() || !strings.HasSuffix(n, ".go") || strings.HasSuffix(n, "_test.go") {
			continue
		}
		if ok, err := ctx.MatchFile(dir, n); err != nil || !ok {
			continue
		}
		f, err := parser.ParseFile(s.fset, filepath.Join(dir, n), nil, parser.SkipObjectResolution)
		if err != nil {
			return nil, err
		}
		all = append(all, pf{f, n})
		cnt[f.Name.Name]++
	}
	best := ""
	for n, c := range cnt {
		if best == "" || c > cnt[best] || (c == cnt[best] && n < best) {
			best = n
		}
	}
	for _, x := range all {
		if x.f.Name.Name == best {
			p.files = append(p.files, x.f)
			p.names = append(p.names, rel+"/"+x.n)
		}
	}
	p.info = &types.Info{Types: map[ast.Expr]types.TypeAndValue{}}
	conf := types.Config{Importer: s, FakeImportC: true, Error: func(error) {}, DisableUnusedImportCheck: true}
	pkg, _ := conf.Check(path, s.fset, p.files, p.info)
	if pkg == nil {
		return nil, fmt.Errorf("type-check of %s produced no package", path)
	}
	p.pkg = pkg
	return p, nil
}

func c01CalleeName(e ast.Expr) string {
	switch f := e.(type) {
	case *ast.Ident:
		return f.Name
	case *ast.SelectorExpr:
		return f.Sel.Name
	case *ast.ParenExpr:
		return c01CalleeName(f.X)
	}
	return "(expr)"
}

func c01Uniq(l []string) string {
	sort.Strings(l)
	out := l[:0]
	for i, x := range l {
		if i == 0 || x != l[i-1] {
			out = append(out, x)
		}
	}
	if len(out) == 0 {
		return "-"
	}
	return strings.Join(out, ",")
}

// c01MapRangeSites returns the sorted rows and, per row, "file:line" (for messages only: line numbers are not part of the fact)
func c01MapRangeSites(repo string) (rows []string, where map[string]string, err error) {
	s := &c01SiteScan{repo: repo, fset: token.NewFileSet(), pkgs: map[string]*c01SitePkg{}, fake: map[string]*types.Package{}}
	where = map[string]string{}
	for _, d := range c01SiteDirs {
		p, e := s.load(c01Mod + "/" + d)
		if e != nil {
			return nil, nil, e
		}
		for i, f := range p.files {
			file := p.names[i]
			for _, decl := range f.Decls {
				fd, ok := decl.(*ast.FuncDecl)
				if !ok || fd.Body == nil {
					continue
				}
				fname := fd.Name.Name
				if fd.Recv != nil && len(fd.Recv.List) == 1 {
					fname = strings.TrimPrefix(types.ExprString(fd.Recv.List[0].Type), "*") + "." + fname
				}
				ast.Inspect(fd.Body, func(n ast.Node) bool {
					rs, ok := n.(*ast.RangeStmt)
					if !ok {
						return true
					}
					mark := ""
					tv, known := p.info.Types[rs.X]
					if !known || tv.Type == nil || tv.Type == types.Typ[types.Invalid] {
						mark = "?"
					} else if _, isMap := tv.Type.Underlying().(*types.Map); !isMap {
						return true
					}
					var callees, assigns, exits []string
					ast.Inspect(rs.Body, func(m ast.Node) bool {
						switch x := m.(type) {
						case *ast.CallExpr:
							callees = append(callees, c01CalleeName(x.Fun))
						case *ast.AssignStmt:
							for _, l := range x.Lhs {
								switch t := l.(type) {
								case *ast.IndexExpr:
									assigns = append(assigns, strings.ReplaceAll(types.ExprString(t.X), " ", "")+"[]")
								case *ast.SelectorExpr:
									assigns = append(assigns, strings.ReplaceAll(types.ExprString(t), " ", ""))
								case *ast.StarExpr:
									assigns = append(assigns, strings.ReplaceAll(types.ExprString(t), " ", ""))
								case *ast.Ident:
									if x.Tok != token.DEFINE && x.Tok != token.ASSIGN {
										assigns = append(assigns, t.Name+x.Tok.String())
									}
								}
							}
						case *ast.ReturnStmt:
							exits = append(exits, "return")
						case *ast.BranchStmt:
							if x.Tok == token.BREAK || x.Tok == token.GOTO {
								exits = append(exits, x.Tok.String())
							}
						case *ast.SendStmt:
							callees = append(callees, "<-")
						}
						return true
					})
					row := fmt.Sprintf("%s|%s|%s%s|%s|%s|%s", file, fname, mark, strings.ReplaceAll(types.ExprString(rs.X), " ", ""),
						c01Uniq(callees), c01Uniq(assigns), c01Uniq(exits))
					rows = append(rows, row)
					pos := s.fset.Position(rs.Pos())
					where[row] = fmt.Sprintf("%s:%d", file, pos.Line)
					return true
				})
			}
		}
	}
	sort.Strings(rows)
	return rows, where, nil
}

func init() {
	subs["c01sites"] = func(c *Ctx) { c01Sites(c) }
}

// c01Sites emits the inventory as op lines (answered from the Lean table)
func c01Sites(c *Ctx) {
	rows, _, err := c01MapRangeSites(repoRoot())
	if err != nil {
		c.Fail("c01/map-range-sites/unreadable", err.Error(), nil)
		return
	}
	for _, r := range rows {
		c.Op("mo-site "+r, "ok")
		c.Count("mo-site")
	}
	c.Op(fmt.Sprintf("mo-sites %d", len(rows)), "ok")
}

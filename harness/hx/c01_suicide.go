package main

// c01sd — C01 oracle scenario "a block that creates a contract and destroys it again".
//
// tx1 creates a contract whose runtime code is `CALLER; SELFDESTRUCT`, tx2 IN THE SAME BLOCK calls it: the journal of the
// block holds a CodeLog and a SuicideLog of one account. Before /repo cbf3870 Account.Save wrote the (by then nil) code
// under the zero code hash and the store refused the empty value: Manager.Save failed on the miner and on every
// validator — a block of two ordinary txs that nobody can store. Oracle c01/block-not-savable/code-then-suicide:
//   * the miner path (Build) returns a block that packs both txs,
//   * InsertBlock accepts it on the mining node and on a second node,
//   * a later tx to the dead address executes on both, and the address holds no code and no balance afterwards.
// Variants: the contract is created with / without a balance, with / without a storage write in its init code.
// (The Manager-level form of the same oracle is in c01_merge.go: Save after every generated block.)

import (
	"fmt"

	"github.com/LemoFoundationLtd/lemochain-core/chain/account"
	"github.com/LemoFoundationLtd/lemochain-core/chain/types"
	"github.com/LemoFoundationLtd/lemochain-core/common"
	"github.com/LemoFoundationLtd/lemochain-core/common/crypto"
)

func init() { subs["c01sd"] = c01sd }

func c01sd(c *Ctx) {
	rounds := 1
	if c.Tier == "thorough" {
		rounds = 3
	}
	for r := 0; r < rounds; r++ {
		for _, withBalance := range []bool{false, true} {
			for _, withStorage := range []bool{false, true} {
				c01sdRound(c, r, withBalance, withStorage)
			}
		}
	}
}

func c01sdRound(c *Ctx, r int, withBalance, withStorage bool) {
	variant := fmt.Sprintf("balance=%v,storage=%v", withBalance, withStorage)
	w := NewWorld(3, 1700000000, 10000)
	a, b := w.NewNode(3), w.NewNode(3)
	defer a.Close()
	defer b.Close()
	u := detKey(fmt.Sprintf("sd-u-%d", r))
	t := w.GenesisT + 10
	exp := func() uint64 { return uint64(t) + 600 }
	parent := a.BC.CurrentBlock()
	fail := func(what string, err interface{}) {
		c.Count("sd:" + variant + ":FAILED")
		c.Fail("c01/block-not-savable/code-then-suicide",
			fmt.Sprintf("variant %s: block = [tx1: create a contract with runtime code CALLER;SELFDESTRUCT, tx2: call it] — %s: %v", variant, what, err),
			map[string]interface{}{"round": r, "withBalance": withBalance, "withStorage": withStorage})
	}
	// returns false when the scenario cannot go on
	step := func(name string, txs types.Transactions) (*types.Block, bool) {
		t += 7 + uint32(c.Rnd.Intn(5))
		var blk *types.Block
		out, msg := SafeMsg(func() string {
			var err error
			var invalid types.Transactions
			blk, invalid, err = a.Build(parent, t, txs, nil)
			if err != nil {
				return "build: " + err.Error()
			}
			if len(blk.Txs) != len(txs) {
				return fmt.Sprintf("the miner packed %d of %d txs (%d invalid)", len(blk.Txs), len(txs), len(invalid))
			}
			return ""
		})
		if out != "" {
			fail(name+": miner path", out+" "+msg)
			return nil, false
		}
		for i, n := range []*Node{a, b} {
			out, msg = SafeMsg(func() string {
				if err := n.Insert(CloneBlock(blk)); err != nil {
					return err.Error()
				}
				return ""
			})
			if out != "" {
				fail(fmt.Sprintf("%s: InsertBlock on node %c", name, 'A'+i), out+" "+msg)
				return nil, false
			}
		}
		parent = blk
		return blk, true
	}
	if _, ok := step("fund", types.Transactions{txTransfer(w.FounderKey, keyAddr(u), lemo(1000), TxOpt{Exp: exp(), Msg: "fu"})}); !ok {
		return
	}
	// init code: [PUSH1 7; PUSH1 1; SSTORE;] PUSH2 0x33ff; PUSH1 0; MSTORE; PUSH1 2; PUSH1 30; RETURN  → runtime 33 ff
	init := []byte{}
	if withStorage {
		init = append(init, 0x60, 0x07, 0x60, 0x01, 0x55)
	}
	init = append(init, 0x61, 0x33, 0xff, 0x60, 0x00, 0x52, 0x60, 0x02, 0x60, 0x1e, 0xf3)
	amount := lemo(0)
	if withBalance {
		amount = lemo(3)
	}
	create := txCreate(u, amount, init, TxOpt{Exp: exp(), Msg: "mk"})
	ctr := crypto.CreateContractAddress(keyAddr(u), create.Hash())
	call := txCall(u, ctr, nil, nil, TxOpt{Exp: exp(), Msg: "kill", GasLimit: 200000})
	blk, ok := step("create+destroy", types.Transactions{create, call})
	if !ok {
		return
	}
	// the journal really held both logs of the contract
	var hasCode, hasSuicide bool
	for _, l := range blk.ChangeLogs {
		if l.Address == ctr && l.LogType == account.CodeLog {
			hasCode = true
		}
		if l.Address == ctr && l.LogType == account.SuicideLog {
			hasSuicide = true
		}
	}
	c.Count(fmt.Sprintf("sd:%s:codelog=%v,suicidelog=%v", variant, hasCode, hasSuicide))
	if !hasCode || !hasSuicide {
		fail("scenario", "the block does not hold a CodeLog and a SuicideLog of the contract")
		return
	}
	blk3, ok := step("touch-dead", types.Transactions{txCall(u, ctr, nil, []byte{1}, TxOpt{Exp: exp(), Msg: "dead", GasLimit: 200000})})
	if !ok {
		return
	}
	for i, n := range []*Node{a, b} {
		am := account.NewManager(blk3.Hash(), n.DB)
		acc := am.GetAccount(ctr)
		code, err := acc.GetCode()
		if err != nil || len(code) != 0 || acc.GetCodeHash() != (common.Hash{}) || acc.GetBalance().Sign() != 0 {
			fail(fmt.Sprintf("dead contract on node %c", 'A'+i), fmt.Sprintf("code %x (err %v) codeHash %s balance %s", code, err, acc.GetCodeHash().Hex(), acc.GetBalance()))
			return
		}
	}
	c.Count("sd:" + variant + ":ok")
}

package main

// C02 — block acceptance is sound; a rejection leaves the chain exactly as it was.
//
// Four parts, all on the REAL code:
//   (A) hashfield facts: chain/types/block.go is parsed with go/parser; the field list of `Header`
//       and the fields used in the literal inside `Header.Hash()` are printed as op lines; the model
//       side expects every field except SignData covered.
//   (B) `vm` ops: consensus.Validator.VerifyMiner on synthetic headers / deputy tables (slot check,
//       the "mineTime should be milliseconds" panic, division by a zero loop time).
//   (C) regression probe for fix 26f228d: an empty block with Header.Time = 1 (and 9999999), signed by a
//       deputy, through InsertBlock. Before that commit GetCorrectMiner panicked ("mineTime should be
//       milliseconds", oracle class c02/panic/mine-time-not-ms); now the block is an ordinary rejection.
//   (D) mutation campaign on a full engine: every single-field mutation of header and body (and
//       random pairs) x {not re-signed, in-turn deputy, wrong-turn deputy, wrong-turn deputy that also
//       names itself as miner, outsider key}; verdict of the real InsertBlock + class of the real
//       VerifyBeforeTxProcess error, before/after fingerprint of the node.
//       The op line carries only abstract FACTS about the block and the node (never which check is
//       expected to fail); the Lean model `LemoModel.Validator.insertBlock` prints the same line.

import (
	"bytes"
	"crypto/ecdsa"
	"crypto/sha256"
	"encoding/hex"
	"fmt"
	"go/ast"
	"go/parser"
	"go/token"
	"math/big"
	"reflect"
	"runtime"
	"sort"
	"strings"
	"time"

	"github.com/LemoFoundationLtd/lemochain-core/chain/account"
	"github.com/LemoFoundationLtd/lemochain-core/chain/consensus"
	"github.com/LemoFoundationLtd/lemochain-core/chain/deputynode"
	"github.com/LemoFoundationLtd/lemochain-core/chain/params"
	"github.com/LemoFoundationLtd/lemochain-core/chain/transaction"
	"github.com/LemoFoundationLtd/lemochain-core/chain/types"
	"github.com/LemoFoundationLtd/lemochain-core/common"
	"github.com/LemoFoundationLtd/lemochain-core/common/crypto"
	"github.com/LemoFoundationLtd/lemochain-core/store"
)

func init() { subs["c02"] = c02 }

func c02(c *Ctx) {
	// a crash of the harness itself (a setup path outside Safe, on a tree whose store lies) must not lose the
	// failures recorded so far: they are buffered until the sub-command returns
	defer func() {
		if r := recover(); r != nil {
			c.Fail("c02/harness-crash", fmt.Sprintf("the harness panicked outside a guarded call: %v", r), nil)
		}
	}()
	c02HashFields(c)
	c02VerifyMinerSweep(c)
	c02PanicProbe(c)
	c02SaveFaultProbe(c)
	c02ConcurrentProbe(c)
	c02DuplicateNodeIDProbe(c)
	c02RestartFamily(c)
	c02LateStableFamily(c)
	c02Campaign(c)
}

// ---------------------------------------------------------------------------------------------
// (A) hash coverage facts
// ---------------------------------------------------------------------------------------------

// c02BlockGoPath finds chain/types/block.go of the tree the harness was compiled against.
func c02BlockGoPath() string {
	pc := reflect.ValueOf(types.NewBlock).Pointer()
	file, _ := runtime.FuncForPC(pc).FileLine(pc)
	return file
}

func c02HashFields(c *Ctx) {
	path := c02BlockGoPath()
	fset := token.NewFileSet()
	f, err := parser.ParseFile(fset, path, nil, 0)
	if err != nil {
		c.Fail("c02/hashfields/parse", fmt.Sprintf("cannot parse %s: %v", path, err), nil)
		return
	}
	var fields []string
	covered := map[string]bool{}
	ast.Inspect(f, func(n ast.Node) bool {
		switch x := n.(type) {
		case *ast.TypeSpec:
			if x.Name.Name == "Header" {
				if st, ok := x.Type.(*ast.StructType); ok {
					for _, fl := range st.Fields.List {
						for _, nm := range fl.Names {
							if ast.IsExported(nm.Name) {
								fields = append(fields, nm.Name)
							}
						}
					}
				}
			}
		case *ast.FuncDecl:
			if x.Name.Name == "Hash" && x.Recv != nil && len(x.Recv.List) == 1 {
				if se, ok := x.Recv.List[0].Type.(*ast.StarExpr); ok {
					if id, ok := se.X.(*ast.Ident); ok && id.Name == "Header" {
						recv := ""
						if len(x.Recv.List[0].Names) > 0 {
							recv = x.Recv.List[0].Names[0].Name
						}
						// every selector recv.Field inside a composite literal of the body
						ast.Inspect(x.Body, func(m ast.Node) bool {
							if cl, ok := m.(*ast.CompositeLit); ok {
								for _, e := range cl.Elts {
									if sel, ok := e.(*ast.SelectorExpr); ok {
										if id, ok := sel.X.(*ast.Ident); ok && id.Name == recv {
											covered[sel.Sel.Name] = true
										}
									}
								}
							}
							return true
						})
					}
				}
			}
		}
		return true
	})
	for _, name := range fields {
		c.Op("hashfield "+name, fmt.Sprintf("%v", covered[name]))
		c.Count("hashfield")
		if !covered[name] && name != "SignData" {
			c.Fail("c02/hash-does-not-cover/"+name, "Header."+name+" is not an element of the tuple hashed by Header.Hash(): it can be altered without invalidating the signature", nil)
		}
		if covered[name] && name == "SignData" {
			c.Fail("c02/hash-covers-signdata", "Header.Hash() includes SignData", nil)
		}
	}
	sorted := append([]string(nil), fields...)
	sort.Strings(sorted)
	c.Op("hashfields-all", strings.Join(sorted, ","))
	// constants the model hard-codes / takes from the generated files
	c.Op("const MaxExtraDataLen", fmt.Sprint(params.MaxExtraDataLen))
	c.Op("const MaxTxLifeTime", fmt.Sprint(params.MaxTxLifeTime))
}

// ---------------------------------------------------------------------------------------------
// (B) VerifyMiner sweep
// ---------------------------------------------------------------------------------------------

type c02NoBlocks struct{}

func (c02NoBlocks) GetBlockByHeight(height uint32) (*types.Block, error) {
	return nil, store.ErrBlockNotExist
}

func c02Deputies(n int, base int) types.DeputyNodes {
	var ds types.DeputyNodes
	for i := 0; i < n; i++ {
		ds = append(ds, &types.DeputyNode{
			MinerAddress: common.BigToAddress(big.NewInt(int64(base + i))),
			NodeID:       []byte{byte(base >> 8), byte(base), byte(i)},
			Rank:         uint32(i),
			Votes:        big.NewInt(int64(1000 - i)),
		})
	}
	return ds
}

func c02VerifyMinerSweep(c *Ctx) {
	oldT, oldI := params.TermDuration, params.InterimDuration
	params.TermDuration, params.InterimDuration = 10, 3
	defer func() { params.TermDuration, params.InterimDuration = oldT, oldI }()
	c.Op(fmt.Sprintf("params %d %d %d", params.TermDuration, params.InterimDuration, 0), "ok")
	cases := c.N / 2
	if cases < 200 {
		cases = 200
	}
	heights := []uint32{1, 2, 5, 13, 14, 15, 20}
	for i := 0; i < cases; i++ {
		n0 := 1 + c.Rnd.Intn(5)
		seats := 2 + c.Rnd.Intn(6) // sometimes fewer seats than ranked nodes: a term lists the top `seats` only
		dm := deputynode.NewManager(seats, c02NoBlocks{})
		t0 := c02Deputies(n0, 100)
		t1 := c02Deputies(1+c.Rnd.Intn(5), 200)
		dm.SaveSnapshot(0, t0)
		dm.SaveSnapshot(10, t1)
		h := heights[c.Rnd.Intn(len(heights))]
		// the governing list BY CONSTRUCTION: the generator made both terms; with T = 10, I = 3 (set above) term 1
		// signs from height T+I+1 = 14 on. The manager's answer is only cross-checked.
		deps := t0
		if h >= 14 {
			deps = t1
		}
		if len(deps) > seats {
			deps = deps[:seats]
			c.Count("vm:more-nodes-than-seats")
		}
		if got := dm.GetDeputiesByHeight(h, true); len(got) != len(deps) || (len(got) > 0 && got[0].MinerAddress != deps[0].MinerAddress) {
			c.Fail("c02/fed-fact/term", fmt.Sprintf("Manager.GetDeputiesByHeight(%d) returns %d deputies (first %v); the generator saved terms of %d and %d deputies and term 1 governs heights >= 14", h, len(got), got, len(t0), len(t1)), nil)
		}
		n := len(deps)
		rankOf := func(a common.Address) int {
			for _, d := range deps {
				if d.MinerAddress == a {
					return int(d.Rank)
				}
			}
			return -1
		}
		var parentMiner common.Address
		switch c.Rnd.Intn(5) {
		case 0:
			parentMiner = common.BigToAddress(big.NewInt(999))
		case 1:
			parentMiner = t0[c.Rnd.Intn(len(t0))].MinerAddress
		default:
			parentMiner = deps[c.Rnd.Intn(n)].MinerAddress
		}
		var miner common.Address
		switch c.Rnd.Intn(6) {
		case 0:
			miner = common.BigToAddress(big.NewInt(998))
		default:
			miner = deps[c.Rnd.Intn(n)].MinerAddress
		}
		T := uint64(1000 * (1 + c.Rnd.Intn(12)))
		switch c.Rnd.Intn(12) {
		case 0:
			T = 0
		case 1:
			T = uint64(1 + c.Rnd.Intn(5000))
		}
		pts := uint32(20000000 + c.Rnd.Intn(1000000))
		var ts uint32
		switch c.Rnd.Intn(10) {
		case 0:
			ts = uint32(c.Rnd.Intn(10000000)) // < 1e7 s: ErrSmallerMineTime (a panic before fix 26f228d)
		case 1:
			ts = 10000000 + uint32(c.Rnd.Intn(3))
		case 2:
			ts = 9999999
		case 3:
			ts = pts - 1 - uint32(c.Rnd.Intn(100))
		case 4:
			pts = uint32(c.Rnd.Intn(10000000)) // old parent AND old block
			ts = pts + uint32(c.Rnd.Intn(50))
		default:
			ts = pts + uint32(c.Rnd.Intn(int(4*uint64(n)*(T/1000+1))+3))
		}
		parent := &types.Header{Height: h - 1, Time: pts, MinerAddress: parentMiner}
		header := &types.Header{Height: h, Time: ts, MinerAddress: miner}
		v := consensus.NewValidator(T, nil, dm, nil, nil)
		out := Safe(func() string {
			if err := v.VerifyMiner(header, parent); err != nil {
				return "reject"
			}
			return "ok"
		})
		c.Op(fmt.Sprintf("vm %d %d %d %d %d %d %d", n, h-1, rankOf(parentMiner), pts, ts, T, rankOf(miner)), out)
		c.Count("vm:" + out)
		if out == "panic" {
			if int64(ts)*1000 < 1e10 {
				c.Count("vm:panic:not-ms")
			} else {
				c.Count("vm:panic:zero-loop")
			}
		}
	}
}

// ---------------------------------------------------------------------------------------------
// (C)+(D) engine level
// ---------------------------------------------------------------------------------------------

type c02State struct {
	c        *Ctx
	w        *World
	n        *Node
	ids      map[string]int
	users    []*ecdsa.PrivateKey
	outsider *ecdsa.PrivateKey
	honestGL map[common.Hash]uint64 // parent hash -> gas limit an honest miner puts into a child
	honestDR map[common.Hash]string // parent hash -> deputy root (hex) of an honest child
	txSeq    int
	chainTxs types.Transactions // txs already packed in accepted honest blocks (for replays)
	binfo    map[common.Hash]*c02BlockInfo
	cons     *c02Construct
	curLabel string
	cands    []*ecdsa.PrivateKey
}

func (s *c02State) id(kind string, b []byte) int {
	k := kind + hex.EncodeToString(b)
	if v, ok := s.ids[k]; ok {
		return v
	}
	v := len(s.ids) + 1
	s.ids[k] = v
	return v
}

func (s *c02State) deputyList(h uint32) string {
	ds := s.n.DM.GetDeputiesByHeight(h, true)
	s.depFact(h, ds, s.cands)
	if len(ds) == 0 {
		return "-"
	}
	var parts []string
	for _, d := range ds {
		parts = append(parts, fmt.Sprintf("%d:%d", s.id("n", d.NodeID), s.id("a", d.MinerAddress[:])))
	}
	return strings.Join(parts, ";")
}

// reexec runs the block on a PRIVATE account manager / processor / assembler (same code as the
// engine's RunBlock, different instance) and returns the abstract facts about the result.
type c02Exec struct {
	kind     string // na | panic | err | ok
	computed *types.Block
}

func (s *c02State) reexec(b *types.Block) (res c02Exec) {
	n := s.n
	res.kind = "na"
	if _, err := n.DB.GetBlockByHash(b.ParentHash()); err != nil {
		return
	}
	defer func() {
		if r := recover(); r != nil {
			res = c02Exec{kind: "panic"}
		}
	}()
	am := account.NewManager(b.ParentHash(), n.DB)
	proc := transaction.NewTxProcessor(keyAddr(s.w.FounderKey), nodeChainID, parentLoader{n}, am, n.DB, n.DM)
	asm := consensus.NewBlockAssembler(am, n.DM, proc, topLoader{n, am})
	nb, err := asm.RunBlock(CloneBlock(b))
	if err != nil {
		res.kind = "err"
		return
	}
	res.kind = "ok"
	res.computed = nb
	return
}

// facts renders the abstract inputs of the model for block b on the current node state.
func (s *c02State) facts(b *types.Block, now int64, ex c02Exec) string {
	n := s.n
	h := b.Header
	var kv []string
	add := func(k, v string) { kv = append(kv, k+"="+v) }
	exists, _ := n.DB.IsExistByHash(b.Hash())
	s.exFact(b.Hash(), exists)
	add("ex", map[bool]string{false: "0", true: "1"}[exists])
	add("sh", fmt.Sprint(n.BC.StableBlock().Height()))
	add("hd", fmt.Sprintf("%d,%d,%d,%d,%d,%d,%d,%d,%d,%d,%d,%d",
		s.id("h", h.ParentHash[:]), s.id("a", h.MinerAddress[:]), s.id("h", h.VersionRoot[:]), s.id("h", h.TxRoot[:]), s.id("h", h.LogRoot[:]),
		h.Height, h.GasLimit, h.GasUsed, h.Time, s.id("h", h.DeputyRoot), len(h.Extra), s.id("x", []byte(h.Extra))))
	// recovered signer
	// the signer by construction (the generator holds every key); Ecrecover is only cross-checked (c02/fed-fact/sig)
	var recovered []byte
	hash := h.Hash()
	if pub, err := crypto.Ecrecover(hash[:], h.SignData); err == nil {
		recovered = pub[1:]
	}
	add("sig", fmt.Sprint(s.sigFact(b, recovered)))
	parent, err := n.DB.GetBlockByHash(h.ParentHash)
	if err != nil {
		add("par", "-")
		add("depp", "-")
	} else {
		add("par", fmt.Sprintf("%d,%d,%d", parent.Height(), parent.Time(), s.id("a", parent.Header.MinerAddress[:])))
		add("depp", s.deputyList(parent.Height()+1))
	}
	add("dep", s.deputyList(h.Height))
	add("now", fmt.Sprint(now))
	txr := b.Txs.MerkleRootSha()
	add("txr", fmt.Sprint(s.id("h", txr[:])))
	if len(b.Txs) == 0 {
		add("txs", "-")
	} else {
		var parts []string
		for _, tx := range b.Txs {
			ok := Safe(func() string {
				if err := tx.VerifyTxBody(nodeChainID, tx.Expiration(), true); err != nil {
					return "0"
				}
				return "1"
			})
			if ok == "panic" {
				ok = "p" // the model's Tx.bodyPanics
			} else if wf := c02TxWellFormed(tx) == "" && c02SubsNearBox(tx); wf != (ok == "1") {
				// the fed flag is cross-checked against the harness' own reading of the well-formedness rules
				s.c.Fail("c02/fed-fact/bodyOk", fmt.Sprintf("VerifyTxBody says %s but the independent well-formedness check says %v (%s) for tx %s", ok, wf, c02TxWellFormed(tx), tx.Hash().Hex()), nil)
			}
			th := tx.Hash()
			ids := fmt.Sprint(s.id("h", th[:]))
			if tx.Type() == params.BoxTx {
				// sub list by construction (the slice the generator passed to txBox), GetBox only cross-checked
				for _, sub := range s.subsFor(tx) {
					ids += "+" + fmt.Sprint(s.id("h", sub.hash[:])) + "@" + fmt.Sprint(sub.exp)
				}
			}
			parts = append(parts, fmt.Sprintf("%d:%s:%s", tx.Expiration(), ok, ids))
		}
		add("txs", strings.Join(parts, ","))
	}
	// `anc`: the model is fed the harness' OWN walk over the ancestors in the store (ancOwn), not the guard's
	// answer; the real TxGuard.ExistTxs is only asked for a panic and cross-checked (oracle c02/fed-fact/anc).
	anc := "0"
	if err == nil {
		own, replayed := s.ancOwn(b)
		if own {
			anc = "1"
		}
		guard := Safe(func() string {
			if n.BC.TxGuard().ExistTxs(h.ParentHash, b.Txs) {
				return "1"
			}
			return "0"
		})
		if guard == "panic" {
			anc = "p" // the model's onAncestor = none
		} else if own && guard == "0" {
			// an ancestor at most 1800 s older than the block is never evicted from the guard (its time base is
			// stable time - 1800 and the block is not older than the stable block): the guard must know it
			s.c.Fail("c02/fed-fact/anc", fmt.Sprintf("TxGuard.ExistTxs says false, but tx %s of the block sits in an ancestor (found by walking the parent links in the store) at most 1800 s older than the block", replayed.Hex()), nil)
		}
	}
	add("anc", anc)
	if rec := s.execFor(b); rec != nil {
		s.c.Count("exec:by-construction")
		// execution results BY CONSTRUCTION: the generator built a block with the same parent, height, time, miner,
		// gas limit and transactions; whatever the validator-side RunBlock/Seal says is only cross-checked
		add("exec", fmt.Sprintf("ok:%d:%d:%d:%d:%d", s.id("h", rec.vr[:]), s.id("h", rec.lr[:]), s.id("h", rec.tr[:]), rec.gu, s.id("h", rec.dr)))
		if h.Height <= n.BC.StableBlock().Height() {
			// the parent lies below the stable block: its account state can no longer be rebuilt (the store keeps the
			// state of the stable block only), so a re-execution now says nothing. The engine ignores such a block.
			s.c.Count("exec:by-construction:below-stable")
		} else if ex.kind != "ok" {
			s.c.Fail("c02/fed-fact/exec", fmt.Sprintf("re-execution of a block whose execution inputs equal those of a miner-built block says %q (height %d) [%s; record: %s]", ex.kind, h.Height, s.curLabel, rec.label), nil)
		} else if ch := ex.computed.Header; ch.VersionRoot != rec.vr || ch.LogRoot != rec.lr || ch.TxRoot != rec.tr || ch.GasUsed != rec.gu {
			s.c.Fail("c02/fed-fact/exec", fmt.Sprintf("re-execution (RunBlock+Seal) of a block whose execution inputs equal those of a miner-built block returns VersionRoot=%s LogRoot=%s TxRoot=%s GasUsed=%d, the miner-built block has %s %s %s %d (height %d)",
				ch.VersionRoot.Prefix(), ch.LogRoot.Prefix(), ch.TxRoot.Prefix(), ch.GasUsed, rec.vr.Prefix(), rec.lr.Prefix(), rec.tr.Prefix(), rec.gu, h.Height)+fmt.Sprintf(" [%s; record: %s; header==record:%v header==computed:%v txs=%d]", s.curLabel, rec.label, h.VersionRoot == rec.vr, h.VersionRoot == ch.VersionRoot, len(b.Txs)), nil)
		}
	} else {
		s.c.Count("exec:from-re-execution")
		switch ex.kind {
		case "ok":
			ch := ex.computed.Header
			ldr := ch.DeputyRoot
			add("exec", fmt.Sprintf("ok:%d:%d:%d:%d:%d", s.id("h", ch.VersionRoot[:]), s.id("h", ch.LogRoot[:]), s.id("h", ch.TxRoot[:]), ch.GasUsed, s.id("h", ldr)))
		default:
			add("exec", ex.kind)
		}
	}
	if len(b.ChangeLogs) == 0 {
		add("blr", "-")
	} else {
		r := b.ChangeLogs.MerkleRootSha()
		add("blr", fmt.Sprint(s.id("h", r[:])))
	}
	dr := b.DeputyNodes.MerkleRootSha()
	add("bdr", fmt.Sprint(s.id("h", dr[:])))
	return strings.Join(kv, " ")
}

// fingerprint of everything the property lists as "the chain": current, stable, stored blocks,
// account state at head and canonical (stable) account state, tx pool, tx guard answers, term table.
func (s *c02State) fingerprint(mh common.Hash, probe types.Transactions) map[string]string {
	n := s.n
	fp := map[string]string{}
	cur := n.BC.CurrentBlock()
	fp["current"] = cur.Hash().Hex()
	fp["stable"] = n.BC.StableBlock().Hash().Hex()
	fp["has-block"] = fmt.Sprint(n.BC.HasBlock(mh))
	var un []string
	n.DB.IterateUnConfirms(func(b *types.Block) {
		un = append(un, b.Hash().Hex()+fmt.Sprint(len(b.Confirms)))
	})
	sort.Strings(un)
	fp["unconfirmed"] = fmt.Sprintf("%d:%x", len(un), sha256.Sum256([]byte(strings.Join(un, ","))))
	addrs := []common.Address{keyAddr(s.w.FounderKey)}
	for _, u := range s.users {
		addrs = append(addrs, keyAddr(u))
	}
	for _, k := range s.w.DeputyKeys {
		addrs = append(addrs, keyAddr(k))
	}
	var bal, can []string
	am := account.NewManager(cur.Hash(), n.DB)
	for _, a := range addrs {
		acc := am.GetAccount(a)
		bal = append(bal, fmt.Sprintf("%s/%d", acc.GetBalance(), acc.GetVersion(0)))
		can = append(can, n.BC.AccountManager().GetCanonicalAccount(a).GetBalance().String())
	}
	fp["balances-at-head"] = strings.Join(bal, ",")
	fp["canonical-balances"] = strings.Join(can, ",")
	_, index, _ := n.Pool.VerifState()
	var ph []string
	for h := range index {
		ph = append(ph, h.Hex())
	}
	sort.Strings(ph)
	fp["pool"] = fmt.Sprintf("%d:%x", len(ph), sha256.Sum256([]byte(strings.Join(ph, ","))))
	var g []string
	for _, tx := range probe {
		g = append(g, Safe(func() string { return fmt.Sprint(n.BC.TxGuard().ExistTx(cur.Hash(), tx)) }))
	}
	fp["tx-guard"] = strings.Join(g, ",")
	var terms []string
	for _, h := range []uint32{1, params.TermDuration + params.InterimDuration + 1, 2*params.TermDuration + params.InterimDuration + 1, 3*params.TermDuration + params.InterimDuration + 1} {
		terms = append(terms, fmt.Sprint(len(n.DM.GetDeputiesByHeight(h, true))))
	}
	fp["terms"] = strings.Join(terms, ",")
	return fp
}

func c02FpDiff(a, b map[string]string) []string {
	var d []string
	for k, v := range a {
		if b[k] != v {
			d = append(d, k)
		}
	}
	sort.Strings(d)
	return d
}

// spec: the property's own definition of a valid block, evaluated by the harness with its own
// arithmetic (NOT through the validator). Returns the first violated clause ("" = valid).
func (s *c02State) spec(b *types.Block, now int64, ex c02Exec) string {
	n := s.n
	h := b.Header
	parent, err := n.DB.GetBlockByHash(h.ParentHash)
	if err != nil {
		return "parent-unknown"
	}
	if h.Height != parent.Height()+1 {
		return "Height"
	}
	if h.Time < parent.Time() {
		return "Time-before-parent"
	}
	if int64(h.Time) > now+1 {
		return "Time-in-future"
	}
	if len(h.Extra) > 256 {
		return "Extra"
	}
	// the signer: by construction when the generator made this signature over this header; otherwise whatever the
	// bytes recover to, except that a key of this world is then a forgery
	var signerID []byte
	if id, known := s.signerFor(b); known {
		signerID = id
	} else {
		hash := h.Hash()
		pub, err := crypto.Ecrecover(hash[:], h.SignData)
		if err != nil {
			return "SignData"
		}
		if _, mine := s.con().world[string(pub[1:])]; mine {
			return "SignData"
		}
		signerID = pub[1:]
	}
	deps := n.DM.GetDeputiesByHeight(h.Height, true)
	signer := -1
	for i, d := range deps {
		if bytes.Equal(d.NodeID, signerID) {
			signer = i
		}
	}
	if signer < 0 {
		return "signer-not-deputy"
	}
	if deps[signer].MinerAddress != h.MinerAddress {
		return "MinerAddress"
	}
	// slot: own arithmetic
	nd := int64(len(deps))
	slotLen := int64(s.w.Timeout)
	elapsed := (int64(h.Time) - int64(parent.Time())) * 1000
	slot := (elapsed % (nd * slotLen)) / slotLen
	var want int64
	if h.Height == 1 || deputynode.IsRewardBlock(h.Height) {
		want = slot % nd
	} else {
		pr := int64(-1)
		for i, d := range deps {
			if d.MinerAddress == parent.MinerAddress() {
				pr = int64(i)
			}
		}
		if pr < 0 {
			return "parent-miner-not-deputy"
		}
		want = (pr + 1 + slot) % nd
	}
	if int64(signer) != want {
		return "not-in-turn"
	}
	seen := map[common.Hash]bool{}
	for _, tx := range b.Txs {
		if tx.Expiration() < uint64(h.Time) || tx.Expiration() > uint64(h.Time)+1800 {
			return "tx-expiration"
		}
		if tx.Type() == params.BoxTx {
			// the clause "every transaction is unexpired / inside the lifetime window" holds for the transactions inside a box too
			if box, err := types.GetBox(tx.Data()); err == nil {
				for _, sub := range box.SubTxList {
					if sub.Expiration() < uint64(h.Time) || sub.Expiration() > uint64(h.Time)+1800 || sub.Expiration() < tx.Expiration() {
						return "tx-expiration"
					}
				}
			}
		}
		if why := c02TxWellFormed(tx); why != "" { // own reading of the rules, NOT VerifyTxBody
			return "tx-malformed"
		}
		if seen[tx.Hash()] {
			return "tx-duplicate-in-block"
		}
		seen[tx.Hash()] = true
		if tx.Type() == params.BoxTx {
			// the transactions inside a box count too: the same signed tx must not take effect twice in one block
			if box, err := types.GetBox(tx.Data()); err == nil {
				for _, sub := range box.SubTxList {
					if seen[sub.Hash()] {
						return "tx-duplicate-in-block"
					}
					seen[sub.Hash()] = true
				}
			}
		}
	}
	if own, _ := s.ancOwn(b); own {
		return "tx-replay"
	}
	if len(b.ChangeLogs) > 0 && b.ChangeLogs.MerkleRootSha() != h.LogRoot {
		return "body-change-logs"
	}
	if deputynode.IsSnapshotBlock(h.Height) {
		if r := b.DeputyNodes.MerkleRootSha(); !bytes.Equal(r[:], h.DeputyRoot) {
			return "body-deputy-nodes"
		}
	}
	if rec := s.execFor(b); rec != nil {
		// by construction: the miner-built block with the same execution inputs
		switch {
		case rec.vr != h.VersionRoot:
			return "VersionRoot"
		case rec.lr != h.LogRoot:
			return "LogRoot"
		case rec.tr != h.TxRoot:
			return "TxRoot"
		case rec.gu != h.GasUsed:
			return "GasUsed"
		}
	} else {
		if ex.kind != "ok" {
			return "re-execution-fails"
		}
		ch := ex.computed.Header
		if ch.VersionRoot != h.VersionRoot {
			return "VersionRoot"
		}
		if ch.LogRoot != h.LogRoot {
			return "LogRoot"
		}
		if ch.TxRoot != h.TxRoot {
			return "TxRoot"
		}
		if ch.GasUsed != h.GasUsed {
			return "GasUsed"
		}
	}
	if gl, ok := s.honestGL[h.ParentHash]; ok && gl != h.GasLimit {
		return "GasLimit"
	}
	if dr, ok := s.honestDR[h.ParentHash]; ok && dr != hex.EncodeToString(h.DeputyRoot) {
		return "DeputyRoot"
	}
	return ""
}

// onAncestorPath: is tx contained in `from` or one of its ancestors (walk through the store).
func (s *c02State) onAncestorPath(from *types.Block, tx *types.Transaction) bool {
	b := from
	for steps := 0; b != nil && steps < 400; steps++ {
		for _, t := range b.Txs {
			if t.Hash() == tx.Hash() {
				return true
			}
		}
		if b.Height() == 0 {
			return false
		}
		p, err := s.n.DB.GetBlockByHash(b.ParentHash())
		if err != nil {
			return false
		}
		b = p
	}
	return false
}

func c02PanicClass(msg string) string {
	switch {
	case strings.Contains(msg, "mineTime should be milliseconds"):
		return "mine-time-not-ms"
	case strings.Contains(msg, "divide by zero"):
		return "divide-by-zero"
	case strings.Contains(msg, "index out of range"):
		return "index-out-of-range"
	case strings.Contains(msg, "nil pointer"):
		return "nil-pointer"
	}
	return "other"
}

// runCase inserts block m (already mutated / signed) and records op, answer and oracle verdicts.
// `label` names the mutation (only for reports), honest = the block is an unmodified honest block.
func (s *c02State) runCase(m *types.Block, label string, honest bool, probe types.Transactions) string {
	c, n := s.c, s.n
	m = CloneBlock(m) // what a peer would deliver: no caches
	// stay clear of a second boundary when the stamp is near the clock
	if d := int64(m.Time()) - time.Now().Unix(); d >= -2 && d <= 4 {
		for time.Now().Nanosecond() > 600000000 {
			time.Sleep(20 * time.Millisecond)
		}
	}
	if int64(m.Time()) > time.Now().Unix()-100000 {
		// a near-clock block must not be confirmed by this node (it would become stable and drag the
		// chain's time to the wall clock): insert it as an observer
		deputynode.SetSelfNodeKey(detKey("c02-observer"))
	}
	s.curLabel = label
	ex := s.reexec(m)
	now := time.Now().Unix()
	facts := s.facts(m, now, ex)
	specClause := s.spec(m, now, ex)
	mh := m.Hash()
	existed, _ := n.DB.IsExistByHash(mh)

	// class of the real VerifyBeforeTxProcess error (a fresh Validator over the engine's own parts)
	v := consensus.NewValidator(s.w.Timeout, n.DB, n.DM, n.BC.TxGuard(), nil)
	pre := Safe(func() string {
		err := v.VerifyBeforeTxProcess(CloneBlock(m), nodeChainID)
		switch err {
		case nil:
			return "ok"
		case consensus.ErrVerifyHeaderFailed:
			return "H"
		case consensus.ErrVerifyBlockFailed:
			return "B"
		}
		return "other"
	})

	before := s.fingerprint(mh, probe)
	// the signer memo of /repo is a package-level global keyed by the block hash only: Build (acting as the miner)
	// leaves the MINER's signature in it, and a node with another identity would hand it out as its own confirm.
	// One process plays several identities here, a real node has one key: clear the memo before every delivery.
	consensus.VerifSetSigCache(common.Hash{}, nil)
	verdict, msg := SafeMsg(func() string {
		err := n.Insert(CloneBlock(m))
		switch err {
		case nil:
			return "ok"
		case consensus.ErrIgnoreBlock:
			return "ignored"
		case consensus.ErrSaveBlock, consensus.ErrSaveAccount:
			return "save-error" // saveNewBlock failed AFTER verification: never expected without an injected fault
		}
		return "reject"
	})
	after := s.fingerprint(mh, probe)
	if verdict == "ok" {
		s.sawAccepted(mh)
	}
	if time.Now().Unix() != now && int64(m.Time())-now >= 0 && int64(m.Time())-now <= 3 {
		// the clock moved over a second boundary during a near-clock case: not comparable
		c.Count("skipped:clock-race")
		return verdict
	}
	c.Op("ins "+facts, verdict+" pre="+pre)
	c.Count("verdict:" + verdict)
	c.Count("pre:" + pre)
	c.Count("mut:" + strings.SplitN(firstWord(label), "+", 2)[0])
	if specClause == "" {
		c.Count("spec:valid")
	} else {
		c.Count("spec:" + specClause)
	}
	replay := map[string]interface{}{"mutation": label, "facts": facts, "verdict": verdict, "spec": specClause}

	switch verdict {
	case "panic":
		c.Fail("c02/panic/"+c02PanicClass(msg), fmt.Sprintf("InsertBlock panicked (%s) on block [%s]", msg, label), replay)
		if d := c02FpDiff(before, after); len(d) > 0 {
			c.Fail("c02/reject-side-effect/"+d[0], fmt.Sprintf("panicking InsertBlock changed %v [%s]", d, label), replay)
		}
	case "save-error":
		c.Fail("c02/save-error-without-fault", fmt.Sprintf("saveNewBlock failed (%s) although no storage fault was injected [%s]", msg, label), replay)
	case "reject", "ignored":
		if d := c02FpDiff(before, after); len(d) > 0 {
			c.Fail("c02/reject-side-effect/"+d[0], fmt.Sprintf("%s block changed %v: before=%v after=%v [%s]", verdict, d, before[d[0]], after[d[0]], label), replay)
		}
		if verdict == "reject" && specClause == "" {
			sig := "c02/honest-rejected"
			if !honest {
				sig = "c02/valid-variant-rejected"
			}
			c.Fail(sig, fmt.Sprintf("a block satisfying every clause of the property was rejected [%s]", label), replay)
		}
		if verdict == "ignored" && !s.con().accepted[mh] && m.Height() > n.BC.StableBlock().Height() {
			c.Fail("c02/ignored-without-reason", fmt.Sprintf("a block the harness never saw accepted, above the stable height, was ignored [%s]", label), replay)
		} else if verdict == "ignored" && !existed && m.Height() > n.BC.StableBlock().Height() {
			c.Fail("c02/ignored-without-reason", fmt.Sprintf("block neither stored nor below the stable height was ignored [%s]", label), replay)
		}
	case "ok":
		s.sawAccepted(mh)
		if specClause == "tx-replay" && strings.HasPrefix(label, "restart:") {
			c.Fail("c02/accepted-invalid/replayed-tx-after-restart", fmt.Sprintf("after a restart on the same database a block replaying a transaction of its own ancestor chain was accepted [%s]; head before=%s after=%s, balances at head before=%s after=%s", label, before["current"], after["current"], before["balances-at-head"], after["balances-at-head"]), replay)
		}
		if specClause != "" {
			c.Fail("c02/accepted-invalid/"+specClause, fmt.Sprintf("block violating the clause %q was accepted [%s]", specClause, label), replay)
		}
		if after["has-block"] != "true" {
			c.Fail("c02/accepted-not-stored", "InsertBlock returned nil but HasBlock(hash) is false ["+label+"]", replay)
		}
		s.checkStored(m, label, replay)
	}
	return verdict
}

// checkStored: the stored block must carry the locally recomputed body, whatever the peer sent in the
// parts of the body that the header hash does not cover.
func (s *c02State) checkStored(m *types.Block, label string, replay interface{}) {
	c, n := s.c, s.n
	st, err := n.DB.GetBlockByHash(m.Hash())
	if err != nil {
		return
	}
	if st.Txs.MerkleRootSha() != st.TxRoot() {
		c.Fail("c02/stored-body-mismatch/txs", "stored txs do not hash to TxRoot ["+label+"]", replay)
	}
	if st.ChangeLogs.MerkleRootSha() != st.LogRoot() {
		c.Fail("c02/stored-body-mismatch/change-logs", "stored change logs do not hash to LogRoot ["+label+"]", replay)
	}
	if deputynode.IsSnapshotBlock(st.Height()) {
		r := st.DeputyNodes.MerkleRootSha()
		if !bytes.Equal(r[:], st.DeputyRoot()) {
			c.Fail("c02/stored-body-mismatch/deputy-nodes", "stored deputy nodes do not hash to DeputyRoot ["+label+"]", replay)
		}
	} else if len(st.DeputyNodes) != 0 {
		c.Fail("c02/stored-body-mismatch/deputy-nodes", "deputy nodes stored in a non-snapshot block ["+label+"]", replay)
	}
	// one confirm per SIGNER (a node can produce many byte strings for one hash: (r, N-s, v^1), other nonces),
	// and none by the miner
	seen := map[string]bool{}
	hash := st.Hash()
	if minerID, err := st.SignerNodeID(); err == nil {
		seen[string(minerID)] = true
	}
	for _, cf := range st.Confirms {
		id, err := cf.RecoverNodeID(hash)
		if err != nil || n.DM.GetDeputyByNodeID(st.Height(), id) == nil {
			c.Fail("c02/stored-body-mismatch/confirms", "a stored confirm is not a deputy's signature of the block ["+label+"]", replay)
			continue
		}
		if seen[string(id)] {
			var ids []string
			if minerID, err := st.SignerNodeID(); err == nil {
				ids = append(ids, fmt.Sprintf("miner=%x", minerID[:3]))
			}
			for _, x := range st.Confirms {
				if xid, err := x.RecoverNodeID(hash); err == nil {
					ids = append(ids, fmt.Sprintf("%x", xid[:3]))
				}
			}
			canon := ""
			if len(st.Header.SignData) == 65 && bytes.Equal(cf[:], malleate(st.Header.SignData)) {
				canon = " (the confirm is the other encoding (r, N-s, v^1) of the header signature)"
			}
			c.Fail("c02/stored-body-mismatch/confirms", fmt.Sprintf("two stored signatures (miner or confirms) recover to the same deputy: %v%s, self=%x, delivered confirms=%d, delivered SignData=%x stored SignData=%x [%s]", ids, canon, deputynode.GetSelfNodeID()[:3], len(m.Confirms), m.Header.SignData[:4], st.Header.SignData[:4], label), replay)
		}
		seen[string(id)] = true
	}
}

// ---------------------------------------------------------------------------------------------
// (C) panic probe
// ---------------------------------------------------------------------------------------------

func c02NewState(c *Ctx, nDep int) *c02State { return c02NewStateN(c, nDep, nDep) }

// c02NewStateN: nDep genesis deputies, at most maxDep deputies per term (room for registered candidates).
func c02NewStateN(c *Ctx, nDep, maxDep int) *c02State {
	now := uint32(time.Now().Unix())
	w := NewWorld(nDep, now-500000, 10000)
	s := &c02State{c: c, w: w, n: w.NewNode(maxDep), ids: map[string]int{}, outsider: detKey("c02-outsider"),
		honestGL: map[common.Hash]uint64{}, honestDR: map[common.Hash]string{}}
	for i := 0; i < 3; i++ {
		s.users = append(s.users, detKey(fmt.Sprintf("c02-user-%d", i)))
	}
	c02AcceptHook = s.sawAccepted
	c02IgnoredHook = func(b *types.Block) {
		if !s.con().accepted[b.Hash()] && b.Height() > s.n.BC.StableBlock().Height() {
			c.Fail("c02/ignored-without-reason", fmt.Sprintf("block %s, which the harness never saw accepted and which lies above the stable height %d, was ignored", b.ShortString(), s.n.BC.StableBlock().Height()), nil)
		}
	}
	return s
}

func c02PanicProbe(c *Ctx) {
	oldT, oldI := params.TermDuration, params.InterimDuration
	params.TermDuration, params.InterimDuration = 12, 4
	defer func() { params.TermDuration, params.InterimDuration = oldT, oldI }()
	s := c02NewState(c, 3)
	defer s.n.Close()
	c.Op(fmt.Sprintf("params %d %d %d", params.TermDuration, params.InterimDuration, s.w.Timeout), "ok")
	parent := s.n.BC.CurrentBlock()
	blk, _, err := s.build(parent, parent.Time()+1, nil, nil)
	if err != nil {
		panic(err)
	}
	deputynode.SetSelfNodeKey(detKey("c02-observer"))
	inTurn, _ := s.n.InTurn(parent, parent.Time()+1)
	for _, tc := range []struct {
		t     uint32
		label string
		key   *ecdsa.PrivateKey
	}{
		{1, "probe Time=1 signed-by-in-turn-deputy", inTurn},
		{9999999, "probe Time=9999999 signed-by-in-turn-deputy", inTurn},
		{10000000, "probe Time=10000000 signed-by-in-turn-deputy", inTurn},
		{1, "probe Time=1 signed-by-outsider", s.outsider},
	} {
		m := CloneBlock(blk)
		m.Header.Time = tc.t
		s.resign(m, tc.key)
		s.runCase(m, tc.label, false, nil)
		c.Count("probe")
	}
	// before fix 26f228d any deputy, not only the one in turn, could make every validating node panic
	for i, k := range s.w.DeputyKeys {
		m := CloneBlock(blk)
		m.Header.Time = 1
		m.Header.MinerAddress = keyAddr(k)
		s.resign(m, k)
		s.runCase(m, fmt.Sprintf("probe Time=1 miner+signer=deputy-%d", i), false, nil)
		c.Count("probe")
	}
	s.runCase(blk, "probe honest", true, nil)
}

// ---------------------------------------------------------------------------------------------
// (D) mutation campaign
// ---------------------------------------------------------------------------------------------

type c02Mut struct {
	name  string
	apply func(s *c02State, m, honest *types.Block) bool // false: not applicable to this block
}

func c02Flip(h common.Hash) common.Hash { h[7] ^= 0x40; return h }

func c02Muts() []c02Mut {
	hdr := func(name string, f func(s *c02State, h *types.Header, honest *types.Block) bool) c02Mut {
		return c02Mut{name, func(s *c02State, m, honest *types.Block) bool { return f(s, m.Header, honest) }}
	}
	return []c02Mut{
		hdr("ParentHash:unknown", func(s *c02State, h *types.Header, _ *types.Block) bool {
			h.ParentHash = c02Flip(h.ParentHash)
			return true
		}),
		hdr("ParentHash:grandparent", func(s *c02State, h *types.Header, honest *types.Block) bool {
			p, err := s.n.DB.GetBlockByHash(honest.ParentHash())
			if err != nil || p.Height() == 0 {
				return false
			}
			h.ParentHash = p.ParentHash()
			return true
		}),
		hdr("MinerAddress:other-deputy", func(s *c02State, h *types.Header, _ *types.Block) bool {
			for _, k := range s.w.DeputyKeys {
				if keyAddr(k) != h.MinerAddress {
					h.MinerAddress = keyAddr(k)
					return true
				}
			}
			return false
		}),
		hdr("MinerAddress:outsider", func(s *c02State, h *types.Header, _ *types.Block) bool {
			h.MinerAddress = keyAddr(s.outsider)
			return true
		}),
		hdr("VersionRoot", func(s *c02State, h *types.Header, _ *types.Block) bool {
			h.VersionRoot = c02Flip(h.VersionRoot)
			return true
		}),
		hdr("TxRoot:flip", func(s *c02State, h *types.Header, _ *types.Block) bool { h.TxRoot = c02Flip(h.TxRoot); return true }),
		hdr("LogRoot", func(s *c02State, h *types.Header, _ *types.Block) bool { h.LogRoot = c02Flip(h.LogRoot); return true }),
		hdr("Height:+1", func(s *c02State, h *types.Header, _ *types.Block) bool { h.Height++; return true }),
		hdr("Height:-1", func(s *c02State, h *types.Header, _ *types.Block) bool { h.Height--; return true }),
		hdr("Height:0", func(s *c02State, h *types.Header, _ *types.Block) bool { h.Height = 0; return true }),
		hdr("Height:next-term", func(s *c02State, h *types.Header, _ *types.Block) bool {
			h.Height += 4 * params.TermDuration
			return true
		}),
		hdr("GasLimit:+1", func(s *c02State, h *types.Header, _ *types.Block) bool { h.GasLimit++; return true }),
		hdr("GasLimit:max", func(s *c02State, h *types.Header, _ *types.Block) bool { h.GasLimit = ^uint64(0); return true }),
		hdr("GasLimit:0", func(s *c02State, h *types.Header, _ *types.Block) bool { h.GasLimit = 0; return true }),
		hdr("GasUsed:+1", func(s *c02State, h *types.Header, _ *types.Block) bool { h.GasUsed++; return true }),
		hdr("GasUsed:0", func(s *c02State, h *types.Header, _ *types.Block) bool {
			if h.GasUsed == 0 {
				return false
			}
			h.GasUsed = 0
			return true
		}),
		hdr("Time:-1", func(s *c02State, h *types.Header, _ *types.Block) bool { h.Time--; return true }),
		hdr("Time:+1", func(s *c02State, h *types.Header, _ *types.Block) bool { h.Time++; return true }),
		hdr("Time:+slot", func(s *c02State, h *types.Header, _ *types.Block) bool {
			h.Time += uint32(s.w.Timeout / 1000)
			return true
		}),
		hdr("Time:+round", func(s *c02State, h *types.Header, _ *types.Block) bool {
			h.Time += uint32(s.w.Timeout/1000) * uint32(len(s.w.DeputyKeys))
			return true
		}),
		hdr("Time:before-parent", func(s *c02State, h *types.Header, honest *types.Block) bool {
			p, err := s.n.DB.GetBlockByHash(honest.ParentHash())
			if err != nil {
				return false
			}
			h.Time = p.Time() - 1 - uint32(s.c.Rnd.Intn(30))
			return true
		}),
		hdr("Time:parent", func(s *c02State, h *types.Header, honest *types.Block) bool {
			p, err := s.n.DB.GetBlockByHash(honest.ParentHash())
			if err != nil || p.Time() == h.Time {
				return false
			}
			h.Time = p.Time()
			return true
		}),
		hdr("Time:now+1", func(s *c02State, h *types.Header, _ *types.Block) bool {
			h.Time = uint32(time.Now().Unix()) + 1
			return true
		}),
		hdr("Time:now+2", func(s *c02State, h *types.Header, _ *types.Block) bool {
			h.Time = uint32(time.Now().Unix()) + 2
			return true
		}),
		hdr("Time:now", func(s *c02State, h *types.Header, _ *types.Block) bool {
			h.Time = uint32(time.Now().Unix())
			return true
		}),
		hdr("Time:now+1000", func(s *c02State, h *types.Header, _ *types.Block) bool {
			h.Time = uint32(time.Now().Unix()) + 1000
			return true
		}),
		hdr("Time:tiny", func(s *c02State, h *types.Header, _ *types.Block) bool {
			h.Time = []uint32{0, 1, 1000, 9999999}[s.c.Rnd.Intn(4)]
			return true
		}),
		hdr("Time:1e7", func(s *c02State, h *types.Header, _ *types.Block) bool { h.Time = 10000000; return true }),
		hdr("SignData:flip", func(s *c02State, h *types.Header, _ *types.Block) bool {
			if len(h.SignData) != 65 {
				return false
			}

			h.SignData = append([]byte(nil), h.SignData...)
			h.SignData[s.c.Rnd.Intn(64)] ^= 1 << uint(s.c.Rnd.Intn(8))
			return true
		}),
		hdr("SignData:recid", func(s *c02State, h *types.Header, _ *types.Block) bool {
			if len(h.SignData) != 65 {
				return false
			}

			h.SignData = append([]byte(nil), h.SignData...)
			h.SignData[64] ^= 1
			return true
		}),
		hdr("SignData:bad-recid", func(s *c02State, h *types.Header, _ *types.Block) bool {
			if len(h.SignData) != 65 {
				return false
			}

			h.SignData = append([]byte(nil), h.SignData...)
			h.SignData[64] = 7
			return true
		}),
		hdr("SignData:malleate", func(s *c02State, h *types.Header, _ *types.Block) bool {
			if len(h.SignData) != 65 {
				return false
			}
			mal := malleate(h.SignData)
			s.registerMalleated(h.SignData, mal)
			h.SignData = mal
			return true
		}),
		hdr("SignData:truncate", func(s *c02State, h *types.Header, _ *types.Block) bool {
			if len(h.SignData) != 65 {
				return false
			}
			h.SignData = h.SignData[:64]
			return true
		}),
		hdr("SignData:empty", func(s *c02State, h *types.Header, _ *types.Block) bool { h.SignData = nil; return true }),
		hdr("SignData:extend", func(s *c02State, h *types.Header, _ *types.Block) bool {
			h.SignData = append(append([]byte(nil), h.SignData...), 0)
			return true
		}),
		hdr("DeputyRoot:garbage", func(s *c02State, h *types.Header, _ *types.Block) bool {
			r := crypto.Keccak256([]byte("c02-garbage-root"))
			h.DeputyRoot = r
			return true
		}),
		hdr("DeputyRoot:flip-or-short", func(s *c02State, h *types.Header, _ *types.Block) bool {
			if len(h.DeputyRoot) == 0 {
				h.DeputyRoot = []byte{1}
			} else {
				h.DeputyRoot = append([]byte(nil), h.DeputyRoot...)
				h.DeputyRoot[len(h.DeputyRoot)-1] ^= 2
			}
			return true
		}),
		hdr("Extra:changed", func(s *c02State, h *types.Header, _ *types.Block) bool { h.Extra += "x"; return true }),
		hdr("Extra:256", func(s *c02State, h *types.Header, _ *types.Block) bool {
			h.Extra = strings.Repeat("e", 256)
			return true
		}),
		hdr("Extra:257", func(s *c02State, h *types.Header, _ *types.Block) bool {
			h.Extra = strings.Repeat("e", 257)
			return true
		}),
		hdr("Extra:huge", func(s *c02State, h *types.Header, _ *types.Block) bool {
			h.Extra = strings.Repeat("e", 5000)
			return true
		}),
		// ---- body: transactions
		{"Txs:drop", func(s *c02State, m, _ *types.Block) bool {
			if len(m.Txs) == 0 {
				return false
			}
			i := s.c.Rnd.Intn(len(m.Txs))
			m.Txs = append(append(types.Transactions{}, m.Txs[:i]...), m.Txs[i+1:]...)
			return true
		}},
		{"Txs:duplicate", func(s *c02State, m, _ *types.Block) bool {
			if len(m.Txs) == 0 {
				return false
			}
			m.Txs = append(m.Txs, m.Txs[s.c.Rnd.Intn(len(m.Txs))])
			return true
		}},
		{"Txs:reorder", func(s *c02State, m, _ *types.Block) bool {
			if len(m.Txs) < 2 {
				return false
			}
			m.Txs[0], m.Txs[len(m.Txs)-1] = m.Txs[len(m.Txs)-1], m.Txs[0]
			return true
		}},
		{"Txs:replace", func(s *c02State, m, _ *types.Block) bool {
			if len(m.Txs) == 0 {
				return false
			}
			i := s.c.Rnd.Intn(len(m.Txs))
			s.txSeq++
			m.Txs[i] = txTransfer(s.w.FounderKey, keyAddr(s.users[0]), lemo(7), TxOpt{Exp: m.Txs[i].Expiration(), Msg: fmt.Sprintf("replaced-%d", s.txSeq)})
			return true
		}},
		{"Txs:add", func(s *c02State, m, _ *types.Block) bool {
			s.txSeq++
			m.Txs = append(m.Txs, txTransfer(s.w.FounderKey, keyAddr(s.users[1]), lemo(3), TxOpt{Exp: uint64(m.Time()) + 60, Msg: fmt.Sprintf("added-%d", s.txSeq)}))
			return true
		}},
		{"Txs:add-expired", func(s *c02State, m, _ *types.Block) bool {
			s.txSeq++
			m.Txs = append(m.Txs, txTransfer(s.w.FounderKey, keyAddr(s.users[1]), lemo(3), TxOpt{Exp: uint64(m.Time()) - 1, Msg: fmt.Sprintf("expired-%d", s.txSeq)}))
			return true
		}},
		{"Txs:add-too-far", func(s *c02State, m, _ *types.Block) bool {
			s.txSeq++
			m.Txs = append(m.Txs, txTransfer(s.w.FounderKey, keyAddr(s.users[1]), lemo(3), TxOpt{Exp: uint64(m.Time()) + 1801, Msg: fmt.Sprintf("far-%d", s.txSeq)}))
			return true
		}},
		{"Txs:add-box-sub-too-far", func(s *c02State, m, _ *types.Block) bool {
			// a box that is itself inside the window, carrying a sub-tx that lives past block time + 30 min
			s.txSeq++
			sub := txTransfer(s.w.FounderKey, keyAddr(s.users[1]), lemo(3), TxOpt{Exp: uint64(m.Time()) + 1801 + uint64(s.c.Rnd.Intn(1700)), Msg: fmt.Sprintf("boxfar-%d", s.txSeq)})
			m.Txs = append(m.Txs, s.box(s.w.FounderKey, types.Transactions{sub}, TxOpt{Exp: uint64(m.Time()) + 1 + uint64(s.c.Rnd.Intn(1799)), Msg: fmt.Sprintf("boxfar-box-%d", s.txSeq)}))
			return true
		}},
		{"Txs:add-box-sub-expired", func(s *c02State, m, _ *types.Block) bool {
			s.txSeq++
			sub := txTransfer(s.w.FounderKey, keyAddr(s.users[1]), lemo(3), TxOpt{Exp: uint64(m.Time()) - 1, Msg: fmt.Sprintf("boxexp-%d", s.txSeq)})
			m.Txs = append(m.Txs, s.box(s.w.FounderKey, types.Transactions{sub}, TxOpt{Exp: uint64(m.Time()) + 60, Msg: fmt.Sprintf("boxexp-box-%d", s.txSeq)}))
			return true
		}},
		{"Txs:add-box-sub-before-box", func(s *c02State, m, _ *types.Block) bool {
			s.txSeq++
			sub := txTransfer(s.w.FounderKey, keyAddr(s.users[1]), lemo(3), TxOpt{Exp: uint64(m.Time()) + 30, Msg: fmt.Sprintf("boxbef-%d", s.txSeq)})
			m.Txs = append(m.Txs, s.box(s.w.FounderKey, types.Transactions{sub}, TxOpt{Exp: uint64(m.Time()) + 60, Msg: fmt.Sprintf("boxbef-box-%d", s.txSeq)}))
			return true
		}},
		{"Txs:add-box", func(s *c02State, m, _ *types.Block) bool {
			// control: a valid box at the edges of the window
			s.txSeq++
			be := uint64(m.Time()) + uint64(s.c.Rnd.Intn(1801))
			sub := txTransfer(s.w.FounderKey, keyAddr(s.users[1]), lemo(3), TxOpt{Exp: be + uint64(s.c.Rnd.Intn(int(uint64(m.Time())+1800-be)+1)), Msg: fmt.Sprintf("boxok-%d", s.txSeq)})
			m.Txs = append(m.Txs, s.box(s.w.FounderKey, types.Transactions{sub}, TxOpt{Exp: be, Msg: fmt.Sprintf("boxok-box-%d", s.txSeq)}))
			return true
		}},
		{"Txs:add-wrong-chain", func(s *c02State, m, _ *types.Block) bool {
			s.txSeq++
			tx := types.NewTransaction(keyAddr(s.w.FounderKey), keyAddr(s.users[1]), lemo(3), 2000000, oneGwei, nil, params.OrdinaryTx, nodeChainID+1, uint64(m.Time())+60, "", fmt.Sprintf("chain-%d", s.txSeq))
			m.Txs = append(m.Txs, signTx(tx, s.w.FounderKey))
			return true
		}},
		{"Txs:add-unfunded", func(s *c02State, m, _ *types.Block) bool {
			s.txSeq++
			m.Txs = append(m.Txs, txTransfer(detKey("c02-pauper"), keyAddr(s.users[1]), lemo(3), TxOpt{Exp: uint64(m.Time()) + 60, Msg: fmt.Sprintf("unfunded-%d", s.txSeq)}))
			return true
		}},
		{"Txs:replay", func(s *c02State, m, _ *types.Block) bool {
			// a tx that already sits on the ancestor path and is still inside the expiry window
			p, err := s.n.DB.GetBlockByHash(m.ParentHash())
			if err != nil {
				return false
			}
			for i := len(s.chainTxs) - 1; i >= 0 && i >= len(s.chainTxs)-40; i-- {
				tx := s.chainTxs[i]
				if tx.Expiration() >= uint64(m.Time()) && tx.Expiration() <= uint64(m.Time())+1800 && s.onAncestorPath(p, tx) {
					m.Txs = append(m.Txs, tx)
					return true
				}
			}
			return false
		}},
		{"ParentHash:outside-guard-window+Txs:replay-consistent", func(s *c02State, m, _ *types.Block) bool {
			// the claimed height stays (above the stable block), the parent named is a block the store knows but the tx guard no longer holds (older than its window) and the body is ONE transaction the guard still traces, with a consistent tx root: every check
			// before verifyHeight passes. Whatever order the checks run in, the answer must be a rejection, never a panic of the
			// guard's fork walk (it has no block to start from).
			if m.Height() < 3 {
				return false
			}
			// a parent the store knows and the tx guard does NOT hold any more (older than its window): asked of the real guard
			cached := map[common.Hash]bool{}
			s.n.BC.TxGuard().VerifDump(func(h common.Hash) int { cached[h] = true; return 0 }, func(common.Hash) int { return 0 })
			var g *types.Block
			for h := uint32(0); h+2 < m.Height() && g == nil; h++ {
				if b, err := s.n.DB.GetBlockByHeight(h); err == nil && !cached[b.Hash()] {
					g = b
				}
			}
			if g == nil {
				s.c.Count("mutant-void:no-parent-outside-the-guard-window-yet")
				return false
			}
			for i := len(s.chainTxs) - 1; i >= 0 && i >= len(s.chainTxs)-40; i-- {
				tx := s.chainTxs[i]
				if tx.Expiration() >= uint64(m.Time()) && tx.Expiration() <= uint64(m.Time())+1800 {
					m.Header.ParentHash = g.Hash()
					m.Txs = types.Transactions{tx}
					m.Header.TxRoot = m.Txs.MerkleRootSha()
					return true
				}
			}
			return false
		}},
		{"Txs:gas-used-field", func(s *c02State, m, _ *types.Block) bool {
			if len(m.Txs) == 0 {
				return false
			}
			tx := m.Txs[s.c.Rnd.Intn(len(m.Txs))]
			tx.SetGasUsed(tx.GasUsed() + 1)
			return true
		}},
		{"TxRoot:recompute", func(s *c02State, m, _ *types.Block) bool {
			r := m.Txs.MerkleRootSha()
			if r == m.Header.TxRoot {
				return false
			}
			m.Header.TxRoot = r
			return true
		}},
		// ---- body: change logs
		{"ChangeLogs:drop-all", func(s *c02State, m, _ *types.Block) bool {
			if len(m.ChangeLogs) == 0 {
				return false
			}
			m.ChangeLogs = nil
			return true
		}},
		{"ChangeLogs:drop-one", func(s *c02State, m, _ *types.Block) bool {
			if len(m.ChangeLogs) < 2 {
				return false
			}
			m.ChangeLogs = m.ChangeLogs[1:]
			return true
		}},
		{"ChangeLogs:alter", func(s *c02State, m, _ *types.Block) bool {
			if len(m.ChangeLogs) == 0 {
				return false
			}
			m.ChangeLogs[s.c.Rnd.Intn(len(m.ChangeLogs))].Version += 5
			return true
		}},
		{"ChangeLogs:duplicate", func(s *c02State, m, _ *types.Block) bool {
			if len(m.ChangeLogs) == 0 {
				return false
			}
			m.ChangeLogs = append(m.ChangeLogs, m.ChangeLogs[0])
			return true
		}},
		{"LogRoot:of-body", func(s *c02State, m, _ *types.Block) bool {
			r := m.ChangeLogs.MerkleRootSha()
			if r == m.Header.LogRoot {
				return false
			}
			m.Header.LogRoot = r
			return true
		}},
		// ---- body: confirms
		{"Confirms:garbage", func(s *c02State, m, _ *types.Block) bool {
			var sd types.SignData
			copy(sd[:], crypto.Keccak256([]byte("c02-garbage-confirm")))
			m.Confirms = append(m.Confirms, sd)
			return true
		}},
		{"Confirms:outsider", func(s *c02State, m, _ *types.Block) bool {
			m.Confirms = append(m.Confirms, Confirm(m, s.outsider))
			return true
		}},
		{"Confirms:miner-signature", func(s *c02State, m, _ *types.Block) bool {
			if len(m.Header.SignData) != 65 {
				return false
			}
			m.Confirms = append(m.Confirms, types.BytesToSignData(m.Header.SignData))
			return true
		}},
		{"Confirms:malleated-miner-signature", func(s *c02State, m, _ *types.Block) bool {
			if len(m.Header.SignData) != 65 {
				return false
			}
			m.Confirms = append(m.Confirms, types.BytesToSignData(malleate(m.Header.SignData)))
			return true
		}},
		{"Confirms:malleated-copy", func(s *c02State, m, _ *types.Block) bool {
			if len(m.Confirms) == 0 {
				return false
			}
			m.Confirms = append(m.Confirms, types.BytesToSignData(malleate(m.Confirms[0][:])))
			return true
		}},
		{"Confirms:duplicate", func(s *c02State, m, _ *types.Block) bool {
			if len(m.Confirms) == 0 {
				return false
			}
			m.Confirms = append(m.Confirms, m.Confirms[0])
			return true
		}},
		{"Confirms:drop", func(s *c02State, m, _ *types.Block) bool {
			if len(m.Confirms) == 0 {
				return false
			}
			m.Confirms = nil
			return true
		}},
		// ---- body: deputy nodes
		{"DeputyNodes:garbage", func(s *c02State, m, _ *types.Block) bool {
			m.DeputyNodes = append(append(types.DeputyNodes{}, m.DeputyNodes...), &types.DeputyNode{MinerAddress: keyAddr(s.outsider), NodeID: crypto.PrivateKeyToNodeID(s.outsider), Rank: uint32(len(m.DeputyNodes)), Votes: big.NewInt(0)})
			return true
		}},
		{"DeputyNodes:drop", func(s *c02State, m, _ *types.Block) bool {
			if len(m.DeputyNodes) == 0 {
				return false
			}
			m.DeputyNodes = nil
			return true
		}},
		{"DeputyNodes:votes", func(s *c02State, m, _ *types.Block) bool {
			if len(m.DeputyNodes) == 0 {
				return false
			}
			d := *m.DeputyNodes[0]
			d.Votes = new(big.Int).Add(d.Votes, big.NewInt(1))
			m.DeputyNodes = append(types.DeputyNodes{&d}, m.DeputyNodes[1:]...)
			return true
		}},
		{"DeputyRoot:of-body", func(s *c02State, m, _ *types.Block) bool {
			r := m.DeputyNodes.MerkleRootSha()
			if bytes.Equal(r[:], m.Header.DeputyRoot) {
				return false
			}
			m.Header.DeputyRoot = r[:]
			return true
		}},
	}
}

var c02Signers = []string{"keep", "in-turn", "wrong-turn", "wrong-turn-as-miner", "outsider"}

// sign applies one of the signer variants to m.
func (s *c02State) sign(m *types.Block, variant string, honestKey *ecdsa.PrivateKey) bool {
	inTurn := honestKey
	if p, err := s.n.DB.GetBlockByHash(m.ParentHash()); err == nil && int64(m.Time())*1000 >= 1e10 {
		if k, err := s.n.InTurn(p, m.Time()); err == nil {
			inTurn = k
		}
	}
	other := func() *ecdsa.PrivateKey {
		var ks []*ecdsa.PrivateKey
		for _, k := range s.w.DeputyKeys {
			if keyAddr(k) != keyAddr(inTurn) {
				ks = append(ks, k)
			}
		}
		if len(ks) == 0 {
			return nil
		}
		return ks[s.c.Rnd.Intn(len(ks))]
	}
	switch variant {
	case "keep":
	case "in-turn":
		s.resign(m, inTurn)
	case "in-turn-as-miner":
		m.Header.MinerAddress = keyAddr(inTurn)
		s.resign(m, inTurn)
	case "wrong-turn":
		k := other()
		if k == nil {
			return false
		}
		s.resign(m, k)
	case "wrong-turn-as-miner":
		k := other()
		if k == nil {
			return false
		}
		m.Header.MinerAddress = keyAddr(k)
		s.resign(m, k)
	case "outsider":
		s.resign(m, s.outsider)
	}
	return true
}

func c02Campaign(c *Ctx) {
	oldT, oldI := params.TermDuration, params.InterimDuration
	params.TermDuration, params.InterimDuration = 12, 4
	defer func() { params.TermDuration, params.InterimDuration = oldT, oldI }()
	nDep := 3
	s := c02NewStateN(c, nDep, 4) // 4 seats: term 1 has 5 ranked candidates, so the seat limit of a term is exercised
	s.con().seats = 4
	defer func() { Safe(func() string { s.n.Close(); return "" }) }()
	n, w := s.n, s.w
	// two more candidates (account key = node key) register during term 0 and one of them resigns during term 1,
	// so the deputy lists of terms 0, 1, 2 differ in size, members and ranks: a lookup in the wrong term is visible
	cands := []*ecdsa.PrivateKey{detKey("c02-cand-0"), detKey("c02-cand-1")}
	s.con().genesisDeps = nDep // before the candidates join the key list: the first nDep keys are the genesis deputies
	s.con().campaign = true
	s.cands = cands
	w.DeputyKeys = append(w.DeputyKeys, cands...)
	for i, k := range cands {
		s.addWorldKey(k, fmt.Sprintf("candidate-%d", i))
	}
	c.Op(fmt.Sprintf("params %d %d %d", params.TermDuration, params.InterimDuration, w.Timeout), "ok")
	muts := c02Muts()
	observer := detKey("c02-observer")
	slot := uint32(w.Timeout / 1000)

	cases := 0
	lastHonest := n.BC.CurrentBlock()
	mutCursor := 0
	round := 0
	for cases < c.N {
		round++
		// build on the last HONEST block, not on CurrentBlock(): an accepted near-clock mutant (Time:now+1,
		// valid when empty and signed in turn) may be the engine's head for a while, and every block on top
		// of it would be "in the future". Honest blocks carry confirms, so the stable pointer follows them
		// and prunes such siblings.
		head := lastHonest
		if st := n.BC.StableBlock(); st.Height() >= head.Height() && st.Hash() != head.Hash() {
			head = st // a valid variant (confirmed by the node itself) became stable first: go on from there
			lastHonest = st
			c.Count("round:rebased-on-stable")
		}
		parent := head
		forkRound := false
		// sometimes fork from the head's parent
		if head.Height() > 1 && c.Rnd.Intn(6) == 0 {
			if p, err := n.DB.GetBlockByHash(head.ParentHash()); err == nil && p.Height() >= n.BC.StableBlock().Height() {
				parent = p
				forkRound = true
				c.Count("round:fork")
			}
		}
		curDep := n.DM.GetDeputiesCount(parent.Height() + 1)
		if curDep == 0 {
			curDep = nDep
		}
		c.Count(fmt.Sprintf("round:deputies=%d", curDep))
		d := 1 + c.Rnd.Intn(curDep)
		if c.Rnd.Intn(5) == 0 {
			d += curDep * c.Rnd.Intn(3)
		}
		t := parent.Time() + slot*uint32(d-1) + uint32(c.Rnd.Intn(int(slot)))
		// transactions: founder funds users; users pay each other
		var txs types.Transactions
		nTx := c.Rnd.Intn(4)
		snapshotNext := deputynode.IsSnapshotBlock(parent.Height() + 1)
		if snapshotNext {
			nTx = 0 // keep votes/balances still in the snapshot block (C10's ground)
		}
		for i := 0; i < nTx; i++ {
			s.txSeq++
			from := w.FounderKey
			if c.Rnd.Intn(3) == 0 && parent.Height() > 3 {
				from = s.users[c.Rnd.Intn(len(s.users))]
			}
			to := keyAddr(s.users[c.Rnd.Intn(len(s.users))])
			amt := lemo(int64(1 + c.Rnd.Intn(50)))
			if from == w.FounderKey {
				amt = lemo(int64(1000 + c.Rnd.Intn(1000)))
			}
			exp := uint64(t) + uint64([]int{0, 1, 60, 600, 1799, 1800}[c.Rnd.Intn(6)])
			txs = append(txs, txTransfer(from, to, amt, TxOpt{Exp: exp, Msg: fmt.Sprintf("c02-%d", s.txSeq)}))
		}
		stepKind, stepIdx := "", 0
		// candidate life cycle, decided from the STATE at the parent (idempotent over forks and rebases)
		if !snapshotNext {
			if tx, kind, idx := s.candidateStep(parent, cands, t); tx != nil {
				txs = append(txs, tx)
				stepKind, stepIdx = kind, idx
				// recorded when ISSUED: the step is decided from the state at the parent, so it is issued again until a
				// valid child of some parent carries it; whichever valid child wins (the honest block or a variant of it,
				// which keeps the transactions) sits at this height
				s.noteCandidateStep(kind, idx, parent.Height()+1)
			}
		}
		if n.DM.GetDeputiesCount(parent.Height()+1) == 0 {
			// the snapshot block of the coming term is not stable at this node yet (a run of blocks without enough
			// confirms): no deputy list exists for the next height. Deliver the late confirmations first, as a real
			// network eventually does.
			c.Count("round:late-confirms-for-term")
			var sigs []types.SignData
			for _, k := range w.DeputyKeys {
				sigs = append(sigs, Confirm(parent, k))
			}
			n.BC.InsertConfirms(parent.Height(), parent.Hash(), sigs)
		}
		blk, _, err := s.build(parent, t, txs, nil)
		if err != nil {
			c.Fail("c02/harness/build", fmt.Sprintf("cannot build an honest block at height %d: %v", parent.Height()+1, err), nil)
			return
		}
		honestKey := w.KeyOfMiner(blk.MinerAddress())
		s.honestGL[blk.ParentHash()] = blk.GasLimit()
		s.honestDR[blk.ParentHash()] = hex.EncodeToString(blk.DeputyRoot())
		// confirms of the other deputies make the block stable on arrival (most of the time)
		if c.Rnd.Intn(4) != 0 {
			for _, k := range w.DeputyKeys {
				if k != honestKey && c.Rnd.Intn(3) != 0 {
					blk.Confirms = append(blk.Confirms, Confirm(blk, k))
				}
			}
		}
		// the node is an observer most of the time, sometimes one of the deputies (it then confirms)
		if c.Rnd.Intn(4) == 0 {
			deputynode.SetSelfNodeKey(w.DeputyKeys[c.Rnd.Intn(len(w.DeputyKeys))])
		} else {
			deputynode.SetSelfNodeKey(observer)
		}
		// a few of the block's txs (and some others) wait in the pool
		for _, tx := range blk.Txs {
			if c.Rnd.Intn(2) == 0 {
				n.Pool.AddTx(tx)
			}
		}
		probe := blk.Txs
		if len(s.chainTxs) > 0 {
			probe = append(append(types.Transactions{}, probe...), s.chainTxs[len(s.chainTxs)-1])
		}

		// a block assembled by the MINER path from a tx list that names one tx twice: fully consistent
		// (roots recomputed by the miner), so only an explicit duplicate check could reject it
		if len(txs) > 0 && c.Rnd.Intn(6) == 0 {
			dupList := append(append(types.Transactions{}, txs...), txs[0])
			if db, _, err := s.build(parent, t, dupList, nil); err == nil {
				seen := map[common.Hash]bool{}
				dup := false
				for _, tx := range db.Txs {
					if seen[tx.Hash()] {
						dup = true
					}
					seen[tx.Hash()] = true
				}
				if dup {
					c.Count("miner-built-duplicate-tx")
					deputynode.SetSelfNodeKey(observer)
					s.runCase(db, "miner-built-duplicate-tx", false, probe)
					cases++
				} else {
					c.Count("miner-dropped-duplicate-tx")
				}
			}
		}
		// a block whose ONLY transaction is a box that carries the same signed sub-tx twice (or a box next to a
		// standalone copy of its sub-tx): consistent, in turn — only the duplicate scan over tx AND sub-tx hashes rejects it
		if c.Rnd.Intn(5) == 0 {
			s.txSeq++
			sub := txTransfer(w.FounderKey, keyAddr(s.users[1]), lemo(2), TxOpt{Exp: uint64(t) + 60, Msg: fmt.Sprintf("dbx-%d", s.txSeq)})
			var list types.Transactions
			name := "lone-box-repeats-sub-tx"
			switch c.Rnd.Intn(3) {
			case 0:
				list = types.Transactions{s.box(w.FounderKey, types.Transactions{sub, sub}, TxOpt{Exp: uint64(t) + 60, Msg: fmt.Sprintf("dbx-box-%d", s.txSeq)})}
			case 1:
				other := txTransfer(w.FounderKey, keyAddr(s.users[2%len(s.users)]), lemo(1), TxOpt{Exp: uint64(t) + 90, Msg: fmt.Sprintf("dbx-o-%d", s.txSeq)})
				list = types.Transactions{s.box(w.FounderKey, types.Transactions{sub, other, sub}, TxOpt{Exp: uint64(t) + 60, Msg: fmt.Sprintf("dbx-box-%d", s.txSeq)})}
				name = "lone-box-repeats-sub-tx-apart"
			default:
				list = types.Transactions{s.box(w.FounderKey, types.Transactions{sub}, TxOpt{Exp: uint64(t) + 60, Msg: fmt.Sprintf("dbx-box-%d", s.txSeq)}), sub}
				name = "box-and-standalone-copy"
			}
			if db, _, err := s.build(parent, t, list, nil); err == nil && len(db.Txs) == len(list) {
				c.Count("miner-built-dup:" + name)
				deputynode.SetSelfNodeKey(observer)
				s.runCase(db, "miner-built-dup:"+name, false, probe)
				cases++
			} else {
				c.Count("miner-dropped-dup:" + name)
			}
		}
		// blocks assembled by the MINER path (which never looks at expirations) around one transaction that is
		// outside the lifetime window of the block time: fully consistent and signed in turn, so ONLY the
		// validator's window check (for a box: on the transactions inside it as well) can reject them
		if c.Rnd.Intn(3) == 0 {
			s.txSeq++
			bt := uint64(t)
			mkSub := func(exp uint64) *types.Transaction {
				return txTransfer(w.FounderKey, keyAddr(s.users[1]), lemo(3), TxOpt{Exp: exp, Msg: fmt.Sprintf("mw-%d", s.txSeq)})
			}
			type wcase struct {
				name string
				tx   *types.Transaction
				bad  bool
			}
			be := bt + 1 + uint64(c.Rnd.Intn(1799))
			all := []wcase{
				{"box-sub-too-far", s.box(w.FounderKey, types.Transactions{mkSub(bt + 1801 + uint64(c.Rnd.Intn(1700)))}, TxOpt{Exp: be, Msg: fmt.Sprintf("mwb-%d", s.txSeq)}), true},
				{"box-sub-too-far-by-1", s.box(w.FounderKey, types.Transactions{mkSub(bt + 1801)}, TxOpt{Exp: be, Msg: fmt.Sprintf("mwb-%d", s.txSeq)}), true},
				{"box-sub-expired", s.box(w.FounderKey, types.Transactions{mkSub(bt - 1)}, TxOpt{Exp: bt - 1, Msg: fmt.Sprintf("mwb-%d", s.txSeq)}), true},
				{"box-sub-before-box", s.box(w.FounderKey, types.Transactions{mkSub(bt + 5)}, TxOpt{Exp: bt + 60, Msg: fmt.Sprintf("mwb-%d", s.txSeq)}), true},
				{"box-at-edges", s.box(w.FounderKey, types.Transactions{mkSub(bt + 1800)}, TxOpt{Exp: bt + uint64(c.Rnd.Intn(1801)), Msg: fmt.Sprintf("mwb-%d", s.txSeq)}), false},
				{"tx-too-far", mkSub(bt + 1801), true},
				{"tx-expired", mkSub(bt - 1), true},
			}
			wc := all[c.Rnd.Intn(len(all))]
			list := append(append(types.Transactions{}, txs...), wc.tx)
			if db, _, err := s.build(parent, t, list, nil); err == nil {
				has := false
				for _, tx := range db.Txs {
					if tx.Hash() == wc.tx.Hash() {
						has = true
					}
				}
				if has {
					c.Count("miner-built-window:" + wc.name)
					deputynode.SetSelfNodeKey(observer)
					s.runCase(db, "miner-built-window:"+wc.name, !wc.bad && false, probe)
					cases++
				} else {
					c.Count("miner-dropped-window:" + wc.name)
				}
			}
		}
		// miner-built blocks around ONE transaction that breaks exactly one non-expiry rule of VerifyTxBody
		if c.Rnd.Intn(4) == 0 {
			cases += s.malformedFamily(parent, t, txs, probe)
		}
		// mutants of this block
		k := 5 + c.Rnd.Intn(4)
		for j := 0; j < k && cases < c.N; j++ {
			m := CloneBlock(blk)
			var label string
			pair := c.Rnd.Intn(4) == 0
			applied := false
			for try := 0; try < len(muts) && !applied; try++ {
				mu := muts[mutCursor%len(muts)]
				mutCursor++
				if mu.apply(s, m, blk) {
					applied = true
					label = mu.name
				}
			}
			if !applied {
				continue
			}
			if pair {
				mu := muts[c.Rnd.Intn(len(muts))]
				if mu.apply(s, m, blk) {
					label += "+" + mu.name
					c.Count("pair")
				}
			}
			variant := c02Signers[c.Rnd.Intn(len(c02Signers))]
			if strings.HasPrefix(label, "SignData") && !pair {
				variant = "keep"
			}
			if !s.sign(m, variant, honestKey) {
				variant = "keep"
			}
			c.Count("mutant:" + label)
			label += " signer=" + variant
			c.Count("signer:" + variant)
			s.runCase(m, label, false, probe)
			cases++
		}
		// occasionally every signer variant of the unmodified block
		if c.Rnd.Intn(5) == 0 {
			for _, variant := range c02Signers[2:] { // "in-turn" would be the honest block itself
				m := CloneBlock(blk)
				if s.sign(m, variant, honestKey) {
					c.Count("signer:" + variant)
					s.runCase(m, "unmodified signer="+variant, false, probe)
					cases++
				}
			}
		}
		// a SIBLING that executes to the very end and is rejected only afterwards: assembled by the miner path from OTHER
		// transactions (it pays a fresh address nothing else ever touches), consistent in every root, then one header figure
		// that is checked AFTER the execution is changed (GasUsed+1 / LogRoot) and the in-turn deputy signs it again. The
		// node executes it on `parent`, rejects it — and the honest block that follows, executed by the same node on the
		// same parent, must not be affected by anything that execution left behind.
		if !snapshotNext && c.Rnd.Intn(3) == 0 {
			s.txSeq++
			fresh := keyAddr(detKey(fmt.Sprintf("c02-fresh-%d", s.txSeq)))
			sibTxs := types.Transactions{txTransfer(w.FounderKey, fresh, lemo(int64(7+c.Rnd.Intn(20))), TxOpt{Exp: uint64(t) + 600, Msg: fmt.Sprintf("c02-sib-%d", s.txSeq)})}
			if c.Rnd.Intn(2) == 0 && len(txs) > 0 {
				sibTxs = append(sibTxs, txs[0])
			}
			if sb, _, err := s.build(parent, t, sibTxs, nil); err == nil && len(sb.Txs) == len(sibTxs) {
				m := CloneBlock(sb)
				what := "GasUsed+1"
				if c.Rnd.Intn(2) == 0 {
					m.Header.GasUsed++
				} else {
					m.Header.LogRoot = c02Flip(m.Header.LogRoot)
					what = "LogRoot"
				}
				if s.sign(m, "in-turn", honestKey) {
					c.Count("nontrivial:sibling-executed-to-the-end-then-rejected:" + what)
					s.runCase(m, "sibling-of-other-txs "+what+" signer=in-turn", false, probe)
					cases++
				}
			}
		}
		// the honest block itself
		v := s.runCase(blk, "honest", true, probe)
		cases++
		if v == "ok" {
			s.chainTxs = append(s.chainTxs, blk.Txs...)
			c.Count("honest:accepted")
			_, _ = stepKind, stepIdx
			if !forkRound {
				lastHonest = blk
			}
			// a second delivery is ignored
			if c.Rnd.Intn(4) == 0 {
				s.runCase(blk, "honest-again", true, probe)
				cases++
			}
		}
		if deputynode.IsSnapshotBlock(blk.Height()) {
			c.Count("round:snapshot-height")
		}
		if deputynode.IsRewardBlock(blk.Height()) {
			c.Count("round:reward-height")
		}
		if round > 20*c.N {
			break
		}
	}
	c.Count(fmt.Sprintf("final-height:%d", n.BC.CurrentBlock().Height()/10*10))
}

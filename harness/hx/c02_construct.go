package main

// C02 — ground truth the GENERATOR holds (fed-fact audit, group B): values that used to be read back from the
// code under test and handed to the model / the spec() classifier are carried by construction here and the
// read-back value is only cross-checked (oracles c02/fed-fact/*).
//
//   exec   the four execution results of a block (VersionRoot, LogRoot, TxRoot, GasUsed) recorded from the
//          MINER-built block, keyed by everything execution depends on (parent, height, time, miner, gas limit,
//          the tx list with each tx's gas-used field). A mutant with the same key has the same results whatever
//          RunBlock/Seal of the validator side says ("re-execution is a function").
//   sig    who signed: Resign / Build know the key; a byte string the harness never produced must not recover to a
//          key of this world.
//   subs   the sub-transaction list of every box the generator made (slice passed to txBox).
//   ex     which hashes the harness has ever seen accepted.
//   dep    size and members of the deputy list that governs a height, from the harness' own schedule constants and
//          its own candidate life cycle.

import (
	"bytes"
	"crypto/ecdsa"
	"fmt"
	"sort"
	"strings"

	"github.com/LemoFoundationLtd/lemochain-core/chain/params"
	"github.com/LemoFoundationLtd/lemochain-core/chain/types"
	"github.com/LemoFoundationLtd/lemochain-core/common"
	"github.com/LemoFoundationLtd/lemochain-core/common/crypto"
)

type c02ExecRec struct {
	vr, lr, tr common.Hash
	gu         uint64
	dr         []byte
	label      string
}

type c02SigRec struct {
	nodeID []byte
	hash   common.Hash
}

type c02SubRec struct {
	hash common.Hash
	exp  uint64
}

type c02Construct struct {
	exec     map[string]*c02ExecRec
	sigs     map[string]*c02SigRec
	boxes    map[common.Hash][]c02SubRec
	accepted map[common.Hash]bool
	world    map[string]string // node id -> label, every key this world holds
	// candidate life cycle: height of the accepted honest block that carried the step
	regHeight    map[int]uint32
	resignHeight map[int]uint32
	candIdx      map[common.Address]int
	genesisDeps  int
	seats        int // DeputyCount of the node: a term lists at most this many of the ranked candidates
	campaign     bool
}

func (s *c02State) con() *c02Construct {
	if s.cons == nil {
		s.cons = &c02Construct{exec: map[string]*c02ExecRec{}, sigs: map[string]*c02SigRec{}, boxes: map[common.Hash][]c02SubRec{},
			accepted: map[common.Hash]bool{}, world: map[string]string{}, regHeight: map[int]uint32{}, resignHeight: map[int]uint32{}, candIdx: map[common.Address]int{}}
		for i, k := range s.w.DeputyKeys {
			s.cons.world[string(crypto.PrivateKeyToNodeID(k))] = fmt.Sprintf("deputy-key-%d", i)
		}
		s.cons.world[string(crypto.PrivateKeyToNodeID(s.outsider))] = "outsider"
		s.cons.world[string(crypto.PrivateKeyToNodeID(s.w.FounderKey))] = "founder"
		for i, u := range s.users {
			s.cons.world[string(crypto.PrivateKeyToNodeID(u))] = fmt.Sprintf("user-%d", i)
		}
	}
	return s.cons
}

func (s *c02State) addWorldKey(k *ecdsa.PrivateKey, label string) {
	s.con().world[string(crypto.PrivateKeyToNodeID(k))] = label
}

// ---- exec ------------------------------------------------------------------------------------

func c02ExecKey(b *types.Block) string {
	h := b.Header
	var sb strings.Builder
	fmt.Fprintf(&sb, "%x|%d|%d|%x|%d", h.ParentHash[:], h.Height, h.Time, h.MinerAddress[:], h.GasLimit)
	for _, tx := range b.Txs {
		th := tx.Hash()
		fmt.Fprintf(&sb, "|%x:%d", th[:8], tx.GasUsed())
	}
	return sb.String()
}

// build = Node.Build + recording of everything the generator now knows about the block it made.
func (s *c02State) build(parent *types.Block, t uint32, txs types.Transactions, forceKey *ecdsa.PrivateKey) (*types.Block, types.Transactions, error) {
	blk, invalid, err := s.n.Build(parent, t, txs, forceKey)
	if err != nil || blk == nil {
		return blk, invalid, err
	}
	c := s.con()
	s.honestGL[blk.ParentHash()] = blk.GasLimit()
	s.honestDR[blk.ParentHash()] = fmt.Sprintf("%x", blk.DeputyRoot())
	h := blk.Header
	rec := &c02ExecRec{vr: h.VersionRoot, lr: h.LogRoot, tr: h.TxRoot, gu: h.GasUsed, dr: append([]byte(nil), h.DeputyRoot...), label: fmt.Sprintf("offered %d txs, packed %d, discarded %d", len(txs), len(blk.Txs), len(invalid))}
	if old, ok := c.exec[c02ExecKey(blk)]; ok && (old.vr != rec.vr || old.lr != rec.lr || old.tr != rec.tr || old.gu != rec.gu) {
		s.c.Fail("c02/miner-built/same-inputs-different-roots", fmt.Sprintf("two miner-built blocks with the same parent, height %d, time, miner, gas limit and packed transactions differ: VersionRoot %s vs %s, LogRoot %s vs %s (first: %s; second: %s)",
			h.Height, old.vr.Prefix(), rec.vr.Prefix(), old.lr.Prefix(), rec.lr.Prefix(), old.label, rec.label), nil)
	} else {
		c.exec[c02ExecKey(blk)] = rec
	}
	// the miner's header against what the generator can say without Seal: the gas of a block is the sum of the
	// gas its transactions used (set per tx by the processor), and a block that executed something has a state root
	var sum uint64
	for _, tx := range blk.Txs {
		sum += tx.GasUsed()
	}
	if sum != h.GasUsed {
		s.c.Fail("c02/honest-header/GasUsed", fmt.Sprintf("the miner-built block at height %d says GasUsed=%d but its %d transactions used %d", h.Height, h.GasUsed, len(blk.Txs), sum), nil)
	}
	if (h.VersionRoot == common.Hash{}) {
		s.c.Fail("c02/honest-header/VersionRoot", fmt.Sprintf("the miner-built block at height %d has a zero VersionRoot", h.Height), nil)
	}
	if parent != nil && len(blk.Txs) > 0 && h.VersionRoot == parent.VersionRoot() {
		s.c.Fail("c02/honest-header/VersionRoot", fmt.Sprintf("the miner-built block at height %d executed %d transactions but carries its parent's VersionRoot", h.Height, len(blk.Txs)), nil)
	}
	// who signed
	k := forceKey
	if k == nil {
		k = s.w.KeyOfMiner(blk.MinerAddress())
	}
	if k != nil {
		c.sigs[string(h.SignData)] = &c02SigRec{nodeID: crypto.PrivateKeyToNodeID(k), hash: blk.Hash()}
	}
	return blk, invalid, err
}

// execFor: the by-construction execution results for b, when the generator built a block with the same key.
func (s *c02State) execFor(b *types.Block) *c02ExecRec {
	return s.con().exec[c02ExecKey(b)]
}

// ---- sig -------------------------------------------------------------------------------------

// resign = Resign + registration of the signer.
func (s *c02State) resign(m *types.Block, k *ecdsa.PrivateKey) {
	Resign(m, k)
	s.con().sigs[string(m.Header.SignData)] = &c02SigRec{nodeID: crypto.PrivateKeyToNodeID(k), hash: m.Hash()}
}

// registerMalleated: (r, N-s, v^1) of a registered signature is a signature of the same key over the same hash.
func (s *c02State) registerMalleated(orig, mal []byte) {
	if r, ok := s.con().sigs[string(orig)]; ok {
		s.con().sigs[string(mal)] = r
	}
}

// signerFor returns what the generator knows about the signer of b:
//
//	known=true,  id != nil : signed by this key over exactly this header
//	known=false            : the harness never produced this signature over this header: it must not recover to a
//	                         key of this world (nobody else holds them)
func (s *c02State) signerFor(b *types.Block) (id []byte, known bool) {
	r, ok := s.con().sigs[string(b.Header.SignData)]
	if ok && r.hash == b.Hash() {
		return r.nodeID, true
	}
	return nil, false
}

// sigFact: the model's `sig` input. recovered = what Ecrecover says (nil = error).
func (s *c02State) sigFact(b *types.Block, recovered []byte) int {
	id, known := s.signerFor(b)
	if known {
		if !bytes.Equal(id, recovered) {
			s.c.Fail("c02/fed-fact/sig", fmt.Sprintf("the block at height %d was signed by %s (the generator holds the key) but Ecrecover over Header.Hash() returns %x", b.Height(), s.con().world[string(id)], c02Short(recovered)), nil)
		}
		return s.id("n", id)
	}
	if recovered == nil {
		return -1
	}
	if who, mine := s.con().world[string(recovered)]; mine {
		s.c.Fail("c02/fed-fact/sig", fmt.Sprintf("a signature the harness never made over this header (height %d) recovers to %s, a key only the harness holds", b.Height(), who), nil)
		return -1
	}
	return s.id("n", recovered)
}

func c02Short(b []byte) []byte {
	if len(b) > 4 {
		return b[:4]
	}
	return b
}

// ---- subs ------------------------------------------------------------------------------------

// box = txBox + registration of the sub list the generator passed in.
func (s *c02State) box(from *ecdsa.PrivateKey, subs types.Transactions, o TxOpt) *types.Transaction {
	tx := txBox(from, subs, o)
	var rec []c02SubRec
	for _, sub := range subs {
		rec = append(rec, c02SubRec{hash: sub.Hash(), exp: sub.Expiration()})
	}
	s.con().boxes[tx.Hash()] = rec
	return tx
}

// subsFor: sub list of a box by construction (cross-checked with GetBox), or the decoded one for a box the generator
// did not make.
func (s *c02State) subsFor(tx *types.Transaction) []c02SubRec {
	var decoded []c02SubRec
	if box, err := types.GetBox(tx.Data()); err == nil {
		for _, sub := range box.SubTxList {
			if sub != nil {
				decoded = append(decoded, c02SubRec{hash: sub.Hash(), exp: sub.Expiration()})
			}
		}
	}
	rec, ok := s.con().boxes[tx.Hash()]
	if !ok {
		return decoded
	}
	same := len(rec) == len(decoded)
	for i := 0; same && i < len(rec); i++ {
		same = rec[i] == decoded[i]
	}
	if !same {
		s.c.Fail("c02/fed-fact/subs", fmt.Sprintf("box %s was built from %d sub-transactions, types.GetBox decodes %d (or different ones)", tx.Hash().Hex(), len(rec), len(decoded)), nil)
	}
	return rec
}

// ---- ex --------------------------------------------------------------------------------------

func (s *c02State) sawAccepted(h common.Hash) { s.con().accepted[h] = true }

func (s *c02State) exFact(h common.Hash, exists bool) {
	if exists && !s.con().accepted[h] {
		s.c.Fail("c02/fed-fact/ex", fmt.Sprintf("IsExistByHash(%s) is true but the harness never saw this hash accepted", h.Hex()), nil)
	}
}

// ---- dep -------------------------------------------------------------------------------------

// Own schedule constants of the campaign (T = 12, I = 4): the deputies of signer term k sign from height k*T+I+1 on;
// the list of term k >= 1 is the ranking at the PARENT of snapshot block k*T.
func c02SignerTerm(h, T, I uint32) uint32 {
	if h < T+I+1 {
		return 0
	}
	return (h - I - 1) / T
}

func (s *c02State) noteCandidateStep(kind string, idx int, height uint32) {
	c := s.con()
	switch kind {
	case "register":
		c.regHeight[idx] = height
	case "resign":
		c.resignHeight[idx] = height
	}
}

// wantDeputies: expected size and member set (miner addresses) of the list governing height h. ok=false when the
// harness has no ground truth for it (probes, or a term whose snapshot block the chain has not reached).
func (s *c02State) wantDeputies(h uint32, cands []*ecdsa.PrivateKey) (members map[common.Address]bool, order []common.Address, ok bool) {
	c := s.con()
	if !c.campaign {
		return nil, nil, false
	}
	T, I := params.TermDuration, params.InterimDuration
	k := c02SignerTerm(h, T, I)
	members = map[common.Address]bool{}
	for i := 0; i < c.genesisDeps; i++ {
		members[keyAddr(s.w.DeputyKeys[i])] = true
	}
	if k == 0 {
		for i := 0; i < c.genesisDeps; i++ {
			order = append(order, keyAddr(s.w.DeputyKeys[i])) // genesis order = rank order
		}
		return members, order, true
	}
	cut := k*T - 1 // the ranking the snapshot block k*T was sealed from
	type cd struct {
		a   common.Address
		dep int
	}
	var in []cd
	for i, ck := range cands {
		rh, reg := c.regHeight[i]
		if !reg || rh > cut {
			continue
		}
		if qh, q := c.resignHeight[i]; q && qh <= cut {
			continue
		}
		members[keyAddr(ck)] = true
		in = append(in, cd{keyAddr(ck), 5000000 + 500000*i})
	}
	sort.Slice(in, func(a, b int) bool { return in[a].dep > in[b].dep })
	for _, x := range in {
		order = append(order, x.a) // the candidates, by deposit, rank above the genesis deputies (no votes)
	}
	return members, order, true
}

// depFact cross-checks the manager's list for height h with the generator's.
func (s *c02State) depFact(h uint32, got types.DeputyNodes, cands []*ecdsa.PrivateKey) {
	members, order, ok := s.wantDeputies(h, cands)
	if !ok || len(got) == 0 { // an unknown term (no stable snapshot yet) is the engine's honest answer
		return
	}
	want := len(members)
	if s.con().seats > 0 && want > s.con().seats {
		want = s.con().seats // more candidates than seats: the top `seats` of the ranking (which genesis deputy drops out is the ranking's tie-break, not known here)
	}
	bad := len(got) != want
	for _, d := range got {
		if !members[d.MinerAddress] {
			bad = true
		}
	}
	for i, a := range order {
		if i < len(got) && got[i].MinerAddress != a {
			bad = true
		}
	}
	if bad {
		var gs []string
		for _, d := range got {
			gs = append(gs, d.MinerAddress.String()[:12])
		}
		s.c.Fail("c02/fed-fact/dep", fmt.Sprintf("Manager.GetDeputiesByHeight(%d) returns %d deputies %v; by the harness' own schedule (signer term %d), candidate life cycle and seat count the list has %d of %d candidates, the first %d in a known order", h, len(got), gs, c02SignerTerm(h, params.TermDuration, params.InterimDuration), want, len(members), len(order)), nil)
	}
}

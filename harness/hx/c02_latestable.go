package main

// c02_latestable.go — family (I): a LONG unstable tail, a LATE stable advance, then a fork block below the head.
//
//	S ── B1[T] ── B2 ── B3            B3 is stamped ~40 minutes of block time after B1, nothing is confirmed
//	               └─── B3'[T]        (the node is an observer)
//
// A confirm packet then makes B1 stable while the head is B3 (onStableChanged prunes the replay guard), and a fork
// block B3' — child of B2, mined by the deputy in turn at its stamp, stamped inside T's lifetime — carries T again.
// T sits in B3's ancestor B1, at most 1800 s older than B3': the block must be rejected (clause `not a replay`),
// whatever the guard has forgotten meanwhile. Controls: the same fork block with a fresh tx is accepted; the
// replay of T directly on the head is rejected too. The verdicts go through runCase like every other case
// (model op line `ins`, spec clause by the harness's own ancestor walk, reject-side-effect fingerprint).

import (
	"fmt"

	"github.com/LemoFoundationLtd/lemochain-core/chain/deputynode"
	"github.com/LemoFoundationLtd/lemochain-core/chain/params"
	"github.com/LemoFoundationLtd/lemochain-core/chain/types"
)

func c02LateStableFamily(c *Ctx) {
	oldT, oldI := params.TermDuration, params.InterimDuration
	params.TermDuration, params.InterimDuration = 1000000, 1000
	defer func() { params.TermDuration, params.InterimDuration = oldT, oldI }()
	s := c02NewState(c, 3)
	defer func() { Safe(func() string { s.n.Close(); return "" }) }()
	n, w := s.n, s.w
	c.Op(fmt.Sprintf("params %d %d %d", params.TermDuration, params.InterimDuration, w.Timeout), "ok")
	observer := detKey("c02-observer")
	parent := n.BC.CurrentBlock()
	t := parent.Time() + 1
	mkTx := func(tag string, exp uint64) *types.Transaction {
		s.txSeq++
		return txTransfer(w.FounderKey, keyAddr(s.users[s.txSeq%3]), lemo(int64(100+s.txSeq)), TxOpt{Exp: exp, Msg: fmt.Sprintf("ls-%s-%d", tag, s.txSeq)})
	}
	// an honest unconfirmed block on `on` at time tm, accepted by the observer node
	honest := func(on *types.Block, tm uint32, txs types.Transactions, label string) *types.Block {
		blk, _, err := s.build(on, tm, txs, nil)
		if err != nil || len(blk.Txs) != len(txs) {
			c.Count("latestable:cannot-build:" + label)
			return nil
		}
		deputynode.SetSelfNodeKey(observer)
		if v := s.runCase(blk, "latestable:"+label, true, txs); v != "ok" {
			c.Count("latestable:honest-not-accepted:" + label)
			return nil
		}
		return blk
	}
	confirm := func(b *types.Block) bool {
		var sigs []types.SignData
		for _, k := range w.DeputyKeys {
			if keyAddr(k) != b.MinerAddress() {
				sigs = append(sigs, Confirm(b, k))
			}
		}
		deputynode.SetSelfNodeKey(observer)
		res := Safe(func() string {
			n.BC.InsertConfirms(b.Height(), b.Hash(), sigs)
			return "ok"
		})
		return res == "ok" && n.BC.StableBlock().Hash() == b.Hash()
	}
	rounds := 4
	if c.Tier == "thorough" {
		rounds = 25
	}
	for r := 0; r < rounds; r++ {
		t1 := t
		T := mkTx("T", uint64(t1)+1700+uint64(c.Rnd.Intn(100)))
		b1 := honest(parent, t1, types.Transactions{T, mkTx("fill", uint64(t1)+600)}, "B1-with-T")
		if b1 == nil {
			return
		}
		t2 := t1 + 5 + uint32(c.Rnd.Intn(20))
		b2 := honest(b1, t2, nil, "B2")
		if b2 == nil {
			return
		}
		// the head runs far ahead in block time: 31..45 minutes after B1, in one or two steps
		gap := uint32(1860 + c.Rnd.Intn(840))
		b3 := honest(b2, t1+gap, types.Transactions{mkTx("late", uint64(t1+gap)+600)}, "B3-far-ahead")
		if b3 == nil {
			return
		}
		head := b3
		if c.Rnd.Intn(2) == 0 {
			if b4 := honest(b3, b3.Time()+3+uint32(c.Rnd.Intn(30)), nil, "B4"); b4 != nil {
				head = b4
			}
		}
		if n.BC.StableBlock().Height() >= b1.Height() {
			c.Count("latestable:already-stable")
			return
		}
		if !confirm(b1) {
			c.Count("latestable:late-confirm-did-not-stabilise")
			return
		}
		if n.BC.CurrentBlock().Hash() != head.Hash() {
			c.Fail("c02/latestable/head", fmt.Sprintf("after the late confirm of block %d the head is %s, not %s", b1.Height(), n.BC.CurrentBlock().ShortString(), head.ShortString()), nil)
			return
		}
		c.Count("nontrivial:latestable:stable-advanced-with-head-more-than-30min-ahead")
		seq := fmt.Sprintf(" [sequence: T (exp %d) in block %d at time %d, empty block %d, block %d stamped %d s later, nothing confirmed; late confirm packet makes block %d stable with the head at %d; fork block on block %d]",
			T.Expiration(), b1.Height(), t1, b2.Height(), b3.Height(), gap, b1.Height(), head.Height(), b2.Height())
		// the fork block below the head, stamped inside T's lifetime
		tf := t2 + 1 + uint32(c.Rnd.Intn(int(uint32(T.Expiration())-t2)))
		offer := func(label string, on *types.Block, tm uint32, txs types.Transactions) {
			blk, _, err := s.build(on, tm, txs, nil)
			if err != nil || len(blk.Txs) != len(txs) {
				c.Count("latestable:miner-dropped:" + label)
				return
			}
			deputynode.SetSelfNodeKey(observer)
			c.Count("latestable:" + label)
			s.runCase(blk, "latestable:"+label+seq, false, txs)
		}
		offer("control-fork-block-with-fresh-tx", b2, tf, types.Transactions{mkTx("fresh", uint64(tf)+300)})
		offer("replay-of-ancestor-tx-on-fork-below-head", b2, tf+1, types.Transactions{T})
		offer("replay-of-ancestor-tx-on-fork-among-fresh", b2, tf+2, types.Transactions{mkTx("fresh2", uint64(tf)+300), T})
		offer("replay-inside-box-on-fork-below-head", b2, tf+3, types.Transactions{s.box(w.FounderKey, types.Transactions{T}, TxOpt{Exp: T.Expiration(), Msg: fmt.Sprintf("ls-box-%d", s.txSeq)})})
		// go on from a stable head
		cur := n.BC.CurrentBlock()
		if !confirm(cur) {
			c.Count("latestable:cannot-stabilise-head")
			return
		}
		parent = cur
		t = cur.Time() + 5 + uint32(c.Rnd.Intn(10))
	}
}

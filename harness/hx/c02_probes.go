package main

// C02 — probes outside the mutation campaign (review follow-up):
//   (E) save-fault: a VALID block whose saveNewBlock fails in the middle (storage fault injected by
//       turning <datadir>/tmp.data into a non-empty directory, so that the FileQueue cannot write when the
//       block becomes stable). InsertBlock then returns ErrSaveBlock AFTER SetBlock / am.Save /
//       txGuard.SaveBlock have run. The probe records which parts of the fingerprint moved.
//   (F) concurrent delivery of one valid block by two goroutines (isIgnorableBlock runs outside chainLock).

import (
	"crypto/ecdsa"
	"fmt"
	"math/big"
	"os"
	"path/filepath"
	"sort"
	"strings"
	"sync"
	"time"

	"github.com/LemoFoundationLtd/lemochain-core/chain/account"
	"github.com/LemoFoundationLtd/lemochain-core/chain/consensus"
	"github.com/LemoFoundationLtd/lemochain-core/chain/deputynode"
	"github.com/LemoFoundationLtd/lemochain-core/chain/params"
	"github.com/LemoFoundationLtd/lemochain-core/chain/types"
	"github.com/LemoFoundationLtd/lemochain-core/common"
)

// c02AcceptHook: the current state's record of accepted hashes (set by c02NewStateN).
var c02AcceptHook func(common.Hash)

// c02IgnoredHook: by-construction check of an `ignored` answer outside runCase (set by c02NewStateN).
var c02IgnoredHook func(*types.Block)

func c02InsertVerdict(n *Node, b *types.Block) (string, string) {
	consensus.VerifSetSigCache(common.Hash{}, nil) // see runCase: one process, several identities
	return SafeMsg(func() string {
		err := n.Insert(CloneBlock(b))
		switch err {
		case nil:
			if c02AcceptHook != nil {
				c02AcceptHook(b.Hash())
			}
			return "ok"
		case consensus.ErrIgnoreBlock:
			if c02IgnoredHook != nil {
				c02IgnoredHook(b)
			}
			return "ignored"
		case consensus.ErrVerifyBlockFailed:
			return "reject"
		case consensus.ErrSaveBlock:
			return "save-error:ErrSaveBlock"
		case consensus.ErrSaveAccount:
			return "save-error:ErrSaveAccount"
		}
		return "error:" + err.Error()
	})
}

func c02SaveFaultProbe(c *Ctx) {
	oldT, oldI := params.TermDuration, params.InterimDuration
	params.TermDuration, params.InterimDuration = 12, 4
	defer func() { params.TermDuration, params.InterimDuration = oldT, oldI }()
	s := c02NewState(c, 3)
	defer func() { Safe(func() string { s.n.Close(); return "" }) }()
	n, w := s.n, s.w
	observer := detKey("c02-observer")
	// two ordinary blocks first
	parent := n.BC.CurrentBlock()
	t := parent.Time() + 1
	for i := 0; i < 2; i++ {
		s.txSeq++
		txs := types.Transactions{txTransfer(w.FounderKey, keyAddr(s.users[0]), lemo(1000), TxOpt{Exp: uint64(t) + 60, Msg: fmt.Sprintf("sf-%d", s.txSeq)})}
		blk, _, err := s.build(parent, t, txs, nil)
		if err != nil {
			c.Fail("c02/harness/build", "save-fault probe: "+err.Error(), nil)
			return
		}
		for _, k := range w.DeputyKeys {
			if keyAddr(k) != blk.MinerAddress() {
				blk.Confirms = append(blk.Confirms, Confirm(blk, k))
			}
		}
		deputynode.SetSelfNodeKey(observer)
		if v, _ := c02InsertVerdict(n, blk); v != "ok" {
			c.Fail("c02/harness/build", "save-fault probe: setup block not accepted: "+v, nil)
			return
		}
		parent = blk
		t += 10
	}
	// the victim: a valid block with enough confirms to become stable on arrival
	s.txSeq++
	txs := types.Transactions{txTransfer(w.FounderKey, keyAddr(s.users[1]), lemo(500), TxOpt{Exp: uint64(t) + 60, Msg: fmt.Sprintf("sf-%d", s.txSeq)})}
	blk, _, err := s.build(parent, t, txs, nil)
	if err != nil {
		c.Fail("c02/harness/build", "save-fault probe: "+err.Error(), nil)
		return
	}
	for _, k := range w.DeputyKeys {
		if keyAddr(k) != blk.MinerAddress() {
			blk.Confirms = append(blk.Confirms, Confirm(blk, k))
		}
	}
	deputynode.SetSelfNodeKey(observer)
	n.Pool.AddTx(blk.Txs[0])
	// inject the fault
	tmp := filepath.Join(n.DB.Beansdb.Queue.Home, "tmp.data")
	os.Remove(tmp)
	if err := os.MkdirAll(filepath.Join(tmp, "x"), 0755); err != nil {
		c.Count("save-fault:cannot-inject")
		return
	}
	// op line for the model: same facts as any other case + `sv=fail` (the save returns an error)
	c.Op(fmt.Sprintf("params %d %d %d", params.TermDuration, params.InterimDuration, w.Timeout), "ok")
	ex := s.reexec(CloneBlock(blk))
	facts := s.facts(CloneBlock(blk), time.Now().Unix(), ex)
	before := s.fingerprint(blk.Hash(), blk.Txs)
	v, msg := c02InsertVerdict(n, blk)
	after := s.fingerprint(blk.Hash(), blk.Txs)
	os.RemoveAll(tmp)
	c.Op("ins "+facts+" sv=fail", strings.SplitN(v, ":", 2)[0]+" pre=ok")
	moved := c02FpDiff(before, after)
	c.Count("save-fault:verdict:" + v)
	for _, k := range moved {
		c.Count("save-fault:moved:" + k)
	}
	if strings.HasPrefix(v, "save-error") || v == "panic" {
		if len(moved) > 0 {
			c.Fail("c02/save-error-leaves-state/"+moved[0],
				fmt.Sprintf("InsertBlock returned %s (%s) for a valid block after a storage fault, and %v differ from the state before the call: before=%v after=%v", v, msg, moved, c02Pick(before, moved), c02Pick(after, moved)),
				map[string]interface{}{"verdict": v, "moved": moved})
		}
	}
	// the same block again after the fault is gone: does the node recover?
	hook := c02IgnoredHook
	c02IgnoredHook = nil // the half-saved block being ignored on redelivery IS the finding c02/save-error-block-stuck
	v2, _ := c02InsertVerdict(n, blk)
	c02IgnoredHook = hook
	c.Count("save-fault:redelivery:" + v2)
	after2 := s.fingerprint(blk.Hash(), blk.Txs)
	if strings.HasPrefix(v, "save-error") && after2["current"] != blk.Hash().Hex() && after2["stable"] != blk.Hash().Hex() {
		c.Fail("c02/save-error-block-stuck",
			fmt.Sprintf("after a failed save (%s) the valid block is stored (HasBlock=%s) but is neither head nor stable, and redelivery says %q: the node cannot adopt it any more", v, after2["has-block"], v2),
			map[string]interface{}{"verdict": v, "redelivery": v2})
	}
}

func c02Pick(m map[string]string, keys []string) map[string]string {
	out := map[string]string{}
	for _, k := range keys {
		out[k] = m[k]
	}
	return out
}

func c02ConcurrentProbe(c *Ctx) {
	oldT, oldI := params.TermDuration, params.InterimDuration
	params.TermDuration, params.InterimDuration = 12, 4
	defer func() { params.TermDuration, params.InterimDuration = oldT, oldI }()
	s := c02NewState(c, 3)
	defer func() { Safe(func() string { s.n.Close(); return "" }) }()
	n, w := s.n, s.w
	deputynode.SetSelfNodeKey(detKey("c02-observer"))
	parent := n.BC.CurrentBlock()
	t := parent.Time() + 1
	rounds := 30
	if c.Tier == "thorough" {
		rounds = 150
	}
	for i := 0; i < rounds; i++ {
		s.txSeq++
		txs := types.Transactions{txTransfer(w.FounderKey, keyAddr(s.users[i%3]), lemo(10), TxOpt{Exp: uint64(t) + 60, Msg: fmt.Sprintf("cc-%d", s.txSeq)})}
		blk, _, err := s.build(parent, t, txs, nil)
		if err != nil {
			c.Fail("c02/harness/build", "concurrent probe: "+err.Error(), nil)
			return
		}
		if i%2 == 0 {
			for _, k := range w.DeputyKeys {
				if keyAddr(k) != blk.MinerAddress() {
					blk.Confirms = append(blk.Confirms, Confirm(blk, k))
				}
			}
		}
		deputynode.SetSelfNodeKey(detKey("c02-observer"))
		var wg sync.WaitGroup
		res := make([]string, 3)
		// the by-construction `ignored` check reads the harness's record of accepted hashes, which the WINNING delivery
		// updates only after its InsertBlock has returned: a loser that returns `ignored` in between would be judged
		// against a record that is not yet written (a false alarm seen once in 80 runs). Here the ok-count below
		// (exactly one of the three deliveries is accepted) is the by-construction check.
		ihook := c02IgnoredHook
		c02IgnoredHook = nil
		for g := range res {
			wg.Add(1)
			go func(g int) {
				defer wg.Done()
				res[g], _ = c02InsertVerdict(n, blk)
			}(g)
		}
		wg.Wait()
		c02IgnoredHook = ihook
		sort.Strings(res)
		key := strings.Join(res, "+")
		c.Count("concurrent:" + key)
		oks := 0
		for _, r := range res {
			if r == "ok" {
				oks++
			}
			if r == "panic" {
				c.Fail("c02/panic/concurrent-insert", "concurrent delivery of one valid block panicked: "+key, nil)
			}
		}
		if oks != 1 {
			c.Fail("c02/concurrent-insert/ok-count", fmt.Sprintf("%d of 3 concurrent deliveries of one valid block returned ok: %s", oks, key), nil)
		}
		if cur := n.BC.CurrentBlock(); cur.Hash() != blk.Hash() {
			c.Fail("c02/concurrent-insert/head", fmt.Sprintf("after concurrent delivery the head is %s, not the delivered block (%s)", cur.ShortString(), key), nil)
		}
		cnt := 0
		n.DB.IterateUnConfirms(func(b *types.Block) {
			if b.Hash() == blk.Hash() {
				cnt++
			}
		})
		if cnt > 1 {
			c.Fail("c02/concurrent-insert/stored-twice", "the block sits twice in the unconfirmed tree", nil)
		}
		parent = blk
		t += 10
	}
}

// ---------------------------------------------------------------------------------------------
// independent well-formedness (review M4): the harness' OWN reading of the non-expiry rules of the property
// ("every transaction is well-formed"), never calling VerifyTxBody. Returns "" or the broken rule.
// ---------------------------------------------------------------------------------------------

func c02TxWellFormed(tx *types.Transaction) string {
	if tx.ChainID() != nodeChainID {
		return "chain-id"
	}
	if tx.Amount() != nil && tx.Amount().Sign() < 0 {
		return "negative-amount"
	}
	if name := tx.ToName(); len(name) > 0 {
		if len(name) > 100 {
			return "to-name-length"
		}
		for _, r := range name {
			if !(r >= 'a' && r <= 'z' || r >= 'A' && r <= 'Z' || r >= '0' && r <= '9' || r == '_' || r == '-' || r == '.') {
				return "to-name-character"
			}
		}
	}
	if len(tx.Message()) > 1024 {
		return "message-length"
	}
	needData, needTo, known := false, false, true
	switch tx.Type() {
	case params.OrdinaryTx, params.VoteTx:
		needTo = true
	case params.IssueAssetTx, params.ReplenishAssetTx, params.TransferAssetTx, params.ModifySignersTx:
		needData, needTo = true, true
	case params.CreateContractTx, params.RegisterTx, params.CreateAssetTx, params.ModifyAssetTx, params.BoxTx:
		needData = true
	default:
		known = false
	}
	if !known {
		return "tx-type"
	}
	if needData && len(tx.Data()) == 0 {
		return "data-missing"
	}
	if needTo != (tx.To() != nil) {
		return "to-presence"
	}
	if tx.Type() == params.BoxTx {
		box, err := types.GetBox(tx.Data())
		if err != nil {
			return "box-data"
		}
		seenSub := map[common.Hash]bool{}
		for _, sub := range box.SubTxList {
			if sub == nil {
				return "box-nil-sub"
			}
			// since /repo 786852c a box must not carry the same sub transaction twice (checkBoxTx)
			if seenSub[sub.Hash()] {
				return "box-repeats-sub"
			}
			seenSub[sub.Hash()] = true
			if sub.Type() == params.BoxTx {
				return "box-in-box"
			}
			if sub.Expiration() < tx.Expiration() {
				return "box-sub-expires-before-box"
			}
			if why := c02TxWellFormed(sub); why != "" {
				return "box-sub:" + why
			}
		}
	}
	if tx.Type() == params.CreateAssetTx {
		// the asset rules (category / divisible / replenishable) are not re-implemented: no such tx in this campaign
		if asset, err := types.GetAsset(tx.Data()); err != nil || asset.VerifyAsset() != nil {
			return "asset"
		}
	}
	return ""
}

// malformedFamily: blocks assembled by the MINER path (which does not call VerifyTxBody) around one tx that
// breaks exactly one well-formedness rule: fully consistent roots, signed in turn, so only verifyTxs can reject them.
func (s *c02State) malformedFamily(parent *types.Block, t uint32, txs types.Transactions, probe types.Transactions) int {
	c, w := s.c, s.w
	s.txSeq++
	exp := uint64(t) + 60
	to := keyAddr(s.users[1])
	mk := func(name string) *types.Transaction {
		msg := fmt.Sprintf("mf-%d", s.txSeq)
		switch name {
		case "chain-id":
			return signTx(types.NewTransaction(keyAddr(w.FounderKey), to, lemo(3), 2000000, oneGwei, nil, params.OrdinaryTx, nodeChainID+1, exp, "", msg), w.FounderKey)
		case "message-length":
			return signTx(types.NewTransaction(keyAddr(w.FounderKey), to, lemo(3), 3000000, oneGwei, nil, params.OrdinaryTx, nodeChainID, exp, "", strings.Repeat("m", 1025)), w.FounderKey)
		case "message-length-ok":
			return signTx(types.NewTransaction(keyAddr(w.FounderKey), to, lemo(3), 3000000, oneGwei, nil, params.OrdinaryTx, nodeChainID, exp, "", strings.Repeat("m", 1000)+msg), w.FounderKey)
		case "to-name-character":
			return signTx(types.NewTransaction(keyAddr(w.FounderKey), to, lemo(3), 2000000, oneGwei, nil, params.OrdinaryTx, nodeChainID, exp, "bad name!", msg), w.FounderKey)
		case "to-name-length":
			return signTx(types.NewTransaction(keyAddr(w.FounderKey), to, lemo(3), 2000000, oneGwei, nil, params.OrdinaryTx, nodeChainID, exp, strings.Repeat("n", 101), msg), w.FounderKey)
		case "to-name-ok":
			return signTx(types.NewTransaction(keyAddr(w.FounderKey), to, lemo(3), 2000000, oneGwei, nil, params.OrdinaryTx, nodeChainID, exp, "good.name-1_"+fmt.Sprint(s.txSeq), msg), w.FounderKey)
		case "to-presence":
			return signTx(types.NoReceiverTransaction(keyAddr(w.FounderKey), big.NewInt(0), 2000000, oneGwei, nil, params.OrdinaryTx, nodeChainID, exp, "", msg), w.FounderKey)
		case "vote-without-to":
			return signTx(types.NoReceiverTransaction(keyAddr(w.FounderKey), big.NewInt(0), 2000000, oneGwei, nil, params.VoteTx, nodeChainID, exp, "", msg), w.FounderKey)
		case "data-missing":
			return signTx(types.NewTransaction(keyAddr(w.FounderKey), to, big.NewInt(0), 2000000, oneGwei, nil, params.ModifySignersTx, nodeChainID, exp, "", msg), w.FounderKey)
		case "box-sub-chain-id":
			sub := signTx(types.NewTransaction(keyAddr(w.FounderKey), to, lemo(1), 2000000, oneGwei, nil, params.OrdinaryTx, nodeChainID+1, exp, "", msg), w.FounderKey)
			return s.box(w.FounderKey, types.Transactions{sub}, TxOpt{Exp: exp, Msg: msg + "-box"})
		}
		return nil
	}
	names := []string{"chain-id", "message-length", "message-length-ok", "to-name-character", "to-name-length", "to-name-ok", "to-presence", "vote-without-to", "data-missing", "box-sub-chain-id"}
	name := names[c.Rnd.Intn(len(names))]
	tx := Safe2(func() *types.Transaction { return mk(name) })
	if tx == nil {
		c.Count("miner-built-malformed:cannot-build:" + name)
		return 0
	}
	list := append(append(types.Transactions{}, txs...), tx)
	db, _, err := s.build(parent, t, list, nil)
	if err != nil {
		return 0
	}
	has := false
	for _, x := range db.Txs {
		if x.Hash() == tx.Hash() {
			has = true
		}
	}
	if !has {
		c.Count("miner-dropped-malformed:" + name)
		return 0
	}
	c.Count("miner-built-malformed:" + name)
	deputynode.SetSelfNodeKey(detKey("c02-observer"))
	s.runCase(db, "miner-built-malformed:"+name, false, probe)
	return 1
}

// Safe2 runs f and returns nil when it panics.
func Safe2(f func() *types.Transaction) (tx *types.Transaction) {
	defer func() {
		if r := recover(); r != nil {
			tx = nil
		}
	}()
	return f()
}

// candidateStep returns the next transaction of the candidates' life cycle, read from the account state at
// `parent`: fund -> register (deposit 5,000,000 LEMO => top of the ranking) during term 0; candidate 0 resigns
// during term 1. At most one step per block.
func (s *c02State) candidateStep(parent *types.Block, cands []*ecdsa.PrivateKey, t uint32) (*types.Transaction, string, int) {
	h := parent.Height() + 1
	if h < 2 {
		return nil, "", 0
	}
	am := account.NewManager(parent.Hash(), s.n.DB)
	opt := func(m string) TxOpt {
		s.txSeq++
		return TxOpt{Exp: uint64(t) + 600, Msg: fmt.Sprintf("cand-%s-%d", m, s.txSeq)}
	}
	for i, k := range cands {
		acc := am.GetAccount(keyAddr(k))
		isCand := acc.GetCandidateState(types.CandidateKeyIsCandidate)
		switch {
		case acc.GetBalance().Sign() == 0 && isCand == "" && h < params.TermDuration-2:
			s.c.Count("cand:fund")
			return txTransfer(s.w.FounderKey, keyAddr(k), lemo(int64(6000000+1000000*int64(i))), opt("fund")), "fund", i
		case acc.GetBalance().Cmp(lemo(5000000)) > 0 && isCand == "" && h < params.TermDuration-1:
			s.c.Count("cand:register")
			return txRegister(k, lemo(int64(5000000+500000*int64(i))), k, false, nil, opt("reg")), "register", i
		case i == 0 && isCand == types.IsCandidateNode && h > params.TermDuration+params.InterimDuration+2 && h < 2*params.TermDuration-1:
			s.c.Count("cand:resign")
			return txRegister(k, big.NewInt(0), k, true, nil, opt("unreg")), "resign", i
		}
	}
	return nil, "", 0
}

// c02SubsNearBox: the fed flag is VerifyTxBody(chainID, timestamp := tx.Expiration()), so for a box it also
// contains "every sub-tx expires at most 1800 s after the BOX" (an artefact of the feeding trick; the window
// against the block time is modelled separately through Tx.subExps).
func c02SubsNearBox(tx *types.Transaction) bool {
	if tx.Type() != params.BoxTx {
		return true
	}
	box, err := types.GetBox(tx.Data())
	if err != nil {
		return true
	}
	for _, sub := range box.SubTxList {
		if sub != nil && sub.Expiration() > tx.Expiration()+1800 {
			return false
		}
	}
	return true
}

// ---------------------------------------------------------------------------------------------
// (G) deputy identity (review M2): nothing checks that the node ids (or miner addresses) of a deputy list are
// pairwise different. Miner addresses are unique by construction (the ranking is keyed by the candidate's
// account address); node ids are free text of the register transaction. The probe registers a candidate X
// with the NODE ID OF GENESIS DEPUTY D0 and a deposit that outranks D0, runs into term 1 and observes.
// ---------------------------------------------------------------------------------------------

func c02DuplicateNodeIDProbe(c *Ctx) {
	oldT, oldI := params.TermDuration, params.InterimDuration
	params.TermDuration, params.InterimDuration = 12, 4
	defer func() { params.TermDuration, params.InterimDuration = oldT, oldI }()
	s := c02NewStateN(c, 3, 5)
	defer func() { Safe(func() string { s.n.Close(); return "" }) }()
	n, w := s.n, s.w
	observer := detKey("c02-observer")
	xk := detKey("c02-squatter")
	d0 := w.DeputyKeys[0]
	parent := n.BC.CurrentBlock()
	t := parent.Time() + 1
	step := func(txs types.Transactions, key *ecdsa.PrivateKey) (string, *types.Block) {
		blk, _, err := s.build(parent, t, txs, key)
		if err != nil {
			return "build:" + err.Error(), nil
		}
		for _, k := range w.DeputyKeys {
			blk.Confirms = append(blk.Confirms, Confirm(blk, k))
		}
		deputynode.SetSelfNodeKey(observer)
		v, _ := c02InsertVerdict(n, blk)
		return v, blk
	}
	for h := uint32(1); h <= params.TermDuration+params.InterimDuration; h++ {
		var txs types.Transactions
		switch h {
		case 2:
			txs = append(txs, txTransfer(w.FounderKey, keyAddr(xk), lemo(9000000), TxOpt{Exp: uint64(t) + 60, Msg: "fund-squatter"}))
		case 3:
			txs = append(txs, txRegister(xk, lemo(8000000), d0, false, nil, TxOpt{Exp: uint64(t) + 60, Msg: "register-d0-node-id"}))
		}
		v, blk := step(txs, nil)
		if v != "ok" {
			c.Count("dup-node-id:setup-failed:" + v)
			return
		}
		parent = blk
		t += 10
	}
	h := parent.Height() + 1 // first height of term 1
	deps := n.DM.GetDeputiesByHeight(h, true)
	firstByID := map[string]int{}
	dupRank, firstRank := -1, -1
	for i, d := range deps {
		if j, ok := firstByID[string(d.NodeID)]; ok {
			dupRank, firstRank = i, j
		} else {
			firstByID[string(d.NodeID)] = i
		}
	}
	if dupRank < 0 {
		c.Count("dup-node-id:not-reproduced")
		return
	}
	c.Count("dup-node-id:two-deputies-share-a-node-id")
	deputynode.SetSelfNodeKey(d0)
	mine, _ := n.DM.GetMyMinerAddress(h)
	deputynode.SetSelfNodeKey(observer)
	// D0 signs a block that names ITS OWN address, in the slot of its own rank
	var own string
	slot := uint32(w.Timeout / 1000)
	for d := uint32(1); d <= uint32(len(deps)); d++ {
		tt := parent.Time() + slot*(d-1) + 1
		addr, err := consensus.GetCorrectMiner(parent.Header, int64(tt)*1000, int64(w.Timeout), n.DM)
		if err != nil || addr != keyAddr(d0) {
			continue
		}
		blk, _, err := s.build(parent, tt, nil, d0) // PrepareHeader names whatever GetMyMinerAddress says
		if err != nil {
			own = "build:" + err.Error()
			break
		}
		named := blk.MinerAddress()
		v1, _ := c02InsertVerdict(n, blk)
		m := CloneBlock(blk)
		m.Header.MinerAddress = keyAddr(d0)
		s.resign(m, d0)
		v2, _ := c02InsertVerdict(n, m)
		own = fmt.Sprintf("D0's node builds a block naming %s as miner (its own address is %s): %s; the same block naming D0's own address: %s", named.String(), keyAddr(d0).String(), v1, v2)
	}
	// ... and in the SQUATTER's slot, where D0's unsuspecting node mines for the squatter
	squat := "not tried"
	for d := uint32(1); d <= uint32(len(deps)); d++ {
		tt := parent.Time() + slot*(d-1) + 1
		addr, err := consensus.GetCorrectMiner(parent.Header, int64(tt)*1000, int64(w.Timeout), n.DM)
		if err != nil || addr != keyAddr(xk) {
			continue
		}
		if blk, _, err := s.build(parent, tt, nil, d0); err == nil {
			v, _ := c02InsertVerdict(n, blk)
			squat = fmt.Sprintf("block signed by D0's node key naming %s: %s", blk.MinerAddress().String(), v)
		}
	}
	own += "; in the squatter's slot: " + squat
	c.Fail("c02/deputy-identity/duplicate-node-id",
		fmt.Sprintf("term 1 has two deputies with the same node id: rank %d miner %s (squatter, registered D0's node id with a larger deposit) and rank %d miner %s (D0). GetDeputyByNodeID returns the first: D0's node now believes its miner address is %s, so every block it mines pays the squatter; in its own slot: %s",
			firstRank, deps[firstRank].MinerAddress.String(), dupRank, deps[dupRank].MinerAddress.String(), mine.String(), own),
		map[string]interface{}{"witness": "h2: founder -> X 9,000,000 LEMO; h3: X registers as candidate with nodeID = node id of genesis deputy D0, deposit 8,000,000; term 1 (height 17) lists X and D0 with the same node id"})
}

// ---------------------------------------------------------------------------------------------
// independent ancestor walk (replaces the guard's answer as the model's `anc` input)
// ---------------------------------------------------------------------------------------------

type c02BlockInfo struct {
	parent common.Hash
	time   uint32
	height uint32
	txs    map[common.Hash]bool // tx hashes and box sub-tx hashes
}

func c02TxHashes(txs types.Transactions) []common.Hash {
	var out []common.Hash
	for _, tx := range txs {
		out = append(out, tx.Hash())
		if tx.Type() == params.BoxTx {
			if box, err := types.GetBox(tx.Data()); err == nil {
				for _, sub := range box.SubTxList {
					if sub != nil {
						out = append(out, sub.Hash())
					}
				}
			}
		}
	}
	return out
}

func (s *c02State) info(h common.Hash) *c02BlockInfo {
	if s.binfo == nil {
		s.binfo = map[common.Hash]*c02BlockInfo{}
	}
	if bi, ok := s.binfo[h]; ok {
		return bi
	}
	b, err := s.n.DB.GetBlockByHash(h)
	if err != nil {
		return nil
	}
	bi := &c02BlockInfo{parent: b.ParentHash(), time: b.Time(), height: b.Height(), txs: map[common.Hash]bool{}}
	for _, x := range c02TxHashes(b.Txs) {
		bi.txs[x] = true
	}
	s.binfo[h] = bi
	return bi
}

// ancOwn: does a tx (or box sub-tx) of b sit in b's parent or in one of its ancestors that is at most 1800 s older
// than b (an older one can only hold transactions that are expired at b's time)? Walks the parent links of the STORE.
func (s *c02State) ancOwn(b *types.Block) (bool, common.Hash) {
	mine := c02TxHashes(b.Txs)
	if len(mine) == 0 {
		return false, common.Hash{}
	}
	cur := b.ParentHash()
	for steps := 0; steps < 5000; steps++ {
		bi := s.info(cur)
		if bi == nil || uint64(bi.time)+1800 < uint64(b.Time()) {
			break
		}
		for _, x := range mine {
			if bi.txs[x] {
				return true, x
			}
		}
		if bi.height == 0 {
			break
		}
		cur = bi.parent
	}
	return false, common.Hash{}
}

// ---------------------------------------------------------------------------------------------
// (H) restart family: tx blocks and EMPTY blocks interleaved, all stable; the node is stopped and reopened on
// the same database (the TxGuard is rebuilt by initTxPool); then the usual block classes against the restarted
// node, in particular replays of an ancestor's transaction with 0..3 empty blocks between that ancestor and the
// stable head, and replays of a transaction from an unstable ancestor added after the restart.
// ---------------------------------------------------------------------------------------------

func c02RestartFamily(c *Ctx) {
	oldT, oldI := params.TermDuration, params.InterimDuration
	params.TermDuration, params.InterimDuration = 1000000, 1000
	defer func() { params.TermDuration, params.InterimDuration = oldT, oldI }()
	s := c02NewState(c, 3)
	defer func() { Safe(func() string { s.n.Close(); return "" }) }()
	n, w := s.n, s.w
	c.Op(fmt.Sprintf("params %d %d %d", params.TermDuration, params.InterimDuration, w.Timeout), "ok")
	observer := detKey("c02-observer")
	muts := c02Muts()
	parent := n.BC.CurrentBlock()
	t := parent.Time() + 1
	// stable: an honest block with the confirms of all other deputies, inserted directly
	stable := func(txs types.Transactions) *types.Block {
		blk, _, err := s.build(parent, t, txs, nil)
		if err != nil {
			c.Fail("c02/harness/build", "restart family: "+err.Error(), nil)
			return nil
		}
		for _, k := range w.DeputyKeys {
			if keyAddr(k) != blk.MinerAddress() {
				blk.Confirms = append(blk.Confirms, Confirm(blk, k))
			}
		}
		deputynode.SetSelfNodeKey(observer)
		if v, _ := c02InsertVerdict(n, blk); v != "ok" {
			c.Fail("c02/harness/build", "restart family: setup block not accepted: "+v, nil)
			return nil
		}
		s.honestGL[blk.ParentHash()] = blk.GasLimit()
		s.honestDR[blk.ParentHash()] = fmt.Sprintf("%x", blk.DeputyRoot())
		parent = blk
		t += 5 + uint32(c.Rnd.Intn(10))
		return blk
	}
	mkTx := func(tag string) *types.Transaction {
		s.txSeq++
		return txTransfer(w.FounderKey, keyAddr(s.users[s.txSeq%3]), lemo(int64(100+s.txSeq)), TxOpt{Exp: uint64(t) + 1500, Msg: fmt.Sprintf("rs-%s-%d", tag, s.txSeq)})
	}
	offer := func(label string, txs types.Transactions, key *ecdsa.PrivateKey) string {
		blk, _, err := s.build(parent, t, txs, key)
		if err != nil {
			c.Count("restart:cannot-build")
			return ""
		}
		s.honestGL[blk.ParentHash()] = blk.GasLimit()
		s.honestDR[blk.ParentHash()] = fmt.Sprintf("%x", blk.DeputyRoot())
		if len(blk.Txs) != len(txs) {
			c.Count("restart:miner-dropped:" + strings.SplitN(label, " ", 2)[0])
			return ""
		}
		deputynode.SetSelfNodeKey(observer)
		c.Count("restart:" + strings.ReplaceAll(strings.SplitN(label, " [", 2)[0], " ", ":"))
		return s.runCase(blk, "restart:"+label, false, txs)
	}
	rounds := 8
	if c.Tier == "thorough" {
		rounds = 40
	}
	for r := 0; r < rounds; r++ {
		e := r % 4 // empty blocks between the tx block and the stable head
		older := mkTx("older")
		if stable(types.Transactions{older}) == nil {
			return
		}
		olderHeight := parent.Height()
		for i := 0; i < c.Rnd.Intn(2); i++ { // sometimes another tx block or empty block in front
			if stable(nil) == nil {
				return
			}
		}
		T := mkTx("T")
		if stable(types.Transactions{T, mkTx("fill")}) == nil {
			return
		}
		txHeight := parent.Height()
		for i := 0; i < e; i++ {
			if stable(nil) == nil {
				return
			}
		}
		stableHead := parent
		// control on the RUNNING node
		offer(fmt.Sprintf("control-replay-before-restart e=%d", e), types.Transactions{T}, nil)
		n.Reopen()
		s.binfo = nil
		c.Count("restart:reopened")
		if n.BC.CurrentBlock().Hash() != stableHead.Hash() {
			c.Fail("c02/restart/head", fmt.Sprintf("after the restart the head is %s, not the stable head %s", n.BC.CurrentBlock().ShortString(), stableHead.ShortString()), nil)
			return
		}
		parent = stableHead
		c.Count(fmt.Sprintf("restart:sequence:tx-block,%d-empty,stable-head,restart", e))
		seq := fmt.Sprintf(" [sequence: older tx in stable block %d, tx T in stable block %d, %d empty stable blocks, stable head %d, node closed and reopened on the same database, replay block at height %d]", olderHeight, txHeight, e, stableHead.Height(), stableHead.Height()+1)
		// the replays
		offer(fmt.Sprintf("replay-of-ancestor-tx e=%d", e)+seq, types.Transactions{T}, nil)
		offer(fmt.Sprintf("replay-of-ancestor-tx-among-fresh e=%d", e)+seq, types.Transactions{mkTx("fresh"), T}, nil)
		offer(fmt.Sprintf("replay-of-older-ancestor-tx e=%d", e)+seq, types.Transactions{older}, nil)
		offer(fmt.Sprintf("replay-inside-box e=%d", e)+seq, types.Transactions{s.box(w.FounderKey, types.Transactions{T}, TxOpt{Exp: T.Expiration(), Msg: fmt.Sprintf("rs-box-%d", s.txSeq)})}, nil)
		// a few ordinary mutants of an honest block against the restarted node
		fresh := mkTx("honest")
		if hb, _, err := s.build(parent, t, types.Transactions{fresh}, nil); err == nil {
			s.honestGL[hb.ParentHash()] = hb.GasLimit()
			s.honestDR[hb.ParentHash()] = fmt.Sprintf("%x", hb.DeputyRoot())
			hk := w.KeyOfMiner(hb.MinerAddress())
			for j := 0; j < 3; j++ {
				m := CloneBlock(hb)
				mu := muts[c.Rnd.Intn(len(muts))]
				if !mu.apply(s, m, hb) {
					continue
				}
				variant := c02Signers[c.Rnd.Intn(len(c02Signers))]
				if !s.sign(m, variant, hk) {
					variant = "keep"
				}
				deputynode.SetSelfNodeKey(observer)
				s.runCase(m, "restart:mutant "+mu.name+" signer="+variant, false, hb.Txs)
			}
			// the honest block itself, UNSTABLE (no confirms), then a replay of its tx on top of it
			deputynode.SetSelfNodeKey(observer)
			if v := s.runCase(hb, "restart:honest-after-restart", true, hb.Txs); v == "ok" {
				parent = hb
				t += 7
				offer(fmt.Sprintf("replay-of-unstable-ancestor-tx e=%d", e), types.Transactions{fresh}, nil)
				offer(fmt.Sprintf("replay-of-stable-ancestor-tx-over-unstable e=%d", e), types.Transactions{T}, nil)
				// go on from a stable block again
				if stable(nil) == nil {
					return
				}
			}
		}
	}
}

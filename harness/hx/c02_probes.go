package main

// C02 — probes outside the mutation campaign (review follow-up):
//   (E) save-fault: a VALID block whose saveNewBlock fails in the middle (storage fault injected by
//       turning <datadir>/tmp.data into a non-empty directory, so that the FileQueue cannot write when the
//       block becomes stable). InsertBlock then returns ErrSaveBlock AFTER SetBlock / am.Save /
//       txGuard.SaveBlock have run. The probe records which parts of the fingerprint moved.
//   (F) concurrent delivery of one valid block by two goroutines (isIgnorableBlock runs outside chainLock).

import (
	"fmt"
	"os"
	"path/filepath"
	"sort"
	"strings"
	"sync"

	"github.com/LemoFoundationLtd/lemochain-core/chain/consensus"
	"github.com/LemoFoundationLtd/lemochain-core/chain/deputynode"
	"github.com/LemoFoundationLtd/lemochain-core/chain/params"
	"github.com/LemoFoundationLtd/lemochain-core/chain/types"
)

func c02InsertVerdict(n *Node, b *types.Block) (string, string) {
	return SafeMsg(func() string {
		err := n.Insert(CloneBlock(b))
		switch err {
		case nil:
			return "ok"
		case consensus.ErrIgnoreBlock:
			return "ignored"
		case consensus.ErrVerifyBlockFailed:
			return "reject"
		case consensus.ErrSaveBlock:
			return "save-error:ErrSaveBlock"
		case consensus.ErrSaveAccount:
			return "save-error:ErrSaveAccount"
		}
		return "error:" + err.Error()
	})
}

func c02SaveFaultProbe(c *Ctx) {
	oldT, oldI := params.TermDuration, params.InterimDuration
	params.TermDuration, params.InterimDuration = 12, 4
	defer func() { params.TermDuration, params.InterimDuration = oldT, oldI }()
	s := c02NewState(c, 3)
	defer func() { Safe(func() string { s.n.Close(); return "" }) }()
	n, w := s.n, s.w
	observer := detKey("c02-observer")
	// two ordinary blocks first
	parent := n.BC.CurrentBlock()
	t := parent.Time() + 1
	for i := 0; i < 2; i++ {
		s.txSeq++
		txs := types.Transactions{txTransfer(w.FounderKey, keyAddr(s.users[0]), lemo(1000), TxOpt{Exp: uint64(t) + 60, Msg: fmt.Sprintf("sf-%d", s.txSeq)})}
		blk, _, err := n.Build(parent, t, txs, nil)
		if err != nil {
			c.Fail("c02/harness/build", "save-fault probe: "+err.Error(), nil)
			return
		}
		for _, k := range w.DeputyKeys {
			if keyAddr(k) != blk.MinerAddress() {
				blk.Confirms = append(blk.Confirms, Confirm(blk, k))
			}
		}
		deputynode.SetSelfNodeKey(observer)
		if v, _ := c02InsertVerdict(n, blk); v != "ok" {
			c.Fail("c02/harness/build", "save-fault probe: setup block not accepted: "+v, nil)
			return
		}
		parent = blk
		t += 10
	}
	// the victim: a valid block with enough confirms to become stable on arrival
	s.txSeq++
	txs := types.Transactions{txTransfer(w.FounderKey, keyAddr(s.users[1]), lemo(500), TxOpt{Exp: uint64(t) + 60, Msg: fmt.Sprintf("sf-%d", s.txSeq)})}
	blk, _, err := n.Build(parent, t, txs, nil)
	if err != nil {
		c.Fail("c02/harness/build", "save-fault probe: "+err.Error(), nil)
		return
	}
	for _, k := range w.DeputyKeys {
		if keyAddr(k) != blk.MinerAddress() {
			blk.Confirms = append(blk.Confirms, Confirm(blk, k))
		}
	}
	deputynode.SetSelfNodeKey(observer)
	n.Pool.AddTx(blk.Txs[0])
	// inject the fault
	tmp := filepath.Join(n.DB.Beansdb.Queue.Home, "tmp.data")
	os.Remove(tmp)
	if err := os.MkdirAll(filepath.Join(tmp, "x"), 0755); err != nil {
		c.Count("save-fault:cannot-inject")
		return
	}
	before := s.fingerprint(blk.Hash(), blk.Txs)
	v, msg := c02InsertVerdict(n, blk)
	after := s.fingerprint(blk.Hash(), blk.Txs)
	os.RemoveAll(tmp)
	moved := c02FpDiff(before, after)
	c.Count("save-fault:verdict:" + v)
	for _, k := range moved {
		c.Count("save-fault:moved:" + k)
	}
	if strings.HasPrefix(v, "save-error") || v == "panic" {
		if len(moved) > 0 {
			c.Fail("c02/save-error-leaves-state/"+moved[0],
				fmt.Sprintf("InsertBlock returned %s (%s) for a valid block after a storage fault, and %v differ from the state before the call: before=%v after=%v", v, msg, moved, c02Pick(before, moved), c02Pick(after, moved)),
				map[string]interface{}{"verdict": v, "moved": moved})
		}
	}
	// the same block again after the fault is gone: does the node recover?
	v2, _ := c02InsertVerdict(n, blk)
	c.Count("save-fault:redelivery:" + v2)
	after2 := s.fingerprint(blk.Hash(), blk.Txs)
	if strings.HasPrefix(v, "save-error") && after2["current"] != blk.Hash().Hex() && after2["stable"] != blk.Hash().Hex() {
		c.Fail("c02/save-error-block-stuck",
			fmt.Sprintf("after a failed save (%s) the valid block is stored (HasBlock=%s) but is neither head nor stable, and redelivery says %q: the node cannot adopt it any more", v, after2["has-block"], v2),
			map[string]interface{}{"verdict": v, "redelivery": v2})
	}
}

func c02Pick(m map[string]string, keys []string) map[string]string {
	out := map[string]string{}
	for _, k := range keys {
		out[k] = m[k]
	}
	return out
}

func c02ConcurrentProbe(c *Ctx) {
	oldT, oldI := params.TermDuration, params.InterimDuration
	params.TermDuration, params.InterimDuration = 12, 4
	defer func() { params.TermDuration, params.InterimDuration = oldT, oldI }()
	s := c02NewState(c, 3)
	defer func() { Safe(func() string { s.n.Close(); return "" }) }()
	n, w := s.n, s.w
	deputynode.SetSelfNodeKey(detKey("c02-observer"))
	parent := n.BC.CurrentBlock()
	t := parent.Time() + 1
	rounds := 30
	if c.Tier == "thorough" {
		rounds = 150
	}
	for i := 0; i < rounds; i++ {
		s.txSeq++
		txs := types.Transactions{txTransfer(w.FounderKey, keyAddr(s.users[i%3]), lemo(10), TxOpt{Exp: uint64(t) + 60, Msg: fmt.Sprintf("cc-%d", s.txSeq)})}
		blk, _, err := n.Build(parent, t, txs, nil)
		if err != nil {
			c.Fail("c02/harness/build", "concurrent probe: "+err.Error(), nil)
			return
		}
		if i%2 == 0 {
			for _, k := range w.DeputyKeys {
				if keyAddr(k) != blk.MinerAddress() {
					blk.Confirms = append(blk.Confirms, Confirm(blk, k))
				}
			}
		}
		deputynode.SetSelfNodeKey(detKey("c02-observer"))
		var wg sync.WaitGroup
		res := make([]string, 3)
		for g := range res {
			wg.Add(1)
			go func(g int) {
				defer wg.Done()
				res[g], _ = c02InsertVerdict(n, blk)
			}(g)
		}
		wg.Wait()
		sort.Strings(res)
		key := strings.Join(res, "+")
		c.Count("concurrent:" + key)
		oks := 0
		for _, r := range res {
			if r == "ok" {
				oks++
			}
			if r == "panic" {
				c.Fail("c02/panic/concurrent-insert", "concurrent delivery of one valid block panicked: "+key, nil)
			}
		}
		if oks != 1 {
			c.Fail("c02/concurrent-insert/ok-count", fmt.Sprintf("%d of 3 concurrent deliveries of one valid block returned ok: %s", oks, key), nil)
		}
		if cur := n.BC.CurrentBlock(); cur.Hash() != blk.Hash() {
			c.Fail("c02/concurrent-insert/head", fmt.Sprintf("after concurrent delivery the head is %s, not the delivered block (%s)", cur.ShortString(), key), nil)
		}
		cnt := 0
		n.DB.IterateUnConfirms(func(b *types.Block) {
			if b.Hash() == blk.Hash() {
				cnt++
			}
		})
		if cnt > 1 {
			c.Fail("c02/concurrent-insert/stored-twice", "the block sits twice in the unconfirmed tree", nil)
		}
		parent = blk
		t += 10
	}
}

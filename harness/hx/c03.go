package main

// C03 — finality: stable needs 2/3 DISTINCT deputies of the block's term incl. the miner, moves forward
// along one chain, head descends from stable, for any arrival order of blocks and confirmations.
//
// A builder node assembles a block tree (forks, optionally across a term boundary with a changed deputy
// set) with the real miner path; a second, RECEIVING node — an outsider or one of the deputies, so that
// Confirmer.TryConfirm / SetLastSig / needConfirm / batchConfirmStable run — gets the blocks and
// confirmation packets in a perturbed order through DPoVP.InsertBlock / DPoVP.InsertConfirms, mines on
// its own head when it is in turn (DPoVP.MineBlock) and is restarted now and then.  After every
// operation the canonical line
//   <result> stable=<id>@<h> head=<id>@<h> tree=<id:sig+sig,...> cm=<id:sig+sig,...> terms=<a.b|c.d> ls=<h>/<id>[ q=<distinct>/<need>]
// is compared with the Lean model (LemoModel/Stable.lean) and the direct oracle checks the property.
//
// The engine's batchConfirmStable goroutine (it adds the node's own signature to newly stable blocks)
// is awaited (spinning, no sleep) before the state is observed; the model runs it synchronously.

import (
	"bytes"
	"crypto/ecdsa"
	"encoding/json"
	"fmt"
	"math"
	"math/big"
	"os"
	"runtime"
	"sort"
	"strings"
	"time"

	"github.com/LemoFoundationLtd/lemochain-core/chain/consensus"
	"github.com/LemoFoundationLtd/lemochain-core/chain/deputynode"
	"github.com/LemoFoundationLtd/lemochain-core/chain/params"
	"github.com/LemoFoundationLtd/lemochain-core/chain/types"
	"github.com/LemoFoundationLtd/lemochain-core/common"
	"github.com/LemoFoundationLtd/lemochain-core/common/crypto"
	"github.com/LemoFoundationLtd/lemochain-core/store"
)

func init() { subs["c03"] = c03 }

type c03blk struct {
	id      int
	blk     *types.Block // canonical header signature
	hash    common.Hash
	parent  int
	height  uint32
	miner   int
	valid   bool // passes every check that is outside the model
	rank    int
	built   bool // known to the builder
	alive   bool // still in the builder's store (can be a parent)
	nextDep string
	snapBad bool
}

func c03errName(err error) string {
	switch err {
	case nil:
		return "ok"
	case consensus.ErrIgnoreBlock:
		return "ErrIgnoreBlock"
	case consensus.ErrVerifyBlockFailed:
		return "ErrVerifyBlockFailed"
	case consensus.ErrSaveBlock:
		return "ErrSaveBlock"
	case consensus.ErrNoNewConfirm:
		return "ErrNoNewConfirm"
	case consensus.ErrBlockNotExist:
		return "ErrBlockNotExist"
	case consensus.ErrConfirmsEnough:
		return "ErrConfirmsEnough"
	case consensus.ErrInvalidSignedConfirmInfo:
		return "ErrInvalidSignedConfirmInfo"
	case consensus.ErrExistedConfirm:
		return "ErrExistedConfirm"
	case consensus.ErrInvalidConfirmSigner:
		return "ErrInvalidConfirmSigner"
	case consensus.ErrSetStableBlockToDB:
		return "ErrSetStableBlockToDB"
	case consensus.ErrSaveConfirmToDB:
		return "ErrSaveConfirmToDB"
	}
	return "err:" + strings.ReplaceAll(err.Error(), " ", "_")
}

var c03N, _ = new(big.Int).SetString("fffffffffffffffffffffffffffffffebaaedce6af48a03bbfd25e8cd0364141", 16)

// c03signNonce signs with an explicit nonce (a deputy signing one hash many times).
func c03signNonce(hash []byte, k *ecdsa.PrivateKey, nonce *big.Int) []byte {
	curve := crypto.S256()
	rx, ry := curve.ScalarBaseMult(nonce.Bytes())
	r := new(big.Int).Mod(rx, c03N)
	z := new(big.Int).SetBytes(hash)
	s := new(big.Int).Mul(r, k.D)
	s.Add(s, z)
	s.Mul(s, new(big.Int).ModInverse(nonce, c03N))
	s.Mod(s, c03N)
	out := make([]byte, 65)
	rb, sb := r.Bytes(), s.Bytes()
	copy(out[32-len(rb):32], rb)
	copy(out[64-len(sb):64], sb)
	out[64] = byte(ry.Bit(0))
	return out
}

// which code the model driver stands for: "" = live, "d34eb0a" / "262c027" = the code before that fix
// (C03_ASIS, debugging only, together with VERIF_REPO=<tree with the commit(s) reverted>).
var c03asis string

const c03outsider = 1000 // model number of a receiver that is nobody's deputy

// hash ranks (position in byte order) leave room for the blocks the receiver mines during the run
const c03rankStep = 1 << 20

// c03scn is one scenario: world, the two nodes, the generated blocks, signature naming.
type c03scn struct {
	c       *Ctx
	w       *World
	B, R    *Node
	keys    []*ecdsa.PrivateKey // node keys numbered for the model: genesis deputies first
	nDep    int
	dc      int
	T, I    uint32
	rkey    *ecdsa.PrivateKey // identity of the receiver
	rself   int
	blks    []*c03blk
	byHash  map[common.Hash]*c03blk
	names   map[string]string // (target hash, sig bytes) -> model name
	sigs    map[string]*c03sigInfo // sig bytes -> what the generator knows about them
	fresh   int
	lines   []string // op lines of this scenario (replay)
	started bool
	// oracle state
	prevStable   *c03blk
	prevHead     *c03blk
	prevTree     map[int]bool
	committedIDs []int
}

func (s *c03scn) keyIndex(nodeID []byte) int {
	for i, k := range s.keys {
		if bytes.Equal(crypto.PrivateKeyToNodeID(k), nodeID) {
			return i
		}
	}
	return -1
}

func (s *c03scn) addrIndex(a common.Address) int {
	for i, k := range s.keys {
		if keyAddr(k) == a {
			return i
		}
	}
	return -1
}

// c03sigInfo is what the GENERATOR knows about a byte string it made: whose key, over which hash, in
// which form. The model name of a signature and the signer the quorum oracle counts are derived from
// this record only — never from what the code under test recovers (that is cross-checked against it:
// c03/fed-fact/signer).
type c03sigInfo struct {
	key  int         // index in s.keys; -1: a key that belongs to no candidate
	hash common.Hash // the hash that was signed
	form int         // 0 crypto.Sign output, 1 its re-encoding (r, N-s, v^1), 2 another nonce, 3 recovery byte destroyed
}

func (s *c03scn) ptrIndex(k *ecdsa.PrivateKey) int {
	for i, x := range s.keys {
		if x == k {
			return i
		}
	}
	return -1
}

func (s *c03scn) reg(sig []byte, key int, h common.Hash, form int) []byte {
	if _, ok := s.sigs[string(sig)]; !ok {
		s.sigs[string(sig)] = &c03sigInfo{key, h, form}
	}
	return sig
}

// signKey: the deterministic signature of hash h with key k (a candidate's or an outside key).
func (s *c03scn) signKey(k *ecdsa.PrivateKey, h common.Hash) []byte {
	return s.reg(c03sign(k, h), s.ptrIndex(k), h, 0)
}

// mall: the equivalent encoding (r, N-s, v^1) of a registered signature.
func (s *c03scn) mall(sig []byte) []byte {
	in := s.sigs[string(sig)]
	if in == nil {
		panic("c03: malleating an unregistered signature")
	}
	form := 1
	if in.form == 1 {
		form = 0
	}
	return s.reg(malleate(sig), in.key, in.hash, form)
}

// constructedSigner: the candidate (index in s.keys) whose signature OF HASH h this byte string is by
// construction; -1 if it is nobody's signature of h (other hash, outside key, destroyed).
func (s *c03scn) constructedSigner(h common.Hash, sig []byte) int {
	in := s.sigInfo(h, sig)
	if in == nil || in.form == 3 || in.hash != h {
		return -1
	}
	return in.key
}

// sigInfo looks a byte string up; the only signatures the harness does not make itself are the
// receiver's own (TryConfirm / MineBlock): deterministic, so the harness can make the same bytes.
func (s *c03scn) sigInfo(h common.Hash, sig []byte) *c03sigInfo {
	if in := s.sigs[string(sig)]; in != nil {
		return in
	}
	if bytes.Equal(sig, c03sign(s.rkey, h)) {
		s.reg(sig, s.ptrIndex(s.rkey), h, 0)
		return s.sigs[string(sig)]
	}
	return nil
}

// sigName: the abstract signature (signer, variant) for `sig` offered for / stored with block hash `h`,
// BY CONSTRUCTION; the real recovery is cross-checked against it.
func (s *c03scn) sigName(h common.Hash, sig []byte) string {
	key := string(h[:]) + string(sig)
	if v, ok := s.names[key]; ok {
		return v
	}
	in := s.sigInfo(h, sig)
	nodeID, err := types.BytesToSignData(sig).RecoverNodeID(h)
	var name string
	switch {
	case in == nil:
		s.c.Fail("c03/fed-fact/unknown-signature", fmt.Sprintf("a signature the harness never made is stored with / offered for block %x", h[:4]), s.replay())
		s.fresh++
		name = fmt.Sprintf("x.%d", 900000+s.fresh)
	case in.form == 3:
		s.fresh++
		name = fmt.Sprintf("x.%d", s.fresh)
		if err == nil {
			s.c.Fail("c03/fed-fact/signer", fmt.Sprintf("RecoverNodeID accepts a signature whose recovery byte was destroyed (block %x)", h[:4]), s.replay())
		}
	case in.hash == h && in.key >= 0:
		switch in.form {
		case 0, 1:
			name = fmt.Sprintf("%d.%d", in.key, in.form)
		default:
			s.fresh++
			name = fmt.Sprintf("%d.%d", in.key, s.fresh+1)
		}
		if err != nil || !bytes.Equal(nodeID, crypto.PrivateKeyToNodeID(s.keys[in.key])) {
			s.c.Fail("c03/fed-fact/signer", fmt.Sprintf("RecoverNodeID(hash %x, sig) does not give node %d, which made this signature of this hash (err=%v)", h[:4], in.key, err), s.replay())
		}
	default:
		// a signature of ANOTHER hash, or by a key that belongs to no candidate: for this block it is the
		// signature of nobody the node knows
		s.fresh++
		name = fmt.Sprintf("%d.0", 2000+s.fresh)
		if err != nil {
			s.c.Fail("c03/fed-fact/signer", fmt.Sprintf("RecoverNodeID fails on a well-formed signature (of another hash / by an outside key) offered for block %x: %v", h[:4], err), s.replay())
		} else if i := s.keyIndex(nodeID); i >= 0 {
			s.c.Fail("c03/fed-fact/signer", fmt.Sprintf("RecoverNodeID(hash %x, sig) gives candidate %d for a signature that is not a signature of this hash by any candidate (constructed: key %d over hash %x)", h[:4], i, in.key, in.hash[:4]), s.replay())
		}
	}
	s.names[key] = name
	return name
}

func (s *c03scn) sigNames(h common.Hash, sigs [][]byte, sep string) string {
	if len(sigs) == 0 {
		if sep == "," {
			return "-"
		}
		return ""
	}
	out := make([]string, len(sigs))
	for i, g := range sigs {
		out[i] = s.sigName(h, g)
	}
	return strings.Join(out, sep)
}

func c03sign(k *ecdsa.PrivateKey, hh common.Hash) []byte {
	g, err := crypto.Sign(hh[:], k)
	if err != nil {
		panic(err)
	}
	return g
}

// genSig makes one signature offered for block b; key, signed hash and form are recorded (reg).
func (s *c03scn) genSig(b *c03blk, prev [][]byte) []byte {
	c := s.c
	h := b.hash
	dep := func() *ecdsa.PrivateKey { return s.keys[c.Rnd.Intn(len(s.keys))] }
	x := c.Rnd.Intn(100)
	if s.rself != c03outsider && x < 12 {
		// the receiver's own signature comes back from the network (it signed the block before a crash):
		// as it was, or re-encoded by a peer
		if x < 7 {
			c.Count("sig:self-malleated")
			return s.mall(s.signKey(s.rkey, h))
		}
		c.Count("sig:self-canonical")
		return s.signKey(s.rkey, h)
	}
	switch {
	case x < 52:
		c.Count("sig:deputy")
		return s.signKey(dep(), h)
	case x < 59:
		c.Count("sig:miner-malleated")
		return s.mall(b.blk.Header.SignData)
	case x < 66:
		c.Count("sig:deputy-malleated")
		return s.mall(s.signKey(dep(), h))
	case x < 72:
		c.Count("sig:miner-canonical")
		return append([]byte{}, b.blk.Header.SignData...)
	case x < 78:
		c.Count("sig:non-deputy")
		return s.signKey(detKey(fmt.Sprintf("outsider-%d", c.Rnd.Intn(3))), h)
	case x < 84:
		c.Count("sig:other-hash")
		other := s.blks[c.Rnd.Intn(len(s.blks))]
		if other.hash == h {
			return s.signKey(dep(), common.Hash{7})
		}
		return s.signKey(dep(), other.hash)
	case x < 89:
		c.Count("sig:unrecoverable")
		k := dep()
		g := c03sign(k, h)
		g[64] = byte(4 + c.Rnd.Intn(200))
		return s.reg(g, s.ptrIndex(k), h, 3)
	case x < 95:
		if len(prev) > 0 {
			c.Count("sig:dup-in-packet")
			return append([]byte{}, prev[c.Rnd.Intn(len(prev))]...)
		}
		c.Count("sig:deputy")
		return s.signKey(dep(), h)
	default:
		c.Count("sig:deputy-other-nonce")
		nonce := new(big.Int).SetInt64(int64(2 + c.Rnd.Intn(1000000)))
		k := dep()
		return s.reg(c03signNonce(h[:], k, nonce), s.ptrIndex(k), h, 2)
	}
}

func (s *c03scn) genSigs(b *c03blk, max int) [][]byte {
	k := 1 + s.c.Rnd.Intn(max)
	if s.c.Rnd.Intn(12) == 0 {
		k = s.dc + 1
	}
	var out [][]byte
	for i := 0; i < k; i++ {
		out = append(out, s.genSig(b, out))
	}
	return out
}

func toSignData(sigs [][]byte) []types.SignData {
	out := make([]types.SignData, len(sigs))
	for i, g := range sigs {
		out[i] = types.BytesToSignData(g)
	}
	return out
}

func c03bytes(sd []types.SignData) [][]byte {
	out := make([][]byte, len(sd))
	for i := range sd {
		out[i] = append([]byte{}, sd[i][:]...)
	}
	return out
}

func (s *c03scn) idOf(b *types.Block) int {
	if x, ok := s.byHash[b.Hash()]; ok {
		return x.id
	}
	return -1
}

// asReceiver switches the process-wide node identity to the receiver's and empties the package-level
// signature memo of SignBlock (it is keyed by hash only; in one process it would hand the receiver a
// signature made with the builder's key).
func (s *c03scn) asReceiver() {
	deputynode.SetSelfNodeKey(s.rkey)
	consensus.VerifSetSigCache(common.Hash{}, nil)
}

// depsIdx: model numbers of the deputies in charge of height h, as the receiver knows them.
func (s *c03scn) depsIdx(h uint32) []int {
	var out []int
	for _, d := range s.R.DM.GetDeputiesByHeight(h, true) {
		out = append(out, s.keyIndex(d.NodeID))
	}
	return out
}

// signerNodes: the candidates whose signatures OF THIS BLOCK the stored signatures of b (header first)
// are BY CONSTRUCTION (-1: nobody's); the code's own recovery is not asked.
func (s *c03scn) signerNodes(b *types.Block) []int {
	h := b.Hash()
	all := append([][]byte{b.Header.SignData}, c03bytes(b.Confirms)...)
	out := make([]int, len(all))
	for i, g := range all {
		out[i] = s.constructedSigner(h, g)
	}
	return out
}

// awaitBatchConfirm waits (spinning) until the batchConfirmStable goroutine started by the last stable
// change has dealt with every block in (from, to].
func (s *c03scn) awaitBatchConfirm(from, to uint32) {
	if s.rself == c03outsider {
		return
	}
	deadline := time.Now().Add(5 * time.Second)
	for h := from + 1; h <= to; h++ {
		for {
			b, err := s.R.DB.GetBlockByHeight(h)
			if err != nil || b == nil {
				break
			}
			done := !s.R.DM.IsSelfDeputyNode(h) || consensus.IsConfirmEnough(b, s.R.DM)
			canon := c03sign(s.rkey, b.Hash())
			for _, g := range b.Confirms {
				if bytes.Equal(g[:], canon) {
					done = true
				}
			}
			if bytes.Equal(b.Header.SignData, canon) {
				done = true
			}
			if c03asis == "" { // live code: tryConfirmStable skips a block the node has signed in any encoding
				for _, n := range s.signerNodes(b) {
					if n == s.rself {
						done = true
					}
				}
			}
			if done {
				break
			}
			if time.Now().After(deadline) {
				s.c.Fail("c03/harness-batch-confirm-timeout", fmt.Sprintf("batchConfirmStable did not reach height %d", h), s.replay())
				return
			}
			runtime.Gosched()
		}
	}
	// the goroutine sets lastSig after SaveConfirm of the last block: let it finish
	for i := 0; i < 50; i++ {
		runtime.Gosched()
	}
}

// observe prints the canonical state line and runs the direct oracle.
func (s *c03scn) observe(res string) string {
	c := s.c
	runtime.Gosched()
	st := s.R.BC.StableBlock()
	if st.Height() > s.prevStable.height {
		s.awaitBatchConfirm(s.prevStable.height, st.Height())
	}
	hd := s.R.BC.CurrentBlock()
	sb, hb := s.byHash[st.Hash()], s.byHash[hd.Hash()]
	if sb == nil || hb == nil {
		c.Fail("c03/unknown-block", "stable or head is a block the harness never made", s.replay())
		return res + " stable=?"
	}
	showBlk := func(b *types.Block) string {
		return fmt.Sprintf("%d:%s", s.idOf(b), s.sigNames(b.Hash(), c03bytes(b.Confirms), "+"))
	}
	type ent struct {
		id int
		s  string
	}
	var treeBlocks []*types.Block
	s.R.DB.IterateUnConfirms(func(b *types.Block) { treeBlocks = append(treeBlocks, b) })
	var tree []ent
	for _, b := range treeBlocks {
		tree = append(tree, ent{s.idOf(b), showBlk(b)})
	}
	sort.Slice(tree, func(i, j int) bool { return tree[i].id < tree[j].id })
	join := func(es []ent) string {
		if len(es) == 0 {
			return "-"
		}
		parts := make([]string, len(es))
		for i, e := range es {
			parts[i] = e.s
		}
		return strings.Join(parts, ",")
	}

	// ---- direct oracle (and the committed part of the state line) ----
	up := func(b *c03blk, h uint32) *c03blk { // ancestor of b at height h
		for b != nil && b.height > h {
			if b.parent < 0 {
				return nil
			}
			b = s.blks[b.parent]
		}
		return b
	}
	old := s.prevStable
	if st.Height() < old.height {
		c.Fail("c03/stable-regressed", fmt.Sprintf("stable height went from %d to %d", old.height, st.Height()), s.replay())
	}
	changed := sb.id != old.id
	if changed {
		c.Count("stable-changed")
		if a := up(sb, old.height); a == nil || a.id != old.id {
			c.Fail("c03/stable-not-descendant", fmt.Sprintf("new stable %d@%d does not descend from old stable %d@%d", sb.id, sb.height, old.id, old.height), s.replay())
		}
		if sb.height-old.height > 1 {
			c.Count("stable-jump>1")
		}
	}
	headBad := false
	if a := up(hb, sb.height); hb.height < sb.height || a == nil || a.id != sb.id {
		headBad = true
		if res == "panic" {
			// root cause: a Go panic on the stable-advance path after SetStableBlock has committed
			c.Count("panic-after-commit")
			c.Fail("c03/panic-after-stable-commit/head-not-descendant", fmt.Sprintf("the operation panicked after the stable pointer moved to %d@%d; the head stays %d@%d, which does not descend from it", sb.id, sb.height, hb.id, hb.height), s.replay())
		} else {
			c.Fail("c03/head-not-descendant", fmt.Sprintf("head %d@%d does not descend from stable %d@%d", hb.id, hb.height, sb.id, sb.height), s.replay())
		}
	}
	if res == "panic" && !headBad {
		c.Count("panic-harmless-head")
	}
	if hb.id != sb.id {
		c.Count("head-above-stable")
	}
	if s.prevHead != nil && hb.id != s.prevHead.id {
		if hb.parent == s.prevHead.id {
			c.Count("head:extend")
		} else if a := up(hb, s.prevHead.height); a != nil && a.id == s.prevHead.id {
			c.Count("head:jump-same-fork")
		} else {
			c.Count("head:switch-fork")
		}
	}
	s.prevHead = hb
	nowTree := map[int]bool{}
	for _, e := range tree {
		nowTree[e.id] = true
	}
	if changed {
		cut := 0
		for id := range s.prevTree {
			if !nowTree[id] {
				if a := up(sb, s.blks[id].height); a == nil || a.id != id {
					cut++
				}
			}
		}
		if cut > 0 {
			c.Count("prune:branches-cut")
		} else {
			c.Count("prune:nothing-cut")
		}
	}
	s.prevTree = nowTree
	// GetBlockByHeight over the stable range: one chain, never replaced
	var prevHash common.Hash
	var cm []ent
	for h := uint32(0); h <= st.Height(); h++ {
		b, err := s.R.DB.GetBlockByHeight(h)
		if err != nil || b == nil || b.Height() != h {
			c.Fail("c03/stable-range-hole", fmt.Sprintf("GetBlockByHeight(%d) under stable %d: %v", h, st.Height(), err), s.replay())
			break
		}
		id := s.idOf(b)
		if h > 0 {
			cm = append(cm, ent{id, showBlk(b)})
		}
		if int(h) < len(s.committedIDs) {
			if s.committedIDs[h] != id {
				c.Fail("c03/stable-replaced", fmt.Sprintf("height %d was block %d, now %d", h, s.committedIDs[h], id), s.replay())
			}
		} else {
			s.committedIDs = append(s.committedIDs, id)
		}
		if h > 0 && b.ParentHash() != prevHash {
			c.Fail("c03/stable-chain-broken", fmt.Sprintf("block at height %d is not the child of the block at %d", h, h-1), s.replay())
		}
		if h == st.Height() && b.Hash() != st.Hash() {
			c.Fail("c03/stable-range-top", "GetBlockByHeight(stable height) is not the stable block", s.replay())
		}
		prevHash = b.Hash()
	}
	sort.Slice(cm, func(i, j int) bool { return cm[i].id < cm[j].id })
	// known terms
	var terms []string
	for k := uint32(0); ; k++ {
		t, err := s.R.DM.GetTermByHeight(k*s.T, false)
		if err != nil || t == nil {
			break
		}
		var ns []string
		for _, d := range t.Nodes {
			ns = append(ns, fmt.Sprintf("%d", s.keyIndex(d.NodeID)))
		}
		terms = append(terms, strings.Join(ns, "."))
		if k > 50 {
			break
		}
	}
	lsH, lsHash := s.R.BC.VerifEngine().VerifLastSig()
	lsID := -1
	if x, ok := s.byHash[lsHash]; ok {
		lsID = x.id
	}
	line := fmt.Sprintf("%s stable=%d@%d head=%d@%d tree=%s cm=%s terms=%s ls=%d/%d", res, sb.id, st.Height(), hb.id, hd.Height(), join(tree), join(cm), strings.Join(terms, "|"), lsH, lsID)

	// quorum: DISTINCT deputies OF THE BLOCK'S TERM among header signer + confirms of the block that just became stable
	if changed {
		deps := s.depsIdx(st.Height())
		isDep := map[int]bool{}
		for _, d := range deps {
			isDep[d] = true
		}
		need := (2*len(deps) + 2) / 3
		nodes := s.signerNodes(st)
		all := append([][]byte{st.Header.SignData}, c03bytes(st.Confirms)...)
		distinct := map[int]bool{}
		for _, n := range nodes {
			if n >= 0 && isDep[n] {
				distinct[n] = true
			}
		}
		line += fmt.Sprintf(" q=%d/%d", len(distinct), need)
		if len(deps) == 0 {
			c.Fail("c03/stable-with-unknown-term", fmt.Sprintf("block %d@%d became stable although its term is unknown to the node (TwoThirdDeputyCount = 0)", sb.id, sb.height), s.replay())
		} else if len(distinct) < need {
			cause := "other"
			selfTwice := 0
			for i := 0; i < len(nodes); i++ {
				if nodes[i] == s.rself && s.rself != c03outsider {
					selfTwice++
				}
				for j := i + 1; j < len(nodes); j++ {
					if nodes[i] >= 0 && nodes[i] == nodes[j] {
						if bytes.Equal(malleate(all[i]), all[j]) {
							cause = "malleated-sig"
						} else if cause == "other" {
							cause = "resigned-nonce"
						}
					}
				}
			}
			for i, n := range nodes {
				if n < 0 && cause == "other" {
					// a stored signature that is nobody's signature of this block was counted
					cause = "non-deputy-counted"
					if in := s.sigInfo(st.Hash(), all[i]); in != nil && in.form != 3 && in.key >= 0 && in.hash != st.Hash() {
						cause = "foreign-hash-signature-counted"
					}
				} else if n >= 0 && !isDep[n] && cause == "other" {
					cause = "non-deputy-counted"
				}
			}
			if selfTwice >= 2 {
				// the receiving deputy's own signature is on the block twice: the second one was added by
				// Confirmer.TryConfirm (byte-wise IsConfirmExist), not by VerifyNewConfirms
				cause = "own-confirm-twice"
			}
			c.Count("quorum-violated:" + cause)
			c.Fail("c03/quorum-not-distinct/"+cause, fmt.Sprintf("block %d@%d became stable with %d signature(s) from %d distinct deputy(ies) of the %d of its term; need %d distinct", sb.id, sb.height, len(all), len(distinct), len(deps), need), s.replay())
		} else {
			c.Count("quorum-ok")
		}
		if params.TermDuration < 1000 && st.Height() >= params.TermDuration+params.InterimDuration+1 {
			c.Count("stable-in-later-term")
		}
	}
	s.prevStable = sb
	return line
}

func (s *c03scn) replay() interface{} {
	l := s.lines
	if len(l) > 80 {
		l = l[len(l)-80:]
	}
	return map[string]interface{}{"ops": append([]string{}, l...)}
}

func (s *c03scn) op(line, out string) { s.c.Op(line, out) }

func c03b(v bool) int {
	if v {
		return 1
	}
	return 0
}

// deliverBlock runs one `blk` op on the receiver.
func (s *c03scn) deliverBlock(b *c03blk, hdr []byte, carried [][]byte) string {
	c := s.c
	nb := CloneBlock(b.blk)
	nb.Header.SignData = append([]byte{}, hdr...)
	nb.Confirms = toSignData(carried)
	line := fmt.Sprintf("blk %d %d %d %d %d %s %d %s %s %d", b.id, b.parent, b.height, b.miner, b.rank, s.sigName(b.hash, hdr), c03b(b.valid), s.sigNames(b.hash, carried, ","), b.nextDep, c03b(b.snapBad))
	s.asReceiver()
	termKnown := len(s.R.DM.GetDeputiesByHeight(b.height, true)) > 0
	s.lines = append(s.lines, line)
	res := Safe(func() string { return c03errName(s.R.Insert(nb)) })
	c.Count("blk:" + res)
	if len(carried) > 0 {
		c.Count("blk-carried-confirms")
	}
	if !termKnown {
		c.Count("blk-unknown-term:" + res)
		if res == "ok" {
			c.Fail("c03/unknown-term-block-accepted", fmt.Sprintf("block %d@%d was accepted although the node does not know the deputies of its term", b.id, b.height), s.replay())
		}
	}
	s.op(line, s.observe(res))
	return res
}

func (s *c03scn) deliverConfirms(b *c03blk, height uint32, sigs [][]byte) {
	c := s.c
	line := fmt.Sprintf("cf %d %d %s", b.id, height, s.sigNames(b.hash, sigs, ","))
	s.asReceiver()
	eng := s.R.BC.VerifEngine()
	switch {
	case !s.R.BC.HasBlock(b.hash):
		c.Count("cf-target:unknown")
	case b.height <= s.R.BC.StableBlock().Height():
		c.Count("cf-target:committed")
	default:
		c.Count("cf-target:unconfirmed")
	}
	s.lines = append(s.lines, line)
	res := Safe(func() string { return c03errName(eng.InsertConfirms(height, b.hash, toSignData(sigs))) })
	c.Count("cf:" + res)
	s.op(line, s.observe(res))
}

// mine: the receiver mines on its own head through DPoVP.MineBlock, if it is the deputy in turn right now.
func (s *c03scn) mine() {
	c := s.c
	if s.rself == c03outsider {
		return
	}
	head := s.R.BC.CurrentBlock()
	now := uint32(time.Now().Unix())
	k, err := s.R.InTurn(head, now)
	if err != nil || k != s.rkey {
		c.Count("mine:not-in-turn")
		return
	}
	parent := s.byHash[head.Hash()]
	if parent == nil {
		return
	}
	s.asReceiver()
	var blk *types.Block
	res := Safe(func() string {
		var e error
		blk, e = s.R.BC.VerifEngine().MineBlock(60000)
		if e != nil {
			return "err"
		}
		return "ok"
	})
	if res == "err" || blk == nil && res != "panic" {
		c.Count("mine:refused")
		return
	}
	if blk == nil { // panicked inside saveNewBlock: the block is the new stable or head, find it
		c.Count("mine:panic")
		return
	}
	b := s.byHash[blk.Hash()]
	if b != nil {
		// mined the very same block again (after a restart lost it, within the same second)
		c.Count("mine:same-block-again")
		line := fmt.Sprintf("mine %d %d %d %d %d %s %d", b.id, b.parent, b.height, b.miner, b.rank, b.nextDep, c03b(b.snapBad))
		s.lines = append(s.lines, line)
		s.op(line, s.observe(res))
		return
	}
	b = &c03blk{id: len(s.blks), blk: blk, hash: blk.Hash(), parent: parent.id, height: blk.Height(), miner: s.rself, valid: true}
	// the header signature of a block this node mined is its own deterministic signature of the hash
	if !bytes.Equal(blk.Header.SignData, c03sign(s.rkey, b.hash)) {
		c.Fail("c03/fed-fact/signer", "the header signature of the block the receiver mined is not crypto.Sign(hash, its key)", s.replay())
	}
	s.reg(blk.Header.SignData, s.ptrIndex(s.rkey), b.hash, 0)
	s.describeSnapshot(b)
	// rank of the new hash among the known ones
	lo, hi := 0, c03rankStep*(len(s.blks)+2)
	for _, x := range s.blks {
		if bytes.Compare(x.hash[:], b.hash[:]) < 0 && x.rank > lo {
			lo = x.rank
		}
		if bytes.Compare(x.hash[:], b.hash[:]) > 0 && x.rank < hi {
			hi = x.rank
		}
	}
	b.rank = (lo + hi) / 2
	if b.rank == lo {
		c.Count("mine:no-rank-gap")
		b.rank = lo + 1
	}
	s.blks = append(s.blks, b)
	s.byHash[b.hash] = b
	line := fmt.Sprintf("mine %d %d %d %d %d %s %d", b.id, b.parent, b.height, b.miner, b.rank, b.nextDep, c03b(b.snapBad))
	s.lines = append(s.lines, line)
	c.Count("mine:" + res)
	s.op(line, s.observe(res))
}

// reopen restarts the receiver on its data directory.
func (s *c03scn) reopen() {
	c := s.c
	before := s.R.BC.StableBlock().Hash()
	s.asReceiver()
	s.lines = append(s.lines, "reopen")
	res := Safe(func() string { s.R.Reopen(); return "ok" })
	c.Count("reopen:" + res)
	if res != "ok" {
		c.Fail("c03/restart-failed", "the node does not start on its own data directory", s.replay())
		s.op("reopen", res+" stable=?")
		return
	}
	if s.R.BC.StableBlock().Hash() != before {
		c.Fail("c03/stable-lost-on-restart", fmt.Sprintf("stable block before the restart %x, after %x", before[:4], s.R.BC.StableBlock().Hash().Bytes()[:4]), s.replay())
	}
	if s.R.BC.CurrentBlock().Hash() != before {
		c.Fail("c03/head-after-restart", "the head after a restart is not the stable block", s.replay())
	}
	s.op("reopen", s.observe(res))
}

func c03newScn(c *Ctx, nDep, dc int, T, I uint32, rself int) *c03scn {
	params.TermDuration, params.InterimDuration = T, I
	now := uint32(time.Now().Unix())
	w := NewWorld(nDep, now-500000, 10000)
	s := &c03scn{c: c, w: w, nDep: nDep, dc: dc, T: T, I: I, byHash: map[common.Hash]*c03blk{}, names: map[string]string{}, sigs: map[string]*c03sigInfo{}}
	s.keys = append(s.keys, w.DeputyKeys...)
	s.rself = rself
	if rself == c03outsider {
		s.rkey = detKey("outsider")
	} else {
		s.rkey = s.keys[rself]
	}
	deputynode.SetSelfNodeKey(detKey("outsider"))
	s.B = w.NewNode(dc)
	s.R = w.NewNode(dc)
	g := s.B.BC.Genesis()
	gb := &c03blk{id: 0, blk: g, hash: g.Hash(), parent: -1, height: 0, valid: true, built: true, alive: true, nextDep: "-"}
	s.blks = []*c03blk{gb}
	s.byHash[gb.hash] = gb
	s.prevStable = gb
	return s
}

func (s *c03scn) close() {
	Safe(func() string { s.B.Close(); return "" })
	Safe(func() string { s.R.Close(); return "" })
}

// describeSnapshot fills nextDep / snapBad from Block.DeputyNodes. snapBad ("a term record cannot be made
// of this list") is decided by the harness' own reading of the rules — the list is not empty, the ranks
// are 0..n-1 in order, the votes do not increase along the ranks — and the real NewTermRecord is
// cross-checked against it (c03/fed-fact/snap-bad).
func (s *c03scn) describeSnapshot(b *c03blk) {
	b.nextDep = "-"
	if len(b.blk.DeputyNodes) > 0 {
		var ns []string
		for _, d := range b.blk.DeputyNodes {
			ns = append(ns, fmt.Sprintf("%d", s.keyIndex(d.NodeID)))
		}
		b.nextDep = strings.Join(ns, ",")
	}
	if b.height%s.T != 0 {
		return
	}
	nodes := b.blk.DeputyNodes
	bad := len(nodes) == 0
	for i, d := range nodes {
		if d.Rank != uint32(i) {
			bad = true
		}
		if i > 0 && d.Votes.Cmp(nodes[i-1].Votes) > 0 {
			bad = true
		}
	}
	b.snapBad = bad
	real := Safe(func() string { deputynode.NewTermRecord(b.height, CloneBlock(b.blk).DeputyNodes); return "ok" }) != "ok"
	if real != bad {
		s.c.Fail("c03/fed-fact/snap-bad", fmt.Sprintf("NewTermRecord(height %d, deputy list of the block) panics=%v, the rules (non-empty, ranks 0..n-1, votes non-increasing) say bad=%v", b.height, real, bad), nil)
	}
}

// build makes a child of `parent` stamped t on the builder (which stores it).
func (s *c03scn) build(parent *c03blk, t uint32, txs types.Transactions) *c03blk {
	consensus.VerifSetSigCache(common.Hash{}, nil)
	var blk *types.Block
	var err error
	res := Safe(func() string {
		var invalid types.Transactions
		blk, invalid, err = s.B.Build(parent.blk, t, txs, nil)
		if err == nil && (len(invalid) != 0 || len(blk.Txs) != len(txs)) {
			err = fmt.Errorf("%d of %d txs packed", len(blk.Txs), len(txs))
		}
		return "ok"
	})
	if res != "ok" || err != nil {
		s.c.Count("build-refused")
		return nil
	}
	if _, dup := s.byHash[blk.Hash()]; dup {
		return nil
	}
	deputynode.SetSelfNodeKey(detKey("outsider"))
	ins := Safe(func() string { return c03errName(s.B.Insert(CloneBlock(blk))) })
	if ins != "ok" && ins != "panic" {
		s.c.Fail("c03/harness-build", fmt.Sprintf("builder rejected its own block (parent %d, t %d): %s", parent.id, t, ins), nil)
		return nil
	}
	miner := s.addrIndex(blk.MinerAddress())
	if k, e := s.B.InTurn(parent.blk, t); e == nil && s.ptrIndex(k) != miner {
		s.c.Fail("c03/fed-fact/miner", fmt.Sprintf("the block names miner %d, the deputy in turn is %d", miner, s.ptrIndex(k)), nil)
	}
	b := &c03blk{id: len(s.blks), blk: blk, hash: blk.Hash(), parent: parent.id, height: blk.Height(), miner: miner, valid: true, built: true, alive: true}
	// the header signature: the builder signed this hash with the miner's key (deterministic)
	if miner < 0 || !bytes.Equal(blk.Header.SignData, c03sign(s.keys[miner], b.hash)) {
		s.c.Fail("c03/fed-fact/signer", fmt.Sprintf("the header signature of the built block %d is not crypto.Sign(hash, key of its miner %d)", b.id, miner), nil)
		return nil
	}
	s.reg(blk.Header.SignData, miner, b.hash, 0)
	s.describeSnapshot(b)
	s.blks = append(s.blks, b)
	s.byHash[b.hash] = b
	return b
}

// corrupt derives a block with a wrong state root from b (new hash, signed by the real miner): every
// header-level check passes, VerifyAfterTxProcess fails.
func (s *c03scn) corrupt(b *c03blk) *c03blk {
	nb := CloneBlock(b.blk)
	nb.Header.VersionRoot[0] ^= 0x55
	Resign(nb, s.keys[b.miner])
	x := &c03blk{id: len(s.blks), blk: nb, hash: nb.Hash(), parent: b.parent, height: b.height, miner: b.miner, valid: false, nextDep: b.nextDep, snapBad: b.snapBad}
	s.reg(nb.Header.SignData, b.miner, x.hash, 0)
	s.blks = append(s.blks, x)
	s.byHash[x.hash] = x
	return x
}

func (s *c03scn) rankAll() {
	idx := make([]int, len(s.blks))
	for i := range idx {
		idx[i] = i
	}
	sort.Slice(idx, func(i, j int) bool { return bytes.Compare(s.blks[idx[i]].hash[:], s.blks[idx[j]].hash[:]) < 0 })
	for r, i := range idx {
		s.blks[i].rank = c03rankStep * (r + 1)
	}
}

func (s *c03scn) start() {
	s.rankAll()
	var t0 []string
	for i := 0; i < s.nDep; i++ {
		t0 = append(t0, fmt.Sprintf("%d", i))
	}
	line := fmt.Sprintf("new %d %d %d %d %d %s", s.dc, s.T, s.I, s.rself, s.blks[0].rank, strings.Join(t0, ","))
	s.lines = append(s.lines, line)
	s.op(line, "ok")
	s.started = true
}

// stabilizeOnBuilder makes block b stable on the builder (all deputies of its term confirm it), so that
// the builder learns the next term and can mine past the interim period. Forks beside b die on the builder.
func (s *c03scn) stabilizeOnBuilder(b *c03blk) bool {
	deputynode.SetSelfNodeKey(detKey("outsider"))
	var sigs []types.SignData
	for _, d := range s.B.DM.GetDeputiesByHeight(b.height, true) {
		if i := s.keyIndex(d.NodeID); i >= 0 && i != b.miner {
			sigs = append(sigs, types.BytesToSignData(c03sign(s.keys[i], b.hash))) // builder only
		}
	}
	res := Safe(func() string {
		return c03errName(s.B.BC.VerifEngine().InsertConfirms(b.height, b.hash, sigs))
	})
	if s.B.BC.StableBlock().Hash() != b.hash {
		s.c.Count("builder-stabilize:" + res)
		return false
	}
	for _, x := range s.blks {
		if x.built {
			a := x
			for a.height > b.height {
				a = s.blks[a.parent]
			}
			x.alive = a.id == b.id
		}
	}
	return true
}

func c03(c *Ctx) {
	// node data directories on tmpfs when available: opening a store on disk costs ~200 ms of fsync
	if st, err := os.Stat("/dev/shm"); err == nil && st.IsDir() && os.Getenv("TMPDIR") == "" {
		os.Setenv("TMPDIR", "/dev/shm")
	}
	oldT, oldI := params.TermDuration, params.InterimDuration
	defer func() { params.TermDuration, params.InterimDuration = oldT, oldI }()
	// C03_ASIS (debugging only, with VERIF_REPO=<tree where the named fix is reverted>): tell the model driver to run
	// the old code. "d34eb0a": VerifyNewConfirms and TryConfirm by bytes (both fixes reverted);
	// "262c027": only TryConfirm/tryConfirmStable by bytes (that fix reverted).
	c03asis = os.Getenv("C03_ASIS")
	switch c03asis {
	case "":
	case "d34eb0a":
		c.Op("mode before-d34eb0a", "ok")
	default:
		c03asis = "262c027"
		c.Op("mode before-262c027", "ok")
	}
	// ---- two_thirds_arith: the float expression of TwoThirdDeputyCount / IsConfirmEnough, all n < 65536 ----
	for n := 0; n < 65536; n++ {
		f := uint32(math.Ceil(float64(n) * 2.0 / 3.0))
		c.Op(fmt.Sprintf("tt %d", n), fmt.Sprintf("%d", f))
		if f != uint32((2*n+2)/3) || 3*int(f) < 2*n || 3*(int(f)-1) >= 2*n && n > 0 {
			c.Fail("c03/two-thirds-float", fmt.Sprintf("n=%d float expression gives %d", n, f), nil)
		}
	}
	c.Count("tt-sweep")
	c03twoThirdsReal(c)

	c03regressions(c)
	c03ConfirmRace(c)
	for iter := 0; iter < c.N; iter++ {
		c03scenario(c)
	}
}

// c03regressions: the deterministic witnesses of the defects found by this property.
func c03regressions(c *Ctx) {
	// (1) fixed by /repo commit d34eb0a: the miner's re-encoded header signature offered as a confirmation,
	//     both delivery forms (3 deputies, outsider receiver) must NOT count
	{
		s := c03newScn(c, 3, 3, 1000000, 1000, c03outsider)
		g := s.blks[0]
		b1 := s.build(g, g.blk.Time()+1, nil)
		b2 := s.build(b1, b1.blk.Time()+1, nil)
		s.start()
		s.deliverBlock(b1, b1.blk.Header.SignData, nil)
		s.deliverConfirms(b1, 1, [][]byte{s.mall(b1.blk.Header.SignData)})
		s.deliverBlock(b2, b2.blk.Header.SignData, [][]byte{s.mall(b2.blk.Header.SignData)})
		if got := s.R.DM.TwoThirdDeputyCount(1); got != 2 {
			c.Fail("c03/two-thirds-float", fmt.Sprintf("TwoThirdDeputyCount with 3 deputies = %d", got), nil)
		}
		s.close()
	}
	// (2) fixed by /repo commit 262c027. The receiver is a deputy (4 deputies): a block comes back carrying the receiver's own earlier
	//     confirmation re-encoded by a peer (the node had signed it and crashed before storing the block);
	//     TryConfirm must not add the node's signature a second time
	{
		s := c03newScn(c, 4, 4, 1000000, 1000, 1)
		g := s.blks[0]
		b1 := s.build(g, g.blk.Time()+1, nil)
		if b1.miner == 1 {
			s.rself, s.rkey = 2, s.keys[2]
		}
		b2 := s.build(b1, b1.blk.Time()+1, nil)
		s.start()
		s.deliverBlock(b1, b1.blk.Header.SignData, [][]byte{s.mall(s.signKey(s.rkey, b1.hash))})
		// same through tryConfirmStable: b1 becomes stable as an ancestor of b2 and still lacks confirms
		var sigs [][]byte
		for i := 0; i < 4; i++ {
			if i != b2.miner && i != s.rself {
				sigs = append(sigs, s.signKey(s.keys[i], b2.hash))
			}
		}
		s.deliverBlock(b2, b2.blk.Header.SignData, sigs)
		c.Count("regression:own-confirm-twice")
		s.close()
	}
	// (3) C10's open finding (a snapshot block whose deputy list NewTermRecord refuses) seen from finality:
	//     the panic comes after SetStableBlock has committed and before the head is re-picked
	c03snapshotPanic(c)
}

// c03snapshotPanic: 1 genesis deputy (every block is final at once), deputyCount 2, TermDuration 6:
// h1 fund U1 and V; h2 U1 registers (50,000 votes), V votes for D0 (4 votes); h6 (snapshot) gives V
// 20,000,000 LEMO: order [U1, D0] from the parent's top list, votes [50000, 100004] from the block's own
// post-state: NewTermRecord panics with ErrInvalidDeputyVotes when the block becomes stable.
func c03snapshotPanic(c *Ctx) {
	s := c03newScn(c, 1, 2, 6, 2, c03outsider)
	defer s.close()
	u1k, vk, u1node := detKey("c10-u1"), detKey("c10-v"), detKey("c10-u1-node")
	s.keys = append(s.keys, u1node) // node 1 of the model
	w := s.w
	parent := s.blks[0]
	t := parent.blk.Time() + 1
	var chain []*c03blk
	for h := 1; h <= 7; h++ {
		var txs types.Transactions
		opt := func(m string) TxOpt { return TxOpt{Exp: uint64(t) + 100, Msg: m} }
		switch h {
		case 1:
			txs = append(txs, txTransfer(w.FounderKey, keyAddr(u1k), lemo(6000000), opt("fund-u1")), txTransfer(w.FounderKey, keyAddr(vk), lemo(1000), opt("fund-v")))
		case 2:
			txs = append(txs, txRegister(u1k, lemo(5000000), u1node, false, nil, opt("reg-u1")), txVote(vk, keyAddr(w.DeputyKeys[0]), opt("vote-d0")))
		case 6:
			txs = append(txs, txTransfer(w.FounderKey, keyAddr(vk), lemo(20000000), opt("fund-v-again")))
		}
		b := s.build(parent, t, txs)
		if b == nil {
			c.Count(fmt.Sprintf("snapshot-panic:no-block-%d", h))
			break
		}
		chain = append(chain, b)
		parent = b
		t += 10
	}
	s.start()
	panicked := false
	for _, b := range chain {
		if s.deliverBlock(b, b.blk.Header.SignData, nil) == "panic" {
			panicked = true
		}
	}
	c.Count("regression:snapshot-panic")
	// by construction the deputy list of block 6 has votes [50000, 100004] along the ranks: not loadable
	if len(chain) >= 6 && !chain[5].snapBad {
		c.Fail("c03/fed-fact/snap-bad", "the snapshot block of the regression scenario (votes rising along the ranks) is not classified as bad", s.replay())
	}
	if !panicked && c03findingOpen("c10/snapshot-deputies-not-loadable") {
		c.Fail("c03/regression-not-reproduced/snapshot-panic", "C10's finding c10/snapshot-deputies-not-loadable is registered as open, but the snapshot block with rising votes no longer makes UpdateStable panic: the witness of c03/panic-after-stable-commit is stale", s.replay())
	}
}

// c03findingOpen reads /verif/known_findings.json (two levels above the -out directory check uses).
func c03findingOpen(sig string) bool {
	for _, p := range []string{"../../known_findings.json", "/verif/known_findings.json"} {
		buf, err := os.ReadFile(p)
		if err != nil {
			continue
		}
		var d struct {
			Findings []struct {
				Sig    string `json:"sig"`
				Status string `json:"status"`
			} `json:"findings"`
		}
		if json.Unmarshal(buf, &d) != nil {
			continue
		}
		for _, f := range d.Findings {
			if f.Sig == sig && (f.Status == "" || f.Status == "open") {
				return true
			}
		}
		return false
	}
	return false
}

type c03noBlocks struct{}

func (c03noBlocks) GetBlockByHeight(height uint32) (*types.Block, error) {
	return nil, store.ErrBlockNotExist
}

// c03twoThirdsReal calls the REAL Manager.TwoThirdDeputyCount for terms of 1..200 deputies (the `tt` sweep
// above is a transcription of its float expression, not a call).
func c03twoThirdsReal(c *Ctx) {
	oldT := params.TermDuration
	params.TermDuration = 1000000
	defer func() { params.TermDuration = oldT }()
	for n := 1; n <= 200; n++ {
		var ds types.DeputyNodes
		for i := 0; i < n; i++ {
			ds = append(ds, &types.DeputyNode{MinerAddress: common.BigToAddress(big.NewInt(int64(5000 + i))), NodeID: []byte{byte(i >> 8), byte(i), 1}, Rank: uint32(i), Votes: big.NewInt(int64(1000 - i))})
		}
		got := Safe(func() string {
			dm := deputynode.NewManager(65536, c03noBlocks{})
			dm.SaveSnapshot(0, ds)
			return fmt.Sprintf("%d", dm.TwoThirdDeputyCount(1))
		})
		if got != fmt.Sprintf("%d", (2*n+2)/3) {
			c.Fail("c03/two-thirds-float", fmt.Sprintf("Manager.TwoThirdDeputyCount with %d deputies = %s, want %d", n, got, (2*n+2)/3), nil)
		}
	}
	c.Count("tt-real-1..200")
}

func c03scenario(c *Ctx) {
	terms := c.Rnd.Intn(100) < 35
	nDep := []int{2, 3, 3, 3, 4, 4, 5, 6, 7}[c.Rnd.Intn(9)]
	dc := nDep
	T, I := uint32(1000000), uint32(1000)
	if terms {
		nDep = 3 + c.Rnd.Intn(3)
		dc = 2 + c.Rnd.Intn(nDep-1) // 2..nDep: mostly fewer seats than candidates, so the deputy SET changes with the ranking
		T, I = uint32(5+c.Rnd.Intn(2)), uint32(1+c.Rnd.Intn(2))
	} else {
		switch c.Rnd.Intn(10) {
		case 0, 1:
			dc = nDep + 1 + c.Rnd.Intn(3) // fast path threshold above the real one
		case 2:
			if nDep > 2 {
				dc = 2 + c.Rnd.Intn(nDep-2) // genesis names more candidates than the node admits
			}
		case 3:
			if c.Rnd.Intn(3) == 0 {
				dc = 1 // single deputy: every block is final at once
			}
		}
	}
	rself := c03outsider
	if c.Rnd.Intn(100) < 60 {
		rself = c.Rnd.Intn(nDep)
	}
	s := c03newScn(c, nDep, dc, T, I, rself)
	defer s.close()
	n := nDep
	if dc < n {
		n = dc
	}
	c.Count(fmt.Sprintf("n=%d", n))
	if dc > nDep {
		c.Count("dc>n")
	} else if dc < nDep {
		c.Count("dc<nDep")
	}
	if terms {
		c.Count("scenario:term-boundary")
	} else {
		c.Count("scenario:single-term")
	}
	if rself == c03outsider {
		c.Count("receiver:outsider")
	} else if rself < n {
		c.Count("receiver:deputy")
	} else {
		c.Count("receiver:candidate-not-deputy-in-term0")
	}
	if got, want := s.R.DM.TwoThirdDeputyCount(1), uint32((2*n+2)/3); got != want {
		c.Fail("c03/two-thirds-float", fmt.Sprintf("TwoThirdDeputyCount with %d deputies = %d, want %d", n, got, want), nil)
	}

	// ---- block tree on the builder ----
	used := map[string]bool{}
	last := s.blks[0]
	grow := func(m int, maxHeight uint32, voteAt int) {
		for i := 0; i < m; i++ {
			parent := last
			if n > 1 {
				switch x := c.Rnd.Intn(100); {
				case x < 28:
					var cands []*c03blk
					for _, b := range s.blks {
						if b.built && b.alive && b.height < maxHeight {
							cands = append(cands, b)
						}
					}
					if len(cands) > 0 {
						parent = cands[c.Rnd.Intn(len(cands))]
					}
				case x < 36:
					if s.blks[0].alive {
						parent = s.blks[0]
					}
				}
			}
			if parent.height >= maxHeight {
				continue
			}
			nd := len(s.B.DM.GetDeputiesByHeight(parent.height+1, true))
			if nd == 0 {
				continue
			}
			d := 1 + c.Rnd.Intn(nd)
			t := parent.blk.Time() + uint32(10*(d-1)+c.Rnd.Intn(10))
			key := fmt.Sprintf("%d/%d", parent.id, t)
			if used[key] {
				continue
			}
			used[key] = true
			var txs types.Transactions
			if voteAt > 0 && int(parent.height)+1 == voteAt && parent.id == last.id {
				// the founder (all LEMO) votes for one candidate: it ranks first in the next term
				txs = append(txs, txVote(s.w.FounderKey, keyAddr(s.keys[c.Rnd.Intn(nDep)]), TxOpt{Exp: uint64(t) + 100}))
				c.Count("tree:vote-tx")
			}
			b := s.build(parent, t, txs)
			if b == nil {
				continue
			}
			if parent.id != last.id {
				c.Count("tree:fork")
			} else {
				c.Count("tree:extend")
			}
			if b.height > last.height || b.height == last.height && parent.id == last.id {
				last = b
			}
			if b.nextDep != "-" {
				c.Count("tree:snapshot-block")
			}
			if c.Rnd.Intn(14) == 0 {
				s.corrupt(b)
				c.Count("tree:corrupt-twin")
			}
		}
	}
	if !terms {
		m := 3 + c.Rnd.Intn(8)
		if c.Rnd.Intn(4) == 0 {
			m = 11 + c.Rnd.Intn(8) // bigger trees
		}
		if n == 1 {
			m = 3 + c.Rnd.Intn(5)
		}
		grow(m, 1000, 0)
	} else {
		voteAt := 0
		if c.Rnd.Intn(100) < 70 {
			voteAt = 1 + c.Rnd.Intn(3)
		}
		// phase 1: up to the end of the interim period
		for tries := 0; last.height < T+I && tries < 6; tries++ {
			grow(int(T+I)+2, T+I, voteAt)
		}
		// the builder must know the next term before it can mine past the interim period
		var snap *c03blk
		for a := last; a != nil && a.parent >= 0; a = s.blks[a.parent] {
			if a.height == T {
				snap = a
			}
		}
		if snap != nil && last.height == T+I {
			target := snap
			for a := last; a.height > T; a = s.blks[a.parent] { // sometimes a later trunk block
				if c.Rnd.Intn(4) == 0 {
					target = a
					break
				}
			}
			if s.stabilizeOnBuilder(target) {
				c.Count("builder:next-term-known")
				// phase 2: blocks signed by the deputies of the next term
				grow(3+c.Rnd.Intn(6), T+I+8, 0)
			}
		} else {
			c.Count("builder:trunk-too-short")
		}
	}
	s.start()

	// ---- deliveries in a perturbed order ----
	type ev struct {
		key     float64
		b       *c03blk
		kind    int // 0 block, 1 confirms, 2 mine, 3 reopen
		hdr     []byte
		sigs    [][]byte
		cheight uint32
	}
	var evs []ev
	nb := float64(len(s.blks))
	for _, b := range s.blks[1:] {
		if c.Rnd.Intn(25) == 0 {
			c.Count("blk-withheld")
			continue
		}
		reps := 1
		if c.Rnd.Intn(6) == 0 {
			reps = 2
		}
		for r := 0; r < reps; r++ {
			e := ev{key: float64(b.id) + c.Rnd.NormFloat64()*0.55 + float64(r)*2.5, b: b, kind: 0, hdr: b.blk.Header.SignData}
			switch x := c.Rnd.Intn(100); {
			case x < 10:
				e.hdr = s.mall(b.blk.Header.SignData)
				c.Count("hdr:malleated")
			case x < 15 && b.valid:
				// signed by somebody else over the same hash: wrong signer
				k := s.keys[c.Rnd.Intn(len(s.keys))]
				if c.Rnd.Intn(2) == 0 {
					k = detKey("outsider-0")
				}
				e.hdr = s.signKey(k, b.hash)
				c.Count("hdr:other-signer")
			}
			if c.Rnd.Intn(100) < 35 {
				e.sigs = s.genSigs(b, 3)
			}
			evs = append(evs, e)
		}
	}
	nc := len(s.blks)/2 + c.Rnd.Intn(2*len(s.blks))
	// how late confirmations are relative to blocks: late confirmations let forks grow before one of them wins
	delay := []float64{0, 0, 2, 5, 9}[c.Rnd.Intn(5)]
	c.Count(fmt.Sprintf("confirm-delay=%v", delay))
	for i := 0; i < nc; i++ {
		b := s.blks[1+c.Rnd.Intn(len(s.blks)-1)]
		e := ev{key: float64(b.id) - 0.3 + delay + c.Rnd.Float64()*5, b: b, kind: 1, cheight: b.height}
		e.sigs = s.genSigs(b, 3)
		switch c.Rnd.Intn(25) {
		case 0:
			e.cheight = b.height + 1
			c.Count("cf:wrong-height")
		case 1:
			e.cheight = b.height - 1
			c.Count("cf:wrong-height")
		case 2:
			e.sigs = nil
			c.Count("cf:empty")
		}
		evs = append(evs, e)
	}
	if terms && c.Rnd.Intn(100) < 75 {
		// a full honest confirmation set for one trunk block at or above the snapshot height, so that the
		// receiver learns the next term in most scenarios
		for a := last; a != nil && a.parent >= 0; a = s.blks[a.parent] {
			if a.height == T || a.height > T && a.height <= T+I && c.Rnd.Intn(3) == 0 {
				var sigs [][]byte
				for i := 0; i < len(s.keys); i++ {
					if i != a.miner {
						sigs = append(sigs, s.signKey(s.keys[i], a.hash))
					}
				}
				evs = append(evs, ev{key: float64(a.id) + 0.5 + c.Rnd.Float64()*3, b: a, kind: 1, cheight: a.height, sigs: sigs})
				c.Count("cf:helper-full-set")
				break
			}
		}
	}
	if rself != c03outsider {
		for i := 0; i < 1+c.Rnd.Intn(3); i++ {
			evs = append(evs, ev{key: c.Rnd.Float64() * (nb + 3), kind: 2})
		}
	}
	if c.Rnd.Intn(100) < 40 {
		for i := 0; i < 1+c.Rnd.Intn(2); i++ {
			evs = append(evs, ev{key: 1 + c.Rnd.Float64()*(nb+3), kind: 3})
		}
	}
	sort.SliceStable(evs, func(i, j int) bool { return evs[i].key < evs[j].key })
	for _, e := range evs {
		switch e.kind {
		case 0:
			s.deliverBlock(e.b, e.hdr, e.sigs)
		case 1:
			s.deliverConfirms(e.b, e.cheight, e.sigs)
		case 2:
			s.mine()
		case 3:
			s.reopen()
		}
	}
	// catch-up phase (what block sync does): blocks the receiver still lacks come again, parents first,
	// interleaved with more confirmation packets
	nblk := len(s.blks)
	for _, b := range s.blks[1:nblk] {
		if b.built && b.valid && !s.R.BC.HasBlock(b.hash) && c.Rnd.Intn(8) != 0 {
			c.Count("blk-catch-up")
			var carried [][]byte
			if c.Rnd.Intn(4) == 0 {
				carried = s.genSigs(b, 3)
			}
			s.deliverBlock(b, b.blk.Header.SignData, carried)
		}
		if c.Rnd.Intn(2) == 0 {
			t := s.blks[1+c.Rnd.Intn(len(s.blks)-1)]
			s.deliverConfirms(t, t.height, s.genSigs(t, 2))
		}
	}
	if c.Rnd.Intn(5) == 0 {
		s.reopen()
	}
}

package main

// C03 — finality: stable needs 2/3 DISTINCT deputies incl. the miner, moves forward along one chain,
// head descends from stable, for any arrival order of blocks and confirmations.
//
// A builder node assembles a block tree (forks above genesis) with the real miner path; a second,
// receiving node (not a deputy itself, so Confirmer.TryConfirm / batchConfirmStable are no-ops and
// the run is deterministic) gets the blocks and confirmation packets in a perturbed order through
// DPoVP.InsertBlock / DPoVP.InsertConfirms.  After every operation the canonical line
//   <result> stable=<id>@<h> head=<id>@<h> tree=<id:confirms,...>[ q=<distinct signers of the new stable>]
// is compared with the Lean model (LemoModel/Stable.lean) and the direct oracle checks the property.

import (
	"bytes"
	"crypto/ecdsa"
	"fmt"
	"math"
	"math/big"
	"os"
	"runtime"
	"sort"
	"strings"
	"time"

	"github.com/LemoFoundationLtd/lemochain-core/chain/consensus"
	"github.com/LemoFoundationLtd/lemochain-core/chain/deputynode"
	"github.com/LemoFoundationLtd/lemochain-core/chain/types"
	"github.com/LemoFoundationLtd/lemochain-core/common"
	"github.com/LemoFoundationLtd/lemochain-core/common/crypto"
)

func init() { subs["c03"] = c03 }

type c03blk struct {
	id     int
	blk    *types.Block // canonical header signature
	hash   common.Hash
	parent int
	height uint32
	miner  int
	valid  bool // passes every check that is outside the model
	rank   int
	hdrVar int  // header signature variant delivered to the receiver
	built  bool // known to the builder (can be a parent)
}

func c03errName(err error) string {
	switch err {
	case nil:
		return "ok"
	case consensus.ErrIgnoreBlock:
		return "ErrIgnoreBlock"
	case consensus.ErrVerifyBlockFailed:
		return "ErrVerifyBlockFailed"
	case consensus.ErrSaveBlock:
		return "ErrSaveBlock"
	case consensus.ErrNoNewConfirm:
		return "ErrNoNewConfirm"
	case consensus.ErrBlockNotExist:
		return "ErrBlockNotExist"
	case consensus.ErrConfirmsEnough:
		return "ErrConfirmsEnough"
	case consensus.ErrInvalidSignedConfirmInfo:
		return "ErrInvalidSignedConfirmInfo"
	case consensus.ErrExistedConfirm:
		return "ErrExistedConfirm"
	case consensus.ErrInvalidConfirmSigner:
		return "ErrInvalidConfirmSigner"
	case consensus.ErrSetStableBlockToDB:
		return "ErrSetStableBlockToDB"
	case consensus.ErrSaveConfirmToDB:
		return "ErrSaveConfirmToDB"
	}
	return "err:" + strings.ReplaceAll(err.Error(), " ", "_")
}

var c03N, _ = new(big.Int).SetString("fffffffffffffffffffffffffffffffebaaedce6af48a03bbfd25e8cd0364141", 16)

// c03signNonce signs with an explicit nonce (a deputy signing one hash many times).
func c03signNonce(hash []byte, k *ecdsa.PrivateKey, nonce *big.Int) []byte {
	curve := crypto.S256()
	rx, ry := curve.ScalarBaseMult(nonce.Bytes())
	r := new(big.Int).Mod(rx, c03N)
	z := new(big.Int).SetBytes(hash)
	s := new(big.Int).Mul(r, k.D)
	s.Add(s, z)
	s.Mul(s, new(big.Int).ModInverse(nonce, c03N))
	s.Mod(s, c03N)
	out := make([]byte, 65)
	rb, sb := r.Bytes(), s.Bytes()
	copy(out[32-len(rb):32], rb)
	copy(out[64-len(sb):64], sb)
	out[64] = byte(ry.Bit(0))
	return out
}

// c03scn is one scenario: world, the two nodes, the generated blocks, signature naming.
type c03scn struct {
	c      *Ctx
	w      *World
	B, R   *Node
	nDep   int
	dc     int
	n      int // deputies of the term = min(nDep, dc)
	blks   []*c03blk
	byHash map[common.Hash]*c03blk
	names  map[string]string // (target hash, sig bytes) -> model name
	fresh  int
	lines  []string // op lines of this scenario (replay)
	// oracle state
	prevStable   *c03blk
	prevHead     *c03blk
	prevTree     map[int]bool
	committedIDs []int
}

func (s *c03scn) deputyIndex(nodeID []byte) int {
	for i, k := range s.w.DeputyKeys {
		if bytes.Equal(crypto.PrivateKeyToNodeID(k), nodeID) {
			return i
		}
	}
	return -1
}

// sigName: the abstract signature (recovered signer, variant) for `sig` offered for block `h`.
func (s *c03scn) sigName(h common.Hash, sig []byte) string {
	key := string(h[:]) + string(sig)
	if v, ok := s.names[key]; ok {
		return v
	}
	var name string
	nodeID, err := types.BytesToSignData(sig).RecoverNodeID(h)
	if err != nil {
		s.fresh++
		name = fmt.Sprintf("x.%d", s.fresh)
	} else if i := s.deputyIndex(nodeID); i >= 0 {
		canon, _ := crypto.Sign(h[:], s.w.DeputyKeys[i])
		switch {
		case bytes.Equal(canon, sig):
			name = fmt.Sprintf("%d.0", i)
		case bytes.Equal(malleate(canon), sig):
			name = fmt.Sprintf("%d.1", i)
		default:
			s.fresh++
			name = fmt.Sprintf("%d.%d", i, s.fresh+1)
		}
	} else {
		s.fresh++
		name = fmt.Sprintf("%d.0", 1000+s.fresh)
	}
	s.names[key] = name
	return name
}

func (s *c03scn) sigNames(h common.Hash, sigs [][]byte) string {
	if len(sigs) == 0 {
		return "-"
	}
	out := make([]string, len(sigs))
	for i, g := range sigs {
		out[i] = s.sigName(h, g)
	}
	return strings.Join(out, ",")
}

// genSig makes one signature offered for block b; the class is counted.
func (s *c03scn) genSig(b *c03blk, prev [][]byte) []byte {
	c := s.c
	h := b.hash
	dep := func() *ecdsa.PrivateKey { return s.w.DeputyKeys[c.Rnd.Intn(s.nDep)] }
	sign := func(k *ecdsa.PrivateKey, hh common.Hash) []byte {
		g, err := crypto.Sign(hh[:], k)
		if err != nil {
			panic(err)
		}
		return g
	}
	x := c.Rnd.Intn(100)
	switch {
	case x < 50:
		c.Count("sig:deputy")
		return sign(dep(), h)
	case x < 58:
		c.Count("sig:miner-malleated")
		return malleate(b.blk.Header.SignData)
	case x < 66:
		c.Count("sig:deputy-malleated")
		return malleate(sign(dep(), h))
	case x < 72:
		c.Count("sig:miner-canonical")
		return append([]byte{}, b.blk.Header.SignData...)
	case x < 78:
		c.Count("sig:non-deputy")
		return sign(detKey(fmt.Sprintf("outsider-%d", c.Rnd.Intn(3))), h)
	case x < 84:
		c.Count("sig:other-hash")
		other := s.blks[c.Rnd.Intn(len(s.blks))]
		if other.hash == h {
			return sign(dep(), s.B.BC.Genesis().Hash())
		}
		return sign(dep(), other.hash)
	case x < 89:
		c.Count("sig:unrecoverable")
		g := sign(dep(), h)
		g[64] = byte(4 + c.Rnd.Intn(200))
		return g
	case x < 95:
		if len(prev) > 0 {
			c.Count("sig:dup-in-packet")
			return append([]byte{}, prev[c.Rnd.Intn(len(prev))]...)
		}
		c.Count("sig:deputy")
		return sign(dep(), h)
	default:
		c.Count("sig:deputy-other-nonce")
		nonce := new(big.Int).SetInt64(int64(2 + c.Rnd.Intn(1000000)))
		return c03signNonce(h[:], dep(), nonce)
	}
}

func (s *c03scn) genSigs(b *c03blk, max int) [][]byte {
	k := 1 + s.c.Rnd.Intn(max)
	if s.c.Rnd.Intn(12) == 0 {
		k = s.n + 1
	}
	var out [][]byte
	for i := 0; i < k; i++ {
		out = append(out, s.genSig(b, out))
	}
	return out
}

func toSignData(sigs [][]byte) []types.SignData {
	out := make([]types.SignData, len(sigs))
	for i, g := range sigs {
		out[i] = types.BytesToSignData(g)
	}
	return out
}

func (s *c03scn) idOf(b *types.Block) int {
	if x, ok := s.byHash[b.Hash()]; ok {
		return x.id
	}
	return -1
}

// observe prints the canonical state line and runs the direct oracle.
func (s *c03scn) observe(res string) string {
	c := s.c
	runtime.Gosched()
	st := s.R.BC.StableBlock()
	hd := s.R.BC.CurrentBlock()
	sb, hb := s.byHash[st.Hash()], s.byHash[hd.Hash()]
	if sb == nil || hb == nil {
		c.Fail("c03/unknown-block", "stable or head is a block the harness never made", s.replay())
		return res + " stable=?"
	}
	type ent struct{ id, k int }
	var tree []ent
	s.R.DB.IterateUnConfirms(func(b *types.Block) { tree = append(tree, ent{s.idOf(b), len(b.Confirms)}) })
	sort.Slice(tree, func(i, j int) bool { return tree[i].id < tree[j].id })
	ts := "-"
	if len(tree) > 0 {
		parts := make([]string, len(tree))
		for i, e := range tree {
			parts[i] = fmt.Sprintf("%d:%d", e.id, e.k)
		}
		ts = strings.Join(parts, ",")
	}
	line := fmt.Sprintf("%s stable=%d@%d head=%d@%d tree=%s", res, sb.id, st.Height(), hb.id, hd.Height(), ts)

	// ---- direct oracle ----
	up := func(b *c03blk, h uint32) *c03blk { // ancestor of b at height h
		for b != nil && b.height > h {
			if b.parent < 0 {
				return nil
			}
			b = s.blks[b.parent]
		}
		return b
	}
	old := s.prevStable
	if st.Height() < old.height {
		c.Fail("c03/stable-regressed", fmt.Sprintf("stable height went from %d to %d", old.height, st.Height()), s.replay())
	}
	changed := sb.id != old.id
	if changed {
		c.Count("stable-changed")
		if a := up(sb, old.height); a == nil || a.id != old.id {
			c.Fail("c03/stable-not-descendant", fmt.Sprintf("new stable %d@%d does not descend from old stable %d@%d", sb.id, sb.height, old.id, old.height), s.replay())
		}
		if sb.height-old.height > 1 {
			c.Count("stable-jump>1")
		}
	}
	if a := up(hb, sb.height); hb.height < sb.height || a == nil || a.id != sb.id {
		c.Fail("c03/head-not-descendant", fmt.Sprintf("head %d@%d does not descend from stable %d@%d", hb.id, hb.height, sb.id, sb.height), s.replay())
	}
	if hb.id != sb.id {
		c.Count("head-above-stable")
	}
	if s.prevHead != nil && hb.id != s.prevHead.id {
		if hb.parent == s.prevHead.id {
			c.Count("head:extend")
		} else if a := up(hb, s.prevHead.height); a != nil && a.id == s.prevHead.id {
			c.Count("head:jump-same-fork")
		} else {
			c.Count("head:switch-fork")
		}
	}
	s.prevHead = hb
	nowTree := map[int]bool{}
	for _, e := range tree {
		nowTree[e.id] = true
	}
	if changed {
		cut := 0
		for id := range s.prevTree {
			if !nowTree[id] {
				if a := up(sb, s.blks[id].height); a == nil || a.id != id {
					cut++
				}
			}
		}
		if cut > 0 {
			c.Count("prune:branches-cut")
		} else {
			c.Count("prune:nothing-cut")
		}
	}
	s.prevTree = nowTree
	// GetBlockByHeight over the stable range: one chain, never replaced
	var prevHash common.Hash
	for h := uint32(0); h <= st.Height(); h++ {
		b, err := s.R.DB.GetBlockByHeight(h)
		if err != nil || b == nil || b.Height() != h {
			c.Fail("c03/stable-range-hole", fmt.Sprintf("GetBlockByHeight(%d) under stable %d: %v", h, st.Height(), err), s.replay())
			break
		}
		id := s.idOf(b)
		if int(h) < len(s.committedIDs) {
			if s.committedIDs[h] != id {
				c.Fail("c03/stable-replaced", fmt.Sprintf("height %d was block %d, now %d", h, s.committedIDs[h], id), s.replay())
			}
		} else {
			s.committedIDs = append(s.committedIDs, id)
		}
		if h > 0 && b.ParentHash() != prevHash {
			c.Fail("c03/stable-chain-broken", fmt.Sprintf("block at height %d is not the child of the block at %d", h, h-1), s.replay())
		}
		if h == st.Height() && b.Hash() != st.Hash() {
			c.Fail("c03/stable-range-top", "GetBlockByHeight(stable height) is not the stable block", s.replay())
		}
		prevHash = b.Hash()
	}
	// quorum: DISTINCT deputies among header signer + confirms of the block that just became stable
	if changed {
		need := (2*s.n + 2) / 3
		type rec struct {
			node int
			sig  []byte
		}
		var recs []rec
		h := st.Hash()
		all := append([][]byte{st.Header.SignData}, func() [][]byte {
			var o [][]byte
			for _, g := range st.Confirms {
				o = append(o, append([]byte{}, g[:]...))
			}
			return o
		}()...)
		distinct := map[int]bool{}
		for _, g := range all {
			id, err := types.BytesToSignData(g).RecoverNodeID(h)
			node := -1
			if err == nil {
				node = s.deputyIndex(id)
				if node >= s.n {
					node = -1
				}
			}
			recs = append(recs, rec{node, g})
			if node >= 0 {
				distinct[node] = true
			}
		}
		line += fmt.Sprintf(" q=%d", len(distinct))
		if len(distinct) < need {
			cause := "other"
			for i := 0; i < len(recs) && cause == "other"; i++ {
				for j := i + 1; j < len(recs); j++ {
					if recs[i].node >= 0 && recs[i].node == recs[j].node {
						if bytes.Equal(malleate(recs[i].sig), recs[j].sig) {
							cause = "malleated-sig"
						} else if cause == "other" {
							cause = "resigned-nonce"
						}
					}
				}
			}
			// prefer the malleation class when both occur
			for i := 0; i < len(recs); i++ {
				for j := i + 1; j < len(recs); j++ {
					if recs[i].node >= 0 && recs[i].node == recs[j].node && bytes.Equal(malleate(recs[i].sig), recs[j].sig) {
						cause = "malleated-sig"
					}
				}
			}
			for _, r := range recs {
				if r.node < 0 && cause == "other" {
					cause = "non-deputy-counted"
				}
			}
			c.Count("quorum-violated:" + cause)
			c.Fail("c03/quorum-not-distinct/"+cause, fmt.Sprintf("block %d@%d became stable with %d signature(s) from %d distinct deputy(ies) of %d; need %d distinct", sb.id, sb.height, len(all), len(distinct), s.n, need), s.replay())
		} else {
			c.Count("quorum-ok")
		}
	}
	s.prevStable = sb
	return line
}

func (s *c03scn) replay() interface{} {
	l := s.lines
	if len(l) > 60 {
		l = l[len(l)-60:]
	}
	return map[string]interface{}{"ops": append([]string{}, l...)}
}

func (s *c03scn) op(line, out string) {
	s.c.Op(line, out)
}

// deliverBlock runs one `blk` op on the receiver.
func (s *c03scn) deliverBlock(b *c03blk, hdr []byte, carried [][]byte) {
	c := s.c
	nb := CloneBlock(b.blk)
	nb.Header.SignData = append([]byte{}, hdr...)
	nb.Confirms = toSignData(carried)
	v := 0
	if b.valid {
		v = 1
	}
	line := fmt.Sprintf("blk %d %d %d %d %d %s %d %s", b.id, b.parent, b.height, b.miner, b.rank, s.sigName(b.hash, hdr), v, s.sigNames(b.hash, carried))
	deputynode.SetSelfNodeKey(detKey("outsider"))
	s.lines = append(s.lines, line)
	res := Safe(func() string { return c03errName(s.R.Insert(nb)) })
	c.Count("blk:" + res)
	if len(carried) > 0 {
		c.Count("blk-carried-confirms")
	}
	s.op(line, s.observe(res))
}

func (s *c03scn) deliverConfirms(b *c03blk, height uint32, sigs [][]byte) {
	c := s.c
	line := fmt.Sprintf("cf %d %d %s", b.id, height, s.sigNames(b.hash, sigs))
	deputynode.SetSelfNodeKey(detKey("outsider"))
	eng := s.R.BC.VerifEngine()
	switch {
	case !s.R.BC.HasBlock(b.hash):
		c.Count("cf-target:unknown")
	case b.height <= s.R.BC.StableBlock().Height():
		c.Count("cf-target:committed")
	default:
		c.Count("cf-target:unconfirmed")
	}
	s.lines = append(s.lines, line)
	res := Safe(func() string { return c03errName(eng.InsertConfirms(height, b.hash, toSignData(sigs))) })
	c.Count("cf:" + res)
	s.op(line, s.observe(res))
}

func c03newScn(c *Ctx, nDep, dc int) *c03scn {
	now := uint32(time.Now().Unix())
	w := NewWorld(nDep, now-500000, 10000)
	s := &c03scn{c: c, w: w, nDep: nDep, dc: dc, n: nDep, byHash: map[common.Hash]*c03blk{}, names: map[string]string{}}
	if dc < s.n {
		s.n = dc
	}
	s.B = w.NewNode(dc)
	s.R = w.NewNode(dc)
	g := s.B.BC.Genesis()
	gb := &c03blk{id: 0, blk: g, hash: g.Hash(), parent: -1, height: 0, valid: true, built: true}
	s.blks = []*c03blk{gb}
	s.byHash[gb.hash] = gb
	s.prevStable = gb
	return s
}

func (s *c03scn) close() {
	s.B.Close()
	s.R.Close()
}

// build makes a child of `parent` `dist` slots after it (offset r seconds into the slot).
func (s *c03scn) build(parent *c03blk, t uint32) *c03blk {
	blk, _, err := s.B.Build(parent.blk, t, nil, nil)
	if err != nil {
		s.c.Fail("c03/harness-build", fmt.Sprintf("Build on %d at %d: %v", parent.id, t, err), nil)
		return nil
	}
	if _, dup := s.byHash[blk.Hash()]; dup {
		return nil
	}
	deputynode.SetSelfNodeKey(detKey("outsider"))
	if err := s.B.Insert(CloneBlock(blk)); err != nil {
		s.c.Fail("c03/harness-build", fmt.Sprintf("builder rejected its own block (parent %d, t %d): %v", parent.id, t, err), nil)
		return nil
	}
	miner := -1
	for i, k := range s.w.DeputyKeys {
		if keyAddr(k) == blk.MinerAddress() {
			miner = i
		}
	}
	b := &c03blk{id: len(s.blks), blk: blk, hash: blk.Hash(), parent: parent.id, height: blk.Height(), miner: miner, valid: true, built: true}
	s.blks = append(s.blks, b)
	s.byHash[b.hash] = b
	return b
}

// corrupt derives a block with a wrong state root from b (new hash, signed by the real miner): every
// header-level check passes, VerifyAfterTxProcess fails.
func (s *c03scn) corrupt(b *c03blk) *c03blk {
	nb := CloneBlock(b.blk)
	nb.Header.VersionRoot[0] ^= 0x55
	Resign(nb, s.w.DeputyKeys[b.miner])
	x := &c03blk{id: len(s.blks), blk: nb, hash: nb.Hash(), parent: b.parent, height: b.height, miner: b.miner, valid: false}
	s.blks = append(s.blks, x)
	s.byHash[x.hash] = x
	return x
}

func (s *c03scn) rankAll() {
	idx := make([]int, len(s.blks))
	for i := range idx {
		idx[i] = i
	}
	sort.Slice(idx, func(i, j int) bool { return bytes.Compare(s.blks[idx[i]].hash[:], s.blks[idx[j]].hash[:]) < 0 })
	for r, i := range idx {
		s.blks[i].rank = r
	}
}

func (s *c03scn) start() {
	s.rankAll()
	line := fmt.Sprintf("new %d %d %d", s.dc, s.n, s.blks[0].rank)
	s.lines = append(s.lines, line)
	s.op(line, "ok")
}

func c03(c *Ctx) {
	// node data directories on tmpfs when available: opening a store on disk costs ~200 ms of fsync
	if st, err := os.Stat("/dev/shm"); err == nil && st.IsDir() && os.Getenv("TMPDIR") == "" {
		os.Setenv("TMPDIR", "/dev/shm")
	}
	// C03_ASIS=1 (debugging only, with VERIF_REPO=<tree where the fix commit d34eb0a is reverted>): tell the
	// model driver to run the old bytes-only verifier instead of the live one.
	if os.Getenv("C03_ASIS") != "" {
		c.Op("mode asis", "ok")
	}
	// ---- two_thirds_arith: the float expression of TwoThirdDeputyCount / IsConfirmEnough, all n < 65536 ----
	for n := 0; n < 65536; n++ {
		f := uint32(math.Ceil(float64(n) * 2.0 / 3.0))
		c.Op(fmt.Sprintf("tt %d", n), fmt.Sprintf("%d", f))
		if f != uint32((2*n+2)/3) || 3*int(f) < 2*n || 3*(int(f)-1) >= 2*n && n > 0 {
			c.Fail("c03/two-thirds-float", fmt.Sprintf("n=%d float expression gives %d", n, f), nil)
		}
	}
	c.Count("tt-sweep")

	// ---- regression: the witness of the defect fixed by /repo commit d34eb0a, both delivery forms
	// (3 deputies; the miner's re-encoded header signature offered as a confirmation must NOT count) ----
	{
		s := c03newScn(c, 3, 3)
		g := s.blks[0]
		b1 := s.build(g, g.blk.Time()+1)
		b2 := s.build(b1, b1.blk.Time()+1)
		s.start()
		s.deliverBlock(b1, b1.blk.Header.SignData, nil)
		s.deliverConfirms(b1, 1, [][]byte{malleate(b1.blk.Header.SignData)})
		s.deliverBlock(b2, b2.blk.Header.SignData, [][]byte{malleate(b2.blk.Header.SignData)})
		// the real TwoThirdDeputyCount of this node against the model's integer form
		if got := s.R.DM.TwoThirdDeputyCount(1); got != 2 {
			c.Fail("c03/two-thirds-float", fmt.Sprintf("TwoThirdDeputyCount with 3 deputies = %d", got), nil)
		}
		s.close()
	}

	for iter := 0; iter < c.N; iter++ {
		c03scenario(c)
	}
}

func c03scenario(c *Ctx) {
	nDep := []int{2, 3, 3, 3, 4, 4, 5, 6, 7}[c.Rnd.Intn(9)]
	dc := nDep
	switch c.Rnd.Intn(10) {
	case 0, 1:
		dc = nDep + 1 + c.Rnd.Intn(3) // fast path threshold above the real one
	case 2:
		if nDep > 2 {
			dc = 2 + c.Rnd.Intn(nDep-2) // genesis names more candidates than the node admits
		}
	case 3:
		if c.Rnd.Intn(3) == 0 {
			dc = 1 // single deputy: every block is final at once
		}
	}
	s := c03newScn(c, nDep, dc)
	defer s.close()
	c.Count(fmt.Sprintf("n=%d", s.n))
	if dc > nDep {
		c.Count("dc>n")
	} else if dc < nDep {
		c.Count("dc<nDep")
	}
	if got, want := s.R.DM.TwoThirdDeputyCount(1), uint32((2*s.n+2)/3); got != want {
		c.Fail("c03/two-thirds-float", fmt.Sprintf("TwoThirdDeputyCount with %d deputies = %d, want %d", s.n, got, want), nil)
	}

	// ---- block tree on the builder ----
	m := 3 + c.Rnd.Intn(8)
	used := map[string]bool{}
	last := s.blks[0]
	for i := 0; i < m; i++ {
		parent := last
		if s.n > 1 {
			switch x := c.Rnd.Intn(100); {
			case x < 30:
				var cands []*c03blk
				for _, b := range s.blks {
					if b.built {
						cands = append(cands, b)
					}
				}
				parent = cands[c.Rnd.Intn(len(cands))]
			case x < 40:
				parent = s.blks[0]
			}
		}
		d := 1 + c.Rnd.Intn(s.n)
		t := parent.blk.Time() + uint32(10*(d-1)+c.Rnd.Intn(10))
		key := fmt.Sprintf("%d/%d", parent.id, t)
		if used[key] {
			continue
		}
		used[key] = true
		b := s.build(parent, t)
		if b == nil {
			continue
		}
		if parent.id != last.id {
			c.Count("tree:fork")
		} else {
			c.Count("tree:extend")
		}
		if b.height >= last.height {
			last = b
		}
		if c.Rnd.Intn(12) == 0 {
			s.corrupt(b)
			c.Count("tree:corrupt-twin")
		}
	}
	s.start()

	// ---- deliveries in a perturbed order ----
	type ev struct {
		key     float64
		b       *c03blk
		kind    int // 0 block, 1 confirms
		hdr     []byte
		sigs    [][]byte
		cheight uint32
	}
	var evs []ev
	for _, b := range s.blks[1:] {
		if c.Rnd.Intn(25) == 0 {
			c.Count("blk-withheld")
			continue
		}
		reps := 1
		if c.Rnd.Intn(6) == 0 {
			reps = 2
		}
		for r := 0; r < reps; r++ {
			e := ev{key: float64(b.id) + c.Rnd.NormFloat64()*0.55 + float64(r)*2.5, b: b, kind: 0, hdr: b.blk.Header.SignData}
			switch x := c.Rnd.Intn(100); {
			case x < 10:
				e.hdr = malleate(b.blk.Header.SignData)
				c.Count("hdr:malleated")
			case x < 15 && b.valid:
				// signed by somebody else over the same hash: wrong signer
				k := s.w.DeputyKeys[c.Rnd.Intn(s.nDep)]
				if c.Rnd.Intn(2) == 0 {
					k = detKey("outsider-0")
				}
				g, _ := crypto.Sign(b.hash[:], k)
				e.hdr = g
				c.Count("hdr:other-signer")
			}
			if c.Rnd.Intn(100) < 35 {
				e.sigs = s.genSigs(b, 3)
			}
			evs = append(evs, e)
		}
	}
	nc := len(s.blks)/2 + c.Rnd.Intn(2*len(s.blks))
	// how late confirmations are relative to blocks: late confirmations let forks grow before one of them wins
	delay := []float64{0, 0, 2, 5, 9}[c.Rnd.Intn(5)]
	c.Count(fmt.Sprintf("confirm-delay=%v", delay))
	for i := 0; i < nc; i++ {
		b := s.blks[1+c.Rnd.Intn(len(s.blks)-1)]
		e := ev{key: float64(b.id) - 0.3 + delay + c.Rnd.Float64()*5, b: b, kind: 1, cheight: b.height}
		e.sigs = s.genSigs(b, 3)
		switch c.Rnd.Intn(25) {
		case 0:
			e.cheight = b.height + 1
			c.Count("cf:wrong-height")
		case 1:
			e.cheight = b.height - 1
			c.Count("cf:wrong-height")
		case 2:
			e.sigs = nil
			c.Count("cf:empty")
		}
		evs = append(evs, e)
	}
	sort.SliceStable(evs, func(i, j int) bool { return evs[i].key < evs[j].key })
	for _, e := range evs {
		if e.kind == 0 {
			s.deliverBlock(e.b, e.hdr, e.sigs)
		} else {
			s.deliverConfirms(e.b, e.cheight, e.sigs)
		}
	}
	// catch-up phase (what block sync does): blocks the receiver still lacks come again, parents first,
	// interleaved with more confirmation packets
	for _, b := range s.blks[1:] {
		if b.valid && !s.R.BC.HasBlock(b.hash) && c.Rnd.Intn(8) != 0 {
			c.Count("blk-catch-up")
			var carried [][]byte
			if c.Rnd.Intn(4) == 0 {
				carried = s.genSigs(b, 3)
			}
			s.deliverBlock(b, b.blk.Header.SignData, carried)
		}
		if c.Rnd.Intn(2) == 0 {
			t := s.blks[1+c.Rnd.Intn(len(s.blks)-1)]
			s.deliverConfirms(t, t.height, s.genSigs(t, 2))
		}
	}
}

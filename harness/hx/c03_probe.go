package main

import (
	"bytes"
	"fmt"
	"time"

	"github.com/LemoFoundationLtd/lemochain-core/chain/consensus"
	"github.com/LemoFoundationLtd/lemochain-core/chain/deputynode"
	"github.com/LemoFoundationLtd/lemochain-core/chain/params"
	"github.com/LemoFoundationLtd/lemochain-core/chain/types"
	"github.com/LemoFoundationLtd/lemochain-core/common"
	"github.com/LemoFoundationLtd/lemochain-core/common/crypto"
)

func init() { subs["c03-probe"] = c03probe }

func c03probe(c *Ctx) {
	now := uint32(time.Now().Unix())
	{
		w := NewWorld(4, now-500000, 10000)
		b := w.NewNode(4)
		r := w.NewNode(4)
		g := b.BC.CurrentBlock()
		blk, _, err := b.Build(g, g.Time()+1, nil, nil)
		fmt.Println("build", err)
		self := w.DeputyKeys[1]
		if keyAddr(self) == blk.MinerAddress() {
			self = w.DeputyKeys[2]
		}
		cb := CloneBlock(blk)
		cb.Confirms = []types.SignData{types.BytesToSignData(malleate(func() []byte { x := Confirm(blk, self); return x[:] }()))}
		deputynode.SetSelfNodeKey(self)
		consensus.VerifSetSigCache(common.Hash{}, nil)
		fmt.Println("insert on deputy R:", r.Insert(cb))
		st := r.BC.StableBlock()
		fmt.Println("stable", st.Height(), "confirms", len(st.Confirms))
		h := st.Hash()
		for _, g := range st.Confirms {
			id, _ := g.RecoverNodeID(h)
			for i, k := range w.DeputyKeys {
				if bytes.Equal(id, crypto.PrivateKeyToNodeID(k)) {
					fmt.Println("  confirm by deputy", i)
				}
			}
		}
		b.Close()
		r.Close()
	}
	// term boundary
	oldT, oldI := params.TermDuration, params.InterimDuration
	params.TermDuration, params.InterimDuration = 6, 2
	defer func() { params.TermDuration, params.InterimDuration = oldT, oldI }()
	w := NewWorld(4, now-500000, 10000)
	b := w.NewNode(3)
	defer b.Close()
	p := b.BC.CurrentBlock()
	for h := 1; h <= 14; h++ {
		var txs types.Transactions
		if h == 2 {
			txs = append(txs, txVote(w.FounderKey, keyAddr(w.DeputyKeys[3]), TxOpt{Exp: uint64(p.Time()) + 100}))
		}
		consensus.VerifSetSigCache(common.Hash{}, nil)
		blk, inv, err := b.Build(p, p.Time()+1, txs, nil)
		if err != nil {
			fmt.Println("h", h, "build err", err)
			break
		}
		deputynode.SetSelfNodeKey(detKey("outsider"))
		err = b.Insert(CloneBlock(blk))
		var dn []int
		for _, d := range blk.DeputyNodes {
			for i, k := range w.DeputyKeys {
				if bytes.Equal(d.NodeID, crypto.PrivateKeyToNodeID(k)) {
					dn = append(dn, i)
				}
			}
		}
		mi := -1
		for i, k := range w.DeputyKeys {
			if keyAddr(k) == blk.MinerAddress() {
				mi = i
			}
		}
		fmt.Println("h", h, "miner", mi, "insert", err, "invalid", len(inv), "txs", len(blk.Txs), "deputyNodes", dn, "stable", b.BC.StableBlock().Height())
		// confirm it by two other deputies so that the builder's stable follows
		var sigs []types.SignData
		for i := 0; i < 3; i++ {
			if i != mi {
				sigs = append(sigs, Confirm(blk, w.DeputyKeys[i]))
			}
		}
		if h >= 9 {
			sigs = nil
			for _, i := range []int{0, 1, 2, 3} {
				if i != mi {
					sigs = append(sigs, Confirm(blk, w.DeputyKeys[i]))
				}
			}
		}
		e := b.BC.VerifEngine().InsertConfirms(blk.Height(), blk.Hash(), sigs)
		var ds []int
		for _, d := range b.DM.GetDeputiesByHeight(blk.Height()+1, true) {
			for i, k := range w.DeputyKeys {
				if bytes.Equal(d.NodeID, crypto.PrivateKeyToNodeID(k)) {
					ds = append(ds, i)
				}
			}
		}
		fmt.Println("   confirms:", e, "stable", b.BC.StableBlock().Height(), "deps(h+1)", ds)
		p = blk
	}
}

package main

// C03, "whatever order blocks and confirmations arrive in" includes AT THE SAME TIME: the network layer starts one goroutine per
// confirm message. DPoVP.insertConfirms is check-then-act (VerifyConfirmPacket drops a confirm whose signer already signed the
// stored block; SetConfirms de-duplicates by bytes only); what makes the pair atomic is that InsertConfirms holds chainLock over
// both. This probe forces the one interleaving that matters on a REAL engine over a REAL store: two packets for the same block,
// each carrying the same deputy's confirmation in another encoding ((r, s, v) and (r, N-s, v^1): no key needed), delivered by two
// goroutines; a pass-through wrapper around the store (it changes no data) holds the first WRITER of the confirmations until the second
// writer has arrived — or, when the engine serialises the two requests as it must, until a short timeout. The verdict is the
// property's own: the stable pointer may move only with 2/3 DISTINCT deputies, judged on the keys the harness itself used.

import (
	"crypto/ecdsa"
	"fmt"
	"os"
	"sync"
	"time"

	"github.com/LemoFoundationLtd/lemochain-core/chain"
	"github.com/LemoFoundationLtd/lemochain-core/chain/deputynode"
	"github.com/LemoFoundationLtd/lemochain-core/chain/txpool"
	"github.com/LemoFoundationLtd/lemochain-core/chain/types"
	"github.com/LemoFoundationLtd/lemochain-core/common"
	"github.com/LemoFoundationLtd/lemochain-core/common/crypto"
	"github.com/LemoFoundationLtd/lemochain-core/common/flag"
	"github.com/LemoFoundationLtd/lemochain-core/store"
)

type c03GateDB struct {
	*store.ChainDatabase
	mu      sync.Mutex
	armed   common.Hash
	arrived int
	both    chan struct{}
	waited  int // readers that gave up waiting (the engine serialised the requests)
}

// SetConfirms is the WRITE of the check-then-act pair (every read of the block — DPoVP.insertConfirms and, a second time,
// Validator.VerifyConfirmPacket — lies before it): the first writer is held until the second writer has arrived too, i.e. until
// both requests have finished ALL their reads before either wrote — or, when the engine serialises the two requests as it must
// (the second one is still waiting for chainLock and never gets here), until a short timeout. (Review round 8, R5: gating the
// first read let the de-duplicating second read slip through ungated; the catch then depended on scheduling luck.)
func (g *c03GateDB) SetConfirms(h common.Hash, pack []types.SignData) (*types.Block, error) {
	g.mu.Lock()
	if h != g.armed || g.both == nil {
		g.mu.Unlock()
		return g.ChainDatabase.SetConfirms(h, pack)
	}
	g.arrived++
	ch := g.both
	if g.arrived == 2 {
		close(ch)
		g.both = nil
	}
	g.mu.Unlock()
	select {
	case <-ch:
	case <-time.After(400 * time.Millisecond):
		g.mu.Lock()
		g.waited++
		g.mu.Unlock()
	}
	return g.ChainDatabase.SetConfirms(h, pack)
}

func nodeIDOfKey(k *ecdsa.PrivateKey) []byte { return crypto.PrivateKeyToNodeID(k) }

func c03ConfirmRace(c *Ctx) {
	for round := 0; round < 3; round++ {
		res := Safe(func() string { c03ConfirmRaceOnce(c, round); return "ok" })
		c.Count("race:confirm-same-deputy-two-encodings:" + res)
		if res != "ok" {
			c.Fail("c03/confirm-race/scenario-panic", "the forced confirm/confirm interleaving panicked: "+res, nil)
		}
	}
}

func c03ConfirmRaceOnce(c *Ctx, round int) {
	now := uint32(time.Now().Unix())
	w := NewWorld(4, now-500000, 10000)
	dir, err := os.MkdirTemp("", "hx-c03race-")
	if err != nil {
		panic(err)
	}
	defer os.RemoveAll(dir)
	raw := store.NewChainDataBase(dir)
	defer raw.Close()
	chain.SetupGenesisBlock(raw, w.genesis)
	gate := &c03GateDB{ChainDatabase: raw}
	n := &Node{W: w, Dir: dir, DB: raw}
	n.DM = deputynode.NewManager(4, gate)
	n.Pool = txpool.NewTxPool()
	bc, err := chain.NewBlockChain(chain.Config{ChainID: nodeChainID, MineTimeout: w.Timeout}, n.DM, gate, flag.CmdFlags{}, n.Pool)
	if err != nil {
		panic(err)
	}
	n.BC = bc
	defer bc.Stop()
	// the harness's node key must not be one of the four deputies: the receiver adds no confirmation of its own
	parent := n.BC.CurrentBlock()
	blk, _, err := n.Build(parent, parent.Time()+1+uint32(round), nil, nil)
	if err != nil {
		panic(err)
	}
	if err := n.Insert(CloneBlock(blk)); err != nil {
		panic(fmt.Sprintf("block 1 refused: %v", err))
	}
	stored, err := raw.GetBlockByHash(blk.Hash())
	if err != nil {
		panic(err)
	}
	own := 0
	if len(stored.Confirms) != 0 {
		own = len(stored.Confirms) // the receiver is a deputy in this world: its own confirm is on the block already
	}
	// one OTHER deputy's confirmation in two encodings
	var signer = -1
	for i, k := range w.DeputyKeys {
		if keyAddr(k) != blk.MinerAddress() {
			dup := false
			for _, cf := range stored.Confirms {
				if id, e := cf.RecoverNodeID(blk.Hash()); e == nil && string(id) == string(nodeIDOfKey(k)) {
					dup = true
				}
			}
			if !dup {
				signer = i
				break
			}
		}
	}
	if signer < 0 {
		panic("no free deputy")
	}
	s1 := Confirm(blk, w.DeputyKeys[signer])
	s2 := types.BytesToSignData(malleate(s1[:]))
	if _, e := s2.RecoverNodeID(blk.Hash()); e != nil {
		// the re-encoding no longer recovers: the scenario is void (a stricter recovery closes the hole for good)
		c.Count("race:confirm-same-deputy-two-encodings:reencoding-does-not-recover")
		return
	}
	distinctBefore := 1 + own // miner (+ the receiver when it is a deputy)
	need := (2*4 + 2) / 3
	if distinctBefore+1 >= need {
		c.Count("race:confirm-same-deputy-two-encodings:void-quorum-too-close")
		return
	}
	gate.mu.Lock()
	gate.armed, gate.arrived, gate.both, gate.waited = blk.Hash(), 0, make(chan struct{}), 0
	gate.mu.Unlock()
	eng := bc.VerifEngine()
	var wg sync.WaitGroup
	errs := make([]string, 2)
	for i, sg := range []types.SignData{s1, s2} {
		wg.Add(1)
		go func(i int, sg types.SignData) {
			defer wg.Done()
			errs[i] = Safe(func() string { return fmt.Sprint(eng.InsertConfirms(blk.Height(), blk.Hash(), []types.SignData{sg})) })
		}(i, sg)
	}
	done := make(chan struct{})
	go func() { wg.Wait(); close(done) }()
	select {
	case <-done:
	case <-time.After(20 * time.Second):
		c.Fail("c03/confirm-race/hang", "two concurrent InsertConfirms for one block did not return within 20 s", nil)
		return
	}
	gate.mu.Lock()
	serialised := gate.waited > 0
	gate.both = nil
	gate.mu.Unlock()
	if serialised {
		c.Count("race:confirm-same-deputy-two-encodings:engine-serialised-the-requests")
	} else {
		c.Count("race:confirm-same-deputy-two-encodings:both-finished-reading-before-either-wrote")
	}
	after, err := raw.GetBlockByHash(blk.Hash())
	if err != nil {
		panic(err)
	}
	distinct := map[string]bool{string(nodeIDOfKey(w.KeyOfMiner(blk.MinerAddress()))): true}
	for _, cf := range after.Confirms {
		if id, e := cf.RecoverNodeID(blk.Hash()); e == nil {
			distinct[string(id)] = true
		}
	}
	stable := n.BC.StableBlock()
	c.Count(fmt.Sprintf("race:confirm-same-deputy-two-encodings:stored-confirms-%d-distinct-%d", len(after.Confirms), len(distinct)))
	if stable.Hash() == blk.Hash() && len(distinct) < need {
		c.Fail("c03/quorum-not-distinct/concurrent-packets", fmt.Sprintf("block 1 became stable with %d stored confirmation(s) + the miner = %d distinct deputies of 4 (need %d): two packets carrying ONE deputy's confirmation in two encodings were delivered at the same time, both read the block before either wrote (results: %v)", len(after.Confirms), len(distinct), need, errs), nil)
	}
	if len(after.Confirms)+1 > len(distinct) {
		c.Fail("c03/quorum-not-distinct/concurrent-packets/stored-twice", fmt.Sprintf("block 1 stores %d confirmations but only %d distinct deputies (miner included) signed: one deputy is stored twice after two concurrent packets (results: %v)", len(after.Confirms), len(distinct), errs), nil)
	}
}

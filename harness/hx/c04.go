package main

// c04: replay protection.
//  part (i)  correspondence: the REAL txpool.TxGuard (NewTxGuard / SaveBlock / DelOldBlocks / ExistTxs /
//            GetTxsByBranch, and a rebuild done the way chain.initTxPool does it) against the Lean model
//            LemoModel/TxGuard.lean on random fork histories with pruning and restarts; the internal
//            state (buckets, cache, tracer) is compared after every mutation through the verif hook
//            TxGuard.VerifDump.  Direct oracles of part (i): the semantic meaning of ExistTxs
//            (c04/guard-misses-ancestor, c04/guard-false-positive) restricted to txs that can still be
//            valid, and restart equivalence (c04/restart-differs).
//  part (ii) end-to-end replays through the real engine: c04_engine.go (c04Engine).

import (
	"fmt"
	"math/big"
	"sort"
	"strings"

	"github.com/LemoFoundationLtd/lemochain-core/chain/params"
	"github.com/LemoFoundationLtd/lemochain-core/chain/txpool"
	"github.com/LemoFoundationLtd/lemochain-core/chain/types"
	"github.com/LemoFoundationLtd/lemochain-core/common"
)

func init() {
	subs["c04"] = func(c *Ctx) {
		c04Guard(c)
		c04Engine(c)
		c04PoolGuard(c) // part (iii): the combined machine pool x guard (c04_poolguard.go)
	}
	subs["c04g"] = c04Guard
}

type c04Tx struct {
	tx   *types.Transaction
	id   int
	exp  uint64
	subs []*c04Tx
}

type c04Blk struct {
	b      *types.Block
	id     int
	parent *c04Blk
	saved  bool // SaveBlock was called with it (in the current guard's life)
}

type c04World struct {
	c      *Ctx
	blkID  map[common.Hash]int
	txID   map[common.Hash]int
	nextB  int
	nextT  int
	uniq   int
	blocks []*c04Blk
	txs    []*c04Tx
	// ids held by some block outside that block's own validity window (no honest block does that):
	// the oracles make no claim about them
	inadmissible map[int]bool
}

func (w *c04World) newTx(exp uint64, subs []*c04Tx) *c04Tx {
	w.uniq++
	var tx *types.Transaction
	from := common.BigToAddress(big.NewInt(int64(1000 + w.uniq%7)))
	if subs == nil {
		tx = types.NewTransaction(from, common.BigToAddress(big.NewInt(77)), big.NewInt(int64(w.uniq)), 100000, big.NewInt(1), nil, params.OrdinaryTx, 200, exp, "", fmt.Sprintf("c04-%d", w.uniq))
	} else {
		var sl types.Transactions
		for _, s := range subs {
			sl = append(sl, s.tx)
		}
		data, err := types.MarshalBoxData(sl)
		if err != nil {
			panic(err)
		}
		tx = types.NoReceiverTransaction(from, new(big.Int), 3000000, big.NewInt(1), data, params.BoxTx, 200, exp, "", fmt.Sprintf("c04-box-%d", w.uniq))
	}
	w.nextT++
	t := &c04Tx{tx: tx, id: w.nextT, exp: exp, subs: subs}
	w.txID[tx.Hash()] = t.id
	w.txs = append(w.txs, t)
	return t
}

func (t *c04Tx) token() string {
	s := fmt.Sprintf("%d:%d:%d", t.id, t.id, t.exp)
	for _, x := range t.subs {
		s += fmt.Sprintf("/%d:%d:%d", x.id, x.id, x.exp)
	}
	return s
}

func c04Tokens(txs []*c04Tx) string {
	var ss []string
	for _, t := range txs {
		ss = append(ss, t.token())
	}
	if len(ss) == 0 {
		return ""
	}
	return " " + strings.Join(ss, " ")
}

func (w *c04World) newBlock(parent *c04Blk, height, time uint32, txs []*c04Tx) *c04Blk {
	w.uniq++
	h := &types.Header{Height: height, Time: time, GasLimit: 1000000, Extra: fmt.Sprintf("c04-%d", w.uniq)}
	pid := 0
	if parent != nil {
		h.ParentHash = parent.b.Hash()
		pid = parent.id
	}
	var tl types.Transactions
	for _, t := range txs {
		tl = append(tl, t.tx)
	}
	h.TxRoot = tl.MerkleRootSha()
	w.nextB++
	nb := &c04Blk{b: &types.Block{Header: h, Txs: tl}, id: w.nextB, parent: parent}
	w.blkID[nb.b.Hash()] = nb.id
	w.blocks = append(w.blocks, nb)
	for _, t := range txs {
		for _, x := range append([]*c04Tx{t}, t.subs...) {
			if x.exp < uint64(time) || x.exp > uint64(time)+uint64(params.MaxTxLifeTime) {
				w.inadmissible[x.id] = true
			}
		}
	}
	w.c.Op(fmt.Sprintf("blk %d %d %d %d%s", nb.id, pid, height, time, c04Tokens(txs)), "ok")
	return nb
}

func (w *c04World) dump(g *txpool.TxGuard) {
	w.c.Op("dump", Safe(func() string {
		return g.VerifDump(func(h common.Hash) int { return w.blkID[h] }, func(h common.Hash) int {
			if id, ok := w.txID[h]; ok {
				return id
			}
			return -1
		})
	}))
}

// allIDs: the tx's own id and its sub-txs'.
func (t *c04Tx) allIDs() []int {
	ids := []int{t.id}
	for _, s := range t.subs {
		ids = append(ids, s.id)
	}
	return ids
}

func c04Guard(c *Ctx) {
	rnd := c.Rnd
	life := uint32(params.MaxTxLifeTime)
	for cs := 0; cs < c.N; cs++ {
		w := &c04World{c: c, blkID: map[common.Hash]int{}, txID: map[common.Hash]int{}, inadmissible: map[int]bool{}}
		// block ids are global over the run for the driver: keep counting
		w.nextB = cs * 100000
		w.nextT = cs * 100000
		t0 := uint32(1700000000 + rnd.Intn(100000))
		switch rnd.Intn(8) {
		case 0:
			t0 = uint32(rnd.Intn(1800)) // tiny times: timeBase 0, DelOldBlocks panics below 1800
			c.Count("g:t0<1800")
		case 1:
			t0 = uint32(1800 + rnd.Intn(200))
			c.Count("g:t0~1800")
		}
		g := txpool.NewTxGuard(t0)
		c.Op(fmt.Sprintf("new %d", t0), "ok")
		stableT := t0
		var inCache = map[int]bool{} // ground truth maintained by the oracle below (which blocks SaveBlock accepted and no prune dropped)
		rootH := uint32(0)
		if rnd.Intn(2) == 0 {
			rootH = uint32(rnd.Intn(50))
		}
		root := w.newBlock(nil, rootH, t0, nil)
		save := func(b *c04Blk) {
			out := Safe(func() string { g.SaveBlock(b.b); return "ok" })
			c.Op(fmt.Sprintf("save %d", b.id), out)
			b.saved = true
			w.dump(g)
		}
		save(root)
		stable := root
		tips := []*c04Blk{root}
		if rnd.Intn(4) == 0 {
			// a second genesis: GetTxsByBranch must report ErrDifferentGenesis
			r2 := w.newBlock(nil, 0, t0+uint32(rnd.Intn(100)), nil)
			save(r2)
			tips = append(tips, r2)
			c.Count("g:second-root")
		}
		// txs that may be replayed
		var seen []*c04Tx
		mkTxs := func(time uint32) []*c04Tx {
			var txs []*c04Tx
			n := rnd.Intn(4)
			for i := 0; i < n; i++ {
				exp := uint64(time) + uint64(rnd.Intn(1801))
				switch rnd.Intn(10) {
				case 0:
					exp = uint64(time)
				case 1:
					exp = uint64(time) + 1800
				}
				switch k := rnd.Intn(10); {
				case k < 5 || len(seen) == 0:
					txs = append(txs, w.newTx(exp, nil))
					c.Count("g:tx:fresh")
				case k < 7:
					txs = append(txs, seen[rnd.Intn(len(seen))]) // replay of an earlier tx / box
					c.Count("g:tx:replayed")
				case k < 8:
					// box of fresh subs
					var subs []*c04Tx
					for j := 0; j < 1+rnd.Intn(2); j++ {
						subs = append(subs, w.newTx(exp+uint64(rnd.Intn(50)), nil))
					}
					txs = append(txs, w.newTx(exp, subs))
					c.Count("g:tx:box-fresh")
				default:
					// box containing an earlier standalone tx
					var subs []*c04Tx
					s := seen[rnd.Intn(len(seen))]
					if s.subs == nil {
						subs = append(subs, s)
					}
					subs = append(subs, w.newTx(exp, nil))
					txs = append(txs, w.newTx(exp, subs))
					c.Count("g:tx:box-with-replayed-sub")
				}
			}
			for _, t := range txs {
				seen = append(seen, t)
				for _, s := range t.subs {
					seen = append(seen, s)
				}
			}
			return txs
		}
		_ = inCache
		nops := 30 + rnd.Intn(50)
		for op := 0; op < nops; op++ {
			switch k := rnd.Intn(20); {
			case k < 9: // extend a branch / fork
				var p *c04Blk
				switch rnd.Intn(6) {
				case 0:
					p = w.blocks[len(w.blocks)-1-rnd.Intn(min(len(w.blocks), 6))] // fork off a recent block
					c.Count("g:block:fork")
				default:
					p = tips[rnd.Intn(len(tips))]
					c.Count("g:block:extend")
				}
				deltas := []uint32{0, 1, 5, 10, 30, 59, 60, 61, 120, 300, 600, 900, 1799, 1800, 1801, 2400}
				dt := deltas[rnd.Intn(len(deltas))]
				time := p.b.Time() + dt
				height := p.b.Height() + 1
				if rnd.Intn(40) == 0 && p.b.Time() > 100 {
					time = p.b.Time() - uint32(1+rnd.Intn(100)) // malformed: earlier than its parent
					c.Count("g:block:time-before-parent")
				}
				if rnd.Intn(40) == 0 {
					height = p.b.Height() + uint32(rnd.Intn(3)) // malformed height (0 or +2)
					c.Count("g:block:odd-height")
				}
				nb := w.newBlock(p, height, time, mkTxs(time))
				// replace p among the tips
				repl := false
				for i, t := range tips {
					if t == p {
						tips[i] = nb
						repl = true
					}
				}
				if !repl {
					tips = append(tips, nb)
				}
				switch rnd.Intn(25) {
				case 0:
					c.Count("g:block:not-saved") // a hole in the cache
				case 1:
					save(nb)
					save(nb) // "redundancy is fine"
					c.Count("g:block:saved-twice")
				default:
					save(nb)
				}
			case k < 12: // stable advance: prune
				// the stable block is some block on a branch, not older than the current one
				cand := tips[rnd.Intn(len(tips))]
				for i := rnd.Intn(4); i > 0 && cand.parent != nil && cand.parent.b.Time() >= stableT; i-- {
					cand = cand.parent
				}
				T := cand.b.Time()
				switch rnd.Intn(12) {
				case 0:
					T = uint32(rnd.Intn(1800)) // panics
				case 1:
					if T > 4000 {
						T -= uint32(rnd.Intn(4000)) // goes backwards
					}
				}
				out := Safe(func() string { g.DelOldBlocks(T); return "ok" })
				c.Op(fmt.Sprintf("del %d", T), out)
				c.Count("g:del:" + out)
				if out == "ok" && T >= stableT {
					stableT = T
					stable = cand
				}
				w.dump(g)
			case k < 17: // ExistTxs
				var p *c04Blk
				if rnd.Intn(3) == 0 {
					p = w.blocks[rnd.Intn(len(w.blocks))]
				} else {
					p = tips[rnd.Intn(len(tips))]
				}
				var q []*c04Tx
				nq := rnd.Intn(4)
				for i := 0; i < nq; i++ {
					switch {
					case len(seen) > 0 && rnd.Intn(4) > 0:
						q = append(q, seen[rnd.Intn(len(seen))])
					case len(seen) > 0 && rnd.Intn(2) == 0:
						q = append(q, w.newTx(uint64(p.b.Time())+100, []*c04Tx{seen[rnd.Intn(len(seen))]}))
					default:
						q = append(q, w.newTx(uint64(p.b.Time())+100, nil))
					}
				}
				var tl types.Transactions
				for _, t := range q {
					tl = append(tl, t.tx)
				}
				pid, ph := p.id, p.b.Hash()
				if rnd.Intn(30) == 0 {
					pid, ph = 0, common.Hash{}
					c.Count("g:exist:zero-parent")
				}
				out := Safe(func() string { return fmt.Sprintf("%v", g.ExistTxs(ph, tl)) })
				c.Op(fmt.Sprintf("exist %d%s", pid, c04Tokens(q)), out)
				c.Count("g:exist:" + out)
				if pid != 0 {
					w.existOracle(g, p, q, out, stableT)
				}
			case k < 19: // GetTxsByBranch
				a := w.blocks[rnd.Intn(len(w.blocks))]
				b := tips[rnd.Intn(len(tips))]
				if rnd.Intn(2) == 0 {
					a, b = b, a
				}
				out := Safe(func() string {
					t1, t2, err := g.GetTxsByBranch(a.b, b.b)
					if err != nil {
						switch err {
						case txpool.ErrNotFoundBlockCache:
							return "err NotFoundBlockCache"
						case txpool.ErrDifferentGenesis:
							return "err DifferentGenesis"
						}
						return "err " + err.Error()
					}
					f := func(l types.Transactions) string {
						var ss []string
						for _, t := range l {
							ss = append(ss, fmt.Sprintf("%d", w.txID[t.Hash()]))
						}
						return strings.Join(ss, ",")
					}
					return "ok " + f(t1) + "|" + f(t2)
				})
				c.Op(fmt.Sprintf("branch %d %d", a.id, b.id), out)
				if firstWord(out) == "err" {
					c.Count("g:branch:" + out)
				} else {
					c.Count("g:branch:" + firstWord(out))
				}
			default: // restart: rebuild the guard the way chain.initTxPool does from the stable chain
				c.Count("g:restart")
				old := g
				ng := txpool.NewTxGuard(stable.b.Time())
				var reloaded []*c04Blk
				out := Safe(func() string {
					iter := stable
					stableTime := stable.b.Time()
					height := stable.b.Height()
					for stableTime-iter.b.Time() <= life {
						ng.SaveBlock(iter.b)
						reloaded = append(reloaded, iter)
						if height <= 0 {
							break
						}
						height--
						// bc.GetBlockByHeight(height): the ancestor of the stable block at that height
						var f *c04Blk
						for x := stable; x != nil; x = x.parent {
							if x.b.Height() == height {
								f = x
								break
							}
						}
						if f == nil {
							panic("ErrLoadBlock")
						}
						iter = f
					}
					return "ok"
				})
				c.Op(fmt.Sprintf("restart %d", stable.id), out)
				if out == "ok" {
					w.restartOracle(old, ng, stable, seen, stableT)
					g = ng
					stableT = stable.b.Time()
					// unstable blocks are lost with the process: only the stable block can be extended
					tips = []*c04Blk{stable}
					for _, b := range w.blocks {
						b.saved = false
					}
					for _, b := range reloaded {
						b.saved = true
					}
				}
				w.dump(g)
			}
		}
		// last in the case (a far expiration that gets through is replayed on a guard of its own)
		w.windowOps(t0 + uint32(rnd.Intn(50)))
	}
}

// existOracle: what ExistTxs must mean.  For a parent p held by the guard and txs that can still be
// valid in a child of p (exp >= stable time; such a tx cannot sit in a block the guard dropped):
// true  <=>  some ancestor-or-self of p (through SAVED blocks with monotone times) contains one of the ids.
func (w *c04World) existOracle(g *txpool.TxGuard, p *c04Blk, q []*c04Tx, out string, stableT uint32) {
	if out != "true" && out != "false" {
		return
	}
	// only well-formed ancestor paths (the theorem's hypotheses): times monotone, heights +1, all saved
	for x := p; x != nil; x = x.parent {
		if !x.saved {
			if x == p {
				return
			}
			break
		}
		if x.parent != nil && x.parent.saved && (x.parent.b.Time() > x.b.Time() || x.parent.b.Height()+1 != x.b.Height()) {
			return
		}
	}
	want := map[int]bool{}
	live := true
	for _, t := range q {
		for _, id := range t.allIDs() {
			want[id] = true
			if w.inadmissible[id] {
				w.c.Count("g:oracle:skipped-inadmissible-holder")
				return
			}
		}
		if t.exp < uint64(stableT) {
			live = false
		}
		for _, s := range t.subs {
			if s.exp < uint64(stableT) {
				live = false
			}
		}
	}
	if !live {
		w.c.Count("g:oracle:skipped-expired-query")
		return
	}
	hit := false
	for x := p; x != nil && x.saved; x = x.parent {
		// blocks older than the window cannot matter for live txs (window_safe)
		for _, tx := range x.b.Txs {
			ids := []int{w.txID[tx.Hash()]}
			if tx.Type() == params.BoxTx {
				if box, err := types.GetBox(tx.Data()); err == nil {
					for _, s := range box.SubTxList {
						ids = append(ids, w.txID[s.Hash()])
					}
				}
			}
			for _, id := range ids {
				if want[id] {
					// does the holder make the tx valid? (admissible blocks only: exp within the block's window)
					hit = true
				}
			}
		}
	}
	w.c.Count(fmt.Sprintf("g:oracle:exist-checked:%v", hit))
	if hit && out == "false" {
		// only a defect if the holding block is admissible for that tx; the generator builds admissible blocks except the malformed ones skipped above
		w.c.Fail("c04/guard-misses-ancestor", fmt.Sprintf("ExistTxs(parent %d) = false although an ancestor in the window contains one of the queried (unexpired) txs", p.id), nil)
	}
	if !hit && out == "true" {
		w.c.Fail("c04/guard-false-positive", fmt.Sprintf("ExistTxs(parent %d) = true although no ancestor contains any of the queried txs", p.id), nil)
	}
}

// restartOracle: the rebuilt guard must answer like the continuous one for every admissible new block
// on top of the stable block: txs that are unexpired at the stable time.
func (w *c04World) restartOracle(old, ng *txpool.TxGuard, stable *c04Blk, seen []*c04Tx, stableT uint32) {
	if !stable.saved {
		return
	}
	for x := stable; x != nil && x.parent != nil && x.b.Time()+uint32(params.MaxTxLifeTime)+60 >= stable.b.Time(); x = x.parent {
		if x.parent.b.Time() > x.b.Time() || x.parent.b.Height()+1 != x.b.Height() || !x.parent.saved {
			return
		}
	}
	st := stable.b.Time()
	ids := make([]int, 0)
	for i := range seen {
		ids = append(ids, i)
	}
	sort.Ints(ids)
	for _, i := range ids {
		t := seen[i]
		if t.exp < uint64(st) {
			continue
		}
		liveSubs := true
		for _, s := range t.subs {
			if s.exp < uint64(st) {
				liveSubs = false
			}
		}
		if !liveSubs {
			continue
		}
		skip := false
		for _, id := range t.allIDs() {
			if w.inadmissible[id] {
				skip = true
			}
		}
		if skip {
			continue
		}
		a := Safe(func() string { return fmt.Sprintf("%v", old.ExistTxs(stable.b.Hash(), types.Transactions{t.tx})) })
		b := Safe(func() string { return fmt.Sprintf("%v", ng.ExistTxs(stable.b.Hash(), types.Transactions{t.tx})) })
		w.c.Count("g:oracle:restart-compared")
		if a != b {
			w.c.Fail("c04/restart-differs", fmt.Sprintf("tx %d (exp %d, stable time %d): continuous guard says %s, rebuilt guard says %s", t.id, t.exp, st, a, b), nil)
		}
	}
}

// c04InWindow: VerifyTxBody's time rule in the harness's own unsigned arithmetic.
func c04InWindow(exp uint64, t uint32) bool {
	return exp >= uint64(t) && exp-uint64(t) <= uint64(params.MaxTxLifeTime)
}

// windowOps: expiration boundary values over the whole uint64 range, top level and as box sub-tx, through the real
// Transaction.VerifyTxBody.  Compared with the model (`window` op) AND, independently of the model driver, with the
// harness's own arithmetic (c04/window-accepts-far-expiration, c04/window-refuses-valid-expiration).  If the real
// check lets a far expiration through, the consequence is played on the real guard: the block is saved, 34 empty
// blocks one a minute each become stable (SaveBlock + DelOldBlocks), then verifyTxs' two questions are asked again
// for the same tx on the tip (c04/replayed/after-guard-pruned).
func (w *c04World) windowOps(t uint32) {
	c := w.c
	bt := uint64(t)
	type cand struct {
		name string
		exp  uint64
	}
	all := []cand{
		{"t-1", bt - 1}, {"t", bt}, {"t+1", bt + 1}, {"t+1799", bt + 1799}, {"t+1800", bt + 1800}, {"t+1801", bt + 1801}, {"t+2h", bt + 7200},
		{"2^31", 1 << 31}, {"2^32", 1 << 32}, {"2^32+t", 1<<32 + bt}, {"2^62", 1 << 62}, {"2^63-1", 1<<63 - 1}, {"2^63", 1 << 63},
		{"2^63+t-1", 1<<63 + bt - 1}, {"2^63+t", 1<<63 + bt}, {"2^63+t+1800", 1<<63 + bt + 1800}, {"2^63+t+1801", 1<<63 + bt + 1801}, {"2^64-1", ^uint64(0)},
	}
	if bt == 0 {
		all = all[1:]
	}
	body := func(x *c04Tx) bool { return x.tx.VerifyTxBody(200, bt, true) == nil }
	for _, cd := range all {
		for _, shape := range []string{"top", "sub", "box"} {
			var x *c04Tx
			want := false
			switch shape {
			case "top":
				x = w.newTx(cd.exp, nil)
				want = c04InWindow(cd.exp, t)
			case "sub": // the box itself expires at the block time; the sub-tx carries the boundary value
				x = w.newTx(bt, []*c04Tx{w.newTx(cd.exp, nil)})
				want = cd.exp >= bt && c04InWindow(cd.exp, t)
			case "box": // the box carries the boundary value; its sub-tx expires together with it (never earlier than the box)
				x = w.newTx(cd.exp, []*c04Tx{w.newTx(cd.exp, nil)})
				want = c04InWindow(cd.exp, t)
			}
			got := false
			out := Safe(func() string { got = body(x); return fmt.Sprintf("%v", got) })
			c.Op(fmt.Sprintf("window %d %s", t, x.token()), out)
			c.Count(fmt.Sprintf("g:window:%s:%s:%s", shape, cd.name, out))
			replay := map[string]interface{}{"blockTime": t, "exp": cd.exp, "class": cd.name, "shape": shape, "token": x.token()}
			if out == "panic" {
				c04FailCapped(c, "c04/window-check-panics", fmt.Sprintf("VerifyTxBody(blockTime %d) panics on a %s tx with expiration %d (%s)", t, shape, cd.exp, cd.name), replay)
				continue
			}
			if got && !want {
				c04FailCapped(c, "c04/window-accepts-far-expiration", fmt.Sprintf("VerifyTxBody(blockTime %d) accepts a tx (%s) with expiration %d (%s): %d s ahead as uint64, max life time %d", t, shape, cd.exp, cd.name, cd.exp-bt, params.MaxTxLifeTime), replay)
				w.prunedReplay(t, x, cd.name, shape)
			}
			if !got && want {
				c04FailCapped(c, "c04/window-refuses-valid-expiration", fmt.Sprintf("VerifyTxBody(blockTime %d) refuses a tx (%s) with expiration %d (%s) inside its life time", t, shape, cd.exp, cd.name), replay)
			}
		}
	}
}

// prunedReplay: only reached when VerifyTxBody accepted an expiration beyond the window.
func (w *c04World) prunedReplay(t uint32, x *c04Tx, class, shape string) {
	c := w.c
	g := txpool.NewTxGuard(t)
	c.Op(fmt.Sprintf("new %d", t), "ok")
	save := func(b *c04Blk) {
		c.Op(fmt.Sprintf("save %d", b.id), Safe(func() string { g.SaveBlock(b.b); return "ok" }))
		w.dump(g)
	}
	root := w.newBlock(nil, 0, t, nil)
	save(root)
	a := w.newBlock(root, 1, t, []*c04Tx{x})
	save(a)
	tip := a
	tm := t
	for i := 0; i < 34; i++ {
		tm += 61
		tip = w.newBlock(tip, tip.b.Height()+1, tm, nil)
		save(tip)
		out := Safe(func() string { g.DelOldBlocks(tm); return "ok" })
		c.Op(fmt.Sprintf("del %d", tm), out)
		if out != "ok" {
			return // tiny times: DelOldBlocks panics below 1800 s, nothing is pruned
		}
		w.dump(g)
	}
	tr := tm + 5
	exist := Safe(func() string { return fmt.Sprintf("%v", g.ExistTxs(tip.b.Hash(), types.Transactions{x.tx})) })
	c.Op(fmt.Sprintf("exist %d %s", tip.id, x.token()), exist)
	bodyOK := x.tx.VerifyTxBody(200, uint64(tr), true) == nil
	c.Count(fmt.Sprintf("g:pruned-replay:exist=%s:body=%v", exist, bodyOK))
	if exist == "false" && bodyOK {
		c04FailCapped(c, "c04/replayed/after-guard-pruned", fmt.Sprintf("tx %d (%s, expiration %d = %s) was in block %d (time %d); after 34 stable blocks up to time %d the guard has forgotten it and VerifyTxBody still accepts it at time %d: verifyTxs would accept the same bytes again", x.id, shape, x.exp, class, a.id, t, tm, tr),
			map[string]interface{}{"blockTime": t, "exp": x.exp, "class": class, "shape": shape, "token": x.token(), "stableTime": tm, "replayTime": tr})
	}
}

// c04FailCapped: main.go keeps the first 200 reports of a run; a handful per signature leaves room for the engine part.
func c04FailCapped(c *Ctx, sig, detail string, replay interface{}) {
	k := "reports:" + sig
	c.Count(k)
	if c.Stats[k] > 6 {
		return
	}
	c.Fail(sig, detail, replay)
}

package main

// c04e: end-to-end replay scenarios of property C04 through the REAL engine
// (miner path n.Build / n.MineReal, validator path n.Insert, InsertConfirms, Reopen).
//
// Two outputs:
//  * the direct oracle: a signed content (= signing hash) takes effect at most once per branch
//    (counted by the balance of a fresh recipient), never outside [exp-1800, exp];
//  * a mirror of everything the engine's TxGuard sees, as op lines for the Lean model:
//      variant asis|fixed / enew T / blk id parent height time tok* / verify id / save id / del T / restart id /
//      exist headId tok / dump (the real guard's canonical state after every mirrored mutation)
//    token: <txId>:<content>:<exp>[:<payerContent>] and /<sub token>* for a box; the 4th field only for a reimbursement
//    tx (content = id of the sender's signing hash, payerContent = id of the gas payer's signing hash)

import (
	"bytes"
	"crypto/ecdsa"
	"encoding/json"
	"fmt"
	"math/big"
	"os"
	"strings"
	"time"

	"github.com/LemoFoundationLtd/lemochain-core/chain/deputynode"
	"github.com/LemoFoundationLtd/lemochain-core/chain/params"
	"github.com/LemoFoundationLtd/lemochain-core/chain/types"
	"github.com/LemoFoundationLtd/lemochain-core/common"
	"github.com/LemoFoundationLtd/lemochain-core/common/rlp"
	"github.com/LemoFoundationLtd/lemochain-core/main/node"
	"github.com/LemoFoundationLtd/lemochain-core/network"
	"github.com/LemoFoundationLtd/lemochain-core/network/p2p"
)

func init() { subs["c04e"] = c04Engine }

const c04eLife = uint32(params.MaxTxLifeTime) // 1800

// ---- run-wide state ---------------------------------------------------------------

type c04eG struct {
	c        *Ctx
	nextBlk  int
	txIDs    map[common.Hash]int
	ctIDs    map[common.Hash]int
	nRcpt    int
	nMsg     int
	observer *ecdsa.PrivateKey
	variant  string
	nSig     map[string]int
	// boxSubs: the sub-tx list every box was BUILT from (e.box), keyed by the box's tx hash: tokens are made from
	// it, not from what types.GetBox decodes (fed-fact audit: a decoder that loses entries would hide them from
	// guard, verifier and mirror alike)
	boxSubs map[common.Hash]types.Transactions
}

// c04eMaxPerSig: main.go keeps only the first 200 reports of a run; a handful per signature keeps room for every class.
const c04eMaxPerSig = 4

func (g *c04eG) fail(sig, detail string, replay interface{}) {
	g.nSig[sig]++
	if g.nSig[sig] > c04eMaxPerSig {
		g.c.Count("e:more-reports-suppressed:" + sig)
		return
	}
	g.c.Fail(sig, detail, replay)
}

func (g *c04eG) txID(tx *types.Transaction) int {
	h := tx.Hash()
	if v, ok := g.txIDs[h]; ok {
		return v
	}
	v := len(g.txIDs) + 1
	g.txIDs[h] = v
	return v
}

func (g *c04eG) hashID(h common.Hash) int {
	if v, ok := g.ctIDs[h]; ok {
		return v
	}
	v := len(g.ctIDs) + 1
	g.ctIDs[h] = v
	return v
}

// c04eSenderContent: the hash the sender(s) signed (a reimbursement tx uses another signer than a plain one).
func c04eSenderContent(tx *types.Transaction) common.Hash {
	if len(tx.GasPayerSigs()) > 0 {
		return types.MakeReimbursementTxSigner().Hash(tx)
	}
	return types.MakeSigner().Hash(tx)
}

func (g *c04eG) ctID(tx *types.Transaction) int { return g.hashID(c04eSenderContent(tx)) }

func c04eSubs(tx *types.Transaction) types.Transactions {
	if tx.Type() != params.BoxTx {
		return nil
	}
	box, err := types.GetBox(tx.Data())
	if err != nil {
		return nil
	}
	return box.SubTxList
}

// tok1: <txId>:<content>:<exp>, plus :<payerContent> for a reimbursement tx
func (g *c04eG) tok1(tx *types.Transaction) string {
	s := fmt.Sprintf("%d:%d:%d", g.txID(tx), g.ctID(tx), tx.Expiration())
	if len(tx.GasPayerSigs()) > 0 {
		s += fmt.Sprintf(":%d", g.hashID(types.MakeGasPayerSigner().Hash(tx)))
	}
	return s
}

// tok renders a tx as tok1[/tok1 of every sub-tx]
func (g *c04eG) tok(tx *types.Transaction) string {
	s := g.tok1(tx)
	for _, st := range g.subsOf(tx) {
		s += "/" + g.tok1(st)
	}
	return s
}

// subsOf: the sub-tx list of a box by construction; what GetBox decodes is only cross-checked against it.
func (g *c04eG) subsOf(tx *types.Transaction) types.Transactions {
	if tx.Type() != params.BoxTx {
		return nil
	}
	built, ok := g.boxSubs[tx.Hash()]
	decoded := c04eSubs(tx)
	if !ok {
		g.c.Count("e:fed-fact:box-not-built-by-harness")
		return decoded
	}
	same := len(built) == len(decoded)
	for i := 0; same && i < len(built); i++ {
		same = built[i].Hash() == decoded[i].Hash()
	}
	if !same {
		g.fail("c04/fed-fact/box-subs", fmt.Sprintf("box %s was built from %d sub-txs, types.GetBox decodes %d (or other ones)", tx.Hash().Hex()[:10], len(built), len(decoded)), nil)
	}
	return built
}

func (g *c04eG) rcpt() common.Address {
	g.nRcpt++
	return keyAddr(detKey(fmt.Sprintf("c04e-rcpt-%d-%d", g.c.Seed, g.nRcpt)))
}

func (g *c04eG) msg() string {
	g.nMsg++
	return fmt.Sprintf("c04e-%d", g.nMsg)
}

// c04eWire round-trips a tx through RLP: a pristine private copy (Build rewrites txs in place).
func c04eWire(tx *types.Transaction) *types.Transaction {
	buf, err := rlp.EncodeToBytes(tx)
	if err != nil {
		panic(err)
	}
	var nt types.Transaction
	if err := rlp.DecodeBytes(buf, &nt); err != nil {
		panic(err)
	}
	return &nt
}

// c04eTxEdit re-creates a transaction from its JSON form after f edited it (signatures kept as they are).
func c04eTxEdit(tx *types.Transaction, f func(m map[string]interface{})) *types.Transaction {
	b, err := tx.MarshalJSON()
	if err != nil {
		panic(err)
	}
	var m map[string]interface{}
	json.Unmarshal(b, &m)
	delete(m, "hash")
	f(m)
	nb, _ := json.Marshal(m)
	var ntx types.Transaction
	if err := ntx.UnmarshalJSON(nb); err != nil {
		panic(err)
	}
	return &ntx
}

// c04eMalleated: the same tx with sigs[0] replaced by (r, n-s, v^1).
func c04eMalleated(tx *types.Transaction) *types.Transaction {
	var all []string
	for i, s := range tx.Sigs() {
		if i == 0 {
			s = malleate(s)
		}
		all = append(all, common.ToHex(s))
	}
	return c04eTxEdit(tx, func(m map[string]interface{}) { m["sigs"] = all })
}

// c04eSurplus: the same tx with a surplus signature of a foreign key appended.
func c04eSurplus(tx *types.Transaction, foreign *ecdsa.PrivateKey) *types.Transaction {
	stx, err := types.MakeSigner().SignTx(c04eWire(tx), foreign)
	if err != nil {
		panic(err)
	}
	return c04eWire(stx)
}

func c04eSigner0(tx *types.Transaction) common.Address {
	ss, err := types.MakeSigner().GetSigners(tx)
	if err != nil || len(ss) == 0 {
		return common.Address{}
	}
	return ss[0]
}

// ---- one mirrored node ----------------------------------------------------------------

type c04eEnv struct {
	g     *c04eG
	w     *World
	n     *Node
	ids   map[common.Hash]int
	users []*ecdsa.PrivateKey
	name  string
	base0 uint32 // the real guard's TimeBase as of the last dump
	// extra funded accounts: a gas payer, and two accounts that become multisig accounts (setupMultisig)
	payerK, ms2, ms3 *ecdsa.PrivateKey
	sgA, sgB, sgC    *ecdsa.PrivateKey // the registered signers of ms2 (A:60 B:50) and ms3 (A:60 B:50 C:40)
	msReady          bool
	nearNow          bool // blocks may be stamped up to the real clock + 1 (verifyTime's tolerance)
}

func c04eFloor60(t uint32) uint32 { return t / 60 * 60 }

// c04eBaseFor: the TimeBase of a guard created for (or pruned by) a stable block stamped t.
func c04eBaseFor(t uint32) uint32 {
	if t <= c04eLife {
		return 0
	}
	return c04eFloor60(t - c04eLife)
}

// dump emits the real guard's canonical state (the model prints the same line) and cross-checks the TimeBase the
// harness inferred for the mutation just mirrored: wantBase < 0 means "unchanged".
func (e *c04eEnv) dump(why string, wantBase int64) {
	out := Safe(func() string {
		return e.n.BC.TxGuard().VerifDump(func(h common.Hash) int {
			if id, ok := e.ids[h]; ok {
				return id
			}
			return -1
		}, func(h common.Hash) int {
			if id, ok := e.g.txIDs[h]; ok {
				return id
			}
			return -1
		})
	})
	e.g.c.Op("dump", out)
	var base uint32
	if _, err := fmt.Sscanf(out, "base=%d", &base); err != nil {
		e.g.fail("c04/harness-del-inference", fmt.Sprintf("[%s] after %s: unreadable dump %.80q", e.name, why, out), nil)
		return
	}
	want := e.base0
	if wantBase >= 0 {
		want = uint32(wantBase)
	}
	if base != want {
		e.g.fail("c04/harness-del-inference", fmt.Sprintf("[%s] after %s: the real guard's base is %d, the mirror expects %d (previous base %d)", e.name, why, base, want, e.base0),
			map[string]interface{}{"seed": e.g.c.Seed, "why": why})
	}
	if strings.Contains(out, "-1") && (strings.Contains(out, ":-1") || strings.Contains(out, ",-1") || strings.Contains(out, "[-1") || strings.Contains(out, " -1>") || strings.Contains(out, ">-1")) {
		e.g.fail("c04/harness-del-inference", fmt.Sprintf("[%s] after %s: the real guard holds a block or tx the mirror never declared: %.200s", e.name, why, out), nil)
	}
	e.base0 = base
}

// delMirror: the stable block changed to one stamped t: DelOldBlocks(t).
func (e *c04eEnv) delMirror(t uint32) {
	e.g.c.Op(fmt.Sprintf("del %d", t), "ok")
	want := e.base0
	if nb := c04eBaseFor(t); nb > want {
		want = nb
	}
	e.dump(fmt.Sprintf("del %d", t), int64(want))
}

// c04eNewEnv creates a node and announces it to the model (enew + genesis blk + save).
func (g *c04eG) newEnv(name string, w *World) *c04eEnv {
	e := &c04eEnv{g: g, w: w, n: w.NewNode(len(w.DeputyKeys)), ids: map[common.Hash]int{}, name: name}
	gen := e.n.BC.CurrentBlock()
	g.c.Op(fmt.Sprintf("enew %d", gen.Time()), "ok")
	id := e.declare(gen)
	g.c.Op(fmt.Sprintf("save %d", id), "ok")
	e.dump("enew", int64(c04eBaseFor(gen.Time())))
	for i := 0; i < 6; i++ {
		e.users = append(e.users, detKey(fmt.Sprintf("c04e-user-%d", i)))
	}
	e.payerK, e.ms2, e.ms3 = detKey("c04e-payer"), detKey("c04e-ms2"), detKey("c04e-ms3")
	e.sgA, e.sgB, e.sgC = detKey("c04e-signer-A"), detKey("c04e-signer-B"), detKey("c04e-signer-C")
	return e
}

func (e *c04eEnv) id(h common.Hash) int { return e.ids[h] }

// declare announces a block (once) and returns its id.
func (e *c04eEnv) declare(b *types.Block) int {
	if v, ok := e.ids[b.Hash()]; ok {
		return v
	}
	e.g.nextBlk++
	v := e.g.nextBlk
	e.ids[b.Hash()] = v
	var toks []string
	for _, tx := range b.Txs {
		toks = append(toks, e.g.tok(tx))
	}
	line := fmt.Sprintf("blk %d %d %d %d", v, e.ids[b.ParentHash()], b.Height(), b.Time())
	if len(toks) > 0 {
		line += " " + strings.Join(toks, " ")
	}
	e.g.c.Op(line, "ok")
	return v
}

// insert: validator path on the mirrored node. Returns accept / reject / panic.
func (e *c04eEnv) insert(b *types.Block) string {
	if _, dup := e.ids[b.Hash()]; dup {
		panic("harness: the same block is offered twice (it would be ignored, not verified)")
	}
	id := e.declare(b)
	deputynode.SetSelfNodeKey(e.g.observer)
	before := e.n.BC.StableBlock().Hash()
	res, msg := SafeMsg(func() string {
		if err := e.n.Insert(CloneBlock(b)); err != nil {
			return "reject"
		}
		return "accept"
	})
	e.g.c.Op(fmt.Sprintf("verify %d", id), res)
	if res == "panic" {
		e.g.fail("c04/engine-panic/insert-block", fmt.Sprintf("[%s] InsertBlock panics: %s", e.name, msg), map[string]interface{}{"seed": e.g.c.Seed, "block": id, "time": b.Time()})
		return res
	}
	if res == "accept" {
		e.g.c.Op(fmt.Sprintf("save %d", id), "ok")
		e.dump(fmt.Sprintf("save %d", id), -1)
		if e.n.BC.StableBlock().Hash() != before {
			e.delMirror(b.Time())
		}
	}
	return res
}

// adopt: the node produced and stored the block itself (real miner path): blk + save, no verify.
func (e *c04eEnv) adopt(b *types.Block, stableBefore common.Hash) {
	id := e.declare(b)
	e.g.c.Op(fmt.Sprintf("save %d", id), "ok")
	e.dump(fmt.Sprintf("save %d (mined)", id), -1)
	if e.n.BC.StableBlock().Hash() != stableBefore {
		e.delMirror(b.Time())
	}
}

func (e *c04eEnv) otherDeputy(miner common.Address) *ecdsa.PrivateKey {
	for _, k := range e.w.DeputyKeys {
		if keyAddr(k) != miner {
			return k
		}
	}
	panic("no other deputy")
}

// confirm makes b stable on the mirrored node (2 of 3 signatures).
func (e *c04eEnv) confirm(b *types.Block) {
	c04eConfirmOn(e.n, e.g.observer, b, e.otherDeputy(b.MinerAddress()))
}

func c04eConfirmOn(n *Node, observer *ecdsa.PrivateKey, b *types.Block, k *ecdsa.PrivateKey) {
	deputynode.SetSelfNodeKey(observer)
	n.BC.InsertConfirms(b.Height(), b.Hash(), []types.SignData{Confirm(b, k)})
}

// stabilise: confirm b and mirror the DelOldBlocks that follows a stable change.
func (e *c04eEnv) stabilise(b *types.Block) bool {
	before := e.n.BC.StableBlock().Hash()
	if before == b.Hash() {
		return false
	}
	e.confirm(b)
	after := e.n.BC.StableBlock().Hash()
	if after != before {
		e.delMirror(b.Time())
		return true
	}
	return false
}

// base: the current head, made stable: the common ancestor every scenario repetition starts from.
func (e *c04eEnv) base() *types.Block {
	head := e.n.BC.CurrentBlock()
	e.stabilise(head)
	if e.n.BC.StableBlock().Hash() != head.Hash() {
		panic(fmt.Sprintf("[%s] head %d could not be made stable (stable %d)", e.name, head.Height(), e.n.BC.StableBlock().Height()))
	}
	return head
}

func (e *c04eEnv) reopen() {
	e.n.Reopen()
	st := e.n.BC.StableBlock()
	e.g.c.Op(fmt.Sprintf("restart %d", e.id(st.Hash())), "ok")
	e.dump("restart", int64(c04eBaseFor(st.Time())))
}

type c04eTimeUp struct{}

// build: miner path with private copies of the txs. Panics with c04eTimeUp when the time budget of the world is used up.
func (e *c04eEnv) build(parent *types.Block, t uint32, txs ...*types.Transaction) (*types.Block, types.Transactions) {
	if int64(t) > time.Now().Unix()-5 && !(e.nearNow && int64(t) <= time.Now().Unix()+1) {
		panic(c04eTimeUp{})
	}
	var cp types.Transactions
	for _, tx := range txs {
		cp = append(cp, c04eWire(tx))
	}
	b, invalid, err := e.n.Build(parent, t, cp, nil)
	if err != nil {
		panic(fmt.Sprintf("[%s] Build on %d at %d: %v", e.name, parent.Height(), t, err))
	}
	return b, invalid
}

// mustInsert builds and inserts an honest, unsuspicious block (filler / setup); it must be accepted.
func (e *c04eEnv) mustInsert(parent *types.Block, t uint32, txs ...*types.Transaction) *types.Block {
	b, invalid := e.build(parent, t, txs...)
	if len(invalid) != 0 || len(b.Txs) != len(txs) {
		panic(fmt.Sprintf("[%s] setup block at %d: miner dropped %d of %d txs", e.name, t, len(txs)-len(b.Txs), len(txs)))
	}
	if r := e.insert(b); r != "accept" {
		e.g.fail("c04/honest-block-rejected", fmt.Sprintf("[%s] setup block height %d time %d with %d fresh txs: %s", e.name, b.Height(), t, len(txs), r), nil)
		panic(fmt.Sprintf("[%s] setup block rejected", e.name))
	}
	return b
}

func (e *c04eEnv) fund() {
	g := e.n.BC.CurrentBlock()
	t := g.Time() + 1
	var txs []*types.Transaction
	for i, u := range append(append([]*ecdsa.PrivateKey{}, e.users...), e.payerK, e.ms2, e.ms3) {
		txs = append(txs, txTransfer(e.w.FounderKey, keyAddr(u), lemo(int64(1000000+i)), TxOpt{Exp: uint64(t) + 600, Msg: e.g.msg()}))
	}
	b := e.mustInsert(g, t, txs...)
	e.stabilise(b)
}

// setupMultisig turns ms2 into a multisig account with signers A:60 B:50 and ms3 into one with A:60 B:50 C:40 (threshold 100).
func (e *c04eEnv) setupMultisig() {
	h := e.n.BC.CurrentBlock()
	t := h.Time() + 1
	sa := func(k *ecdsa.PrivateKey, w uint8) types.SignAccount {
		return types.SignAccount{Address: keyAddr(k), Weight: w}
	}
	b := e.mustInsert(h, t,
		txModifySigners(e.ms2, keyAddr(e.ms2), types.Signers{sa(e.sgA, 60), sa(e.sgB, 50)}, TxOpt{Exp: uint64(t) + 600, Msg: e.g.msg()}),
		txModifySigners(e.ms3, keyAddr(e.ms3), types.Signers{sa(e.sgA, 60), sa(e.sgB, 50), sa(e.sgC, 40)}, TxOpt{Exp: uint64(t) + 600, Msg: e.g.msg()}))
	e.stabilise(b)
	e.msReady = true
}

func (e *c04eEnv) bal(b *types.Block, a common.Address) *big.Int { return e.n.balanceAt(b.Hash(), a) }

// execs: how many times `amount` was credited to the (fresh) recipient in the view of block b.
func (e *c04eEnv) execs(b *types.Block, rcpt common.Address, amount *big.Int) int64 {
	bal := e.bal(b, rcpt)
	q, r := new(big.Int).QuoRem(bal, amount, new(big.Int))
	if r.Sign() != 0 {
		return -1
	}
	return q.Int64()
}

type c04ePay struct {
	tx     *types.Transaction
	from   *ecdsa.PrivateKey
	rcpt   common.Address
	amount *big.Int
}

func (e *c04eEnv) pay(exp uint64) c04ePay {
	rnd := e.g.c.Rnd
	from := e.users[rnd.Intn(len(e.users))]
	amount := new(big.Int).Add(lemo(int64(1+rnd.Intn(50))), big.NewInt(int64(rnd.Intn(1000))))
	rc := e.g.rcpt()
	return c04ePay{tx: txTransfer(from, rc, amount, TxOpt{Exp: exp, Msg: e.g.msg()}), from: from, rcpt: rc, amount: amount}
}

func (e *c04eEnv) otherUser(k *ecdsa.PrivateKey) *ecdsa.PrivateKey {
	for {
		u := e.users[e.g.c.Rnd.Intn(len(e.users))]
		if u != k {
			return u
		}
	}
}

func (e *c04eEnv) box(by *ecdsa.PrivateKey, exp uint64, subs ...*types.Transaction) *types.Transaction {
	var cp types.Transactions
	for _, s := range subs {
		cp = append(cp, c04eWire(s))
	}
	bx := txBox(by, cp, TxOpt{Exp: exp, Msg: e.g.msg()})
	e.g.boxSubs[bx.Hash()] = cp
	return bx
}

func c04eContains(b *types.Block, h common.Hash) int {
	k := 0
	for _, tx := range b.Txs {
		if tx.Hash() == h {
			k++
		}
		for _, s := range c04eSubs(tx) {
			if s.Hash() == h {
				k++
			}
		}
	}
	return k
}

// feesOf: gas fees paid by `from` for the txs (and box sub-txs) of b.
func c04eFees(b *types.Block, from common.Address) *big.Int {
	f := new(big.Int)
	for _, tx := range b.Txs {
		if tx.GasPayer() == from {
			gu := tx.GasUsed()
			for _, s := range c04eSubs(tx) {
				gu -= s.GasUsed()
			}
			f.Add(f, new(big.Int).Mul(new(big.Int).SetUint64(gu), tx.GasPrice()))
		}
		for _, s := range c04eSubs(tx) {
			if s.GasPayer() == from {
				f.Add(f, new(big.Int).Mul(new(big.Int).SetUint64(s.GasUsed()), s.GasPrice()))
			}
		}
	}
	return f
}

func (e *c04eEnv) witness(extra map[string]interface{}) map[string]interface{} {
	m := map[string]interface{}{"seed": e.g.c.Seed, "family": e.name, "variant": e.g.variant}
	for k, v := range extra {
		m[k] = v
	}
	return m
}

// ---- scenario runner --------------------------------------------------------------

// run executes one scenario repetition; harness/engine panics are reported, a used-up time budget ends the family.
func (e *c04eEnv) run(name string, f func()) (ok bool) {
	defer func() {
		if r := recover(); r != nil {
			if _, isT := r.(c04eTimeUp); isT {
				e.g.c.Count("e:" + name + ":time-budget-exhausted")
				ok = false
				return
			}
			e.g.c.Count("e:" + name + ":panic")
			e.g.fail("c04/engine-panic/"+name, fmt.Sprintf("[%s] scenario aborted: %v", e.name, r), e.witness(nil))
			fmt.Fprintf(os.Stderr, "c04e: scenario %s aborted: %v\n", name, r)
			ok = false
		}
	}()
	f()
	return true
}

func c04Engine(c *Ctx) {
	g := &c04eG{c: c, boxSubs: map[common.Hash]types.Transactions{}, txIDs: map[common.Hash]int{}, ctIDs: map[common.Hash]int{}, observer: detKey("c04e-observer"), nSig: map[string]int{}}
	reps := c.N/10 + 1
	if reps > 45 {
		reps = 45
	}
	now := uint32(time.Now().Unix())

	// ---- variant probe on a throwaway node (not mirrored)
	g.variant = c04eProbe(g, now)
	c.Op("variant "+g.variant, "ok")

	// ---- family 0: the entry points that ask the guard about the CURRENT head before pooling a tx (RPC SendTx, network
	// TxsMsg). It runs first and is short: a ProtocolManager subscribes to the process-wide event hub, whose Send spins
	// for ever on a channel nobody drains; no engine timer (FetchRemoteConfirms, 30 s after a stable change) may be
	// pending while one is alive.
	apiPasses := 1 + reps/10
	if apiPasses > 4 {
		apiPasses = 4
	}
	for r := 0; r < apiPasses; r++ {
		c04eAPI(g, r)
	}

	// ---- family 1: re-encodings, duplicates, boxes, across blocks, window, forks  (one node)
	func() {
		w := NewWorld(3, now-3000000, 10000)
		e := g.newEnv("main", w)
		defer e.n.Close()
		if !e.run("setup", e.fund) || !e.run("setup-multisig", e.setupMultisig) {
			return
		}
		for r := 0; r < reps; r++ {
			steps := []struct {
				name string
				f    func()
			}{
				{"malleated", func() { e.scReencoded("malleated") }},
				{"surplus", func() { e.scReencoded("surplus") }},
				{"payer-rewrap", func() { e.scReencoded("payer-rewrap") }},
				{"payer-malleated", func() { e.scReencoded("payer-malleated") }},
				{"ms-reordered", func() { e.scReencoded("ms-reordered") }},
				{"ms-duplicated", func() { e.scReencoded("ms-duplicated") }},
				{"ms-foreign", func() { e.scReencoded("ms-foreign") }},
				{"ms-subset", func() { e.scReencoded("ms-subset") }},
				{"dup-in-block", e.scDupInBlock},
				{"box-in-block", e.scBoxInBlock},
				{"across", e.scAcross},
				{"box3", e.scBox3},
				{"box-forged-hash", e.scBoxForgedHash},
				{"window", e.scWindow},
				{"window-box", e.scWindowBox},
				{"fork", e.scFork},
			}
			for _, s := range steps {
				if !e.run(s.name, s.f) {
					// the chain may be in an unknown shape after an abort: stop the family
					return
				}
			}
		}
	}()

	// ---- family 2: pruning by stable advance and restarts (one node, big time steps)
	func() {
		w := NewWorld(3, now-40000000, 10000)
		e := g.newEnv("prune", w)
		defer func() { e.n.Close() }()
		if !e.run("setup", e.fund) {
			return
		}
		for r := 0; r < reps; r++ {
			for _, s := range []struct {
				name string
				f    func()
			}{
				{"prune", e.scPrune},
				{"far-expiration", e.scFarExpiration},
				{"prune-boundary", e.scPruneBoundary},
				{"restart", e.scRestart},
			} {
				if !e.run(s.name, s.f) {
					return
				}
			}
		}
	}()

	// ---- family 4: random fork histories with replays, stable advances and restarts (one node)
	func() {
		w := NewWorld(3, now-20000000, 10000)
		e := g.newEnv("random", w)
		defer func() { e.n.Close() }()
		if !e.run("setup", e.fund) {
			return
		}
		e.run("random", func() { e.scRandom(reps * 100) })
	}()

	// ---- family 5: fork switches of every kind: the pool must get the old branch's txs and lose the new branch's
	func() {
		w := NewWorld(3, now-10000000, 10000)
		e := g.newEnv("forkswitch", w)
		defer func() { e.n.Close() }()
		if !e.run("setup", e.fund) {
			return
		}
		for r := 0; r < reps; r++ {
			for _, shape := range []string{"plain", "after-reopen", "by-confirm", "old-ancestor", "old-ancestor-by-confirm", "after-reopen-by-confirm"} {
				if !e.run("forkswitch", func() { e.scForkSwitch(shape) }) {
					return
				}
			}
		}
	}()

	// ---- family 3: the real miner with a pool fed by a side-branch block (fresh node pair per repetition, real clock)
	mreps := reps
	if mreps < 6 {
		mreps = 6
	}
	if mreps > 12 {
		mreps = 12
	}
	for r := 0; r < mreps; r++ {
		c04eMiner(g, r)
	}

	// ---- family 6: the real miner and a pooled tx that is still too far in the future (timing dependent)
	for try := 0; try < 5; try++ {
		if c04eTooFar(g, try) {
			break
		}
	}
}

// c04eProbe: is a block naming the same tx twice accepted by the validator path?
func c04eProbe(g *c04eG, now uint32) string {
	w := NewWorld(3, now-700000, 10000)
	n := w.NewNode(3)
	defer n.Close()
	gen := n.BC.CurrentBlock()
	t := gen.Time() + 1
	rc := g.rcpt()
	amount := lemo(3)
	tx := txTransfer(w.FounderKey, rc, amount, TxOpt{Exp: uint64(t) + 100, Msg: "probe"})
	b, _, err := n.Build(gen, t, types.Transactions{c04eWire(tx), c04eWire(tx)}, nil)
	if err != nil {
		panic(err)
	}
	if c04eContains(b, tx.Hash()) < 2 {
		g.c.Count("e:probe:miner-dropped-duplicate")
		return "fixed"
	}
	deputynode.SetSelfNodeKey(g.observer)
	res := Safe(func() string {
		if err := n.Insert(CloneBlock(b)); err != nil {
			return "reject"
		}
		return "accept"
	})
	g.c.Count("e:probe:duplicate-block-" + res)
	if res == "accept" {
		return "asis"
	}
	return "fixed"
}

// ---- (a) (b): the same signed content under another encoding --------------------------

func (e *c04eEnv) scReencoded(kind string) {
	for _, place := range []string{"child", "same-block", "grandchild"} {
		e.scReencodedAt(kind, place)
	}
}

// c04eVariant: a tx T and a second tx T' with the same signed content, made from T by somebody who does not hold the
// sender's key(s).
type c04eVariant struct {
	t, t2  *types.Transaction
	sig    string
	sender common.Address
	payer  common.Address // who pays the gas (= sender unless a reimbursement tx)
	rcpt   common.Address
	amount *big.Int
	who    string // who can mount it
	how    string
}

func c04eWithSigs(tx *types.Transaction, sigs ...[]byte) *types.Transaction {
	var all []string
	for _, sg := range sigs {
		all = append(all, common.ToHex(sg))
	}
	return c04eTxEdit(tx, func(m map[string]interface{}) { m["sigs"] = all })
}

func (e *c04eEnv) variant(kind string, exp uint64) c04eVariant {
	rnd := e.g.c.Rnd
	amount := new(big.Int).Add(lemo(int64(1+rnd.Intn(50))), big.NewInt(int64(rnd.Intn(1000))))
	rc := e.g.rcpt()
	msg := e.g.msg()
	v := c04eVariant{rcpt: rc, amount: amount}
	signAll := func(tx *types.Transaction, keys ...*ecdsa.PrivateKey) *types.Transaction {
		for _, k := range keys {
			tx = signTx(tx, k)
		}
		return c04eWire(tx)
	}
	switch kind {
	case "malleated", "surplus":
		from := e.users[rnd.Intn(len(e.users))]
		v.t = txTransfer(from, rc, amount, TxOpt{Exp: exp, Msg: msg})
		v.sender, v.payer = keyAddr(from), keyAddr(from)
		if kind == "malleated" {
			v.t2 = c04eMalleated(v.t)
			v.sig, v.who, v.how = "c04/replayed/malleated-signature", "anybody (no key)", "sigs[0] re-encoded as (r, n-s, v^1)"
		} else {
			v.t2 = c04eSurplus(v.t, detKey("c04e-foreign"))
			v.sig, v.who, v.how = "c04/replayed/surplus-signature", "anybody (any key of his own)", "a surplus signature by a foreign key appended to a plain account's tx"
		}
	case "payer-rewrap":
		// the sender signs a reimbursement tx (that hash omits gasPrice/gasLimit); the gas payer wraps it twice
		from := e.users[rnd.Intn(len(e.users))]
		wrap := func(price *big.Int, limit uint64) *types.Transaction {
			tx := types.NewReimbursementTransaction(keyAddr(from), rc, keyAddr(e.payerK), amount, nil, params.OrdinaryTx, nodeChainID, exp, "", msg)
			stx, err := types.MakeReimbursementTxSigner().SignTx(tx, from)
			if err != nil {
				panic(err)
			}
			stx = types.GasPayerSignatureTx(stx, price, limit)
			ptx, err := types.MakeGasPayerSigner().SignTx(stx, e.payerK)
			if err != nil {
				panic(err)
			}
			return c04eWire(ptx)
		}
		v.t = wrap(new(big.Int).Set(oneGwei), 2000000)
		if rnd.Intn(2) == 0 {
			v.t2 = wrap(new(big.Int).Add(oneGwei, big.NewInt(1)), 2000000)
			v.how = "the gas payer signs the same sender-signed tx again with gasPrice 1 gwei + 1"
		} else {
			v.t2 = wrap(new(big.Int).Set(oneGwei), uint64(2000001+rnd.Intn(1000)))
			v.how = fmt.Sprintf("the gas payer signs the same sender-signed tx again with gasLimit %d instead of 2000000", v.t2.GasLimit())
		}
		if !bytes.Equal(v.t.Sigs()[0], v.t2.Sigs()[0]) || len(v.t.Sigs()) != 1 || len(v.t2.Sigs()) != 1 {
			panic("payer-rewrap: the sender's signature bytes differ")
		}
		v.sender, v.payer = keyAddr(from), keyAddr(e.payerK)
		v.sig, v.who = "c04/replayed/payer-rewrap", "the gas payer alone (no sender key)"
	case "payer-malleated":
		// a reimbursement tx whose GAS PAYER signature is re-encoded as (r, n-s, v^1): nobody's key is needed, the tx hash
		// (which covers gasPayerSigs) changes, the sender's and the payer's signed contents stay the same
		from := e.users[rnd.Intn(len(e.users))]
		tx := types.NewReimbursementTransaction(keyAddr(from), rc, keyAddr(e.payerK), amount, nil, params.OrdinaryTx, nodeChainID, exp, "", msg)
		stx, err := types.MakeReimbursementTxSigner().SignTx(tx, from)
		if err != nil {
			panic(err)
		}
		stx = types.GasPayerSignatureTx(stx, new(big.Int).Set(oneGwei), 2000000)
		ptx, err := types.MakeGasPayerSigner().SignTx(stx, e.payerK)
		if err != nil {
			panic(err)
		}
		v.t = c04eWire(ptx)
		var ps []string
		for i, sg := range v.t.GasPayerSigs() {
			if i == 0 {
				sg = malleate(sg)
			}
			ps = append(ps, common.ToHex(sg))
		}
		v.t2 = c04eTxEdit(v.t, func(m map[string]interface{}) { m["gasPayerSigs"] = ps })
		if !bytes.Equal(v.t.Sigs()[0], v.t2.Sigs()[0]) || types.MakeGasPayerSigner().Hash(v.t) != types.MakeGasPayerSigner().Hash(v.t2) {
			panic("payer-malleated: the sender's signature or the payer's signed content changed")
		}
		v.sender, v.payer = keyAddr(from), keyAddr(e.payerK)
		v.sig, v.who, v.how = "c04/replayed/payer-malleated-signature", "anybody (no key)", "gasPayerSigs[0] re-encoded as (r, n-s, v^1)"
	case "ms-reordered", "ms-duplicated", "ms-foreign", "ms-subset":
		acct := e.ms2
		keys := []*ecdsa.PrivateKey{e.sgA, e.sgB}
		if kind == "ms-subset" {
			acct = e.ms3
			keys = []*ecdsa.PrivateKey{e.sgA, e.sgB, e.sgC}
		}
		raw := types.NewTransaction(keyAddr(acct), rc, amount, 2000000, new(big.Int).Set(oneGwei), nil, params.OrdinaryTx, nodeChainID, exp, "", msg)
		v.t = signAll(raw, keys...)
		sg := v.t.Sigs()
		v.sender, v.payer = keyAddr(acct), keyAddr(acct)
		switch kind {
		case "ms-reordered":
			v.t2 = c04eWithSigs(v.t, sg[1], sg[0])
			v.sig, v.who, v.how = "c04/replayed/multisig-reordered", "anybody (no key)", "sigs [A,B] reordered to [B,A]"
		case "ms-duplicated":
			if rnd.Intn(2) == 0 {
				v.t2 = c04eWithSigs(v.t, sg[0], sg[1], sg[0])
				v.how = "sigs [A,B] extended to [A,B,A]"
			} else {
				v.t2 = c04eWithSigs(v.t, sg[0], sg[0], sg[1])
				v.how = "sigs [A,B] extended to [A,A,B]"
			}
			v.sig, v.who = "c04/replayed/multisig-duplicated", "anybody (no key)"
		case "ms-foreign":
			v.t2 = signAll(c04eWire(v.t), detKey("c04e-foreign"))
			v.sig, v.who, v.how = "c04/replayed/multisig-foreign-entry", "anybody (any key of his own)", "sigs [A,B] extended to [A,B,X], X a key that is not a signer of the account"
		case "ms-subset":
			if rnd.Intn(2) == 0 {
				v.t2 = c04eWithSigs(v.t, sg[0], sg[1])
				v.how = "sigs [A:60,B:50,C:40] reduced to [A,B] (110 >= 100)"
			} else {
				v.t2 = c04eWithSigs(v.t, sg[0], sg[2])
				v.how = "sigs [A:60,B:50,C:40] reduced to [A,C] (100 >= 100)"
			}
			v.sig, v.who = "c04/replayed/multisig-subset", "anybody (no key)"
		}
	default:
		panic("unknown kind " + kind)
	}
	if v.t2.Hash() == v.t.Hash() || c04eSenderContent(v.t2) != c04eSenderContent(v.t) {
		panic(kind + ": re-encoding did not produce a distinct tx with the same signed content")
	}
	return v
}

func (e *c04eEnv) scReencodedAt(kind, place string) {
	c, rnd := e.g.c, e.g.c.Rnd
	if strings.HasPrefix(kind, "ms-") && !e.msReady {
		c.Count("e:" + kind + ":no-multisig-account")
		return
	}
	base := e.base()
	t1 := base.Time() + 1 + uint32(rnd.Intn(25))
	gap := uint32(rnd.Intn(60))
	t2 := t1 + gap
	if place == "same-block" {
		t2 = t1
	}
	exp := uint64(t2) + uint64(rnd.Intn(int(c04eLife-(t2-t1))+1)) // in [t2, t1+1800]
	switch rnd.Intn(4) {
	case 0:
		exp = uint64(t2)
	case 1:
		exp = uint64(t1 + c04eLife)
	}
	p := e.variant(kind, exp)
	p2 := p.t2
	if kind == "malleated" || kind == "surplus" {
		if c04eSigner0(p.t) != p.sender {
			panic("the signer of T is not the sender")
		}
		if c04eSigner0(p2) != p.sender {
			// since fix 04be1c5 the (r, n-s, v^1) encoding no longer recovers to anybody; the scenario still runs, so that
			// the engine's verdict on a block carrying it is observed (the miner must drop it)
			if kind != "malleated" {
				panic("re-encoding did not keep the signer")
			}
			c.Count("e:" + kind + ":signature-no-longer-recovers")
		}
	}
	senderBefore := e.bal(base, p.sender)
	payerBefore := e.bal(base, p.payer)
	var chainBlocks []*types.Block
	var head *types.Block
	verdict := ""
	if place == "same-block" {
		b, _ := e.build(base, t1, p.t, p2)
		if c04eContains(b, p.t.Hash()) != 1 || c04eContains(b, p2.Hash()) != 1 {
			c.Count("e:" + kind + ":" + place + ":miner-dropped")
			e.insert(b)
			return
		}
		verdict = e.insert(b)
		head = b
		chainBlocks = append(chainBlocks, b)
	} else {
		b1 := e.mustInsert(base, t1, p.t)
		chainBlocks = append(chainBlocks, b1)
		parent := b1
		if place == "grandchild" {
			tm := t1 + uint32(rnd.Intn(int(gap)+1))
			parent = e.mustInsert(b1, tm)
			chainBlocks = append(chainBlocks, parent)
		}
		b2, _ := e.build(parent, t2, p2)
		if c04eContains(b2, p2.Hash()) != 1 {
			c.Count("e:" + kind + ":" + place + ":miner-dropped")
			e.insert(b2)
			return
		}
		verdict = e.insert(b2)
		head = b2
		chainBlocks = append(chainBlocks, b2)
	}
	if verdict != "accept" {
		c.Count("e:" + kind + ":" + place + ":rejected")
		return
	}
	k := e.execs(head, p.rcpt, p.amount)
	fees := new(big.Int)
	for _, b := range chainBlocks {
		fees.Add(fees, c04eFees(b, p.payer))
	}
	debit := new(big.Int).Sub(senderBefore, e.bal(head, p.sender))
	wantDebit := new(big.Int).Mul(p.amount, big.NewInt(k))
	payerNote := ""
	if p.payer == p.sender {
		wantDebit.Add(wantDebit, fees)
	} else {
		payerDebit := new(big.Int).Sub(payerBefore, e.bal(head, p.payer))
		payerNote = fmt.Sprintf("; gas payer debited %s = the gas of both txs (%v)", payerDebit, payerDebit.Cmp(fees) == 0)
		if payerDebit.Cmp(fees) != 0 {
			c.Count("e:" + kind + ":payer-debit-unexpected")
		}
	}
	if k >= 2 {
		c.Count("e:" + kind + ":" + place + ":replayed")
		e.g.fail(p.sig, fmt.Sprintf("tx T (hash %s, %d sigs) in block time %d and T' (hash %s, %d sigs, same signed content %s; %s; can be made by: %s) placed as %s at time %d (exp %d) are both accepted: recipient credited %d x %s, sender debited %s (= %d x amount + own gas fees: %v)%s",
			p.t.Hash().Hex()[:10], len(p.t.Sigs()), t1, p2.Hash().Hex()[:10], len(p2.Sigs()), c04eSenderContent(p2).Hex()[:10], p.how, p.who, place, t2, exp, k, p.amount, debit, k, debit.Cmp(wantDebit) == 0, payerNote),
			e.witness(map[string]interface{}{"kind": kind, "place": place, "t1": t1, "t2": t2, "exp": exp, "amount": p.amount.String(), "execs": k, "sigsT": len(p.t.Sigs()), "sigsT2": len(p2.Sigs()),
				"gasPriceT": p.t.GasPrice().String(), "gasPriceT2": p2.GasPrice().String(), "gasLimitT": p.t.GasLimit(), "gasLimitT2": p2.GasLimit(), "how": p.how, "who": p.who}))
	} else {
		c.Count(fmt.Sprintf("e:%s:%s:accepted-execs-%d", kind, place, k))
	}
	if debit.Cmp(wantDebit) != 0 {
		c.Count("e:" + kind + ":sender-debit-unexpected")
	}
}

// ---- (c): the same tx object twice (or three times) in one block --------------------------

func (e *c04eEnv) scDupInBlock() {
	c, rnd := e.g.c, e.g.c.Rnd
	base := e.base()
	t := base.Time() + 1 + uint32(rnd.Intn(25))
	p := e.pay(uint64(t) + uint64(rnd.Intn(int(c04eLife)+1)))
	copies := 2 + rnd.Intn(2)
	var txs []*types.Transaction
	other := e.pay(uint64(t) + 50) // an unrelated tx in between
	for i := 0; i < copies; i++ {
		txs = append(txs, p.tx)
		if i == 0 && rnd.Intn(2) == 0 {
			txs = append(txs, other.tx)
		}
	}
	senderBefore := e.bal(base, keyAddr(p.from))
	b, invalid := e.build(base, t, txs...)
	got := c04eContains(b, p.tx.Hash())
	if got < 2 {
		c.Count(fmt.Sprintf("e:dup-in-block:miner-kept-%d-of-%d(invalid=%d)", got, copies, len(invalid)))
		e.insert(b)
		return
	}
	c.Count("e:dup-in-block:miner-included-all")
	verdict := e.insert(b)
	if verdict != "accept" {
		c.Count("e:dup-in-block:rejected")
		return
	}
	k := e.execs(b, p.rcpt, p.amount)
	debit := new(big.Int).Sub(senderBefore, e.bal(b, keyAddr(p.from)))
	if k >= 2 {
		c.Count("e:dup-in-block:replayed")
		e.g.fail("c04/replayed/duplicate-in-block", fmt.Sprintf("block height %d time %d names tx %s %d times; the miner path executes every copy and InsertBlock accepts the block: recipient credited %d x %s, sender debited %s",
			b.Height(), t, p.tx.Hash().Hex()[:10], got, k, p.amount, debit),
			e.witness(map[string]interface{}{"copies": got, "t": t, "exp": p.tx.Expiration(), "amount": p.amount.String(), "execs": k}))
	} else {
		c.Count(fmt.Sprintf("e:dup-in-block:accepted-execs-%d", k))
	}
}

// ---- (d): standalone + inside a box (or in two boxes / twice in one box) in one block --------

func (e *c04eEnv) scBoxInBlock() {
	c, rnd := e.g.c, e.g.c.Rnd
	for _, shape := range []string{"standalone-first", "box-first", "two-boxes", "twice-in-one-box"} {
		base := e.base()
		t := base.Time() + 1 + uint32(rnd.Intn(25))
		exp := uint64(t) + uint64(rnd.Intn(int(c04eLife)+1))
		p := e.pay(exp)
		boxExp := uint64(t) + uint64(rnd.Intn(int(exp-uint64(t))+1)) // t <= boxExp <= exp
		boxer := e.otherUser(p.from)
		var txs []*types.Transaction
		sig := "c04/replayed/box-and-standalone-in-block"
		switch shape {
		case "standalone-first":
			txs = []*types.Transaction{p.tx, e.box(boxer, boxExp, p.tx)}
		case "box-first":
			txs = []*types.Transaction{e.box(boxer, boxExp, p.tx), p.tx}
		case "two-boxes":
			txs = []*types.Transaction{e.box(boxer, boxExp, p.tx), e.box(e.otherUser(boxer), boxExp, p.tx)}
			sig = "c04/replayed/two-boxes-in-block"
		case "twice-in-one-box":
			txs = []*types.Transaction{e.box(boxer, boxExp, p.tx, p.tx)}
			sig = "c04/replayed/duplicate-in-box"
		}
		b, invalid := e.build(base, t, txs...)
		got := c04eContains(b, p.tx.Hash())
		if got < 2 {
			c.Count(fmt.Sprintf("e:box-in-block:%s:miner-kept-%d(invalid=%d)", shape, got, len(invalid)))
			e.insert(b)
			continue
		}
		verdict := e.insert(b)
		if verdict != "accept" {
			c.Count("e:box-in-block:" + shape + ":rejected")
			c.Count("e:dup-in-block:rejected")
			continue
		}
		k := e.execs(b, p.rcpt, p.amount)
		if k >= 2 {
			c.Count("e:box-in-block:" + shape + ":replayed")
			e.g.fail(sig, fmt.Sprintf("block height %d time %d carries tx %s %d times (%s); InsertBlock accepts: recipient credited %d x %s",
				b.Height(), t, p.tx.Hash().Hex()[:10], got, shape, k, p.amount),
				e.witness(map[string]interface{}{"shape": shape, "t": t, "exp": exp, "boxExp": boxExp, "amount": p.amount.String(), "execs": k}))
		} else {
			c.Count(fmt.Sprintf("e:box-in-block:%s:accepted-execs-%d", shape, k))
		}
	}
}

// ---- across blocks on one branch: must be rejected ---------------------------------------

func (e *c04eEnv) scAcross() {
	c, rnd := e.g.c, e.g.c.Rnd
	kinds := []string{"same-tx-child", "same-tx-after-gap", "standalone-then-box", "box-then-standalone", "box-then-other-box", "same-box-again"}
	for _, kind := range kinds {
		base := e.base()
		t1 := base.Time() + 1 + uint32(rnd.Intn(25))
		gaps := 0
		if kind != "same-tx-child" {
			gaps = rnd.Intn(6)
		}
		if kind == "same-tx-after-gap" && gaps == 0 {
			gaps = 1 + rnd.Intn(5)
		}
		// block times t1 <= ... <= t2, all inside the life time of the tx
		span := uint32(rnd.Intn(200))
		t2 := t1 + span
		exp := uint64(t2) + uint64(rnd.Intn(int(c04eLife-span)+1))
		p := e.pay(exp)
		boxer := e.otherUser(p.from)
		boxA := e.box(boxer, uint64(t2), p.tx) // t2 <= exp and t1 <= t2 <= t1+1800
		boxB := e.box(e.otherUser(boxer), uint64(t2), p.tx)
		var first, second *types.Transaction
		switch kind {
		case "same-tx-child", "same-tx-after-gap":
			first, second = p.tx, p.tx
		case "standalone-then-box":
			first, second = p.tx, boxA
		case "box-then-standalone":
			first, second = boxA, p.tx
		case "box-then-other-box":
			first, second = boxA, boxB
		case "same-box-again":
			first, second = boxA, boxA
		}
		b1 := e.mustInsert(base, t1, first)
		parent := b1
		tm := t1
		for j := 0; j < gaps; j++ {
			tm += uint32(rnd.Intn(int(t2-tm) + 1))
			parent = e.mustInsert(parent, tm)
		}
		if t2 < tm {
			t2 = tm
		}
		b2, _ := e.build(parent, t2, second)
		if c04eContains(b2, p.tx.Hash()) == 0 {
			c.Count("e:across:" + kind + ":miner-dropped")
			e.insert(b2)
			continue
		}
		c.Count("e:across:" + kind + ":miner-included")
		verdict := e.insert(b2)
		if verdict == "accept" {
			k := e.execs(b2, p.rcpt, p.amount)
			c.Count("e:across:" + kind + ":accepted")
			e.g.fail("c04/replayed/across-blocks/"+kind, fmt.Sprintf("tx %s first in block height %d time %d, again (%s) %d blocks later at time %d (exp %d): accepted, recipient credited %d x %s",
				p.tx.Hash().Hex()[:10], b1.Height(), t1, kind, gaps+1, t2, exp, k, p.amount),
				e.witness(map[string]interface{}{"kind": kind, "t1": t1, "t2": t2, "gaps": gaps, "exp": exp, "execs": k}))
		} else {
			c.Count("e:across:" + kind + ":rejected")
			if k := e.execs(parent, p.rcpt, p.amount); k != 1 {
				c.Count(fmt.Sprintf("e:across:%s:first-execs-%d", kind, k))
			}
		}
	}
}

// c04eForgedBox: a box signed by `by` whose payload is the JSON of the sub-txs with a "hash" member that CLAIMS another hash
// (or names none). The identity of a sub-tx must be computed from its content: a decoder that trusts the member gives an included
// tx a new identity and every replay defence keyed by sub-tx hashes (guard, duplicate scan, pool) is blind to it.
func (e *c04eEnv) forgedBox(by *ecdsa.PrivateKey, exp uint64, mode string, subs ...*types.Transaction) *types.Transaction {
	var cp types.Transactions
	for _, s := range subs {
		cp = append(cp, c04eWire(s))
	}
	data, err := types.MarshalBoxData(cp)
	if err != nil {
		panic(err)
	}
	var m map[string]interface{}
	if err := json.Unmarshal(data, &m); err != nil {
		panic(err)
	}
	list, _ := m["subTxList"].([]interface{})
	for i, it := range list {
		sm, _ := it.(map[string]interface{})
		switch mode {
		case "claims-other-hash":
			sm["hash"] = common.BytesToHash([]byte(fmt.Sprintf("forged-%d-%d", i, e.g.c.Rnd.Int63()))).Hex()
		case "claims-zero-hash":
			sm["hash"] = common.Hash{}.Hex()
		case "no-hash-member":
			delete(sm, "hash")
		}
	}
	nd, _ := json.Marshal(m)
	bx := mkTx(by, nil, nil, nd, params.BoxTx, TxOpt{Exp: exp, Msg: e.g.msg(), GasLimit: uint64(100000 + 2100000*len(subs))})
	e.g.boxSubs[bx.Hash()] = cp
	return bx
}

// a tx T packaged standalone, then a box whose JSON payload carries T again under a forged / missing "hash" member: the second
// execution of T must be refused whatever the payload claims about T's hash
func (e *c04eEnv) scBoxForgedHash() {
	c, rnd := e.g.c, e.g.c.Rnd
	for _, mode := range []string{"claims-other-hash", "claims-zero-hash", "no-hash-member"} {
		for _, order := range []string{"standalone-then-box", "box-then-box"} {
			base := e.base()
			t1 := base.Time() + 1 + uint32(rnd.Intn(25))
			t2 := t1 + uint32(rnd.Intn(100))
			exp := uint64(t2) + uint64(rnd.Intn(1000))
			p := e.pay(exp)
			boxer := e.otherUser(p.from)
			var first *types.Transaction = p.tx
			if order == "box-then-box" {
				first = e.forgedBox(e.otherUser(boxer), uint64(t2), mode, p.tx)
			}
			second := e.forgedBox(boxer, uint64(t2), mode, p.tx)
			b1, _ := e.build(base, t1, first)
			if len(b1.Txs) != 1 || e.insert(b1) != "accept" {
				c.Count("e:box-forged-hash:" + mode + ":" + order + ":first-not-included")
				continue
			}
			if k := e.execs(b1, p.rcpt, p.amount); k != 1 {
				c.Count(fmt.Sprintf("e:box-forged-hash:%s:%s:first-execs-%d", mode, order, k))
				continue
			}
			b2, _ := e.build(b1, t2, second)
			if len(b2.Txs) == 0 {
				c.Count("e:box-forged-hash:" + mode + ":" + order + ":miner-dropped")
				e.insert(b2)
				continue
			}
			c.Count("e:box-forged-hash:" + mode + ":" + order + ":miner-included")
			if verdict := e.insert(b2); verdict == "accept" {
				k := e.execs(b2, p.rcpt, p.amount)
				c.Count("e:box-forged-hash:" + mode + ":" + order + ":accepted")
				if k != 1 {
					e.g.fail("c04/replayed/box-forged-sub-hash/"+mode, fmt.Sprintf("tx %s packaged in block height %d (%s), then again inside a box whose JSON payload %s: accepted, recipient credited %d x %s",
						p.tx.Hash().Hex()[:10], b1.Height(), order, mode, k, p.amount),
						e.witness(map[string]interface{}{"mode": mode, "order": order, "t1": t1, "t2": t2, "exp": exp, "execs": k}))
				}
			} else {
				c.Count("e:box-forged-hash:" + mode + ":" + order + ":rejected")
			}
		}
	}
}

// a box of three sub-txs; the LAST one replayed standalone in a child block must be refused
func (e *c04eEnv) scBox3() {
	c, rnd := e.g.c, e.g.c.Rnd
	base := e.base()
	t1 := base.Time() + 1 + uint32(rnd.Intn(25))
	t2 := t1 + uint32(rnd.Intn(100))
	exp := uint64(t2) + uint64(rnd.Intn(1000))
	a, b2, last := e.pay(exp), e.pay(exp), e.pay(exp)
	bx := e.box(e.otherUser(last.from), uint64(t2), a.tx, b2.tx, last.tx)
	b1 := e.mustInsert(base, t1, bx)
	r, _ := e.build(b1, t2, last.tx)
	if c04eContains(r, last.tx.Hash()) == 0 {
		c.Count("e:box3:miner-dropped")
		e.insert(r)
		return
	}
	v := e.insert(r)
	c.Count("e:box3:last-sub-standalone:" + v)
	if v == "accept" {
		k := e.execs(r, last.rcpt, last.amount)
		e.g.fail("c04/replayed/across-blocks/box3-last-sub", fmt.Sprintf("the third sub-tx of a box in block time %d is accepted again standalone in the child block time %d: credited %d x %s", t1, t2, k, last.amount),
			e.witness(map[string]interface{}{"t1": t1, "t2": t2, "exp": exp, "execs": k}))
	} else if k := e.execs(b1, last.rcpt, last.amount); k != 1 {
		c.Count(fmt.Sprintf("e:box3:first-execs-%d", k))
	}
}

// c04eInWindow: VerifyTxBody's time rule in the harness's own unsigned arithmetic.
func c04eInWindow(exp uint64, t uint32) bool {
	return exp >= uint64(t) && exp-uint64(t) <= uint64(c04eLife)
}

// expiration boundary values over the whole uint64 range (top level and as box sub-tx): the window must refuse
// everything beyond t+1800, or the tx outlives the guard's memory: first inclusion, the stable block advances by
// more than 30 min + a bucket (the guard forgets the block), the same bytes again.
func (e *c04eEnv) scFarExpiration() {
	c, rnd := e.g.c, e.g.c.Rnd
	type cand struct {
		name string
		exp  func(t uint64) uint64
	}
	all := []cand{
		{"t+1801", func(t uint64) uint64 { return t + 1801 }},
		{"t+2h", func(t uint64) uint64 { return t + 7200 }},
		{"2^31", func(t uint64) uint64 { return 1 << 31 }},
		{"2^32", func(t uint64) uint64 { return 1 << 32 }},
		{"2^32+t", func(t uint64) uint64 { return 1<<32 + t }},
		{"2^62", func(t uint64) uint64 { return 1 << 62 }},
		{"2^63-1", func(t uint64) uint64 { return 1<<63 - 1 }},
		{"2^63", func(t uint64) uint64 { return 1 << 63 }},
		{"2^63+t-1", func(t uint64) uint64 { return 1<<63 + t - 1 }},
		{"2^63+t", func(t uint64) uint64 { return 1<<63 + t }},
		{"2^63+t+1801", func(t uint64) uint64 { return 1<<63 + t + 1801 }},
		{"2^64-1", func(t uint64) uint64 { return ^uint64(0) }},
	}
	// always the two ends of the upper half, plus a few random others
	picks := []cand{all[len(all)-1], all[9], all[rnd.Intn(len(all))], all[rnd.Intn(len(all))]}
	for _, cd := range picks {
		base := e.base()
		t1 := base.Time() + 1 + uint32(rnd.Intn(70))
		exp := cd.exp(uint64(t1))
		boxed := rnd.Intn(3) == 0
		p := e.pay(exp)
		first := p.tx
		if boxed {
			first = e.box(e.otherUser(p.from), uint64(t1)+uint64(rnd.Intn(1801)), p.tx) // the box itself is inside the window
		}
		cls := cd.name
		if boxed {
			cls += ":boxed"
		}
		inWin := c04eInWindow(exp, t1)
		// (1) the body check itself, against own arithmetic (no model, no engine)
		bodyOK := c04eWire(first).VerifyTxBody(nodeChainID, uint64(t1), true) == nil
		if bodyOK && !inWin {
			e.g.fail("c04/window-accepts-far-expiration", fmt.Sprintf("VerifyTxBody(blockTime %d) accepts a tx (boxed=%v) with expiration %d (%s): %d s ahead as uint64, max life time %d", t1, boxed, exp, cd.name, exp-uint64(t1), c04eLife),
				map[string]interface{}{"where": "VerifyTxBody", "blockTime": t1, "exp": exp, "class": cd.name, "boxed": boxed, "txJSON": c04eJSON(p.tx)})
		}
		// (2) the engine
		b, _ := e.build(base, t1, first)
		if c04eContains(b, first.Hash()) == 0 {
			c.Count("e:far-exp:" + cls + ":miner-dropped")
			e.insert(b)
			continue
		}
		v := e.insert(b)
		c.Count("e:far-exp:" + cls + ":" + v)
		if v != "accept" {
			continue
		}
		if inWin {
			continue
		}
		e.g.fail("c04/window-accepts-far-expiration", fmt.Sprintf("InsertBlock accepts a block stamped %d carrying a tx (boxed=%v) with expiration %d (%s): %d s ahead as uint64, max life time %d; executed %d time(s)", t1, boxed, exp, cd.name, exp-uint64(t1), c04eLife, e.execs(b, p.rcpt, p.amount)),
			e.witness(map[string]interface{}{"where": "InsertBlock", "blockTime": t1, "exp": exp, "class": cd.name, "boxed": boxed, "txJSON": c04eJSON(p.tx)}))
		// (3) the consequence: empty stable blocks, one a minute, until the guard has forgotten the block; then the same bytes
		parent := b
		tm := t1
		for i := 0; i < 34; i++ {
			tm += 60 + uint32(rnd.Intn(5))
			parent = e.mustInsert(parent, tm)
			e.stabilise(parent)
		}
		tr := tm + 1 + uint32(rnd.Intn(20))
		r, _ := e.build(parent, tr, p.tx)
		if c04eContains(r, p.tx.Hash()) == 0 {
			c.Count("e:far-exp:" + cls + ":replay-miner-dropped")
			e.insert(r)
			continue
		}
		v2 := e.insert(r)
		c.Count("e:far-exp:" + cls + ":replay-" + v2)
		if v2 == "accept" {
			k := e.execs(r, p.rcpt, p.amount)
			e.g.fail("c04/replayed/after-guard-pruned", fmt.Sprintf("tx %s (expiration %d = %s, boxed first=%v) executed in block time %d; %d s and 34 stable blocks later (stable time %d, the guard has dropped that block) the same bytes are accepted again in a block stamped %d: recipient credited %d x %s",
				p.tx.Hash().Hex()[:10], exp, cd.name, boxed, t1, tm-t1, e.n.BC.StableBlock().Time(), tr, k, p.amount),
				e.witness(map[string]interface{}{"t1": t1, "exp": exp, "class": cd.name, "tr": tr, "execs": k, "txJSON": c04eJSON(p.tx)}))
		}
	}
}

func c04eJSON(tx *types.Transaction) string {
	b, err := tx.MarshalJSON()
	if err != nil {
		return "err:" + err.Error()
	}
	return string(b)
}

// ---- (f): the expiry window --------------------------------------------------------------

func (e *c04eEnv) scWindow() {
	c, rnd := e.g.c, e.g.c.Rnd
	base := e.base()
	exp := uint64(base.Time()) + uint64(c04eLife) + 1 + uint64(rnd.Intn(90))
	p := e.pay(exp)
	offs := []int64{-1801, -1800, -1, 0, 1}
	offs = append(offs, -int64(1+rnd.Intn(1799)), int64(2+rnd.Intn(2500)), -1799, 2)
	for _, off := range offs {
		t := uint32(int64(exp) + off)
		if t < base.Time() {
			continue
		}
		inWindow := off <= 0 && off >= -int64(c04eLife)
		cls := fmt.Sprintf("exp%+d", off)
		if off != -1801 && off != -1800 && off != -1799 && off != -1 && off != 0 && off != 1 && off != 2 {
			if off < 0 {
				cls = "inside"
			} else {
				cls = "late"
			}
		}
		b, _ := e.build(base, t, p.tx)
		if c04eContains(b, p.tx.Hash()) == 0 {
			c.Count("e:window:" + cls + ":miner-dropped")
			e.insert(b)
			continue
		}
		c.Count("e:window:" + cls + ":miner-included")
		verdict := e.insert(b)
		c.Count("e:window:" + cls + ":" + verdict)
		if verdict == "accept" {
			k := e.execs(b, p.rcpt, p.amount)
			if !inWindow {
				e.g.fail("c04/executed-outside-window", fmt.Sprintf("tx with expiration %d is accepted in a block stamped %d (exp%+d): executed %d time(s)", exp, t, off, k),
					e.witness(map[string]interface{}{"exp": exp, "blockTime": t, "off": off, "execs": k}))
			} else if k != 1 {
				c.Count(fmt.Sprintf("e:window:%s:execs-%d", cls, k))
			}
		} else if inWindow && verdict == "reject" {
			e.g.fail("c04/valid-tx-refused/window", fmt.Sprintf("tx with expiration %d is refused in a block stamped %d (exp%+d), inside its life time and on a branch that never had it", exp, t, off),
				e.witness(map[string]interface{}{"exp": exp, "blockTime": t, "off": off}))
		}
	}
}

// a box inside the window whose sub-tx is outside it (and the boundary cases that must pass)
func (e *c04eEnv) scWindowBox() {
	c, rnd := e.g.c, e.g.c.Rnd
	base := e.base()
	t := base.Time() + 1 + uint32(rnd.Intn(25))
	type tc struct {
		name           string
		boxExp, subExp uint64
		ok             bool
	}
	T := uint64(t)
	cases := []tc{
		{"sub-expired", T + uint64(rnd.Intn(100)), T - 1 - uint64(rnd.Intn(5)), false},
		{"sub-too-far", T + uint64(rnd.Intn(100)), T + uint64(c04eLife) + 1 + uint64(rnd.Intn(5)), false},
		{"box-expired", T - 1, T + uint64(rnd.Intn(100)), false},
		{"box-too-far", T + uint64(c04eLife) + 1, T + uint64(c04eLife) + 1, false},
		{"both-at-t", T, T, true},
		{"both-at-t+1800", T + uint64(c04eLife), T + uint64(c04eLife), true},
		{"box-at-t-sub-at-t+1800", T, T + uint64(c04eLife), true},
	}
	for _, k := range cases {
		p := e.pay(k.subExp)
		bx := e.box(e.otherUser(p.from), k.boxExp, p.tx)
		b, _ := e.build(base, t, bx)
		if c04eContains(b, p.tx.Hash()) == 0 {
			c.Count("e:window-box:" + k.name + ":miner-dropped")
			e.insert(b)
			continue
		}
		verdict := e.insert(b)
		c.Count("e:window-box:" + k.name + ":" + verdict)
		if verdict == "accept" && !k.ok {
			n := e.execs(b, p.rcpt, p.amount)
			e.g.fail("c04/executed-outside-window", fmt.Sprintf("box (exp %d) with sub-tx (exp %d) accepted in a block stamped %d [%s]: sub-tx executed %d time(s)", k.boxExp, k.subExp, t, k.name, n),
				e.witness(map[string]interface{}{"case": k.name, "boxExp": k.boxExp, "subExp": k.subExp, "blockTime": t, "execs": n}))
		}
		if verdict == "reject" && k.ok {
			e.g.fail("c04/valid-tx-refused/window", fmt.Sprintf("box (exp %d) with sub-tx (exp %d) refused in a block stamped %d [%s]", k.boxExp, k.subExp, t, k.name),
				e.witness(map[string]interface{}{"case": k.name, "boxExp": k.boxExp, "subExp": k.subExp, "blockTime": t}))
		}
	}
}

// ---- (g): forks ------------------------------------------------------------------------------

func (e *c04eEnv) scFork() {
	for _, shape := range []string{"tx-on-loser-then-winner-child", "tx-on-both", "tx-on-loser-only-then-after-switch"} {
		e.scForkShape(shape)
	}
}

func (e *c04eEnv) scForkShape(shape string) {
	c, rnd := e.g.c, e.g.c.Rnd
	base := e.base()
	g0 := base.Time()
	// deputies: slot d=1 for branch A, d=2 for branch B (different miners for the two children of base)
	tA1 := g0 + uint32(rnd.Intn(10))
	tB1 := g0 + 10 + uint32(rnd.Intn(10))
	exp := uint64(tB1) + 100 + uint64(rnd.Intn(1600))
	p := e.pay(exp)
	boxed := rnd.Intn(3) == 0 // on branch B the tx comes inside a box
	onB := p.tx
	if boxed {
		onB = e.box(e.otherUser(p.from), uint64(tB1)+100, p.tx)
	}
	a1 := e.mustInsert(base, tA1, p.tx)
	if e.n.BC.CurrentBlock().Hash() != a1.Hash() {
		panic("A1 is not the head")
	}
	tag := "e:fork:" + shape
	refused := func(b *types.Block, what string) {
		c.Count(tag + ":refused")
		e.g.fail("c04/fork-tx-refused", fmt.Sprintf("%s: tx %s executed only on branch A (block time %d) is refused on branch B in block height %d time %d (boxed=%v)", shape, p.tx.Hash().Hex()[:10], tA1, b.Height(), b.Time(), boxed),
			e.witness(map[string]interface{}{"shape": shape, "what": what, "tA1": tA1, "tB": b.Time(), "exp": exp, "boxed": boxed}))
	}
	var bHead *types.Block
	switch shape {
	case "tx-on-loser-then-winner-child":
		b1 := e.mustInsert(base, tB1)
		b2, _ := e.build(b1, tB1+uint32(rnd.Intn(20)), onB)
		if e.insert(b2) != "accept" {
			refused(b2, "B2")
			return
		}
		bHead = b2
	case "tx-on-both":
		b1, _ := e.build(base, tB1, onB)
		if e.insert(b1) != "accept" {
			refused(b1, "B1")
			return
		}
		bHead = e.mustInsert(b1, tB1+uint32(rnd.Intn(20)))
	case "tx-on-loser-only-then-after-switch":
		b1 := e.mustInsert(base, tB1)
		b2 := e.mustInsert(b1, tB1+uint32(rnd.Intn(20)))
		if e.n.BC.CurrentBlock().Hash() != b2.Hash() {
			c.Count(tag + ":no-switch")
		}
		b3, _ := e.build(b2, b2.Time()+uint32(rnd.Intn(20)), onB)
		if e.insert(b3) != "accept" {
			refused(b3, "B3")
			return
		}
		bHead = b3
	}
	if e.n.BC.CurrentBlock().Hash() != bHead.Hash() {
		c.Count(tag + ":head-not-on-B")
	} else {
		c.Count(tag + ":switched")
	}
	if k := e.execs(bHead, p.rcpt, p.amount); k != 1 {
		c.Count(fmt.Sprintf("%s:execs-on-B-%d", tag, k))
		if k > 1 {
			e.g.fail("c04/replayed/across-blocks/after-fork-switch", fmt.Sprintf("%s: recipient credited %d times on branch B", shape, k), e.witness(map[string]interface{}{"shape": shape}))
		}
	}
	// replays on the winner (standalone, and boxed by somebody else) and on the loser: all must be refused
	tr := bHead.Time() + uint32(rnd.Intn(20))
	for _, again := range []struct {
		name string
		tx   *types.Transaction
	}{{"standalone", p.tx}, {"boxed", e.box(e.otherUser(p.from), uint64(tr)+50, p.tx)}} {
		r, _ := e.build(bHead, tr, again.tx)
		if c04eContains(r, p.tx.Hash()) == 0 {
			c.Count(tag + ":replay-" + again.name + ":miner-dropped")
			continue
		}
		v := e.insert(r)
		c.Count(tag + ":replay-on-winner-" + again.name + ":" + v)
		if v == "accept" {
			k := e.execs(r, p.rcpt, p.amount)
			e.g.fail("c04/replayed/across-blocks/after-fork-switch", fmt.Sprintf("%s: after the switch to branch B (tx at height <= %d) a child of the new head at time %d with the tx again (%s) is accepted: credited %d x %s", shape, bHead.Height(), tr, again.name, k, p.amount),
				e.witness(map[string]interface{}{"shape": shape, "again": again.name, "tA1": tA1, "tB1": tB1, "tr": tr, "exp": exp, "execs": k, "boxed": boxed}))
			return
		}
	}
	ra, _ := e.build(a1, tA1+uint32(rnd.Intn(20)), p.tx)
	v := e.insert(ra)
	c.Count(tag + ":replay-on-loser:" + v)
	if v == "accept" {
		k := e.execs(ra, p.rcpt, p.amount)
		e.g.fail("c04/replayed/across-blocks/same-tx-child", fmt.Sprintf("%s: on the abandoned branch A the tx is accepted again in the child of A1: credited %d x %s", shape, k, p.amount),
			e.witness(map[string]interface{}{"shape": shape, "tA1": tA1, "exp": exp, "execs": k}))
	}
}

// ---- (h): pruning of the guard by the stable block ---------------------------------------------

func (e *c04eEnv) scPrune() {
	c, rnd := e.g.c, e.g.c.Rnd
	base := e.base()
	t1 := base.Time() + 1 + uint32(rnd.Intn(70))
	exp := uint64(t1) + uint64(rnd.Intn(int(c04eLife)+1))
	if rnd.Intn(3) == 0 {
		exp = uint64(t1 + c04eLife)
	}
	p := e.pay(exp)
	boxed := rnd.Intn(3) == 0
	first := p.tx
	if boxed {
		first = e.box(e.otherUser(p.from), uint64(t1)+uint64(rnd.Intn(int(exp-uint64(t1))+1)), p.tx)
	}
	p1 := e.mustInsert(base, t1, first)
	if rnd.Intn(2) == 0 {
		e.stabilise(p1)
	}
	// stable advances in 1..4 steps; after every step the tx is offered again
	total := c04eLife + 120 + uint32(rnd.Intn(400))
	steps := 1 + rnd.Intn(4)
	parent := p1
	tm := t1
	for s := 1; s <= steps; s++ {
		tm = t1 + total*uint32(s)/uint32(steps)
		parent = e.mustInsert(parent, tm)
		if rnd.Intn(4) != 0 || s == steps {
			e.stabilise(parent)
		}
		tr := tm + uint32(rnd.Intn(3))
		r, _ := e.build(parent, tr, p.tx)
		if c04eContains(r, p.tx.Hash()) == 0 {
			c.Count("e:prune:miner-dropped")
			continue
		}
		v := e.insert(r)
		cls := "pruned"
		if s < steps {
			cls = "partial"
		}
		if uint64(tr) <= exp {
			cls += "-unexpired"
		} else {
			cls += "-expired"
		}
		c.Count("e:prune:" + cls + ":" + v)
		if v == "accept" {
			k := e.execs(r, p.rcpt, p.amount)
			e.g.fail("c04/replayed/after-prune", fmt.Sprintf("tx (exp %d, boxed=%v) executed in block time %d; after the stable block advanced to time %d a block stamped %d with the tx again is accepted: credited %d x %s", exp, boxed, t1, e.n.BC.StableBlock().Time(), tr, k, p.amount),
				e.witness(map[string]interface{}{"t1": t1, "exp": exp, "stableTime": e.n.BC.StableBlock().Time(), "tr": tr, "execs": k, "boxed": boxed}))
			return
		}
	}
	// leave the rejected leaves behind: continue from the last good block
	e.stabilise(parent)
}

func (e *c04eEnv) scPruneBoundary() {
	rnd := e.g.c.Rnd
	ks := []uint32{0, 1, 59, 60, 61, uint32(rnd.Intn(130)), uint32(rnd.Intn(58)) + 2}
	e.scPruneBoundaryK(0, 59) // the tightest case: stable time = exp, the tx's block is the last second of its bucket
	e.scPruneBoundaryK(0, 0)
	e.scPruneBoundaryK(ks[rnd.Intn(len(ks))], rnd.Intn(3)*30-1)
}

// align: wanted t1 mod 60 (negative: leave t1 where it falls)
func (e *c04eEnv) scPruneBoundaryK(k uint32, align int) {
	c, rnd := e.g.c, e.g.c.Rnd
	base := e.base()
	t1 := base.Time() + 1 + uint32(rnd.Intn(70))
	if align >= 0 {
		t1 = (t1/60+1)*60 + uint32(align)
	}
	exp := uint64(t1 + c04eLife)
	p := e.pay(exp)
	p1 := e.mustInsert(base, t1, p.tx)
	via := rnd.Intn(3) // 0: S directly on P1; 1: an intermediate block; 2: P1 stable first
	parent := p1
	if via == 2 {
		e.stabilise(p1)
	}
	if via == 1 {
		parent = e.mustInsert(p1, t1+uint32(rnd.Intn(int(c04eLife))))
	}
	s := e.mustInsert(parent, t1+c04eLife+k)
	e.stabilise(s)
	onTop := s
	if rnd.Intn(3) == 0 {
		onTop = e.mustInsert(s, s.Time()) // an unstable block between the stable block and the replay
	}
	tr := onTop.Time()
	r, _ := e.build(onTop, tr, p.tx)
	if c04eContains(r, p.tx.Hash()) == 0 {
		c.Count("e:prune-boundary:miner-dropped")
		return
	}
	v := e.insert(r)
	cls := fmt.Sprintf("k=%d", k)
	if k > 61 {
		cls = "k>61"
	} else if k > 1 && k < 59 {
		cls = "k=2..58"
	}
	c.Count("e:prune-boundary:" + cls + ":" + v)
	if v == "accept" {
		n := e.execs(r, p.rcpt, p.amount)
		e.g.fail("c04/replayed/after-prune", fmt.Sprintf("boundary: tx exp %d = t1+1800 executed at t1=%d (t1 mod 60 = %d); stable block at t1+1800+%d; a block stamped %d with the tx again is accepted: credited %d x %s", exp, t1, t1%60, k, tr, n, p.amount),
			e.witness(map[string]interface{}{"t1": t1, "exp": exp, "k": k, "tr": tr, "via": via, "execs": n}))
	}
	e.stabilise(onTop)
}

// ---- (i): restart ----------------------------------------------------------------------------------

func (e *c04eEnv) scRestart() {
	rnd := e.g.c.Rnd
	e.scRestartDist(c04eLife)
	dist := uint32(rnd.Intn(int(c04eLife) + 1))
	if rnd.Intn(3) == 0 {
		dist = c04eLife - uint32(rnd.Intn(61))
	}
	e.scRestartDist(dist)
}

// dist: distance between the tx's block and the stable block the node restarts on
func (e *c04eEnv) scRestartDist(dist uint32) {
	c, rnd := e.g.c, e.g.c.Rnd
	base := e.base()
	t1 := base.Time() + 1 + uint32(rnd.Intn(70))
	exp := uint64(t1 + c04eLife - uint32(rnd.Intn(int(c04eLife-dist)+1))) // t1+dist <= exp <= t1+1800
	p := e.pay(exp)
	boxed := rnd.Intn(3) == 0
	first := p.tx
	if boxed {
		first = e.box(e.otherUser(p.from), uint64(t1)+uint64(rnd.Intn(int(exp-uint64(t1))+1)), p.tx)
	}
	p1 := e.mustInsert(base, t1, first)
	parent := p1
	mids := rnd.Intn(3)
	tm := t1
	for i := 0; i < mids; i++ {
		tm += uint32(rnd.Intn(int(t1+dist-tm) + 1))
		parent = e.mustInsert(parent, tm)
		if rnd.Intn(2) == 0 {
			e.stabilise(parent)
		}
	}
	s := parent
	if dist > 0 || mids == 0 && rnd.Intn(2) == 0 {
		s = e.mustInsert(parent, t1+dist)
	}
	e.stabilise(s)
	// an unstable block with another tx on top: it is gone after the restart
	q := e.pay(uint64(s.Time()) + 900)
	u := e.mustInsert(s, s.Time()+uint32(rnd.Intn(5)), q.tx)
	headBefore := e.n.BC.CurrentBlock().Hash()
	e.reopen()
	if e.n.BC.StableBlock().Hash() != s.Hash() {
		panic("stable block changed over the restart")
	}
	head := e.n.BC.CurrentBlock()
	if head.Hash() == headBefore {
		c.Count("e:restart:unstable-block-survived")
	} else {
		c.Count("e:restart:unstable-block-lost")
	}
	tr := s.Time() + uint32(rnd.Intn(int(exp-uint64(s.Time()))+1)) // s.time <= tr <= exp
	r, _ := e.build(s, tr, p.tx)
	if c04eContains(r, p.tx.Hash()) == 0 {
		c.Count("e:restart:miner-dropped")
	} else {
		v := e.insert(r)
		cls := fmt.Sprintf("dist<1800")
		if dist == c04eLife {
			cls = "dist=1800"
		}
		c.Count("e:restart:replay-" + cls + ":" + v)
		if v == "accept" {
			n := e.execs(r, p.rcpt, p.amount)
			e.g.fail("c04/replayed/after-restart", fmt.Sprintf("tx (exp %d, boxed=%v) executed in stable block time %d; node restarted on stable block time %d (%d s later); a block stamped %d with the tx again is accepted: credited %d x %s", exp, boxed, t1, s.Time(), s.Time()-t1, tr, n, p.amount),
				e.witness(map[string]interface{}{"t1": t1, "exp": exp, "stableTime": s.Time(), "tr": tr, "execs": n, "boxed": boxed}))
		}
	}
	// the tx of the lost unstable block may be executed (once) on the new branch
	if head.Hash() != u.Hash() {
		r2, _ := e.build(s, s.Time()+10+uint32(rnd.Intn(5)), q.tx)
		v := e.insert(r2)
		c.Count("e:restart:lost-tx-again:" + v)
		if v != "accept" {
			e.g.fail("c04/fork-tx-refused", fmt.Sprintf("after restart: tx executed only in an unstable block that did not survive the restart is refused on the stable block (time %d)", s.Time()),
				e.witness(map[string]interface{}{"stableTime": s.Time(), "what": "after-restart"}))
		} else if k := e.execs(r2, q.rcpt, q.amount); k != 1 {
			c.Count(fmt.Sprintf("e:restart:lost-tx-execs-%d", k))
		}
	}
}

// ---- (e): the real miner, pool fed by saveNewBlock with a side-branch block ---------------------------

func c04eMiner(g *c04eG, rep int) {
	c, rnd := g.c, g.c.Rnd
	now := uint32(time.Now().Unix())
	w := NewWorld(3, now-1500-uint32(rnd.Intn(100)), 10000)
	e := g.newEnv("miner", w)
	defer func() { e.n.Close() }()
	nb := w.NewNode(3) // a second honest node with the same history (not mirrored)
	defer nb.Close()
	both := func(b *types.Block) {
		deputynode.SetSelfNodeKey(g.observer)
		if err := nb.Insert(CloneBlock(b)); err != nil {
			panic(fmt.Sprintf("observer node refuses a block the mirrored node accepted: %v", err))
		}
	}
	e.run("miner", func() {
		gen := e.n.BC.CurrentBlock()
		tf := gen.Time() + 1
		var ftxs []*types.Transaction
		for i, u := range e.users {
			ftxs = append(ftxs, txTransfer(w.FounderKey, keyAddr(u), lemo(int64(1000000+i)), TxOpt{Exp: uint64(tf) + 600, Msg: g.msg()}))
		}
		f := e.mustInsert(gen, tf, ftxs...)
		both(f)
		e.stabilise(f)
		c04eConfirmOn(nb, g.observer, f, e.otherDeputy(f.MinerAddress()))

		tA1 := tf + uint32(rnd.Intn(10))
		tA2 := tA1 + uint32(rnd.Intn(10))
		tB1 := tf + 10 + uint32(rnd.Intn(10))
		exp := uint64(tA1+c04eLife) - uint64(rnd.Intn(30)) // still alive at the real `now` (about tf+1500..1600)
		p := e.pay(exp)
		shapes := []string{"standalone-on-side", "boxed-on-side", "boxed-on-main", "switch/standalone-on-both", "switch/boxed-on-new", "switch/boxed-on-old"}
		shape := shapes[rep%len(shapes)]
		switching := strings.HasPrefix(shape, "switch/")
		boxExp := uint64(tB1+c04eLife) - 50 - uint64(rnd.Intn(30))
		if boxExp > exp {
			boxExp = exp
		}
		onA, onB := p.tx, p.tx
		switch shape {
		case "boxed-on-side", "switch/boxed-on-new":
			onB = e.box(e.otherUser(p.from), boxExp, p.tx)
		case "boxed-on-main", "switch/boxed-on-old":
			onA = e.box(e.otherUser(p.from), boxExp, p.tx)
		}
		a1 := e.mustInsert(f, tA1, onA)
		both(a1)
		var head *types.Block
		if !switching {
			// the node stays on branch A = F-A1-A2; B1 arrives on the side
			head = e.mustInsert(a1, tA2)
			both(head)
		}
		b1, _ := e.build(f, tB1, onB)
		if e.insert(b1) != "accept" {
			c.Count("e:miner:" + shape + ":side-block-refused")
			e.g.fail("c04/fork-tx-refused", "side-branch block B1 (child of the fork point) with a tx that is only on branch A is refused", e.witness(map[string]interface{}{"shape": shape}))
			return
		}
		both(b1)
		if switching {
			// B grows longer: the node switches from F-A1 to F-B1-B2 (onCurrentChanged moves the old fork's txs to the pool)
			head = e.mustInsert(b1, tB1+uint32(rnd.Intn(10)))
			both(head)
		}
		if e.n.BC.CurrentBlock().Hash() != head.Hash() {
			panic("unexpected head before mining: " + shape)
		}
		inPool := false
		for _, tx := range e.n.Pool.GetTxs(uint32(time.Now().Unix()), 1000) {
			if tx.Hash() == p.tx.Hash() {
				inPool = true
			}
			for _, st := range c04eSubs(tx) {
				if st.Hash() == p.tx.Hash() {
					inPool = true
				}
			}
		}
		if inPool {
			c.Count("e:miner:" + shape + ":guarded-tx-pooled")
		} else {
			c.Count("e:miner:" + shape + ":guarded-tx-not-pooled")
		}
		stableBefore := e.n.BC.StableBlock().Hash()
		var m *types.Block
		var err error
		for try := 0; try < 3 && m == nil; try++ {
			m, err = e.n.MineReal(nil)
		}
		if m == nil {
			panic(fmt.Sprintf("MineReal: %v", err))
		}
		e.adopt(m, stableBefore)
		got := c04eContains(m, p.tx.Hash())
		k := e.execs(m, p.rcpt, p.amount)
		deputynode.SetSelfNodeKey(g.observer)
		peer := Safe(func() string {
			if err := nb.Insert(CloneBlock(m)); err != nil {
				return "reject"
			}
			return "accept"
		})
		if got == 0 {
			c.Count(fmt.Sprintf("e:miner:%s:mined-without-it(txs=%d):execs-%d:peer-%s", shape, len(m.Txs), k, peer))
			if peer != "accept" {
				e.g.fail("c04/honest-block-rejected", fmt.Sprintf("%s: the block mined by the real miner (height %d, %d txs, none of them on its branch already) is refused by a second honest node", shape, m.Height(), len(m.Txs)), e.witness(map[string]interface{}{"shape": shape}))
			}
			return
		}
		c.Count(fmt.Sprintf("e:miner:%s:mined-replay-execs-%d:peer-%s", shape, k, peer))
		how := "side-branch block B1 carrying it too was inserted and saveNewBlock pooled its txs"
		if switching {
			how = "the node switched from branch F-A1 to F-B1-B2 and onCurrentChanged pooled the old fork's txs"
		}
		e.g.fail("c04/miner-includes-guarded-tx", fmt.Sprintf("%s: tx %s is on the node's current branch (head height %d; A1 time %d, B1 time %d, both carry it); %s; the real miner (MineBlock on the head, stamp %d) packs it again into its own block height %d: recipient credited %d x %s at the new head; a second honest node with the same blocks answers %s to that block",
			shape, p.tx.Hash().Hex()[:10], head.Height(), tA1, tB1, how, m.Time(), m.Height(), k, p.amount, peer),
			e.witness(map[string]interface{}{"shape": shape, "tA1": tA1, "tA2": tA2, "tB1": tB1, "exp": exp, "minedAt": m.Time(), "execs": k, "peer": peer, "rep": rep}))
	})
}

// ---- random histories: the engine's verdict against an ancestor walk done by the harness -------------------

type c04eRB struct {
	b      *types.Block
	parent *c04eRB
	hashes map[common.Hash]bool // hashes of the txs and box sub-txs of the block
}

func c04eHashes(b *types.Block) map[common.Hash]bool {
	m := map[common.Hash]bool{}
	for _, tx := range b.Txs {
		m[tx.Hash()] = true
		for _, s := range c04eSubs(tx) {
			m[s.Hash()] = true
		}
	}
	return m
}

func (x *c04eRB) descendsFrom(a *c04eRB) bool {
	for y := x; y != nil; y = y.parent {
		if y == a {
			return true
		}
	}
	return false
}

func (e *c04eEnv) scRandom(steps int) {
	c, rnd := e.g.c, e.g.c.Rnd
	root := &c04eRB{b: e.base()}
	root.hashes = c04eHashes(root.b)
	nodes := map[common.Hash]*c04eRB{root.b.Hash(): root}
	live := []*c04eRB{root}
	stable := root
	var items []*types.Transaction // earlier standalone txs and boxes (pristine)
	pays := map[common.Hash]c04ePay{}
	relive := func(st *c04eRB) {
		stable = st
		var nl []*c04eRB
		for _, x := range live {
			if x.descendsFrom(st) {
				nl = append(nl, x)
			}
		}
		live = nl
	}
	for step := 0; step < steps; step++ {
		switch op := rnd.Intn(20); {
		case op < 3 && len(live) > 1:
			x := live[rnd.Intn(len(live))]
			if rnd.Intn(2) == 0 {
				x = live[len(live)-1-rnd.Intn(min(3, len(live)))]
			}
			if x == stable {
				continue
			}
			if e.stabilise(x.b) {
				if e.n.BC.StableBlock().Hash() != x.b.Hash() {
					panic("stable block is not the confirmed block")
				}
				relive(x)
				c.Count("e:random:stabilise")
			}
			continue
		case op == 3:
			e.reopen()
			st := nodes[e.n.BC.StableBlock().Hash()]
			if st == nil || st != stable {
				panic("restart: unexpected stable block")
			}
			if e.n.BC.CurrentBlock().Hash() == st.b.Hash() {
				live = []*c04eRB{st}
				c.Count("e:random:restart")
			} else {
				c.Count("e:random:restart-kept-unstable")
			}
			continue
		}
		// a new block on a live parent (mostly a recent one)
		par := live[rnd.Intn(len(live))]
		if rnd.Intn(3) != 0 {
			par = live[len(live)-1-rnd.Intn(min(3, len(live)))]
		}
		t := par.b.Time() + uint32(rnd.Intn(40))
		switch rnd.Intn(40) {
		case 0, 1:
			t += uint32(rnd.Intn(700))
		case 2:
			t += 1700 + uint32(rnd.Intn(200))
		}
		T := uint64(t)
		// an earlier item: mostly one that is still alive at t
		earlier := func() *types.Transaction {
			var alive []*types.Transaction
			for i := len(items) - 1; i >= 0 && len(alive) < 12; i-- {
				if x := items[i]; x.Expiration() >= T && x.Expiration() <= T+uint64(c04eLife) {
					alive = append(alive, x)
				}
			}
			if len(alive) > 0 && rnd.Intn(6) != 0 {
				return alive[rnd.Intn(len(alive))]
			}
			return items[len(items)-1-rnd.Intn(min(15, len(items)))]
		}
		freshExp := func() uint64 {
			switch rnd.Intn(6) {
			case 0:
				return T
			case 1:
				return T + uint64(c04eLife)
			}
			return T + uint64(rnd.Intn(int(c04eLife)+1))
		}
		var txs []*types.Transaction
		seen := map[common.Hash]bool{}
		add := func(tx *types.Transaction) bool {
			hs := []common.Hash{tx.Hash()}
			for _, s := range c04eSubs(tx) {
				hs = append(hs, s.Hash())
			}
			for i, h := range hs {
				if seen[h] {
					return false
				}
				for j := 0; j < i; j++ {
					if hs[j] == h {
						return false
					}
				}
			}
			for _, h := range hs {
				seen[h] = true
			}
			txs = append(txs, tx)
			return true
		}
		nItems := rnd.Intn(4)
		var fresh []*types.Transaction
		for i := 0; i < nItems; i++ {
			switch k := rnd.Intn(10); {
			case k < 4 || len(items) == 0: // fresh payment
				p := e.pay(freshExp())
				pays[p.tx.Hash()] = p
				if add(p.tx) {
					fresh = append(fresh, p.tx)
				}
			case k < 7: // an earlier item again, as it was
				add(earlier())
			default: // a new box around a fresh or an earlier payment
				var sub *types.Transaction
				if rnd.Intn(2) == 0 {
					p := e.pay(freshExp())
					pays[p.tx.Hash()] = p
					sub = p.tx
				} else {
					sub = earlier()
					if sub.Type() == params.BoxTx {
						sub = c04eSubs(sub)[0]
					}
				}
				if sub.Expiration() < T {
					// a box may not outlive its sub-tx: such a box is refused for a reason outside the model; offer the sub-tx alone
					add(sub)
					continue
				}
				hi := sub.Expiration()
				if hi > T+uint64(c04eLife) {
					hi = T + uint64(c04eLife)
				}
				bx := e.box(e.otherUser(pays[sub.Hash()].from), T+uint64(rnd.Intn(int(hi-T)+1)), sub)
				if add(bx) {
					fresh = append(fresh, bx)
				}
			}
		}
		b, _ := e.build(par.b, t, txs...)
		if _, dup := e.ids[b.Hash()]; dup {
			continue
		}
		hs := c04eHashes(b)
		// reference verdict
		onPath := false
		for a := par; a != nil && !onPath; a = a.parent {
			for h := range hs {
				if a.hashes[h] {
					onPath = true
					break
				}
			}
		}
		outside := false
		for _, tx := range b.Txs {
			for _, x := range append(types.Transactions{tx}, c04eSubs(tx)...) {
				if x.Expiration() < T || x.Expiration() > T+uint64(c04eLife) {
					outside = true
				}
			}
		}
		v := e.insert(b)
		cls := "fresh"
		if onPath && outside {
			cls = "replay+outside"
		} else if onPath {
			cls = "replay"
		} else if outside {
			cls = "outside"
		} else if len(b.Txs) == 0 {
			cls = "empty"
		} else {
			for h := range hs {
				for _, x := range nodes {
					if x.hashes[h] {
						cls = "tx-of-another-branch"
					}
				}
			}
		}
		c.Count("e:random:" + cls + ":" + v)
		want := "accept"
		if onPath || outside {
			want = "reject"
		}
		if v != want && v != "panic" {
			sig := "c04/valid-tx-refused/random-history"
			if v == "accept" {
				sig = "c04/replayed/across-blocks/random-history"
				if !onPath {
					sig = "c04/executed-outside-window"
				}
			}
			e.g.fail(sig, fmt.Sprintf("random history step %d: block height %d time %d on parent height %d (%d txs; tx on ancestor path=%v, tx outside its window=%v) gets %s", step, b.Height(), t, par.b.Height(), len(b.Txs), onPath, outside, v),
				e.witness(map[string]interface{}{"step": step, "blockId": e.id(b.Hash()), "onPath": onPath, "outside": outside}))
		}
		if v != "accept" {
			continue
		}
		x := &c04eRB{b: b, parent: par, hashes: hs}
		nodes[b.Hash()] = x
		live = append(live, x)
		items = append(items, fresh...)
		// direct oracle: nothing in the block has been credited more than once along this branch
		for h := range hs {
			if p, ok := pays[h]; ok {
				if k := e.execs(b, p.rcpt, p.amount); k != 1 {
					c.Count(fmt.Sprintf("e:random:execs-%d", k))
					if k > 1 {
						e.g.fail("c04/replayed/across-blocks/random-history", fmt.Sprintf("random history step %d: tx %s credited %d x %s in the view of block height %d", step, h.Hex()[:10], k, p.amount, b.Height()),
							e.witness(map[string]interface{}{"step": step, "blockId": e.id(b.Hash()), "execs": k}))
					}
				} else {
					c.Count("e:random:execs-1")
				}
			}
		}
	}
}

// ---- the entry points that consult the guard before pooling: PublicTxAPI.SendTx and handleTxsMsg ------------------

type c04eConn struct{ id p2p.NodeID }

func (c *c04eConn) ReadMsg() (*p2p.Msg, error)                       { select {} }
func (c *c04eConn) WriteMsg(code p2p.MsgCode, msg []byte) error      { return nil }
func (c *c04eConn) SetWriteDeadline(time.Duration)                   {}
func (c *c04eConn) RNodeID() *p2p.NodeID                             { return &c.id }
func (c *c04eConn) RAddress() string                                 { return "10.0.0.1:7001" }
func (c *c04eConn) LAddress() string                                 { return "10.0.0.2:7001" }
func (c *c04eConn) DoHandshake(*ecdsa.PrivateKey, *p2p.NodeID) error { return nil }
func (c *c04eConn) Run() error                                       { return nil }
func (c *c04eConn) NeedReConnect() bool                              { return false }
func (c *c04eConn) SetStatus(int32)                                  {}
func (c *c04eConn) Close()                                           {}

func (e *c04eEnv) inPool(h common.Hash) bool {
	for _, tx := range e.n.Pool.GetTxs(0, 100000) {
		if tx.Hash() == h {
			return true
		}
	}
	return false
}

func (e *c04eEnv) clearPool() { e.n.Pool.DelTxs(e.n.Pool.GetTxs(0, 100000)) }

// existOp asks the real guard the question both entry points ask (safely) and mirrors it for the model.
func (e *c04eEnv) existOp(tx *types.Transaction) string {
	head := e.n.BC.CurrentBlock()
	res, msg := SafeMsg(func() string {
		return fmt.Sprint(e.n.BC.TxGuard().ExistTx(head.Hash(), c04eWire(tx)))
	})
	e.g.c.Op(fmt.Sprintf("exist %d %s", e.id(head.Hash()), e.g.tok(tx)), res)
	if res == "panic" {
		e.g.fail("c04/engine-panic/exist-tx-on-head", fmt.Sprintf("[%s] TxGuard.ExistTx(CurrentBlock().Hash(), tx) panics (head height %d time %d, stable height %d): %s; SendTx and handleTxsMsg make exactly this call", e.name, head.Height(), head.Time(), e.n.BC.StableBlock().Height(), msg),
			e.witness(map[string]interface{}{"headId": e.id(head.Hash())}))
	}
	return res
}

// entry drives both real entry points with tx. onBranch: the tx (or one of its sub-txs, or the box around it) is on the
// node's current branch, so it must not get into the pool.
func (e *c04eEnv) entry(state, label string, tx *types.Transaction, onBranch bool) {
	c := e.g.c
	tag := "e:api:" + state + ":" + label
	wit := func(path string) map[string]interface{} {
		return e.witness(map[string]interface{}{"state": state, "tx": label, "path": path, "onBranch": onBranch, "headHeight": e.n.BC.CurrentBlock().Height(), "stableHeight": e.n.BC.StableBlock().Height()})
	}
	judge := func(path string, pooled bool, note string) {
		switch {
		case onBranch && pooled:
			c.Count(tag + ":" + path + ":POOLED-THOUGH-ON-BRANCH")
			e.g.fail("c04/pooled-guarded-tx/"+path, fmt.Sprintf("state %s: tx %s is on the node's current branch, yet %s put it into the pool%s", state, label, path, note), wit(path))
		case !onBranch && !pooled:
			c.Count(tag + ":" + path + ":NOT-POOLED")
			e.g.fail("c04/valid-tx-not-pooled/"+path, fmt.Sprintf("state %s: tx %s is valid now and not on the node's current branch, yet %s did not pool it%s", state, label, path, note), wit(path))
		case pooled:
			c.Count(tag + ":" + path + ":pooled")
		default:
			c.Count(tag + ":" + path + ":kept-out")
		}
	}
	// ---- RPC
	e.clearPool()
	if ex := e.existOp(tx); ex == "panic" {
		return
	} else if ex != fmt.Sprint(onBranch) {
		c.Count(tag + ":guard-answers-" + ex)
	}
	api := node.VerifTxAPI(nodeChainID, e.n.BC, e.n.Pool)
	res, msg := SafeMsg(func() string {
		if _, err := api.SendTx(c04eWire(tx)); err != nil {
			return "err " + err.Error()
		}
		return "ok"
	})
	if res == "panic" {
		e.g.fail("c04/engine-panic/send-tx", fmt.Sprintf("state %s tx %s: SendTx panics: %s", state, label, msg), wit("send-tx"))
	} else {
		note := ""
		if res != "ok" {
			note = " (SendTx answered: " + res + ")"
		}
		judge("send-tx", e.inPool(tx.Hash()), note)
	}
	// ---- network: the tx and a fresh marker tx in one TxsMsg (one goroutine per tx; the marker tells that they ran)
	e.clearPool()
	if e.existOp(tx) == "panic" {
		return
	}
	marker := e.pay(uint64(time.Now().Unix()) + 900).tx
	buf, err := rlp.EncodeToBytes(types.Transactions{c04eWire(tx), marker})
	if err != nil {
		panic(err)
	}
	pm := network.NewProtocolManager(nodeChainID, p2p.NodeID{}, e.n.BC, e.n.DM, e.n.Pool, e.n.BC.TxGuard(), p2p.NewDiscoverManager(""), 1, params.VersionUint(), "")
	vp := network.VerifNewPeer(&c04eConn{})
	herr := pm.VerifWork(&p2p.Msg{Code: p2p.TxsMsg, Content: buf}, vp)
	deadline := time.Now().Add(300 * time.Millisecond)
	for !e.inPool(marker.Hash()) && time.Now().Before(deadline) {
		time.Sleep(2 * time.Millisecond)
	}
	markerIn := e.inPool(marker.Hash())
	time.Sleep(5 * time.Millisecond)
	pooled := e.inPool(tx.Hash())
	pm.Stop()
	if herr != nil || !markerIn {
		c.Count(tag + ":txs-msg:marker-not-pooled")
		e.g.fail("c04/valid-tx-not-pooled/txs-msg", fmt.Sprintf("state %s: a fresh valid tx sent in a TxsMsg is not in the pool after 300 ms (handler error: %v)", state, herr), wit("txs-msg"))
	}
	judge("txs-msg", pooled, "")
	e.clearPool()
}

func c04eAPI(g *c04eG, pass int) {
	c, rnd := g.c, g.c.Rnd
	now := uint32(time.Now().Unix())
	w := NewWorld(3, now-1450-uint32(rnd.Intn(50)), 10000)
	e := g.newEnv("api", w)
	defer func() { e.n.Close() }()
	e.run("api", func() {
		exp := func() uint64 { return uint64(time.Now().Unix()) + 60 + uint64(rnd.Intn(200)) }
		fresh := func(state string) { e.entry(state, "fresh", e.pay(exp()).tx, false) }
		// head == stable == genesis
		fresh("genesis")
		e.fund()
		f := e.n.BC.CurrentBlock()
		fresh("stable-head")
		tf := f.Time()
		t1, t2, t3, t4 := e.pay(exp()), e.pay(exp()), e.pay(exp()), e.pay(exp())
		box2 := e.box(e.otherUser(t2.from), t2.tx.Expiration()-uint64(rnd.Intn(20)), t2.tx)
		box4 := e.box(e.otherUser(t4.from), t4.tx.Expiration()-uint64(rnd.Intn(20)), t4.tx)
		// branch A = F-A1: T1 standalone, T2 inside a box
		a1 := e.mustInsert(f, tf+1+uint32(rnd.Intn(9)), t1.tx, box2)
		around1 := e.box(e.otherUser(t1.from), t1.tx.Expiration()-uint64(rnd.Intn(20)), t1.tx) // a box nobody has seen, around the on-branch T1
		e.entry("on-branch", "standalone-on-branch", t1.tx, true)
		e.entry("on-branch", "sub-of-box-on-branch", t2.tx, true)
		e.entry("on-branch", "box-on-branch", box2, true)
		e.entry("on-branch", "new-box-around-tx-on-branch", around1, true)
		fresh("on-branch")
		// side branch B1 = child of F: T3 standalone, T4 inside a box; the head stays A1
		b1 := e.mustInsert(f, tf+11+uint32(rnd.Intn(9)), t3.tx, box4)
		if e.n.BC.CurrentBlock().Hash() != a1.Hash() {
			panic("head left A1")
		}
		if e.inPool(t3.tx.Hash()) {
			c.Count("e:api:side-block-txs-pooled-by-engine")
		}
		e.entry("side-fork", "standalone-on-side-fork-only", t3.tx, false)
		e.entry("side-fork", "sub-of-box-on-side-fork-only", t4.tx, false)
		e.entry("side-fork", "box-on-side-fork-only", box4, false)
		e.entry("side-fork", "standalone-on-branch", t1.tx, true)
		fresh("side-fork")
		// B grows: fork switch
		b2 := e.mustInsert(b1, b1.Time()+uint32(rnd.Intn(9)))
		if e.n.BC.CurrentBlock().Hash() != b2.Hash() {
			panic("no fork switch")
		}
		e.entry("after-switch", "standalone-on-new-branch", t3.tx, true)
		e.entry("after-switch", "sub-of-box-on-new-branch", t4.tx, true)
		e.entry("after-switch", "standalone-on-abandoned-branch-only", t1.tx, false)
		e.entry("after-switch", "box-on-abandoned-branch-only", box2, false)
		e.entry("after-switch", "new-box-around-tx-on-abandoned-branch", around1, false)
		fresh("after-switch")
		// the new branch becomes stable (the old one is pruned from the store, not from the guard)
		e.stabilise(b2)
		e.entry("after-stable", "standalone-on-branch", t3.tx, true)
		e.entry("after-stable", "standalone-on-pruned-branch-only", t1.tx, false)
		fresh("after-stable")
		// an unstable block on top, then restart: it is lost, the guard is rebuilt from the stable chain
		t5 := e.pay(exp())
		e.mustInsert(b2, b2.Time()+uint32(rnd.Intn(9)), t5.tx)
		e.entry("unstable-on-top", "standalone-in-unstable-head", t5.tx, true)
		e.reopen()
		lost := e.n.BC.CurrentBlock().Hash() == b2.Hash()
		e.entry("after-reopen", "standalone-on-stable-chain", t3.tx, true)
		e.entry("after-reopen", "sub-of-box-on-stable-chain", t4.tx, true)
		e.entry("after-reopen", "standalone-on-pruned-branch-only", t1.tx, false)
		e.entry("after-reopen", "standalone-in-lost-unstable-block", t5.tx, !lost)
		fresh("after-reopen")
		_ = pass
	})
}

// ---- fork switches: onCurrentChanged -> GetTxsByBranch -> pool ----------------------------------------------------------

func (e *c04eEnv) scForkSwitch(shape string) {
	c, rnd := e.g.c, e.g.c.Rnd
	base := e.base()
	if strings.HasPrefix(shape, "after-reopen") {
		e.reopen()
	}
	gap := uint32(rnd.Intn(10))
	if strings.HasPrefix(shape, "old-ancestor") {
		gap = c04eLife + 100 + uint32(rnd.Intn(300)) // the common ancestor is more than a life time older than both tips
	}
	byConfirm := strings.HasSuffix(shape, "by-confirm")
	tA1 := base.Time() + gap + uint32(rnd.Intn(10))
	tB1 := tA1 + 10 + uint32(rnd.Intn(10))
	ta := e.pay(uint64(tB1) + 100 + uint64(rnd.Intn(1000)))
	tb := e.pay(uint64(tB1) + 100 + uint64(rnd.Intn(1000)))
	both := e.pay(uint64(tB1) + 100 + uint64(rnd.Intn(1000))) // on both branches
	e.clearPool()
	a1 := e.mustInsert(base, tA1, ta.tx, both.tx)
	oldHead := a1
	if byConfirm {
		oldHead = e.mustInsert(a1, tA1+uint32(rnd.Intn(5)))
	}
	b1 := e.mustInsert(base, tB1, tb.tx, both.tx)
	if e.n.BC.CurrentBlock().Hash() != oldHead.Hash() {
		panic("the side block moved the head")
	}
	sidePooled := e.inPool(tb.tx.Hash())
	newHead := b1
	if byConfirm {
		// a block of the OTHER branch becomes stable: the current branch is cut (UpdateForkForConfirm)
		if !e.stabilise(b1) {
			panic("B1 did not become stable")
		}
	} else {
		newHead = e.mustInsert(b1, tB1+uint32(rnd.Intn(5)))
	}
	if e.n.BC.CurrentBlock().Hash() != newHead.Hash() {
		c.Count("e:forkswitch:" + shape + ":no-switch")
		return
	}
	hasA, hasB, hasBoth := e.inPool(ta.tx.Hash()), e.inPool(tb.tx.Hash()), e.inPool(both.tx.Hash())
	if hasA && !hasB && !hasBoth {
		c.Count("e:forkswitch:" + shape + ":pool-ok")
	} else {
		c.Count(fmt.Sprintf("e:forkswitch:%s:pool-WRONG(old-only=%v new-only=%v both=%v)", shape, hasA, hasB, hasBoth))
		e.g.fail("c04/fork-switch-pool-not-updated", fmt.Sprintf("%s: after the switch from the branch of A1 (time %d) to the branch of B1 (time %d; common ancestor time %d, stable time %d) the pool holds: old-branch-only tx %v (want true), new-branch-only tx %v (want false; it was pooled by the side block: %v), tx on both %v (want false)",
			shape, tA1, tB1, base.Time(), e.n.BC.StableBlock().Time(), hasA, hasB, sidePooled, hasBoth),
			e.witness(map[string]interface{}{"shape": shape, "tA1": tA1, "tB1": tB1, "baseTime": base.Time()}))
	}
	e.clearPool()
}

// ---- the real miner and a pooled tx whose expiration is 1801 s after the stamp ------------------------------------------

// c04eTooFar returns true when the timing worked out (whatever the engine did), false when the attempt has to be repeated.
func c04eTooFar(g *c04eG, try int) (done bool) {
	c, rnd := g.c, g.c.Rnd
	now := uint32(time.Now().Unix())
	w := NewWorld(3, now-300-uint32(rnd.Intn(50)), 10000)
	e := g.newEnv("toofar", w)
	e.nearNow = true
	defer func() { e.n.Close() }()
	nb := w.NewNode(3)
	defer nb.Close()
	both := func(b *types.Block) bool {
		deputynode.SetSelfNodeKey(g.observer)
		return nb.Insert(CloneBlock(b)) == nil
	}
	e.run("miner-too-far", func() {
		e.fund()
		f := e.n.BC.CurrentBlock()
		both(f)
		c04eConfirmOn(nb, g.observer, f, e.otherDeputy(f.MinerAddress()))
		a1 := e.mustInsert(f, f.Time()+1+uint32(rnd.Intn(9)))
		both(a1)
		a2 := e.mustInsert(a1, a1.Time()+uint32(rnd.Intn(9)))
		both(a2)
		// start right after a tick of the clock, so that insert + mine fit into one second
		for time.Now().Nanosecond() > 150*1000*1000 {
			time.Sleep(3 * time.Millisecond)
		}
		tB1 := uint32(time.Now().Unix()) + 1
		p := e.pay(uint64(tB1) + uint64(c04eLife))
		b1, _ := e.build(f, tB1, p.tx)
		if v := e.insert(b1); v != "accept" {
			c.Count("e:miner-too-far:side-block-stamped-now+1-" + v)
			return
		}
		peerHasB1 := both(b1)
		if !e.inPool(p.tx.Hash()) {
			c.Count("e:miner-too-far:not-pooled")
			done = true
			return
		}
		stableBefore := e.n.BC.StableBlock().Hash()
		m, err := e.n.MineReal(nil)
		if m == nil {
			c.Count("e:miner-too-far:mine-failed")
			_ = err
			return
		}
		e.adopt(m, stableBefore)
		if m.Time() >= tB1 {
			c.Count("e:miner-too-far:timing-missed")
			return
		}
		done = true
		got := c04eContains(m, p.tx.Hash())
		deputynode.SetSelfNodeKey(g.observer)
		peer := Safe(func() string {
			if err := nb.Insert(CloneBlock(m)); err != nil {
				return "reject"
			}
			return "accept"
		})
		if got == 0 {
			c.Count("e:miner-too-far:mined-without-it:peer-" + peer)
			return
		}
		k := e.execs(m, p.rcpt, p.amount)
		c.Count(fmt.Sprintf("e:miner-too-far:mined-with-it:execs-%d:peer-%s", k, peer))
		if peer != "accept" || uint64(m.Time())+uint64(c04eLife) < p.tx.Expiration() {
			e.g.fail("c04/miner-packs-too-far-tx", fmt.Sprintf("side-branch block B1 stamped %d (= clock + 1, accepted) carries tx %s with expiration %d = B1.time + 1800; it is not on the current branch, so it is pooled; the real miner (MineBlock on the head, stamp %d) packs it although expiration - stamp = %d > 1800 (pool.GetTxs only drops expired txs, MineBlock does not run verifyTxs on its own block): executed %d time(s) on the miner's chain; a second honest node (it has B1: %v) answers %s to that block",
				tB1, p.tx.Hash().Hex()[:10], p.tx.Expiration(), m.Time(), p.tx.Expiration()-uint64(m.Time()), k, peerHasB1, peer),
				e.witness(map[string]interface{}{"tB1": tB1, "exp": p.tx.Expiration(), "minedAt": m.Time(), "execs": k, "peer": peer, "try": try}))
		}
	})
	return done
}

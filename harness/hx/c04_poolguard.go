package main

// c04_poolguard.go — part (iii) of `hx c04`: the COMBINED machine pool × guard of lean/LemoModel/PoolGuard.lean
// (theorems LemoProofs/C04Pool.lean) against the REAL engine: a full node (node.go: store + deputynode.Manager +
// txpool.TxPool + chain.BlockChain with its DPoVP and TxGuard) driven through its real entry points
//
//	PublicTxAPI.SendTx                      `pg recv now tok`            (VerifyTxBody, ExistTx(head), AddTx)
//	the two halves of SendTx/handleTxsMsg   `pg ask now tok` / `pg add tok`  (they hold no lock in between: the harness
//	                                         makes the same two calls — Transaction.VerifyTxBody + TxGuard.ExistTx, later
//	                                         TxPool.AddTx — around other engine events; a deterministic interleaving)
//	TxPool.GetTxs (= RPC GetPendingTx)      `pg pending now size`
//	BlockChain.InsertBlock                  `pg insert id parent height time stab newHead tok*`
//	BlockChain.InsertConfirms               `pg confirm stableId newHead`
//	BlockChain.MineBlock (the REAL miner)   `pg mine id now stab invalidIds`
//
// After EVERY op both sides print: head, stable, the pool's slots (verif hook TxPool.VerifState), what an unbounded
// non-expiring GetTxs hands out and, for each handed-out tx, the guard's answer ExistTx(head, tx); `insert` adds the
// engine's verdict, `mine` the stamp, the packed tx ids and the verdict of a SECOND honest node on the mined block.
//
// Inputs on the op lines are the harness's own: block/tx ids by construction, tokens from the lists the txs were built
// from, the new head PREDICTED by the harness's own fork-choice computation on its own block tree (the engine's head is
// only printed on the implementation side of the dump, so a wrong prediction or a wrong engine is a difference), the
// invalid candidates by construction (unfunded senders). Read back from the engine: the mined block's stamp when the
// wall clock ticked during MineBlock (checked against the bracket, counted `pg:fed:mine-stamp`).
//
// Direct oracles (independent of the model; the branch membership is an ancestor walk over the harness's own tree):
//
//	c04/miner-includes-guarded-tx/<class>   the real miner packed a tx / sub-tx hash that is on its own branch already
//	                                        (class entry-race: it got into the pool by a late AddTx; other classes by name)
//	c04/miner-includes-guarded-tx/box-repeats-sub   … or a hash twice inside the block (a box naming a sub-tx twice)
//	c04/miner-block-refused-by-peer         a second honest node with the same blocks refuses the mined block
//	c04/pool-guard/head-prediction          the engine's head is not the one the harness's fork-choice computation predicts
import (
	"bytes"
	"crypto/ecdsa"
	"fmt"
	"sort"
	"strings"
	"time"

	"github.com/LemoFoundationLtd/lemochain-core/chain/deputynode"
	"github.com/LemoFoundationLtd/lemochain-core/chain/txpool"
	"github.com/LemoFoundationLtd/lemochain-core/chain/types"
	"github.com/LemoFoundationLtd/lemochain-core/common"
	"github.com/LemoFoundationLtd/lemochain-core/main/node"
)

func init() { subs["c04pg"] = c04PoolGuard }

type pgBlk struct {
	b      *types.Block
	id     int
	parent *pgBlk
	hashes map[common.Hash]bool // own and sub-tx hashes of the block's txs
}

type pgTx struct {
	tx      *types.Transaction
	id      int
	subs    []*pgTx
	invalid bool   // the sender has no funds: the assembler returns it as invalid
	late    bool   // entered the pool through a late `add` (asked before a head change)
	class   string // why a miner packing it would be wrong (set by the witness scenarios)
}

type pgG struct {
	c        *Ctx
	nextBlk  int
	nextTx   int
	nmsg     int
	nSig     map[string]int
	observer *ecdsa.PrivateKey
}

type pgEnv struct {
	g       *pgG
	w       *World
	n, nb   *Node
	users   []*ecdsa.PrivateKey
	poor    *ecdsa.PrivateKey
	blocks  map[common.Hash]*pgBlk
	byID    map[int]*pgBlk
	txs     map[common.Hash]*pgTx // every tx / sub-tx the harness built
	head    *pgBlk                // the harness's own idea of the head (fork-choice prediction)
	stable  *pgBlk
	asked   []*pgTx
	name    string
	hist    []string
	allTx   []*pgTx // standalone-capable txs (not boxes), for re-use
	allBox  []*pgTx
	deputys int
}

type pgAbort struct{ why string }

func (g *pgG) fail(sig, detail string, replay interface{}) {
	g.nSig[sig]++
	if g.nSig[sig] > 3 {
		g.c.Count("pg:more-reports-suppressed:" + sig)
		return
	}
	g.c.Fail(sig, detail, replay)
}

func (e *pgEnv) note(format string, a ...interface{}) {
	e.hist = append(e.hist, fmt.Sprintf(format, a...))
	if len(e.hist) > 80 {
		e.hist = e.hist[len(e.hist)-80:]
	}
}

func (e *pgEnv) witness(extra map[string]interface{}) map[string]interface{} {
	m := map[string]interface{}{"seed": e.g.c.Seed, "family": "poolguard:" + e.name, "history": append([]string{}, e.hist...)}
	for k, v := range extra {
		m[k] = v
	}
	return m
}

func (e *pgEnv) msg() string { e.g.nmsg++; return fmt.Sprintf("pg-%d-%d", e.g.c.Seed, e.g.nmsg) }

// ---- transactions ----------------------------------------------------------------------------------

func (e *pgEnv) reg(tx *types.Transaction, subs []*pgTx) *pgTx {
	if t, ok := e.txs[tx.Hash()]; ok {
		return t
	}
	e.g.nextTx++
	t := &pgTx{tx: tx, id: e.g.nextTx, subs: subs}
	e.txs[tx.Hash()] = t
	return t
}

func (e *pgEnv) pay(from *ecdsa.PrivateKey, exp uint64) *pgTx {
	rc := keyAddr(detKey(fmt.Sprintf("pg-rcpt-%d-%d", e.g.c.Seed, e.g.nmsg)))
	t := e.reg(txTransfer(from, rc, lemo(int64(1+e.g.c.Rnd.Intn(9))), TxOpt{Exp: exp, Msg: e.msg()}), nil)
	e.allTx = append(e.allTx, t)
	return t
}

func (e *pgEnv) box(by *ecdsa.PrivateKey, exp uint64, subs ...*pgTx) *pgTx {
	var cp types.Transactions
	for _, s := range subs {
		cp = append(cp, c04eWire(s.tx))
	}
	t := e.reg(txBox(by, cp, TxOpt{Exp: exp, Msg: e.msg()}), subs)
	// the sub-tx list is the one the box was built from; what GetBox decodes is only cross-checked
	dec := c04eSubs(t.tx)
	same := len(dec) == len(subs)
	for i := 0; same && i < len(dec); i++ {
		same = dec[i].Hash() == subs[i].tx.Hash()
	}
	if !same {
		e.g.fail("c04/fed-fact/box-subs", fmt.Sprintf("box built from %d sub-txs decodes to %d (or other ones)", len(subs), len(dec)), nil)
	}
	e.allBox = append(e.allBox, t)
	return t
}

func (t *pgTx) tok() string {
	s := fmt.Sprintf("%d:%d:%d", t.id, t.id, t.tx.Expiration())
	for _, st := range t.subs {
		s += fmt.Sprintf("/%d:%d:%d", st.id, st.id, st.tx.Expiration())
	}
	return s
}

func (t *pgTx) hashes() []common.Hash {
	hs := []common.Hash{t.tx.Hash()}
	for _, s := range t.subs {
		hs = append(hs, s.tx.Hash())
	}
	return hs
}

// onBranch: does an ancestor-or-self of b (harness tree) hold one of the tx's hashes?
func (e *pgEnv) onBranch(b *pgBlk, t *pgTx) bool {
	for x := b; x != nil; x = x.parent {
		for _, h := range t.hashes() {
			if x.hashes[h] {
				return true
			}
		}
	}
	return false
}

func (x *pgBlk) descendsFrom(a *pgBlk) bool {
	for y := x; y != nil; y = y.parent {
		if y == a {
			return true
		}
	}
	return false
}

// ---- the dump both sides print -----------------------------------------------------------------------

func pgIDs(l []int) string {
	if len(l) == 0 {
		return "-"
	}
	ss := make([]string, len(l))
	for i, v := range l {
		ss[i] = fmt.Sprint(v)
	}
	return strings.Join(ss, ",")
}

func (e *pgEnv) txID(h common.Hash) int {
	if t, ok := e.txs[h]; ok {
		return t.id
	}
	e.g.fail("c04/fed-fact/unknown-tx", "the engine holds a tx hash the harness never built: "+h.Hex()[:10], e.witness(nil))
	return -1
}

func (e *pgEnv) blkID(h common.Hash) int {
	if b, ok := e.blocks[h]; ok {
		return b.id
	}
	return -1
}

func (e *pgEnv) dump() string {
	return Safe(func() string {
		slots, _, _ := e.n.Pool.VerifState()
		var sl []string
		for _, tx := range slots {
			if tx == nil {
				sl = append(sl, "_")
			} else {
				sl = append(sl, fmt.Sprint(e.txID(tx.Hash())))
			}
		}
		ss := "-"
		if len(sl) > 0 {
			ss = strings.Join(sl, ",")
		}
		head := e.n.BC.CurrentBlock()
		out := e.n.Pool.GetTxs(0, len(slots)+1)
		var ids []int
		var ob []string
		for _, tx := range out {
			id := e.txID(tx.Hash())
			ids = append(ids, id)
			bit := "0"
			if e.n.BC.TxGuard().ExistTx(head.Hash(), tx) {
				bit = "1"
			}
			ob = append(ob, fmt.Sprintf("%d:%s", id, bit))
		}
		obs := "-"
		if len(ob) > 0 {
			obs = strings.Join(ob, ",")
		}
		return fmt.Sprintf("head=%d stable=%d slots=%s out=%s onbranch=%s", e.blkID(head.Hash()), e.blkID(e.n.BC.StableBlock().Hash()), ss, pgIDs(ids), obs)
	})
}

func (e *pgEnv) op(line, res string) {
	d := e.dump()
	if d == "panic" {
		e.g.c.Op(line, "panic")
		return
	}
	e.g.c.Op(line, res+" ; "+d)
	e.note("%s => %s ; %s", line, res, d)
	// the engine's head against the harness's prediction (the op line carries the prediction)
	if h := e.n.BC.CurrentBlock().Hash(); h != e.head.b.Hash() {
		e.g.c.Count("pg:HEAD-PREDICTION-WRONG")
		e.g.fail("c04/pool-guard/head-prediction", fmt.Sprintf("after `%s` the engine's head is block %d, the harness's fork-choice computation says %d", line, e.blkID(h), e.head.id), e.witness(nil))
		panic(pgAbort{"head prediction"})
	}
	if h := e.n.BC.StableBlock().Hash(); h != e.stable.b.Hash() {
		e.g.fail("c04/pool-guard/head-prediction", fmt.Sprintf("after `%s` the engine's stable block is %d, the harness expects %d", line, e.blkID(h), e.stable.id), e.witness(nil))
		panic(pgAbort{"stable prediction"})
	}
}

// ---- fork choice, recomputed by the harness (ForkManager.UpdateFork / UpdateForkForConfirm as specified) -------------

// chooseNewFork: the highest unconfirmed block (a proper descendant of the stable block), the smaller hash on a tie; the
// stable block when there is none.
func (e *pgEnv) chooseNewFork(stable *pgBlk) *pgBlk {
	max := stable
	var all []*pgBlk
	for _, b := range e.blocks {
		all = append(all, b)
	}
	sort.Slice(all, func(i, j int) bool { return all[i].id < all[j].id })
	for _, b := range all {
		if b == stable || !b.descendsFrom(stable) {
			continue
		}
		if b.b.Height() > max.b.Height() {
			max = b
		} else if b.b.Height() == max.b.Height() && max != stable {
			bh, mh := b.b.Hash(), max.b.Hash()
			if bytes.Compare(bh[:], mh[:]) < 0 {
				max = b
			}
		}
	}
	return max
}

func (e *pgEnv) twoThird() uint32 {
	// deputynode.Manager.TwoThirdDeputyCount: ceil(n*2/3)
	return uint32((e.deputys*2 + 2) / 3)
}

// predictAfterInsert: the head after an accepted block nb (stable block unchanged by an insert in these worlds unless
// `stab`).
func (e *pgEnv) predictAfterInsert(nb *pgBlk, stab bool) *pgBlk {
	old := e.head
	stable := e.stable
	if stab {
		stable = nb
	}
	if !old.descendsFrom(stable) {
		return e.chooseNewFork(stable)
	}
	if nb.parent == old {
		return nb
	}
	cand := e.chooseNewFork(stable)
	if cand.b.Height() > old.b.Height() && (cand.b.Height()-stable.b.Height())%e.twoThird() == 0 {
		return cand
	}
	return old
}

// ---- engine events ------------------------------------------------------------------------------------------------

func (e *pgEnv) newBlk(b *types.Block) *pgBlk {
	e.g.nextBlk++
	x := &pgBlk{b: b, id: e.g.nextBlk, parent: e.blocks[b.ParentHash()], hashes: c04eHashes(b)}
	return x
}

func (e *pgEnv) adopt(x *pgBlk) {
	e.blocks[x.b.Hash()] = x
	e.byID[x.id] = x
}

func (e *pgEnv) toPeer(b *types.Block) string {
	deputynode.SetSelfNodeKey(e.g.observer)
	return Safe(func() string {
		if err := e.nb.Insert(CloneBlock(b)); err != nil {
			return "reject"
		}
		return "accept"
	})
}

func (e *pgEnv) blockTime(parent *pgBlk) uint32 {
	rnd := e.g.c.Rnd
	t := parent.b.Time() + uint32(rnd.Intn(10))
	if rnd.Intn(4) == 0 {
		t += 10 * uint32(rnd.Intn(3))
	}
	now := uint32(time.Now().Unix())
	if t > now {
		t = now
	}
	if t < parent.b.Time() {
		t = parent.b.Time()
	}
	return t
}

// insert builds (real assembler) a block on parent with the given txs and offers it to InsertBlock.
func (e *pgEnv) insert(parent *pgBlk, t uint32, txs []*pgTx, why string) (*pgBlk, string) {
	var cp types.Transactions
	for _, tx := range txs {
		cp = append(cp, c04eWire(tx.tx))
	}
	b, _, err := e.n.Build(parent.b, t, cp, nil)
	if err != nil {
		panic(pgAbort{fmt.Sprintf("Build on %d at %d: %v", parent.id, t, err)})
	}
	if _, dup := e.blocks[b.Hash()]; dup {
		// same parent, stamp, miner and txs as a block the node has: InsertBlock would ignore it, not verify it
		e.g.c.Count("pg:insert:duplicate-of-known-block")
		return nil, "duplicate"
	}
	var toks []string
	for _, tx := range b.Txs {
		pt, ok := e.txs[tx.Hash()]
		if !ok {
			panic(pgAbort{"built block carries an unknown tx"})
		}
		toks = append(toks, pt.tok())
	}
	x := e.newBlk(b)
	stab := e.deputys == 1 // one deputy: the miner's own signature makes every accepted block stable at once
	deputynode.SetSelfNodeKey(e.g.observer)
	res := Safe(func() string {
		if err := e.n.Insert(CloneBlock(b)); err != nil {
			return "reject"
		}
		return "accept"
	})
	pred := e.head
	if res == "accept" {
		e.adopt(x)
		pred = e.predictAfterInsert(x, stab)
		if stab {
			e.stable = x
		}
		e.head = pred
		if p := e.toPeer(b); p != "accept" {
			e.g.fail("c04/pool-guard/peer-refuses-accepted-block", fmt.Sprintf("block %d (%s) accepted by the node is refused by the second honest node", x.id, why), e.witness(nil))
		}
	}
	line := fmt.Sprintf("pg insert %d %d %d %d %v %d", x.id, parent.id, b.Height(), b.Time(), stab, pred.id)
	if len(toks) > 0 {
		line += " " + strings.Join(toks, " ")
	}
	e.g.c.Count("pg:insert:" + why + ":" + res)
	e.op(line, res)
	if res != "accept" {
		return nil, res
	}
	return x, res
}

// confirm makes x stable on both nodes (one more deputy signature) — InsertConfirms.
func (e *pgEnv) confirm(x *pgBlk) bool {
	if e.deputys == 1 || x.b.Height() <= e.stable.b.Height() || !x.descendsFrom(e.stable) {
		return false
	}
	var k *ecdsa.PrivateKey
	for _, dk := range e.w.DeputyKeys {
		if keyAddr(dk) != x.b.MinerAddress() {
			k = dk
			break
		}
	}
	c04eConfirmOn(e.n, e.g.observer, x.b, k)
	c04eConfirmOn(e.nb, e.g.observer, x.b, k)
	if e.n.BC.StableBlock().Hash() != x.b.Hash() {
		e.g.c.Count("pg:confirm:not-stable")
		return false
	}
	pred := e.head
	if !e.head.descendsFrom(x) {
		pred = e.chooseNewFork(x)
		e.g.c.Count("pg:confirm:fork-cut")
	} else {
		e.g.c.Count("pg:confirm:on-branch")
	}
	e.stable = x
	e.head = pred
	// blocks that do not descend from the new stable block are pruned from the store (they stay in the guard)
	e.op(fmt.Sprintf("pg confirm %d %d", x.id, pred.id), "ok")
	return true
}

func (e *pgEnv) recv(t *pgTx, why string) string {
	api := node.VerifTxAPI(nodeChainID, e.n.BC, e.n.Pool)
	// the clock may tick between here and SendTx's own time.Now(): expirations are generated at least 30 s away from both
	// edges of the window, so the verdict does not depend on that second
	now := time.Now().Unix()
	res := Safe(func() string {
		onb := e.n.BC.TxGuard().ExistTx(e.n.BC.CurrentBlock().Hash(), t.tx) // only to name the result; the model computes its own
		verr := t.tx.VerifyTxBody(nodeChainID, uint64(now), false)
		_, err := api.SendTx(c04eWire(t.tx))
		switch {
		case verr != nil && err != nil:
			return "invalid"
		case err == txpool.ErrTxIsExist:
			return "ErrTxIsExist"
		case err != nil:
			return "err " + err.Error()
		case onb:
			return "exists"
		}
		return "ok"
	})
	e.g.c.Count("pg:recv:" + why + ":" + res)
	e.op(fmt.Sprintf("pg recv %d %s", now, t.tok()), res)
	return res
}

// ask: the first half of SendTx / handleTxsMsg, made of the same two calls.
func (e *pgEnv) ask(t *pgTx) string {
	now := time.Now().Unix()
	res := Safe(func() string {
		if err := t.tx.VerifyTxBody(nodeChainID, uint64(now), false); err != nil {
			return "invalid"
		}
		if e.n.BC.TxGuard().ExistTx(e.n.BC.CurrentBlock().Hash(), t.tx) {
			return "exists"
		}
		return "ok"
	})
	if res == "ok" {
		dup := false
		for _, a := range e.asked {
			dup = dup || a == t
		}
		if !dup {
			e.asked = append(e.asked, t)
		}
	}
	e.g.c.Count("pg:ask:" + res)
	e.op(fmt.Sprintf("pg ask %d %s", now, t.tok()), res)
	return res
}

// add: the second half, for a tx that was answered "not on the branch" earlier.
func (e *pgEnv) add(t *pgTx) {
	idx := -1
	for i, a := range e.asked {
		if a == t {
			idx = i
		}
	}
	if idx < 0 {
		return
	}
	e.asked = append(e.asked[:idx], e.asked[idx+1:]...)
	stale := e.onBranch(e.head, t)
	res := Safe(func() string {
		if err := e.n.Pool.AddTx(c04eWire(t.tx)); err != nil {
			return "ErrTxIsExist"
		}
		return "ok"
	})
	if stale && res == "ok" {
		t.late = true
		if t.class == "" {
			t.class = "entry-race"
		}
		e.g.c.Count("pg:add:late-on-branch-tx-pooled")
	} else {
		e.g.c.Count("pg:add:" + res)
	}
	e.op("pg add "+t.tok(), res)
}

func (e *pgEnv) pending(size int) {
	now := uint32(time.Now().Unix())
	res := Safe(func() string {
		var ids []int
		for _, tx := range e.n.Pool.GetTxs(now, size) {
			ids = append(ids, e.txID(tx.Hash()))
		}
		return pgIDs(ids)
	})
	e.g.c.Count("pg:pending")
	e.op(fmt.Sprintf("pg pending %d %d", now, size), res)
}

// mine runs the REAL miner on the node's head and judges the block.
func (e *pgEnv) mine(why string) *pgBlk {
	// the invalid candidates, by construction: pooled txs of the unfunded sender
	var invalid []int
	slots, _, _ := e.n.Pool.VerifState()
	for _, tx := range slots {
		if tx != nil {
			if pt := e.txs[tx.Hash()]; pt != nil && pt.invalid {
				invalid = append(invalid, pt.id)
			}
		}
	}
	old := e.head
	var m *types.Block
	var t0, t1 int64
	for try := 0; try < 3 && m == nil; try++ {
		t0 = time.Now().Unix()
		m, _ = e.n.MineReal(nil)
		t1 = time.Now().Unix()
	}
	deputynode.SetSelfNodeKey(e.g.observer)
	if m == nil {
		e.g.c.Count("pg:mine:failed")
		return nil
	}
	now := t0
	if t0 != t1 {
		e.g.c.Count("pg:fed:mine-stamp")
		now = int64(m.Time())
		if now < t0 || now > t1 {
			if uint32(t1) >= old.b.Time() {
				e.g.fail("c04/pool-guard/mine-stamp", fmt.Sprintf("mined block stamped %d, the wall clock was %d..%d, parent time %d", m.Time(), t0, t1, old.b.Time()), e.witness(nil))
			}
		}
	}
	x := e.newBlk(m)
	if x.parent != old {
		panic(pgAbort{"the miner did not mine on the head"})
	}
	stab := e.deputys == 1
	// ---- direct oracles
	seen := map[common.Hash]bool{}
	var ids []int
	for _, tx := range m.Txs {
		pt := e.txs[tx.Hash()]
		if pt == nil {
			e.g.fail("c04/fed-fact/unknown-tx", "the mined block carries a tx the harness never built", e.witness(nil))
			continue
		}
		ids = append(ids, pt.id)
		for _, h := range pt.hashes() {
			if seen[h] {
				e.g.c.Count("pg:mine:HASH-TWICE-IN-BLOCK")
				e.g.fail("c04/miner-includes-guarded-tx/box-repeats-sub", fmt.Sprintf("%s: the real miner (MineBlock on head %d, stamp %d) packed tx/sub-tx %d twice into its block %d (tx %d); it stores the block without running verifyTxs", why, old.id, m.Time(), e.txID(h), x.id, pt.id),
					e.witness(map[string]interface{}{"why": why, "tx": pt.id}))
			}
			seen[h] = true
		}
		if e.onBranch(old, pt) {
			class := pt.class
			if class == "" {
				class = "unexplained"
			}
			e.g.c.Count("pg:mine:GUARDED-TX-PACKED:" + class)
			e.g.fail("c04/miner-includes-guarded-tx/"+class, fmt.Sprintf("%s: tx %d (or one of its sub-txs) is on the node's current branch (head %d), yet the real miner (MineBlock, stamp %d) packed it into its block %d and stored it without running verifyTxs (pooled by a late AddTx: %v)", why, pt.id, old.id, m.Time(), x.id, pt.late),
				e.witness(map[string]interface{}{"why": why, "tx": pt.id, "class": class}))
		}
	}
	peer := e.toPeer(m)
	if peer != "accept" {
		e.g.c.Count("pg:mine:PEER-REFUSES")
		e.g.fail("c04/miner-block-refused-by-peer", fmt.Sprintf("%s: the block %d mined by the real miner on head %d (txs %s) is refused by a second honest node holding the same blocks", why, x.id, old.id, pgIDs(ids)),
			e.witness(map[string]interface{}{"why": why}))
	}
	e.adopt(x)
	e.head = x
	if stab {
		e.stable = x
	}
	e.g.c.Count(fmt.Sprintf("pg:mine:%s:txs-%d:peer-%s", why, min(len(ids), 3), peer))
	e.op(fmt.Sprintf("pg mine %d %d %v %s", x.id, now, stab, pgIDs(invalid)), fmt.Sprintf("t=%d txs=%s peer=%s", m.Time(), pgIDs(ids), peer))
	return x
}

// ---- worlds ------------------------------------------------------------------------------------------------------------

func (g *pgG) newEnv(name string, deputies int, genesisAgo uint32) *pgEnv {
	now := uint32(time.Now().Unix())
	w := NewWorld(deputies, now-genesisAgo, 10000)
	e := &pgEnv{g: g, w: w, n: w.NewNode(deputies), nb: w.NewNode(deputies), name: name, deputys: deputies,
		blocks: map[common.Hash]*pgBlk{}, byID: map[int]*pgBlk{}, txs: map[common.Hash]*pgTx{}}
	for i := 0; i < 5; i++ {
		e.users = append(e.users, detKey(fmt.Sprintf("pg-user-%d", i)))
	}
	e.poor = detKey("pg-poor")
	gen := e.n.BC.CurrentBlock()
	x := e.newBlk(gen)
	e.adopt(x)
	e.head, e.stable = x, x
	e.op(fmt.Sprintf("pg new %d %d", x.id, gen.Time()), "ok")
	return e
}

func (e *pgEnv) close() {
	e.n.Close()
	e.nb.Close()
}

func (e *pgEnv) run(f func()) {
	defer func() {
		if r := recover(); r != nil {
			if a, ok := r.(pgAbort); ok {
				e.g.c.Count("pg:aborted:" + firstWord(a.why))
				return
			}
			e.g.c.Count("pg:harness-panic")
			e.g.fail("c04/pool-guard/harness-panic", fmt.Sprintf("[%s] %v", e.name, r), e.witness(nil))
		}
	}()
	f()
}

// fund: the founder pays the users in block F (inserted, then confirmed when there are several deputies).
func (e *pgEnv) fund() *pgBlk {
	gen := e.head
	t := gen.b.Time() + 1
	var txs []*pgTx
	for i, u := range e.users {
		tx := e.reg(txTransfer(e.w.FounderKey, keyAddr(u), lemo(int64(1000000+i)), TxOpt{Exp: uint64(t) + 600, Msg: e.msg()}), nil)
		txs = append(txs, tx)
	}
	f, res := e.insert(gen, t, txs, "fund")
	if res != "accept" {
		panic(pgAbort{"fund block refused"})
	}
	e.confirm(f)
	return f
}

// exp: inside the window of every block stamp of the world (genesis is at most 1400 s old) except, now and then, the earliest ones
func (e *pgEnv) exp() uint64 { return uint64(time.Now().Unix()) + 90 + uint64(e.g.c.Rnd.Intn(330)) }

func (e *pgEnv) user() *ecdsa.PrivateKey { return e.users[e.g.c.Rnd.Intn(len(e.users))] }

// ---- the two witnesses of the defects closed by /repo fixes 786852c and 609d2a8 --------------------------------------------

// witnessRace: ask(s) on head F; a block carrying s extends the head; the late AddTx(s); the real miner.
func (e *pgEnv) witnessRace(boxed bool) {
	e.fund()
	s := e.pay(e.user(), e.exp())
	s.class = "entry-race"
	if e.ask(s) != "ok" {
		panic(pgAbort{"fresh tx not askable"})
	}
	carrier := s
	if boxed {
		carrier = e.box(e.user(), s.tx.Expiration()-5, s)
		carrier.class = "entry-race"
	}
	if _, res := e.insert(e.head, e.blockTime(e.head), []*pgTx{carrier}, "race-carrier"); res != "accept" {
		panic(pgAbort{"carrier refused"})
	}
	e.add(s) // the pool now holds a tx of the node's own branch: onbranch=<id>:1 on both sides
	e.mine("entry-race")
	e.mine("entry-race-again")
}

// witnessBoxDup: SendTx(box[s,s]); the real miner.
func (e *pgEnv) witnessBoxDup() {
	e.fund()
	s := e.pay(e.user(), e.exp())
	bx := e.box(e.user(), s.tx.Expiration()-5, s, s)
	bx.class = "box-repeats-sub"
	e.recv(bx, "box-repeats-sub")
	other := e.pay(e.user(), e.exp())
	e.recv(other, "fresh")
	e.mine("box-repeats-sub")
}

// ---- random op sequences ---------------------------------------------------------------------------------------------

func (e *pgEnv) randomCase(steps int) {
	rnd := e.g.c.Rnd
	e.fund()
	pick := func(l []*pgTx) *pgTx {
		if len(l) == 0 {
			return nil
		}
		return l[rnd.Intn(len(l))]
	}
	pooled := func() []*pgTx {
		var l []*pgTx
		slots, _, _ := e.n.Pool.VerifState()
		for _, tx := range slots {
			if tx != nil {
				if pt := e.txs[tx.Hash()]; pt != nil {
					l = append(l, pt)
				}
			}
		}
		return l
	}
	freshTx := func() *pgTx {
		switch rnd.Intn(10) {
		case 0, 1: // a box of one or two fresh txs
			a := e.pay(e.user(), e.exp())
			subs := []*pgTx{a}
			if rnd.Intn(2) == 0 {
				subs = append(subs, e.pay(e.user(), e.exp()))
			}
			minExp := subs[0].tx.Expiration()
			for _, s := range subs {
				if s.tx.Expiration() < minExp {
					minExp = s.tx.Expiration()
				}
			}
			return e.box(e.user(), minExp-uint64(rnd.Intn(20)), subs...)
		case 2: // a box around a tx the node knows already (pooled, on a branch, anywhere)
			if old := pick(e.allTx); old != nil && !old.invalid && old.tx.Expiration() > uint64(time.Now().Unix())+60 {
				return e.box(e.user(), old.tx.Expiration()-uint64(rnd.Intn(20)), old)
			}
		case 3: // the unfunded sender: the assembler will return it as invalid
			t := e.pay(e.poor, e.exp())
			t.invalid = true
			return t
		}
		return e.pay(e.user(), e.exp())
	}
	blockTxs := func(parent *pgBlk) []*pgTx {
		var l []*pgTx
		used := map[common.Hash]bool{}
		addIf := func(t *pgTx) {
			if t == nil || t.invalid {
				return
			}
			for _, h := range t.hashes() {
				if used[h] {
					return
				}
			}
			for _, s := range t.subs {
				if s.invalid {
					return
				}
			}
			// the block stamp must lie inside the tx's window: exp-1800 <= stamp <= exp; stamps are <= now < exp here
			for _, h := range t.hashes() {
				used[h] = true
			}
			l = append(l, t)
		}
		n := rnd.Intn(4)
		for i := 0; i < n; i++ {
			switch rnd.Intn(8) {
			case 0, 1, 2:
				addIf(pick(pooled())) // what another miner would take from the same gossip
			case 3:
				addIf(pick(e.allTx)) // anything known: may be on this branch already (then the block is refused)
			case 4:
				addIf(pick(e.allBox))
			default:
				t := freshTx()
				if !t.invalid {
					addIf(t)
				}
			}
		}
		_ = parent
		return l
	}
	unstable := func() []*pgBlk {
		var l []*pgBlk
		for _, b := range e.blocks {
			if b.descendsFrom(e.stable) {
				l = append(l, b)
			}
		}
		sort.Slice(l, func(i, j int) bool { return l[i].id < l[j].id })
		return l
	}
	for i := 0; i < steps; i++ {
		switch k := rnd.Intn(100); {
		case k < 22:
			e.recv(freshTx(), "fresh")
		case k < 27:
			// something the node has seen before: on the branch, on a side branch, pooled, expired …
			if t := pick(append(append([]*pgTx{}, e.allTx...), e.allBox...)); t != nil {
				e.recv(t, "known")
			}
		case k < 30:
			// outside the window
			off := uint64(time.Now().Unix()) - 30 - uint64(rnd.Intn(100))
			why := "expired"
			if rnd.Intn(2) == 0 {
				off = uint64(time.Now().Unix()) + 1800 + 30 + uint64(rnd.Intn(100))
				why = "too-far"
			}
			e.recv(e.pay(e.user(), off), why)
		case k < 36:
			e.ask(freshTx())
		case k < 40:
			if t := pick(e.allTx); t != nil {
				e.ask(t)
			}
		case k < 48:
			if t := pick(e.asked); t != nil {
				e.add(t)
			}
		case k < 51:
			e.pending(1 + rnd.Intn(4))
		case k < 66:
			e.insert(e.head, e.blockTime(e.head), blockTxs(e.head), "on-head")
		case k < 84:
			if e.deputys == 1 {
				continue // every block is stable at once: there are no side branches
			}
			us := unstable()
			p := us[rnd.Intn(len(us))]
			if rnd.Intn(2) == 0 {
				// prefer the highest block off the current branch: side branches must get long enough to win
				for _, b := range us {
					if !e.head.descendsFrom(b) && (e.head.descendsFrom(p) || b.b.Height() > p.b.Height()) {
						p = b
					}
				}
			}
			// grow that branch by up to three blocks (a switch needs it to be higher than the head, at an even distance
			// from the stable block when there are three deputies)
			for grow := 1 + rnd.Intn(3); grow > 0 && p != nil; grow-- {
				why := "side"
				if p == e.head {
					why = "on-head"
				}
				old := e.head
				x, _ := e.insert(p, e.blockTime(p), blockTxs(p), why)
				if x != nil && e.head != old && e.head.parent != old {
					e.g.c.Count("pg:insert:FORK-SWITCH")
				}
				p = x
			}
		case k < 90:
			us := unstable()
			x := us[rnd.Intn(len(us))]
			if rnd.Intn(3) == 0 {
				// a block OFF the current branch becomes stable: the head's fork is cut
				for _, b := range us {
					if !e.head.descendsFrom(b) {
						x = b
					}
				}
			}
			e.confirm(x)
		default:
			e.mine("random")
		}
	}
	// drain: whatever is pending now goes through the real miner once more
	for _, t := range append([]*pgTx{}, e.asked...) {
		e.add(t)
	}
	e.mine("final")
}

func c04PoolGuard(c *Ctx) {
	g := &pgG{c: c, nSig: map[string]int{}, observer: detKey("c04pg-observer")}
	cases := c.N / 6
	if cases < 6 {
		cases = 6
	}
	if cases > 160 {
		cases = 160
	}
	one := func(name string, deputies int, f func(e *pgEnv)) {
		e := g.newEnv(name, deputies, 1300+uint32(c.Rnd.Intn(100)))
		defer e.close()
		e.run(func() { f(e) })
	}
	one("witness-race", 3, func(e *pgEnv) { e.witnessRace(false) })
	one("witness-race-boxed", 3, func(e *pgEnv) { e.witnessRace(true) })
	one("witness-box-dup", 3, func(e *pgEnv) { e.witnessBoxDup() })
	for i := 0; i < cases; i++ {
		deputies := 3
		if i%5 == 4 {
			deputies = 1
		}
		one(fmt.Sprintf("random-%d", deputies), deputies, func(e *pgEnv) { e.randomCase(18 + c.Rnd.Intn(14)) })
	}
}

package main

// c05: the ledger scenario — real engine (miner path Build + validator path InsertBlock) vs the
// Lean ledger model, with the direct oracles of C05 (conservation / exact gas), C11 (vote tally) and
// C06 (authorisation).  Sub-commands c11 and c06 run the same scenario with a different tx mix.

import (
	"bytes"
	"crypto/ecdsa"
	"encoding/json"
	"fmt"
	"github.com/LemoFoundationLtd/lemochain-core/common/rlp"
	"math/big"
	"os"
	"sort"
	"strings"
	"time"

	"github.com/LemoFoundationLtd/lemochain-core/chain/account"
	"github.com/LemoFoundationLtd/lemochain-core/chain/deputynode"
	"github.com/LemoFoundationLtd/lemochain-core/chain/params"
	"github.com/LemoFoundationLtd/lemochain-core/chain/transaction"
	"github.com/LemoFoundationLtd/lemochain-core/chain/types"
	"github.com/LemoFoundationLtd/lemochain-core/common"
	"github.com/LemoFoundationLtd/lemochain-core/common/crypto"
	"github.com/LemoFoundationLtd/lemochain-core/common/log"
)

var ledgerExtras = map[string]func(*Ctx){} // mode -> extra cases run after the epochs (filled by init() of files that exist only in that mode's build)

func init() {
	subs["c05"] = func(c *Ctx) { ledgerScenario(c, "c05") }
	subs["c11"] = func(c *Ctx) { ledgerScenario(c, "c11") }
	subs["c06"] = func(c *Ctx) { ledgerScenario(c, "c06") }
	subs["c01"] = func(c *Ctx) { ledgerScenario(c, "c01") }
}

// txEdit re-creates a transaction from its JSON form after `f` edited it (keeps signatures as they are).
func txEdit(tx *types.Transaction, f func(m map[string]interface{})) *types.Transaction {
	b, err := tx.MarshalJSON()
	if err != nil {
		panic(err)
	}
	var m map[string]interface{}
	json.Unmarshal(b, &m)
	delete(m, "hash")
	f(m)
	nb, _ := json.Marshal(m)
	var ntx types.Transaction
	if err := ntx.UnmarshalJSON(nb); err != nil {
		panic(err)
	}
	return &ntx
}

type ledgerTx struct {
	tx        *types.Transaction
	orig      *types.Transaction // pristine copy (a box tx is rewritten in place when executed)
	id        int
	fwdTarget common.Address // create-forwarder*: the address the deployed contract forwards the call's value to
	fromKeys  []string       // labels of the keys that really signed Sigs (ground truth for C06)
	payerKeys []string
	tampered  bool // content changed after signing
	class     string
	subs      []*ledgerTx
	// contract creations of the gas sweep: the gas a successful deployment needs (measured by a trial build that is thrown
	// away), the intrinsic gas and the length of the deployed runtime code (code deposit = 200 gas per byte)
	need, intrinsic uint64
	rtLen           int
	rewardTerm      uint32 // set-reward txs: what the generator asked the precompile to store
	rewardValue     *big.Int
}

type ledger struct {
	c      *Ctx
	w      *World
	n      *Node
	labels map[common.Address]int
	names  map[string]*ecdsa.PrivateKey // key label -> key
	univ   []common.Address
	nextID int
	// ground truth of multisig configuration and who is candidate, maintained from observed state
	mode      string
	curHeight uint32 // height of the block being described
	byNodeID  map[string]*ecdsa.PrivateKey
	// the PARENT view of the block being judged, captured BEFORE the block is inserted: in a term with a single deputy the
	// miner's own signature makes the block stable at once and the parent's account view is gone afterwards
	// the harness's OWN record of every account's signer list on the main chain (from the ModifySigners txs of the blocks
	// that were inserted): the C06 oracle never asks the implementation what the registered signers are
	truth        map[common.Address]types.Signers
	rewardSet    map[uint32]*big.Int // term -> reward the reward manager's INCLUDED set-reward tx stored (harness record)
	rewardPaid   map[uint32]uint32   // term -> height at which its salaries were minted
	termT, termI uint32
	pvHash       common.Hash
	pvViews      map[common.Address]acctView
	pvNodeID     map[common.Address]string
	pvBal        map[common.Address]*big.Int
	pvCode       map[common.Address]bool
	actorOf      map[common.Address]string         // account address -> name of its key (users, genesis deputies, income addresses)
	fwd          map[common.Address]common.Address // forwarder contract -> the address its code forwards the call's value to
}

func (l *ledger) label(a common.Address) int {
	if a == (common.Address{}) {
		return 0
	}
	if v, ok := l.labels[a]; ok {
		return v
	}
	v := len(l.labels) + 1
	l.labels[a] = v
	return v
}

func (l *ledger) key(name string) *ecdsa.PrivateKey {
	if k, ok := l.names[name]; ok {
		return k
	}
	k := detKey(name)
	l.names[name] = k
	return k
}

type acctView struct {
	bal, votes *big.Int
	voteFor    common.Address
	isCand     int
	deposit    string
	income     common.Address
	signers    types.Signers
	incomeSet  bool
}

// captureParent remembers the parent view of `b` (universe accounts in full, balance / has-code of every address the
// block names) — to be called after the block was built and before it is inserted.
func (l *ledger) captureParent(b *types.Block, miner common.Address) {
	l.pvHash = common.Hash{}
	views, ids := map[common.Address]acctView{}, map[common.Address]string{}
	for _, a := range l.univ {
		views[a] = l.view(b.ParentHash(), a)
		ids[a] = l.nodeIDOf(b.ParentHash(), a)
	}
	bal, code := map[common.Address]*big.Int{}, map[common.Address]bool{}
	named := map[common.Address]bool{}
	for _, cl := range b.ChangeLogs {
		named[cl.Address] = true
	}
	for _, tx := range b.Txs {
		named[tx.From()] = true
		named[tx.GasPayer()] = true
		if tx.To() != nil {
			named[*tx.To()] = true
		}
		if tx.Type() == params.CreateContractTx {
			named[crypto.CreateContractAddress(tx.From(), tx.Hash())] = true
		}
	}
	if mv := views[miner]; mv.incomeSet {
		named[mv.income] = true
	}
	am := account.NewManager(b.ParentHash(), l.n.DB)
	for a := range named {
		acc := am.GetAccount(a)
		bal[a] = new(big.Int).Set(acc.GetBalance())
		cd, _ := acc.GetCode()
		code[a] = len(cd) > 0
	}
	l.pvHash, l.pvViews, l.pvNodeID, l.pvBal, l.pvCode = b.ParentHash(), views, ids, bal, code
}

func (l *ledger) view(h common.Hash, a common.Address) acctView {
	if h == l.pvHash && l.pvHash != (common.Hash{}) {
		if v, ok := l.pvViews[a]; ok {
			return v
		}
	}
	am := account.NewManager(h, l.n.DB)
	acc := am.GetAccount(a)
	p := acc.GetCandidate()
	v := acctView{bal: acc.GetBalance(), votes: acc.GetVotes(), voteFor: acc.GetVoteFor(), signers: acc.GetSigners()}
	v.isCand = flagCode(p[types.CandidateKeyIsCandidate])
	v.deposit = p[types.CandidateKeyDepositAmount]
	if s, ok := p[types.CandidateKeyIncomeAddress]; ok && s != "" {
		if ia, err := common.StringToAddress(s); err == nil {
			v.income = ia
			v.incomeSet = true
		}
	}
	return v
}

// the exchange rates of the property statement, as literals of the harness (never read from the code under test)
var (
	voteRateLit, _    = new(big.Int).SetString("200000000000000000000", 10) // 200 LEMO
	depositRateLit, _ = new(big.Int).SetString("100000000000000000000", 10) // 100 LEMO
)

// flagCode: the four states the code distinguishes in profile[isCandidate] (it never validates the value):
// 0 = absent or "", 1 = "true", 2 = "false", 3 = any other string.
func flagCode(s string) int {
	switch s {
	case "":
		return 0
	case types.IsCandidateNode:
		return 1
	case types.NotCandidateNode:
		return 2
	}
	return 3
}

// isTempOf: the harness's own reading of verifyTempAddress — version byte 0x03 and bytes 1..9 = the creator's last 9 bytes.
func isTempOf(creator, temp common.Address) bool {
	if temp[0] != 0x03 {
		return false
	}
	for i := 0; i < 9; i++ {
		if temp[1+i] != creator[common.AddressLength-9+i] {
			return false
		}
	}
	return true
}

func (l *ledger) dump(h common.Hash) string {
	var sb strings.Builder
	for _, a := range l.univ {
		v := l.view(h, a)
		dep := "-"
		if v.deposit != "" {
			dep = v.deposit
		}
		sb.WriteString(fmt.Sprintf("%d:%s,%s,%d,%d,%s,%d,%s,%s ", l.label(a), v.bal.String(), v.votes.String(), l.label(v.voteFor), v.isCand, dep, l.label(v.income), l.profOf(h, a), l.paidField(h, a))) // c05_profile.go: the other profile keys, the deposit PAID by construction
	}
	return sb.String()
}

func (l *ledger) signersOf(tx *types.Transaction, which string) string {
	var addrs []common.Address
	var err error
	hasPayer := len(tx.GasPayerSigs()) >= 1
	switch which {
	case "from":
		if hasPayer {
			addrs, err = types.MakeReimbursementTxSigner().GetSigners(tx)
		} else {
			addrs, err = types.MakeSigner().GetSigners(tx)
		}
	case "payer":
		if !hasPayer {
			return "-"
		}
		addrs, err = types.MakeGasPayerSigner().GetSigners(tx)
	}
	if err != nil {
		return "!"
	}
	if len(addrs) == 0 {
		return "-"
	}
	var ss []string
	for _, a := range addrs {
		ss = append(ss, fmt.Sprintf("%d", l.label(a)))
	}
	return strings.Join(ss, ",")
}

func dataGasParts(data []byte) (nz, z int) {
	for _, b := range data {
		if b != 0 {
			nz++
		} else {
			z++
		}
	}
	return
}

// txLine renders the model's view of a transaction.
func (l *ledger) txLine(kw string, lt *ledgerTx) string {
	tx := lt.tx
	nz, z := dataGasParts(tx.Data())
	kind := "other"
	switch tx.Type() {
	case params.OrdinaryTx:
		if tx.To() != nil && len(tx.Data()) == 0 {
			kind = fmt.Sprintf("transfer %d %s", l.label(*tx.To()), tx.Amount().String())
		}
	case params.VoteTx:
		if tx.To() != nil {
			kind = fmt.Sprintf("vote %d", l.label(*tx.To()))
		}
	case params.RegisterTx:
		p := make(types.Profile)
		if json.Unmarshal(tx.Data(), &p) == nil {
			// the flag as written in the tx (key absent = buildProfile's default "true"); income 0 = key absent
			// (the MODEL applies buildProfile's default tx.From); is the named node a deputy at this height?
			flag := 1
			if fs, ok := p[types.CandidateKeyIsCandidate]; ok {
				flag = flagCode(fs)
			}
			inc := 0
			if s, ok := p[types.CandidateKeyIncomeAddress]; ok {
				if ia, err := common.StringToAddress(s); err == nil {
					inc = l.label(ia)
				}
			}
			nd := 0
			if id := p[types.CandidateKeyNodeID]; id != "" && l.n.DM.IsNodeDeputy(l.curHeight, common.FromHex(id)) {
				nd = 1
			}
			kind = fmt.Sprintf("register %s %d %d %d", tx.Amount().String(), flag, inc, nd) + l.registerFields(p) // c05_profile.go: the rest of the tx-supplied profile
		}
	case params.ModifySignersTx:
		var ms struct {
			Signers types.Signers `json:"signers"`
		}
		if json.Unmarshal(tx.Data(), &ms) == nil && tx.To() != nil {
			var ss []string
			for _, s := range ms.Signers {
				ss = append(ss, fmt.Sprintf("%d:%d", l.label(s.Address), s.Weight))
			}
			tok := fmt.Sprintf("%x:%x", tx.From().Bytes(), tx.To().Bytes()) // C06: no fed tempOk — the model computes verifyTempAddress from the two addresses (LemoModel.TempAddr)
			kind = fmt.Sprintf("setsigners %d %s %s", l.label(*tx.To()), tok, strings.Join(append([]string{"-"}, ss...), " "))
		}
	case params.BoxTx:
		kind = fmt.Sprintf("box %d", len(lt.subs))
	}
	return fmt.Sprintf("%s %d %d %d %d %s %d %d %d %d %s %s %s", kw, lt.id, l.label(tx.From()), l.label(tx.GasPayer()), tx.GasLimit(), tx.GasPrice().String(),
		tx.Type(), len(tx.Message()), nz, z, l.signersOf(tx, "from"), l.signersOf(tx, "payer"), kind)
}

// ledgerScenario runs the scenario in epochs: a candidate that unregistered can never register again, so a world's
// supply of candidates is finite — every epoch starts a fresh world (and tells the model to forget the old one).
func ledgerScenario(c *Ctx, mode string) {
	remaining := c.N
	for epoch := 0; remaining > 0; epoch++ {
		nb := 60 + c.Rnd.Intn(30)
		if nb > remaining || remaining-nb < 25 {
			nb = remaining
		}
		ledgerEpoch(c, mode, nb, epoch)
		remaining -= nb
		c.Count("epoch")
	}
	if f := ledgerExtras[mode]; f != nil {
		f(c)
	} // per-mode additions registered by other files (c06*.go: temp addresses, gate table, all-type engine cases)
	evmValueCases(c, mode)   // c05_evmvalue.go: generated frame-tree programs vs LemoModel.EvmValue (own random stream)
	dirtyTraceCases(c, mode) // c05_dirtytrace.go: C07 engine cases — a discarded box / failed call leaves no queued write behind (no random stream, no op lines)
}

func ledgerEpoch(c *Ctx, mode string, nBlocks int, epoch int) {
	oldMin := params.MinCandidateDeposit
	params.MinCandidateDeposit = lemo(1000)
	defer func() { params.MinCandidateDeposit = oldMin }()
	// short terms: snapshot blocks and reward blocks (term reward + postponed deposit refunds in Finalize) occur
	// every TermDuration blocks; the deputies change with the terms
	oldT, oldI := params.TermDuration, params.InterimDuration
	params.TermDuration, params.InterimDuration = uint32(9+c.Rnd.Intn(6)), uint32(2+c.Rnd.Intn(3))
	defer func() { params.TermDuration, params.InterimDuration = oldT, oldI }()
	termT, termI := params.TermDuration, params.InterimDuration
	now := uint32(time.Now().Unix())
	w := NewWorld(3, now-600000, 10000)
	n := w.NewNode(3)
	defer n.Close()
	var nb *Node
	if mode == "c01" {
		nb = w.NewNode(3)
		defer func() { nb.Close() }()
	}
	var contracts []common.Address
	contractClass := map[common.Address]string{} // contract address -> class of the tx that created it
	l := &ledger{c: c, w: w, n: n, labels: map[common.Address]int{}, names: map[string]*ecdsa.PrivateKey{}, mode: mode, actorOf: map[common.Address]string{}, fwd: map[common.Address]common.Address{},
		rewardSet: map[uint32]*big.Int{}, rewardPaid: map[uint32]uint32{}, termT: termT, termI: termI}
	// fixed labels: pool = 1, founder = 2
	l.label(params.DepositPoolAddress)
	l.label(keyAddr(w.FounderKey))
	l.names["founder"] = w.FounderKey
	userNames := []string{"u0", "u1", "u2", "u3", "u4", "u5", "u6", "u7"}
	l.univ = append(l.univ, params.DepositPoolAddress, keyAddr(w.FounderKey))
	// the genesis deputies and their income addresses act too (vote, top up, unregister while being a deputy)
	var extraNames []string
	for i, k := range w.DeputyKeys {
		l.names[fmt.Sprintf("deputy-%d", i)] = k
		l.univ = append(l.univ, keyAddr(k), keyAddr(detKey(fmt.Sprintf("income-%d", i))))
		extraNames = append(extraNames, fmt.Sprintf("deputy-%d", i), fmt.Sprintf("income-%d", i))
	}
	for _, u := range userNames {
		l.univ = append(l.univ, keyAddr(l.key(u)))
	}
	for _, nm := range append(append([]string{}, userNames...), extraNames...) {
		l.actorOf[keyAddr(l.key(nm))] = nm
	}
	for _, a := range l.univ {
		l.label(a)
	}
	if mode == "c06" && epoch == 0 {
		hashFacts(c)
	}
	c.Op("reset", "ok")
	// the property states the two exchange rates LITERALLY (200 LEMO per vote of a voter's balance, 100 LEMO per vote of a
	// deposit): the harness has them as its own literals, the model driver answers table-mismatch unless the code's package
	// variables equal the Lean model's defaults, and the tally oracle divides by the literals
	c.Op(fmt.Sprintf("rate vote %s deposit %s precision %s", params.VoteExchangeRate.String(), params.DepositExchangeRate.String(), params.MinRewardPrecision.String()), "ok")
	if params.VoteExchangeRate.Cmp(voteRateLit) != 0 || params.DepositExchangeRate.Cmp(depositRateLit) != 0 {
		c.Fail("c11/fed-fact/exchange-rate", fmt.Sprintf("params.VoteExchangeRate = %s mo (property: 200 LEMO = %s), params.DepositExchangeRate = %s mo (property: 100 LEMO = %s)", params.VoteExchangeRate, voteRateLit, params.DepositExchangeRate, depositRateLit), nil)
	}
	c.Op(fmt.Sprintf("params %s %s %s %d %d %d %s", params.VoteExchangeRate.String(), params.DepositExchangeRate.String(), params.MinCandidateDeposit.String(),
		params.TermDuration, params.InterimDuration, l.label(params.DepositPoolAddress), params.MinRewardPrecision.String()), "ok")
	var us []string
	for _, a := range l.univ {
		us = append(us, fmt.Sprintf("%d", l.label(a)))
	}
	c.Op("universe "+strings.Join(us, " "), "ok")

	parent := n.BC.CurrentBlock()
	t := parent.Time() + 1
	exp := func() uint64 { return uint64(t) + 600 }

	// describe the genesis state to the model
	for _, a := range l.univ {
		v := l.view(parent.Hash(), a)
		dep := "-"
		if v.deposit != "" {
			dep = v.deposit
		}
		isDep := 0
		if w.KeyOfMiner(a) != nil {
			isDep = 1
		}
		c.Op(fmt.Sprintf("acct %d %s %s %d %d %s %d %d", l.label(a), v.bal.String(), v.votes.String(), l.label(v.voteFor), v.isCand, dep, l.label(v.income), isDep), "ok")
	}
	l.profOps(parent.Hash()) // c05_profile.go: the other profile keys of the genesis candidates; opens the deposit book

	uniq := 0
	u_ := func(p string) string { uniq++; return fmt.Sprintf("%s%d", p, uniq) }
	mk := func(tx *types.Transaction, class string, fromKeys ...string) *ledgerTx {
		l.nextID++
		return &ledgerTx{tx: tx, orig: cloneTx(tx), id: l.nextID, fromKeys: fromKeys, class: class}
	}
	rnd := c.Rnd
	amountNear := func(bal *big.Int) *big.Int {
		// amounts that move balances across / near 200-LEMO vote boundaries
		base := lemo(int64(1 + rnd.Intn(450)))
		if rnd.Intn(3) == 0 {
			base = new(big.Int).Add(lemo(200*int64(1+rnd.Intn(3))), big.NewInt(int64(rnd.Intn(3)-1)))
		}
		return base
	}
	multisig := map[string][]string{} // account label -> signer key labels (ground truth, set when the tx is included)
	pendingMS := map[int]struct {
		acct string
		keys []string
	}{}

	contractBlock := false
	forcedCall := map[uint32]common.Address{} // main-chain height -> contract that block must call (after a fork scenario)
	assetBlock := false                       // c01 mode: a block of asset txs (create / issue / replenish / multi-key modify / transfer)
	type assetRec struct {
		code, id      common.Hash
		owner, holder string
	}
	var assetCodes, assetIDs []assetRec
	nearBoundary := false // the block is in the last blocks of a term's mining period or in the interim period
	genTx := func(head common.Hash) *ledgerTx {
		u := userNames[rnd.Intn(len(userNames))]
		if rnd.Intn(6) == 0 {
			u = extraNames[rnd.Intn(len(extraNames))]
		}
		uk := l.key(u)
		other := userNames[rnd.Intn(len(userNames))]
		if rnd.Intn(8) == 0 {
			other = extraNames[rnd.Intn(len(extraNames))]
		}
		ok_ := l.key(other)
		kinds := []string{"transfer", "transfer", "transfer", "overdraft", "vote", "vote", "register", "topup", "unregister", "box", "boxfail", "payer", "payer-unsigned", "wrongkey", "setsigners", "ms-ok", "ms-dup", "ms-mall", "ms-short", "ms-ownkey", "extrasig", "pricey", "zero", "tamper", "tamper-box", "tamper-box-multi", "payer-self-forged", "flag", "payer-other-kind", "setsigners-var", "ms-resign", "ms-renonce", "forge"}
		switch l.mode {
		case "c11":
			kinds = []string{"transfer", "transfer", "vote", "vote", "vote", "register", "topup", "unregister", "box", "payer", "flag", "payer-other-kind", "forge", "forge"}
		case "c06":
			kinds = []string{"transfer", "payer", "payer-unsigned", "wrongkey", "setsigners", "ms-ok", "ms-dup", "ms-mall", "ms-short", "ms-ownkey", "ms-ownkey", "extrasig", "tamper", "tamper-box", "tamper-box-multi", "tamper-box-multi", "payer-self-forged", "box", "setsigners-var", "setsigners-var", "payer-other-kind", "ms-resign", "ms-resign", "ms-renonce", "ms-renonce"}
		}
		k := kinds[rnd.Intn(len(kinds))]
		switch k {
		case "flag":
			// RegisterTx whose isCandidate flag is not what the handlers expect (the value is never validated), and what
			// follows from it. Rare: such an account is lost as a candidate for the rest of the epoch.
			k = "transfer"
			if rnd.Intn(2) == 0 {
				k = []string{"register-flag-false", "register-flag-false", "register-flag-blank", "register-flag-odd", "topup-flag-blank", "topup-flag-odd", "reregister-blank", "reregister-blank", "vote-odd", "vote-odd", "register-dupnode"}[rnd.Intn(11)]
			}
		case "payer-other-kind":
			k = []string{"payer-vote", "payer-vote", "payer-register", "payer-topup", "payer-unregister", "payer-ms-ok", "payer-ms-ok", "payer-ms-short"}[rnd.Intn(8)]
		case "setsigners-var":
			k = []string{"setsigners-many", "setsigners-badweight", "setsigners-101", "setsigners-repeat-addr", "setsigners-temp-ok", "setsigners-temp-ok", "setsigners-temp-wrongtype", "setsigners-temp-wrongcreator", "setsigners-temp-again", "setsigners-light"}[rnd.Intn(10)]
		}
		if l.mode != "c06" && (rnd.Intn(12) == 0 || nearBoundary && rnd.Intn(4) == 0) {
			// candidates leaving around the term boundary, ex-candidates / income addresses that vote
			k = []string{"unregister-cand", "exvote", "exvote", "incomevote", "incomevote", "register", "vote"}[rnd.Intn(7)]
		}
		if assetBlock {
			k = []string{"asset-create", "asset-create", "asset-issue", "asset-issue", "asset-replenish", "asset-modify", "asset-modify", "asset-transfer", "asset-transfer", "transfer"}[rnd.Intn(10)]
		}
		if contractBlock {
			k = []string{"create-counter", "create-reverter", "create-logger", "create-killer", "create-killer-self", "create-killer-self", "create-sweep", "create-sweep", "create-sweep", "call", "call", "call", "call-value", "call-value", "transfer", "create-bh", "create-bh", "create-env", "call", "call",
				"create-forwarder", "create-forwarder", "create-forwarder-revert", "create-forward-to-contract", "create-creator", "create-overdrafter", "call-value", "call-value", "call-value", "call-value"}[rnd.Intn(30)]
		}
		c.Count("gen:" + k)
		cands := []common.Address{}
		for _, a := range l.univ {
			if l.view(head, a).isCand == 1 {
				cands = append(cands, a)
			}
		}
		msAccts := []string{}
		for a := range multisig {
			msAccts = append(msAccts, a)
		}
		sort.Strings(msAccts)
		pick := func(as []common.Address) (string, bool) {
			var nms []string
			for _, a := range as {
				if nm, ok := l.actorOf[a]; ok {
					nms = append(nms, nm)
				}
			}
			if len(nms) == 0 {
				return "", false
			}
			return nms[rnd.Intn(len(nms))], true
		}
		if (k == "unregister" || k == "unregister-cand") && len(cands) <= 2 {
			// unregistering is for ever: keep the world supplied with candidates
			k = "transfer"
		}
		regDeposit := func() *big.Int { return lemo(int64(1000 + rnd.Intn(4)*50 + rnd.Intn(3))) }
		withFlag := func(v string) map[string]string { return map[string]string{types.CandidateKeyIsCandidate: v} }
		switch k {
		case "forge":
			// c05_profile.go: a RegisterTx whose profile carries forged PROTECTED keys (deposit entry, node id), or the top-up after one
			if ftx, class, nm := l.forgedRegister(rnd, cands, u, pick, exp(), u_("fg")); ftx != nil {
				return mk(ftx, class, nm)
			}
			k = "transfer"
		case "register-flag-false":
			// a FIRST registration that says isCandidate:"false": registerCandidate stores the flag as it is — an
			// "unregistered candidate" with a deposit and deposit votes
			return mk(txRegister(uk, regDeposit(), l.key("node-"+u), false, withFlag(types.NotCandidateNode), TxOpt{Exp: exp(), Msg: u_("rff")}), k, u)
		case "register-flag-blank":
			return mk(txRegister(uk, regDeposit(), l.key("node-"+u), false, withFlag(""), TxOpt{Exp: exp(), Msg: u_("rfb")}), k, u)
		case "register-flag-odd":
			return mk(txRegister(uk, regDeposit(), l.key("node-"+u), false, withFlag("maybe"), TxOpt{Exp: exp(), Msg: u_("rfo")}), k, u)
		case "topup-flag-blank", "topup-flag-odd":
			// a registered candidate's update tx: modifyCandidateInfo copies the flag over the stored one
			if nm, ok := pick(cands); ok && len(cands) > 2 {
				v := ""
				if k == "topup-flag-odd" {
					v = "maybe"
				}
				return mk(txRegister(l.key(nm), lemo(int64(rnd.Intn(3)*130)), l.key("node-"+nm), false, withFlag(v), TxOpt{Exp: exp(), Msg: u_("tf")}), k, nm)
			}
			k = "transfer"
		case "reregister-blank":
			// an account whose stored flag is "" (but which holds a deposit and votes) registers AGAIN
			var blanks []common.Address
			for _, a := range l.univ {
				if v := l.view(head, a); v.isCand == 0 && v.deposit != "" {
					blanks = append(blanks, a)
				}
			}
			if nm, ok := pick(blanks); ok {
				extra := map[string]string{}
				if rnd.Intn(3) == 0 {
					extra = withFlag("")
				}
				return mk(txRegister(l.key(nm), regDeposit(), l.key("node-"+nm), false, extra, TxOpt{Exp: exp(), Msg: u_("rrb")}), k, nm)
			}
			k = "register-flag-blank"
			return mk(txRegister(uk, regDeposit(), l.key("node-"+u), false, withFlag(""), TxOpt{Exp: exp(), Msg: u_("rfb")}), k, u)
		case "vote-odd":
			// a vote for an account whose flag is neither "true" nor "false" nor "": CallVoteTx accepts it
			var odd []common.Address
			for _, a := range l.univ {
				if l.view(head, a).isCand == 3 {
					odd = append(odd, a)
				}
			}
			if len(odd) > 0 {
				return mk(txVote(uk, odd[rnd.Intn(len(odd))], TxOpt{Exp: exp(), Msg: u_("vo")}), k, u)
			}
			k = "register-flag-odd"
			return mk(txRegister(uk, regDeposit(), l.key("node-"+u), false, withFlag("maybe"), TxOpt{Exp: exp(), Msg: u_("rfo")}), k, u)
		case "register-dupnode":
			// a second account announces the node id of a SITTING deputy: IsNodeDeputy goes by node id, so its refund is
			// postponed like a deputy's although it never was one
			ds := n.DM.GetDeputiesByHeight(parent.Height()+1, true)
			if len(ds) > 0 {
				if nk := l.nodeKeyByID(ds[rnd.Intn(len(ds))].NodeID); nk != nil {
					return mk(txRegister(uk, regDeposit(), nk, false, nil, TxOpt{Exp: exp(), Msg: u_("rdn")}), k, u)
				}
			}
			k = "register"
		case "payer-vote":
			var cand common.Address
			if len(cands) > 0 {
				cand = cands[rnd.Intn(len(cands))]
			} else {
				cand = keyAddr(ok_)
			}
			lt := mk(txVote(uk, cand, TxOpt{Exp: exp(), Msg: u_("pv"), Payer: l.key(other)}), k, u)
			lt.payerKeys = []string{other}
			return lt
		case "ms-resign":
			// an account that IS multisig replaces its signer list (same length or one shorter: the new list fits the old
			// slice), authorised by all its registered signers
			if len(msAccts) > 0 {
				acct := msAccts[rnd.Intn(len(msAccts))]
				addr := keyAddr(l.key(acct))
				regs := l.truth[addr]
				oldKeys := l.userNamesOf(regs)
				if len(regs) > 0 && len(oldKeys) == len(regs) {
					nNew := len(regs)
					if nNew > 1 && rnd.Intn(2) == 0 {
						nNew--
					}
					var ss types.Signers
					var keys []string
					perm := rnd.Perm(len(userNames))
					for i := 0; i < nNew && i < len(perm); i++ {
						nm := userNames[perm[i]]
						wgt := uint8(10)
						switch {
						case nNew == 1:
							wgt = 100
						case i == 0:
							wgt = 60
						case i == 1:
							wgt = 50
						}
						ss = append(ss, types.SignAccount{Address: keyAddr(l.key(nm)), Weight: wgt})
						keys = append(keys, nm)
					}
					data, _ := json.Marshal(struct {
						Signers types.Signers `json:"signers"`
					}{ss})
					tx := types.NewTransaction(addr, addr, new(big.Int), 2000000, oneGwei, data, params.ModifySignersTx, nodeChainID, exp(), "", u_("msr"))
					stx := tx
					for _, nm := range oldKeys {
						stx, _ = types.MakeSigner().SignTx(stx, l.key(nm))
					}
					lt := mk(stx, k, oldKeys...)
					pendingMS[lt.id] = struct {
						acct string
						keys []string
					}{acct, keys}
					return lt
				}
			}
			k = "setsigners"
			{
				lt := mk(txModifySigners(uk, keyAddr(uk), types.Signers{{Address: keyAddr(uk), Weight: 60}, {Address: keyAddr(ok_), Weight: 50}}, TxOpt{Exp: exp(), Msg: u_("ss")}), k, u)
				pendingMS[lt.id] = struct {
					acct string
					keys []string
				}{u, []string{u, other}}
				return lt
			}
		case "payer-ms-ok", "payer-ms-short":
			// the GAS PAYER is a multisig account: its registered signers sign the payer part (all of them / only the lightest)
			if len(msAccts) > 0 {
				acct := msAccts[rnd.Intn(len(msAccts))]
				payerAddr := keyAddr(l.key(acct))
				regs := append(types.Signers{}, l.view(head, payerAddr).signers...)
				nameOfU := func(a common.Address) string {
					for _, nm := range userNames {
						if keyAddr(l.key(nm)) == a {
							return nm
						}
					}
					return ""
				}
				if k == "payer-ms-short" {
					sort.Slice(regs, func(i, j int) bool { return regs[i].Weight < regs[j].Weight })
					if len(regs) > 1 {
						regs = regs[:1]
					}
				}
				tx := types.NewReimbursementTransaction(keyAddr(uk), keyAddr(ok_), payerAddr, lemo(1), nil, params.OrdinaryTx, nodeChainID, exp(), "", u_("pms"))
				stx, _ := types.MakeReimbursementTxSigner().SignTx(tx, uk)
				stx = types.GasPayerSignatureTx(stx, oneGwei, 100000)
				var signed []string
				for _, r := range regs {
					if nm := nameOfU(r.Address); nm != "" {
						stx, _ = types.MakeGasPayerSigner().SignTx(stx, l.key(nm))
						signed = append(signed, nm)
					}
				}
				if len(signed) > 0 {
					lt := mk(stx, k, u)
					lt.payerKeys = signed
					return lt
				}
			}
			k = "payer"
			lt := mk(txTransfer(uk, keyAddr(ok_), amountNear(nil), TxOpt{Exp: exp(), Msg: u_("gp"), Payer: l.key(other)}), k, u)
			lt.payerKeys = []string{other}
			return lt
		case "payer-register", "payer-topup", "payer-unregister":
			amt, unreg := regDeposit(), false
			if k == "payer-topup" {
				amt = lemo(int64(rnd.Intn(260)))
			} else if k == "payer-unregister" {
				amt, unreg = new(big.Int), true
			}
			lt := mk(txRegisterPaid(uk, amt, l.key("node-"+u), unreg, l.key(other), TxOpt{Exp: exp(), Msg: u_("pr")}), k, u)
			lt.payerKeys = []string{other}
			return lt
		case "setsigners-many", "setsigners-badweight", "setsigners-101", "setsigners-repeat-addr", "setsigners-light":
			var ss types.Signers
			var keys []string
			nSig := 4 + rnd.Intn(9)
			if k == "setsigners-101" {
				nSig = 101
			}
			for i := 0; i < nSig; i++ {
				nm := userNames[i%len(userNames)]
				addr := keyAddr(l.key(nm))
				if i >= len(userNames) {
					addr = keyAddr(detKey(fmt.Sprintf("signer-%d", i))) // distinct filler addresses (never sign)
				} else {
					keys = append(keys, nm)
				}
				wgt := uint8(10 + rnd.Intn(30))
				if k == "setsigners-light" {
					wgt = uint8(1 + rnd.Intn(5)) // total stays below 100
				}
				ss = append(ss, types.SignAccount{Address: addr, Weight: wgt})
			}
			switch k {
			case "setsigners-badweight":
				ss[rnd.Intn(len(ss))].Weight = []uint8{0, 101, 200, 255}[rnd.Intn(4)]
			case "setsigners-repeat-addr":
				ss[len(ss)-1].Address = ss[0].Address
			}
			lt := mk(txModifySigners(uk, keyAddr(uk), ss, TxOpt{Exp: exp(), GasLimit: 4000000, Msg: u_("ssv")}), k, u)
			pendingMS[lt.id] = struct {
				acct string
				keys []string
			}{u, keys}
			return lt
		case "setsigners-temp-ok", "setsigners-temp-wrongtype", "setsigners-temp-wrongcreator", "setsigners-temp-again":
			// from != to: the target must be a temp address built from the sender's last 9 bytes, without signers so far
			var uid [10]byte
			uid[0] = byte(rnd.Intn(3)) // few distinct temp accounts per sender: "again" re-targets one of them
			creator := keyAddr(uk)
			target := crypto.CreateTempAddress(creator, uid)
			switch k {
			case "setsigners-temp-wrongtype":
				target[0] = 0x01
			case "setsigners-temp-wrongcreator":
				target = crypto.CreateTempAddress(keyAddr(ok_), uid)
				if ok_ == uk {
					target[5] ^= 0x40
				}
			}
			ss := types.Signers{{Address: keyAddr(uk), Weight: 60}, {Address: keyAddr(ok_), Weight: 50}}
			if ok_ == uk {
				ss = types.Signers{{Address: keyAddr(uk), Weight: 100}}
			}
			return mk(txModifySigners(uk, target, ss, TxOpt{Exp: exp(), Msg: u_("sst")}), k, u)
		}
		switch k {
		case "unregister-cand":
			// a REGISTERED candidate (maybe a deputy of the running term, maybe in the interim period) unregisters
			if nm, ok := pick(cands); ok {
				return mk(txRegister(l.key(nm), new(big.Int), l.key("node-"+nm), true, nil, TxOpt{Exp: exp(), Msg: u_("unc")}), "unregister", nm)
			}
			k = "transfer"
		case "exvote":
			// an unregistered candidate still waiting for its deposit votes for a registered candidate
			var waiting []common.Address
			for _, a := range l.univ {
				if v := l.view(head, a); v.isCand == 2 && v.deposit != "" {
					waiting = append(waiting, a)
				}
			}
			if nm, ok := pick(waiting); ok && len(cands) > 0 {
				return mk(txVote(l.key(nm), cands[rnd.Intn(len(cands))], TxOpt{Exp: exp(), Msg: u_("exv")}), "vote", nm)
			}
			k = "vote"
		case "incomevote":
			// the income address of a deputy of the running term votes for a registered candidate
			var incs []common.Address
			for _, d := range n.DM.GetDeputiesByHeight(parent.Height()+1, true) {
				if v := l.view(head, d.MinerAddress); v.incomeSet {
					incs = append(incs, v.income)
				}
			}
			if nm, ok := pick(incs); ok && len(cands) > 0 {
				return mk(txVote(l.key(nm), cands[rnd.Intn(len(cands))], TxOpt{Exp: exp(), Msg: u_("incv")}), "vote", nm)
			}
			k = "vote"
		}
		switch k {
		case "asset-create":
			return mk(txCreateAsset(uk, 1, true, true, TxOpt{Exp: exp(), Msg: u_("ac")}), k, u)
		case "asset-issue":
			if len(assetCodes) > 0 {
				a := assetCodes[rnd.Intn(len(assetCodes))]
				to := keyAddr(ok_)
				if rnd.Intn(2) == 0 {
					to = keyAddr(l.key(a.owner)) // (VerifyAssetTx looks a transferred asset id up in the SENDER's canonical account: only the issuer's own holdings pass)
				}
				return mk(txIssueAsset(l.key(a.owner), to, a.code, fmt.Sprintf("%d", 1000+rnd.Intn(9000)), "m", TxOpt{Exp: exp(), Msg: u_("ai")}), k, a.owner)
			}
			return mk(txCreateAsset(uk, 1, true, true, TxOpt{Exp: exp(), Msg: u_("ac")}), "asset-create", u)
		case "asset-replenish":
			if len(assetIDs) > 0 {
				a := assetIDs[rnd.Intn(len(assetIDs))]
				return mk(txReplenishAsset(l.key(a.owner), keyAddr(l.key(a.holder)), a.code, a.id, fmt.Sprintf("%d", 1+rnd.Intn(500)), TxOpt{Exp: exp(), Msg: u_("ar")}), k, a.owner)
			}
			k = "transfer"
		case "asset-modify":
			// several profile keys at once: ModifyAssetProfileTx must apply them in a node-independent order
			if len(assetCodes) > 0 {
				a := assetCodes[rnd.Intn(len(assetCodes))]
				prof := map[string]string{types.AssetName: u_("N"), types.AssetSymbol: u_("S"), types.AssetDescription: u_("d"), types.AssetSuggestedGasLimit: fmt.Sprintf("%d", 60000+rnd.Intn(9000))}
				if rnd.Intn(3) == 0 {
					delete(prof, types.AssetSymbol)
				}
				return mk(txModifyAsset(l.key(a.owner), a.code, prof, TxOpt{Exp: exp(), Msg: u_("am")}), k, a.owner)
			}
			k = "transfer"
		case "asset-transfer":
			if len(assetIDs) > 0 {
				a := assetIDs[rnd.Intn(len(assetIDs))]
				return mk(txTransferAsset(l.key(a.holder), keyAddr(ok_), a.id, fmt.Sprintf("%d", 1+rnd.Intn(50)), TxOpt{Exp: exp(), Msg: u_("at")}), k, a.holder)
			}
			k = "transfer"
		}
		switch k {
		case "create-bh":
			// ENVIRONMENT reads: init code AND runtime store BLOCKHASH(NUMBER-k) for k = 1, 2, 3, 257 or an out-of-range
			// number (NUMBER+5) in slot 0 — the block result depends on the ancestor hashes of the block's OWN branch
			kk := []string{"1", "2", "2", "3", "3", "257", "oor"}[rnd.Intn(7)]
			pre, rt := bhCode(kk)
			return mk(txCreate(uk, nil, initWithPrelude(pre, rt), TxOpt{Exp: exp(), Msg: u_("cbh")}), "create-bh-"+kk, u)
		case "create-env":
			// COINBASE, TIMESTAMP, NUMBER, GASLIMIT stored in slots 1..4 (init code and runtime)
			pre, rt := envCode()
			return mk(txCreate(uk, nil, initWithPrelude(pre, rt), TxOpt{Exp: exp(), Msg: u_("cenv")}), k, u)
		case "create-counter":
			// storage[0]++ ; emits nothing
			rt := []byte{0x60, 0x01, 0x60, 0x00, 0x54, 0x01, 0x60, 0x00, 0x55, 0x00}
			return mk(txCreate(uk, nil, initCodeFor(rt), TxOpt{Exp: exp(), Msg: u_("cc")}), k, u)
		case "create-reverter":
			// storage[1]=7 then REVERT
			rt := []byte{0x60, 0x07, 0x60, 0x01, 0x55, 0x60, 0x00, 0x60, 0x00, 0xfd}
			return mk(txCreate(uk, nil, initCodeFor(rt), TxOpt{Exp: exp(), Msg: u_("cr")}), k, u)
		case "create-logger":
			// LOG1(topic 5) over empty data, then storage[2]=caller
			rt := []byte{0x60, 0x05, 0x60, 0x00, 0x60, 0x00, 0xa1, 0x33, 0x60, 0x02, 0x55, 0x00}
			return mk(txCreate(uk, nil, initCodeFor(rt), TxOpt{Exp: exp(), Msg: u_("cl")}), k, u)
		case "create-overdrafter":
			// INNER overdraft: CALL(GAS, F, BALANCE(ADDRESS)+1, 0,0,0,0): one unit more than the contract owns (the call's value
			// included) — the inner call must fail, nothing moves on, the contract keeps what it was sent
			target := keyAddr(ok_)
			rt := cat([]byte{0x60, 0x00, 0x60, 0x00, 0x60, 0x00, 0x60, 0x00, 0x30, 0x31, 0x60, 0x01, 0x01}, pushAddr(target), []byte{0x5a, 0xf1, 0x50, 0x00})
			lt := mk(txCreate(uk, lemo(int64(rnd.Intn(2))), initCodeFor(rt), TxOpt{Exp: exp(), Msg: u_("cod")}), k, u)
			lt.fwdTarget = target
			return lt
		case "create-forwarder", "create-forwarder-revert", "create-forward-to-contract":
			// INNER value flow: CALL(GAS, target, CALLVALUE, 0,0,0,0); POP; then STOP (forwarder: the whole value of the call
			// moves on to the target) or REVERT (forwarder-revert: the inner transfer must be undone, the tx fails, nothing
			// but the fee moves). forward-to-contract: the target is an existing contract (a reverter: the inner call fails and
			// the value stays in the forwarder; a killer / killer-self: the value is swept on or burnt by the callee)
			target := keyAddr(ok_)
			if k == "create-forward-to-contract" {
				if len(contracts) == 0 {
					k = "create-forwarder"
				} else {
					// (not a contract that burns — self-destruct to itself — nor one that forwards to a further contract: the
					// expected burn of the block is computed from the DIRECT calls only)
					target = contracts[rnd.Intn(len(contracts))]
					if cl := contractClass[target]; cl == "create-killer-self" || cl == "create-forward-to-contract" || cl == "" {
						k, target = "create-forwarder", keyAddr(ok_)
					}
				}
			}
			rt := cat([]byte{0x60, 0x00, 0x60, 0x00, 0x60, 0x00, 0x60, 0x00, 0x34}, pushAddr(target), []byte{0x5a, 0xf1, 0x50})
			if k == "create-forwarder-revert" {
				rt = cat(rt, []byte{0x60, 0x00, 0x60, 0x00, 0xfd})
			} else {
				rt = cat(rt, []byte{0x00})
			}
			lt := mk(txCreate(uk, lemo(int64(rnd.Intn(2))), initCodeFor(rt), TxOpt{Exp: exp(), Msg: u_("cf")}), k, u)
			lt.fwdTarget = target
			return lt
		case "create-creator":
			// INNER creation with endowment: CREATE(CALLVALUE, 0, 0) (empty init code: an empty contract that keeps the value)
			rt := []byte{0x60, 0x00, 0x60, 0x00, 0x34, 0xf0, 0x50, 0x00}
			return mk(txCreate(uk, nil, initCodeFor(rt), TxOpt{Exp: exp(), Msg: u_("ccr")}), k, u)
		case "create-killer":
			// SELFDESTRUCT to caller
			rt := []byte{0x33, 0xff}
			return mk(txCreate(uk, lemo(int64(rnd.Intn(3))), initCodeFor(rt), TxOpt{Exp: exp(), Msg: u_("ck")}), k, u)
		case "create-sweep":
			// a creation WITH value whose gas limit is swept around the exact need: need-1 (cannot pay the last gas of the code
			// deposit), a point inside the deposit range, just above the intrinsic gas, exactly the need, ample.
			// The need is measured by a trial build on the same parent that is thrown away.
			rts := [][]byte{
				{0x60, 0x01, 0x60, 0x00, 0x54, 0x01, 0x60, 0x00, 0x55, 0x00},
				{0x33, 0xff},
				{0x60, 0x05, 0x60, 0x00, 0x60, 0x00, 0xa1, 0x33, 0x60, 0x02, 0x55, 0x00},
				append([]byte{0x00}, make([]byte, 40)...),
			}
			rt := rts[rnd.Intn(len(rts))]
			val := lemo(int64(1 + rnd.Intn(3)))
			msg := fmt.Sprintf("sw%06d", uniq)
			uniq++
			need := l.measureCreate(parent, t, txCreate(uk, val, initCodeFor(rt), TxOpt{Exp: exp(), Msg: msg}))
			intr, _ := transaction.IntrinsicGas(params.CreateContractTx, initCodeFor(rt), msg)
			if need == 0 || intr == 0 || need <= intr+uint64(200*len(rt)) {
				c.Count("create-sweep:need-not-measurable")
				return mk(txCreate(uk, val, initCodeFor(rt), TxOpt{Exp: exp(), Msg: u_("csw")}), "create-counter", u)
			}
			deposit := uint64(200 * len(rt))
			variant := []string{"need-1", "need-1", "in-deposit-range", "deposit-range-start", "intrinsic+1", "need", "need", "ample"}[rnd.Intn(8)]
			gl := need
			switch variant {
			case "need-1":
				gl = need - 1
			case "in-deposit-range":
				gl = need - 1 - uint64(rnd.Intn(int(deposit)))
			case "deposit-range-start":
				gl = need - deposit
			case "intrinsic+1":
				gl = intr + 1
			case "ample":
				gl = need + uint64(1000+rnd.Intn(100000))
			}
			lt := mk(txCreate(uk, val, initCodeFor(rt), TxOpt{Exp: exp(), GasLimit: gl, Msg: msg}), "create-sweep:"+variant, u)
			lt.need, lt.intrinsic, lt.rtLen = need, intr, len(rt)
			return lt
		case "create-killer-self":
			// SELFDESTRUCT to ITSELF: the endowment (and whatever is sent with the destroying call) is burnt
			rt := []byte{0x30, 0xff}
			return mk(txCreate(uk, lemo(int64(1+rnd.Intn(4))), initCodeFor(rt), TxOpt{Exp: exp(), Msg: u_("cks")}), k, u)
		case "call", "call-value":
			if len(contracts) == 0 {
				return mk(txTransfer(uk, keyAddr(ok_), lemo(1), TxOpt{Exp: exp(), Msg: u_("nc")}), "transfer", u)
			}
			val := new(big.Int)
			if k == "call-value" {
				val = lemo(int64(1 + rnd.Intn(3)))
			}
			gl := uint64(60000 + rnd.Intn(200000))
			if rnd.Intn(5) == 0 {
				gl = uint64(21500 + rnd.Intn(3000)) // runs out of gas inside the contract
			}
			callee := contracts[rnd.Intn(len(contracts))]
			if k == "call-value" && len(l.fwd) > 0 && rnd.Intn(2) == 0 {
				// a contract with an INNER value flow (forwarder / forwarder-revert / overdrafter / forward-to-contract)
				var fl []common.Address
				for a := range l.fwd {
					fl = append(fl, a)
				}
				sort.Slice(fl, func(i, j int) bool { return bytes.Compare(fl[i][:], fl[j][:]) < 0 })
				callee = fl[rnd.Intn(len(fl))]
				if gl < 70000 && rnd.Intn(3) > 0 {
					gl += 70000
				}
			}
			return mk(txCall(uk, callee, val, []byte{byte(rnd.Intn(256))}, TxOpt{Exp: exp(), GasLimit: gl, Msg: u_("ca")}), k, u)
		case "transfer":
			return mk(txTransfer(uk, keyAddr(ok_), amountNear(nil), TxOpt{Exp: exp(), Msg: u_("m")}), k, u)
		case "zero":
			return mk(txTransfer(uk, keyAddr(ok_), new(big.Int), TxOpt{Exp: exp(), Msg: u_("z")}), k, u)
		case "pricey":
			return mk(txTransfer(uk, keyAddr(ok_), amountNear(nil), TxOpt{Exp: exp(), GasPrice: big.NewInt(int64(1+rnd.Intn(50)) * 1000000000), GasLimit: uint64(21000 + rnd.Intn(100000)), Msg: u_("p")}), k, u)
		case "overdraft":
			return mk(txTransfer(uk, keyAddr(ok_), lemo(int64(900000+rnd.Intn(1000))), TxOpt{Exp: exp(), Msg: u_("od")}), k, u)
		case "vote":
			var cand common.Address
			if len(cands) > 0 && rnd.Intn(6) > 0 {
				cand = cands[rnd.Intn(len(cands))]
			} else {
				cand = keyAddr(ok_)
			}
			return mk(txVote(uk, cand, TxOpt{Exp: exp(), Msg: u_("v")}), k, u)
		case "register":
			dep := lemo(int64(1000 + rnd.Intn(4)*50 + rnd.Intn(3)))
			if rnd.Intn(6) == 0 {
				dep = lemo(int64(900 + rnd.Intn(99)))
			}
			extra := map[string]string{}
			if rnd.Intn(2) == 0 {
				extra[types.CandidateKeyIncomeAddress] = keyAddr(ok_).String()
			}
			return mk(txRegister(uk, dep, l.key("node-"+u), false, extra, TxOpt{Exp: exp(), Msg: u_("r")}), k, u)
		case "topup":
			return mk(txRegister(uk, lemo(int64(rnd.Intn(260))), l.key("node-"+u), false, nil, TxOpt{Exp: exp(), Msg: u_("t")}), k, u)
		case "unregister":
			return mk(txRegister(uk, new(big.Int), l.key("node-"+u), true, nil, TxOpt{Exp: exp(), Msg: u_("un")}), k, u)
		case "box", "boxfail":
			var subsTx types.Transactions
			var subsL []*ledgerTx
			ns := 1 + rnd.Intn(3)
			for i := 0; i < ns; i++ {
				su := userNames[rnd.Intn(len(userNames))]
				var stx *types.Transaction
				if k == "boxfail" && i == ns-1 {
					stx = txTransfer(l.key(su), keyAddr(ok_), lemo(int64(950000)), TxOpt{Exp: exp(), Msg: u_("bf")})
				} else if rnd.Intn(4) == 0 && len(cands) > 0 {
					stx = txVote(l.key(su), cands[rnd.Intn(len(cands))], TxOpt{Exp: exp(), Msg: u_("bv")})
				} else {
					sgl := uint64(0)
					if rnd.Intn(2) == 0 {
						sgl = uint64(22000 + rnd.Intn(70000))
					}
					stx = txTransfer(l.key(su), keyAddr(ok_), amountNear(nil), TxOpt{Exp: exp(), GasLimit: sgl, GasPrice: big.NewInt(int64(1+rnd.Intn(3)) * 1000000000), Msg: u_("b")})
				}
				subsTx = append(subsTx, stx)
				subsL = append(subsL, mk(stx, "sub", su))
			}
			bgl := uint64(0)
			if rnd.Intn(2) == 0 {
				bgl = uint64(41000 + rnd.Intn(60000))
			}
			bt := mk(txBox(uk, subsTx, TxOpt{Exp: exp(), GasLimit: bgl, GasPrice: big.NewInt(int64(1+rnd.Intn(3)) * 1000000000), Msg: u_("box")}), k, u)
			bt.subs = subsL
			return bt
		case "payer":
			lt := mk(txTransfer(uk, keyAddr(ok_), amountNear(nil), TxOpt{Exp: exp(), Msg: u_("gp"), Payer: l.key(other)}), k, u)
			lt.payerKeys = []string{other}
			return lt
		case "payer-unsigned":
			// a reimbursement tx whose gas payer never signed
			tx := types.NewReimbursementTransaction(keyAddr(uk), keyAddr(ok_), keyAddr(ok_), lemo(1), nil, params.OrdinaryTx, nodeChainID, exp(), "", u_("gpu"))
			stx, _ := types.MakeReimbursementTxSigner().SignTx(tx, uk)
			stx = types.GasPayerSignatureTx(stx, oneGwei, 100000)
			return mk(stx, k, u)
		case "wrongkey":
			tx := types.NewTransaction(keyAddr(uk), keyAddr(ok_), lemo(1), 100000, oneGwei, nil, params.OrdinaryTx, nodeChainID, exp(), "", u_("wk"))
			stx, _ := types.MakeSigner().SignTx(tx, l.key("intruder"))
			return mk(stx, k, "intruder")
		case "tamper":
			// a signed tx whose content is edited afterwards (JSON level), one field at a time: every content field of the
			// txdata, on plain transfers, on a vote, on a registration, and the gas terms / content of a reimbursed tx AFTER
			// the gas payer signed
			field := []string{"amount", "to", "gasLimit", "gasPrice", "expirationTime", "message", "data", "from", "type", "chainID", "version", "toName", "gasPayer",
				"reimb-gasPrice", "reimb-gasLimit", "reimb-amount", "reimb-gasPayer", "vote-to", "register-data", "gasPayer-dropped"}[rnd.Intn(20)]
			if l.mode == "c06" && rnd.Intn(6) == 0 {
				field = "gasPayer-dropped"
			}
			var lt *ledgerTx
			switch {
			case strings.HasPrefix(field, "reimb-"):
				lt = mk(txTransfer(uk, keyAddr(ok_), lemo(2), TxOpt{Exp: exp(), Msg: u_("tmr"), Payer: l.key(other)}), k, u)
				lt.payerKeys = []string{other}
			case field == "vote-to":
				cand := keyAddr(ok_)
				if len(cands) > 0 {
					cand = cands[rnd.Intn(len(cands))]
				}
				lt = mk(txVote(uk, cand, TxOpt{Exp: exp(), Msg: u_("tmv")}), k, u)
			case field == "register-data":
				lt = mk(txRegister(uk, lemo(1100), l.key("node-"+u), false, nil, TxOpt{Exp: exp(), Msg: u_("tmg")}), k, u)
			default:
				lt = mk(txTransfer(uk, keyAddr(ok_), lemo(2), TxOpt{Exp: exp(), Msg: u_("tm")}), k, u)
			}
			byConstruction := false
			edited := func(f func(m map[string]interface{})) (out *types.Transaction) {
				defer func() {
					if r := recover(); r != nil {
						out = nil // the decoder refuses the edited tx: it cannot exist on the wire
					}
				}()
				return txEdit(lt.tx, func(m map[string]interface{}) {
					was, _ := json.Marshal(m)
					f(m)
					now, _ := json.Marshal(m)
					byConstruction = string(was) != string(now) // decided by the edit itself, not by any hash
				})
			}(func(m map[string]interface{}) {
				switch field {
				case "amount", "reimb-amount":
					m["amount"] = lemo(3).String()
				case "to":
					m["to"] = keyAddr(l.key("intruder")).String()
				case "gasLimit", "reimb-gasLimit":
					m["gasLimit"] = "0x30d41"
				case "gasPrice", "reimb-gasPrice":
					m["gasPrice"] = "2000000000"
				case "expirationTime":
					m["expirationTime"] = fmt.Sprintf("0x%x", exp()+1)
				case "message":
					m["message"] = "changed"
				case "data":
					m["data"] = "0x01"
				case "from":
					m["from"] = keyAddr(ok_).String() // (for ok_ == uk nothing changes: class below is corrected)
				case "type":
					m["type"] = "2" // the signed transfer re-labelled as a vote for its recipient
				case "chainID":
					m["chainID"] = "201"
				case "version":
					m["version"] = "2"
				case "toName":
					m["toName"] = "alice"
				case "gasPayer", "reimb-gasPayer":
					m["gasPayer"] = keyAddr(l.key("intruder")).String()
				case "gasPayer-dropped":
					// the optional member is removed: the tx then carries NO gas payer (rlp:"nil" pointer), which the accessor GasPayer()
					// reads as `from` — the signed field list must tell the two encodings apart, the tx id does
					delete(m, "gasPayer")
				case "vote-to":
					if len(cands) > 1 {
						m["to"] = cands[rnd.Intn(len(cands))].String()
					} else {
						m["to"] = keyAddr(l.key("intruder")).String()
					}
				case "register-data":
					// the income address of the signed registration is redirected
					var p types.Profile
					json.Unmarshal(lt.tx.Data(), &p)
					p[types.CandidateKeyIncomeAddress] = keyAddr(l.key("intruder")).String()
					nd, _ := json.Marshal(p)
					m["data"] = common.ToHex(nd)
				}
			})
			if edited == nil {
				c.Count("tamper:refused-by-decoder:" + field)
				lt.class = "transfer"
				return lt
			}
			lt.tx = edited
			lt.tampered = byConstruction
			lt.class = "tamper-" + field
			if !lt.tampered {
				lt.class = "transfer" // the edit happened to write the value that was there
			} else if lt.tx.Hash() == lt.orig.Hash() {
				c.Fail("c06/hash-ignores-field/"+field, fmt.Sprintf("the tx id (Transaction.Hash) is the same before and after the %s member of the tx was changed", field), nil)
			}
			return lt
		case "tamper-box":
			// the owner signs a box holding sub-tx A; afterwards the box DATA is edited at JSON level: A is replaced by B
			// (validly signed by its own sender). The box signature covers the sub-tx hashes, so the box must be dead —
			// also when B's informational "hash" member claims to be A's hash.
			su, su2 := userNames[rnd.Intn(len(userNames))], userNames[rnd.Intn(len(userNames))]
			a := txTransfer(l.key(su), keyAddr(ok_), lemo(1), TxOpt{Exp: exp(), Msg: u_("tba")})
			b := txTransfer(l.key(su2), keyAddr(l.key("intruder")), lemo(3), TxOpt{Exp: exp(), Msg: u_("tbb")})
			box := txBox(uk, types.Transactions{a}, TxOpt{Exp: exp(), Msg: u_("tbox")})
			var bd map[string]interface{}
			json.Unmarshal(box.Data(), &bd)
			bj, _ := b.MarshalJSON()
			var bm map[string]interface{}
			json.Unmarshal(bj, &bm)
			variant := []string{"claims-old-hash", "own-hash", "no-hash"}[rnd.Intn(3)]
			switch variant {
			case "claims-old-hash":
				bm["hash"] = a.Hash().Hex()
			case "no-hash":
				delete(bm, "hash")
			}
			bd["subTxList"] = []interface{}{bm}
			nd, _ := json.Marshal(bd)
			lt := mk(txEdit(box, func(m map[string]interface{}) { m["data"] = common.ToHex(nd) }), k, u)
			lt.subs = []*ledgerTx{mk(b, "sub", su2)}
			lt.tampered = true
			lt.class = "tamper-box-" + variant
			return lt
		case "tamper-box-multi":
			// a box with 2..3 sub-txs, signed by its owner; AFTERWARDS the sub-tx list inside the box data is edited at one
			// position: sub-tx i swapped for another validly signed tx / removed / a tx appended / two neighbours reordered.
			// The owner's signature covers the list of ALL sub-tx hashes in order: every such box must be dead.
			// Tampered BY CONSTRUCTION (nothing is asked of the implementation).
			nSub := 2 + rnd.Intn(2)
			var subsTx types.Transactions
			var names []string
			for i := 0; i < nSub; i++ {
				su := userNames[rnd.Intn(len(userNames))]
				subsTx = append(subsTx, txTransfer(l.key(su), keyAddr(ok_), lemo(1), TxOpt{Exp: exp(), Msg: u_("tbm")}))
				names = append(names, su)
			}
			su2 := userNames[rnd.Intn(len(userNames))]
			extra := txTransfer(l.key(su2), keyAddr(l.key("intruder")), lemo(3), TxOpt{Exp: exp(), Msg: u_("tbx")})
			box := txBox(uk, subsTx, TxOpt{Exp: exp(), Msg: u_("tbmb")})
			pos := rnd.Intn(nSub)
			opn := []string{"swap", "swap", "remove", "append", "reorder"}[rnd.Intn(5)]
			newTxs := append(types.Transactions{}, subsTx...)
			newNames := append([]string{}, names...)
			switch opn {
			case "swap":
				newTxs[pos], newNames[pos] = extra, su2
			case "remove":
				newTxs = append(newTxs[:pos:pos], newTxs[pos+1:]...)
				newNames = append(newNames[:pos:pos], newNames[pos+1:]...)
			case "append":
				newTxs, newNames = append(newTxs, extra), append(newNames, su2)
				pos = nSub
			case "reorder":
				q := (pos + 1) % nSub
				newTxs[pos], newTxs[q] = newTxs[q], newTxs[pos]
				newNames[pos], newNames[q] = newNames[q], newNames[pos]
			}
			var bd map[string]interface{}
			json.Unmarshal(box.Data(), &bd)
			var lst []interface{}
			for _, st := range newTxs {
				bj, _ := st.MarshalJSON()
				var bm map[string]interface{}
				json.Unmarshal(bj, &bm)
				lst = append(lst, bm)
			}
			bd["subTxList"] = lst
			nd, _ := json.Marshal(bd)
			lt := mk(txEdit(box, func(m map[string]interface{}) { m["data"] = common.ToHex(nd) }), k, u)
			for i, st := range newTxs {
				lt.subs = append(lt.subs, mk(st, "sub", newNames[i]))
			}
			lt.tampered = true
			lt.class = fmt.Sprintf("tamper-box-multi:%s@%d/%d", opn, pos, nSub)
			return lt
		case "payer-self-forged":
			// V once endorsed the GAS of somebody else's reimbursement tx T0 (its payer signature is public). The forger
			// re-uses T0's signature list, payer signature, gas price and gas limit in a tx FROM V, paid by V, with content of
			// his choice. The payer signature covers no content; the sender's signature does not match: the tx must be dead.
			t0 := txTransfer(uk, keyAddr(ok_), lemo(1), TxOpt{Exp: exp(), Msg: u_("psf0"), Payer: l.key(other)})
			victim := keyAddr(l.key(other))
			lt := mk(txEdit(t0, func(m map[string]interface{}) {
				m["from"] = victim.String()
				m["to"] = keyAddr(l.key("intruder")).String()
				m["amount"] = lemo(int64(1 + rnd.Intn(5))).String()
			}), k, u)
			lt.payerKeys = []string{other}
			lt.tampered = true
			lt.class = "payer-self-forged"
			return lt
		case "extrasig":
			// a plain account's tx with a surplus signature by a foreign key appended
			tx := types.NewTransaction(keyAddr(uk), keyAddr(ok_), lemo(1), 100000, oneGwei, nil, params.OrdinaryTx, nodeChainID, exp(), "", u_("xs"))
			stx, _ := types.MakeSigner().SignTx(tx, uk)
			stx, _ = types.MakeSigner().SignTx(stx, l.key("intruder"))
			return mk(stx, k, u, "intruder")
		case "setsigners":
			a, b2, c3 := userNames[rnd.Intn(len(userNames))], userNames[rnd.Intn(len(userNames))], userNames[rnd.Intn(len(userNames))]
			ws := [][]uint8{{50, 50, 30}, {60, 40, 1}, {100, 1, 1}, {34, 33, 33}, {50, 49, 0}}[rnd.Intn(5)]
			var ss types.Signers
			var keys []string
			for i, nm := range []string{a, b2, c3} {
				if ws[i] == 0 {
					continue
				}
				ss = append(ss, types.SignAccount{Address: keyAddr(l.key(nm)), Weight: ws[i]})
				keys = append(keys, nm)
			}
			lt := mk(txModifySigners(uk, keyAddr(uk), ss, TxOpt{Exp: exp(), Msg: u_("ss")}), k, u)
			pendingMS[lt.id] = struct {
				acct string
				keys []string
			}{u, keys}
			return lt
		case "ms-ok", "ms-dup", "ms-mall", "ms-short", "ms-ownkey", "ms-renonce":
			if len(msAccts) == 0 {
				return mk(txTransfer(uk, keyAddr(ok_), lemo(1), TxOpt{Exp: exp(), Msg: u_("nm")}), "transfer", u)
			}
			acct := msAccts[rnd.Intn(len(msAccts))]
			ak := l.key(acct)
			regs := l.view(head, keyAddr(ak)).signers
			tx := types.NewTransaction(keyAddr(ak), keyAddr(ok_), lemo(1), 100000, oneGwei, nil, params.OrdinaryTx, nodeChainID, exp(), "", u_(k))
			nameOf := func(a common.Address) string {
				for _, nm := range userNames {
					if keyAddr(l.key(nm)) == a {
						return nm
					}
				}
				return ""
			}
			var signed []string
			stx := tx
			switch k {
			case "ms-ok":
				for _, r := range regs {
					if nm := nameOf(r.Address); nm != "" {
						stx, _ = types.MakeSigner().SignTx(stx, l.key(nm))
						signed = append(signed, nm)
					}
				}
			case "ms-ownkey":
				// the account converted itself to multisig; its ORIGINAL key signs alone (first signature),
				// optionally followed by the lightest registered signer
				stx, _ = types.MakeSigner().SignTx(stx, ak)
				signed = append(signed, acct)
				if rnd.Intn(2) == 0 && len(regs) > 0 {
					sort.Slice(regs, func(i, j int) bool { return regs[i].Weight < regs[j].Weight })
					if nm := nameOf(regs[0].Address); nm != "" {
						stx, _ = types.MakeSigner().SignTx(stx, l.key(nm))
						signed = append(signed, nm)
					}
				}
			case "ms-short":
				// only the lightest signer
				sort.Slice(regs, func(i, j int) bool { return regs[i].Weight < regs[j].Weight })
				if len(regs) > 0 {
					nm := nameOf(regs[0].Address)
					stx, _ = types.MakeSigner().SignTx(stx, l.key(nm))
					signed = append(signed, nm)
				}
			case "ms-dup", "ms-mall":
				// one registered signer, its signature repeated until the weights would add up to 100
				if len(regs) > 0 {
					r := regs[rnd.Intn(len(regs))]
					nm := nameOf(r.Address)
					stx, _ = types.MakeSigner().SignTx(stx, l.key(nm))
					signed = append(signed, nm)
					reps := 100/int(r.Weight) + 1
					sig := stx.Sigs()[0]
					var all []string
					for i := 0; i < reps && i < 101; i++ {
						s := sig
						if k == "ms-mall" && i%2 == 1 {
							s = malleate(sig)
						}
						all = append(all, common.ToHex(s))
					}
					stx = txEdit(stx, func(m map[string]interface{}) { m["sigs"] = all })
				}
			case "ms-renonce":
				// ONE registered signer (weight < 100 when there is one) signs the same hash again and again with DIFFERENT
				// nonces: different bytes, each individually valid and canonical, all by the same signer — its weight counts once
				if len(regs) > 0 {
					sort.Slice(regs, func(i, j int) bool { return regs[i].Weight < regs[j].Weight })
					r := regs[rnd.Intn(len(regs))]
					if regs[0].Weight < 100 && r.Weight >= 100 {
						r = regs[0]
					}
					if nm := nameOf(r.Address); nm != "" {
						stx, _ = types.MakeSigner().SignTx(stx, l.key(nm))
						signed = append(signed, nm)
						h := types.MakeSigner().Hash(tx)
						all := []string{common.ToHex(stx.Sigs()[0])}
						reps := 100/int(r.Weight) + 1
						for i := 1; i < reps && i < 101; i++ {
							if sig := signWithNonce(h[:], l.key(nm), new(big.Int).SetUint64(rnd.Uint64()|1)); sig != nil {
								all = append(all, common.ToHex(sig))
							}
						}
						if len(all) > 1 {
							c.Count("nontrivial:c06:one-signer-several-nonces")
						}
						stx = txEdit(stx, func(m map[string]interface{}) { m["sigs"] = all })
					}
				}
			}
			lt := mk(stx, k, signed...)
			return lt
		}
		return mk(txTransfer(uk, keyAddr(ok_), lemo(1), TxOpt{Exp: exp(), Msg: u_("d")}), "transfer", u)
	}

	// block 1: fund the users
	first := true
	resync := func() {
		// the ledger model does not execute bytecode / precompiles: re-synchronise it from the real state
		for _, a := range l.univ {
			v := l.view(parent.Hash(), a)
			dep := "-"
			if v.deposit != "" {
				dep = v.deposit
			}
			isDep := 0
			if id := l.nodeIDOf(parent.Hash(), a); id != "" && n.DM.IsNodeDeputy(parent.Height()+1, common.FromHex(id)) {
				isDep = 1
			}
			c.Op(fmt.Sprintf("acct %d %s %s %d %d %s %d %d", l.label(a), v.bal.String(), v.votes.String(), l.label(v.voteFor), v.isCand, dep, l.label(v.income), isDep), "ok")
		}
		l.profOps(parent.Hash()) // c05_profile.go
		// signers survive a resync only through setsigners lines: replay them — from the harness's OWN record of the main
		// chain's signer lists (never from what the implementation's state says)
		var tl []common.Address
		for a := range l.truth {
			tl = append(tl, a)
		}
		sort.Slice(tl, func(i, j int) bool { return l.label(tl[i]) < l.label(tl[j]) })
		for _, a := range tl {
			var ss []string
			for _, r := range l.truth[a] {
				ss = append(ss, fmt.Sprintf("%d:%d", l.label(r.Address), r.Weight))
			}
			c.Op(fmt.Sprintf("signers %d %s", l.label(a), strings.Join(append([]string{"-"}, ss...), " ")), "ok")
		}
	}
	prevDeputies := ""
	for blk := 0; blk < nBlocks; blk++ {
		height := parent.Height() + 1
		l.curHeight = height
		phase := height % termT
		isSnapshot := deputynode.IsSnapshotBlock(height)
		isReward := deputynode.IsRewardBlock(height)
		// the reward heights in closed form over the durations the harness chose (C13's theorem reward_iff_term_starts is about
		// the regenerated function; this literal does not go through it)
		if want := height >= termT+termI+1 && height%termT == termI+1; want != isReward {
			c.Fail("c05/fed-fact/reward-height", fmt.Sprintf("height %d (TermDuration %d, InterimDuration %d): IsRewardBlock=%v, closed form h>=T+I+1 && h mod T == I+1 says %v", height, termT, termI, isReward, want), nil)
		}
		nearBoundary = !first && (phase+2 >= termT || phase <= termI+1)
		contractBlock = false
		dryBlock := 0
		assetBlock = false
		rewardSetBlock := false
		var cand []*ledgerTx
		if first {
			for i, u := range userNames {
				amt := lemo(int64(3000 + i*777))
				if i%3 == 0 {
					amt = new(big.Int).Add(lemo(int64(200*(10+i))), big.NewInt(int64(i-1)))
				}
				cand = append(cand, mk(txTransfer(w.FounderKey, keyAddr(l.key(u)), amt, TxOpt{Exp: exp(), Msg: fmt.Sprintf("fund%d", i)}), "fund", "founder"))
			}
			for i, u := range extraNames {
				// genesis deputies and their income addresses: enough to pay gas, to vote with weight and to top up
				amt := new(big.Int).Add(lemo(int64(150+i*170)), big.NewInt(int64(i)))
				cand = append(cand, mk(txTransfer(w.FounderKey, keyAddr(l.key(u)), amt, TxOpt{Exp: exp(), Msg: fmt.Sprintf("fundx%d", i)}), "fund", "founder"))
			}
			first = false
		} else if phase == termI+2 && rnd.Intn(5) > 0 {
			// the reward manager (founder) sets the reward of the RUNNING term through precompile 0x09; it is paid by
			// issueTermReward in the next reward block. The ledger model does not run precompiles: resync block.
			rewardSetBlock = true
			term := deputynode.GetSignerTermIndexByHeight(height)
			var value *big.Int
			switch rnd.Intn(6) {
			case 0:
				value = lemo(3000)
			case 1:
				value = lemo(int64(900 + rnd.Intn(5000)))
			case 2:
				value = new(big.Int).Add(lemo(int64(1000+rnd.Intn(1000))), big.NewInt(int64(rnd.Intn(1000000)))) // not a multiple of the precision
			case 3:
				value = big.NewInt(int64(1 + rnd.Intn(1000))) // below the precision: every salary rounds to 0
			case 4:
				value = lemo(int64(1 + rnd.Intn(5))) // a few LEMO over several nodes: large rounding remainder
			default:
				value = lemo(100000)
			}
			// (the running term by the harness's OWN arithmetic over the durations it chose)
			ownTerm := uint32(0)
			if height >= termT+termI+1 {
				ownTerm = (height - termI - 1) / termT
			}
			if ownTerm != term {
				c.Fail("c05/fed-fact/term-index", fmt.Sprintf("height %d (T=%d I=%d): GetSignerTermIndexByHeight says %d, own arithmetic %d", height, termT, termI, term, ownTerm), nil)
			}
			{
				lt := mk(txSetReward(w.FounderKey, ownTerm, value, TxOpt{Exp: exp(), Msg: u_("rw")}), "set-reward", "founder")
				lt.rewardTerm, lt.rewardValue = ownTerm, value
				cand = append(cand, lt)
			}
			c.Count("block:set-reward")
		} else if mode == "c01" && blk == 1 {
			// the environment-reading contracts are deployed at once, so that the fork scenarios below find them
			contractBlock = true
			for _, kk := range []string{"1", "2", "3", "257", "oor"} {
				pre, rt := bhCode(kk)
				cand = append(cand, mk(txCreate(w.FounderKey, nil, initWithPrelude(pre, rt), TxOpt{Exp: exp(), Msg: u_("cbh")}), "create-bh-"+kk, "founder"))
			}
			pre, rt := envCode()
			cand = append(cand, mk(txCreate(w.FounderKey, nil, initWithPrelude(pre, rt), TxOpt{Exp: exp(), Msg: u_("cenv")}), "create-env", "founder"))
		} else {
			contractBlock = !isReward && !isSnapshot && (mode == "c01" && rnd.Intn(3) == 0 || mode == "c05" && rnd.Intn(5) == 0)
			// BLOCKHASH across a FORK of the unstable chain (mode c01): a side branch of three blocks is mined on this parent
			// and executed by BOTH nodes' engines; its third block asks BLOCKHASH(h) (= the side branch's first block). The main
			// chain then goes on from the same parent; its block h+2 asks BLOCKHASH(h) again and must get the MAIN block.
			if mode == "c01" && !isReward && !isSnapshot && phase >= termI+3 && phase+2 <= termT-1 && forcedCall[height] == (common.Address{}) && forcedCall[height+1] == (common.Address{}) && rnd.Intn(2) == 0 {
				if bh2 := l.aliveContract(parent.Hash(), contractClass, "create-bh-2"); bh2 != (common.Address{}) {
					if l.blockhashFork(nb, parent, t, exp(), bh2) {
						forcedCall[height+2] = bh2
					}
				}
			}
			if to := forcedCall[height]; to != (common.Address{}) && !isReward && !isSnapshot {
				contractBlock = true
				cand = append(cand, mk(txCall(w.FounderKey, to, nil, []byte{1}, TxOpt{Exp: exp(), GasLimit: 200000, Msg: u_("bhm")}), "call-blockhash-after-fork", "founder"))
				c.Count("bhfork:main-block-asks-BLOCKHASH(fork-height)")
			}
			assetBlock = !contractBlock && !isReward && !isSnapshot && mode == "c01" && rnd.Intn(5) == 0
			nt := 1 + rnd.Intn(7)
			if isReward && rnd.Intn(3) == 0 {
				nt = 0 // nothing but Finalize changes the state
			}
			for i := 0; i < nt; i++ {
				cand = append(cand, genTx(parent.Hash()))
			}
			if !assetBlock && !isReward && !isSnapshot && blk > 1 && rnd.Intn(9) == 0 {
				// DRY block: 3..6 plain transfers whose gas limit barely exceeds what they use, and (below) a block gas limit
				// with room for only some of them: the pool falls under one OrdinaryTxGas while candidates are still waiting —
				// ApplyTxs' "not enough gas for further transactions" exit, taken with fees already collected
				dryBlock = 1 + rnd.Intn(3)
				cand = nil
				for i := 0; i < dryBlock+1+rnd.Intn(3); i++ {
					un := userNames[rnd.Intn(len(userNames))]
					on := userNames[rnd.Intn(len(userNames))]
					cand = append(cand, mk(txTransfer(l.key(un), keyAddr(l.key(on)), lemo(int64(1+rnd.Intn(3))), TxOpt{Exp: exp(), GasPrice: big.NewInt(int64(1+rnd.Intn(5)) * 1000000000), GasLimit: uint64(22500 + rnd.Intn(1500)), Msg: fmt.Sprintf("dry%d", l.nextID)}), "dry-transfer", un))
				}
				c.Count("block:dry(room for fewer plain txs than candidates)")
			}
		}
		// the miner only ever sees what its pool admitted: a candidate that fails VerifyTxBody never reaches ApplyTxs
		{
			var kept []*ledgerTx
			for _, lt := range cand {
				if e := lt.tx.VerifyTxBody(nodeChainID, uint64(t), false); e != nil {
					c.Count("cand:refused-by-pool(VerifyTxBody):" + lt.class)
					continue
				}
				kept = append(kept, lt)
			}
			cand = kept
		}
		minerAddr, k, err := l.inTurn(parent, t)
		for tries := 0; err == errSlotUnmineable && tries < 8; tries++ {
			// that deputy cannot produce: the next one takes over after the timeout
			c.Count("block:slot-skipped(duplicate-node-id)")
			t += uint32(w.Timeout / 1000)
			minerAddr, k, err = l.inTurn(parent, t)
		}
		if err != nil {
			// (e.g. a term without deputies) — a finding of C10's area, not of this scenario
			c.Fail("c10/ledger-scenario-stopped", fmt.Sprintf("height %d: %v", height, err), nil)
			c.Count("scenario:stopped")
			break
		}
		miner := minerAddr
		if w.KeyOfMiner(miner) == nil {
			c.Count("block:mined-by-non-genesis-deputy")
		}
		// the block gas limit is the miner's choice: sometimes make it tight, so that the gas pool runs out
		// in the middle of the candidate list (or in the middle of a box)
		blockGas := uint64(105000000)
		if !first && blk > 1 && !rewardSetBlock && rnd.Intn(4) == 0 {
			blockGas = uint64(25000 + rnd.Intn(400000))
			c.Count("block:tight-gas-limit")
		}
		if dryBlock > 0 {
			blockGas = uint64(21000*dryBlock + 3500 + rnd.Intn(15000))
		}
		modelled := !contractBlock && !rewardSetBlock && !assetBlock
		blockLine := fmt.Sprintf("block %d %d %d %s", height, l.label(miner), blockGas, l.depsField(parent.Hash(), height))
		var txLines []string
		for _, lt := range cand {
			txLines = append(txLines, l.txLine("tx", lt))
			l.signerFact(lt)
			for _, st := range lt.subs {
				txLines = append(txLines, l.txLine("sub", st))
				l.signerFact(st)
			}
		}
		var rf *rewardFacts
		if isReward {
			rf, err = l.rewardFacts(parent.Hash(), height)
			if err != nil {
				c.Fail("c10/ledger-scenario-stopped", fmt.Sprintf("reward height %d: %v", height, err), nil)
				c.Count("scenario:stopped")
				break
			}
		}
		before := map[common.Address]*big.Int{}
		for _, a := range l.univ {
			before[a] = l.view(parent.Hash(), a).bal
		}
		var refunds []common.Address
		var txs types.Transactions
		byHash := map[common.Hash]*ledgerTx{}
		stopped := false
		res, pmsg := SafeMsg(func() string {
			mkTxs := func() {
				txs = nil
				byHash = map[common.Hash]*ledgerTx{}
				for _, lt := range cand {
					txs = append(txs, lt.tx)
					byHash[lt.tx.Hash()] = lt
				}
			}
			mkTxs()
			if (assetBlock || os.Getenv("HX_DEBUG") == "build") && os.Getenv("HX_DEBUG") != "" {
				log.Setup(log.LevelInfo, false, true)
			}
			b, invalid, rec, err := l.buildJudged(parent, t, txs, k, blockGas)
			if (assetBlock || os.Getenv("HX_DEBUG") == "build") && os.Getenv("HX_DEBUG") != "" {
				log.Setup(log.LevelCrit, false, false)
			}
			if err != nil {
				return "builderr " + err.Error()
			}
			if isSnapshot && (len(b.DeputyNodes) == 0 || !deputiesLoadable(b)) && len(cand) > 0 {
				// a vote change inside the snapshot block broke the order of the deputy list (known finding
				// c10/snapshot-deputies-not-loadable: the node would panic when the block becomes stable):
				// not this scenario's subject — the miner mines the snapshot block without transactions instead
				c.Count("snapshot:deputies-not-loadable:re-mined-empty")
				cand, txLines = nil, nil
				mkTxs()
				b, invalid, rec, err = l.buildJudged(parent, t, txs, k, blockGas)
				if err != nil {
					return "builderr " + err.Error()
				}
			}
			// ABANDONED execution: the miner built a block that changes an account's signer list — and the block is thrown
			// away (lost slot). Another block is mined on the same parent instead: a spend of that account signed by the signers
			// the chain REGISTERED (must be executed) and one signed by the signers of the never-committed list (must not).
			// The model never hears of the abandoned block.
			if modelled && !isSnapshot && !isReward && mode != "c11" && err == nil && rnd.Intn(2) == 0 {
				if repl := l.afterAbandoned(b, exp(), mk); repl != nil {
					c.Count("abandoned:block-with-signer-change-thrown-away")
					cand = repl
					txLines = nil
					for _, lt := range cand {
						txLines = append(txLines, l.txLine("tx", lt))
					}
					mkTxs()
					b, invalid, rec, err = l.buildJudged(parent, t, txs, k, blockGas)
					if err != nil {
						return "builderr " + err.Error()
					}
					sel := map[int]bool{}
					for _, tx := range b.Txs {
						sel[byHashID(byHash, tx)] = true
					}
					for _, lt := range cand {
						switch {
						case lt.class == "spend-by-registered-signers" && !sel[lt.id]:
							c.Fail("c06/authorised-refused/after-abandoned-execution", fmt.Sprintf("block %d: a tx of multisig account %d signed by ALL its registered signers is refused after a block that changed the signer list was built on the same parent and thrown away", height, l.label(lt.tx.From())), nil)
						case lt.class == "spend-by-registered-signers":
							c.Count("abandoned:spend-by-registered-signers-executed")
						case lt.class == "spend-by-abandoned-signers" && !sel[lt.id]:
							c.Count("abandoned:spend-by-abandoned-signers-refused")
						}
					}
				}
			}
			if isSnapshot && (len(b.DeputyNodes) == 0 || !deputiesLoadable(b)) {
				c.Fail("c10/ledger-scenario-stopped", fmt.Sprintf("snapshot block %d: deputy list %s is not loadable even without transactions", height, b.DeputyNodes.String()), nil)
				c.Count("scenario:stopped")
				stopped = true
				return "stopped"
			}
			refunds = rec.refunds
			if isReward != rec.called {
				c.Fail("c05/reward-block-schedule", fmt.Sprintf("block %d: IsRewardBlock=%v but LoadRefundCandidates called=%v", height, isReward, rec.called), nil)
			}
			// the VALIDATOR path must refuse what the miner path discarded: a block forged by a deputy that carries one of the
			// unauthorised / tampered candidates (tx root recomputed, header re-signed by the miner's node key)
			if modelled && mode != "c11" && len(invalid) > 0 && rnd.Intn(3) == 0 {
				for _, itx := range invalid {
					lt := byHash[itx.Hash()]
					if lt == nil || !(lt.tampered || map[string]bool{"wrongkey": true, "payer-unsigned": true, "ms-short": true, "ms-dup": true, "ms-mall": true, "ms-renonce": true, "payer-ms-short": true}[lt.class]) {
						continue
					}
					fb := CloneBlock(b)
					fb.Txs = append(fb.Txs, cloneTx(itx))
					fb.Header.TxRoot = fb.Txs.MerkleRootSha()
					Resign(fb, k)
					if e := n.Insert(fb); e == nil {
						c.Fail("c06/forged-block-accepted/"+lt.class, fmt.Sprintf("block %d: the validator path accepted a block that carries a tx the miner path refused as unauthorised (class %s)", b.Height(), lt.class), nil)
					} else {
						c.Count("c06:forged-block-rejected:" + lt.class)
					}
					// InsertBlock alone cannot tell WHY it refused (review H3: the appended tx was never executed, so its
					// GasUsed is 0 and the header roots are the honest block's -- the block is refused even when no signature
					// is looked at).  The decisive observation is the validator's own TxProcessor.Process on the forged tx
					// list over the parent's state: the honest txs carry their real gasUsed and pass, and the appended one
					// must be REFUSED (ErrInvalidTxInBlock); "gas used not equal" means Process executed it.
					am := account.NewManager(parent.Hash(), n.DB)
					proc := transaction.NewTxProcessor(keyAddr(n.W.FounderKey), nodeChainID, parentLoader{n}, am, n.DB, n.DM)
					res := Safe(func() string {
						var ftxs types.Transactions
						for _, x := range fb.Txs {
							ftxs = append(ftxs, cloneTx(x)) // (Transaction.Clone dereferences a nil GasPayer: tamper class gasPayer-dropped)
						}
						_, e := proc.Process(fb.Header, ftxs)
						if e == nil {
							return "executed"
						}
						if e == transaction.ErrInvalidTxInBlock {
							return "refused"
						}
						return "executed(" + e.Error() + ")"
					})
					if res != "refused" {
						c.Fail("c06/unauthorised-executed-by-validator/forged-block/"+lt.class, fmt.Sprintf("block %d: TxProcessor.Process over the honest txs + a tx the miner path refused as unauthorised (class %s): %s", b.Height(), lt.class, res), nil)
					} else {
						c.Count("c06:forged-tx-refused-by-process:" + lt.class)
					}
					break
				}
			}
			if mode == "c01" && len(b.Txs) < len(txs) {
				// some candidates were not included (refused as invalid, or skipped because the block is full)
				l.discardTrace(b, parent, t, byHash, blockGas, k)
			}
			l.captureParent(b, miner)
			l.evmValueBlock(b, miner)             // c05_evmvalue.go: contract blocks vs LemoModel.EvmValue (re-executed by Process on the parent state)
			l.guardCaptureIf(modelled, b, byHash) // c05_guard.go: the real engine's raw change logs of the block (C11 `guard` op)
			if e := n.Insert(CloneBlock(b)); e != nil {
				if os.Getenv("HX_DEBUG") != "" {
					log.Setup(log.LevelDebug, false, true)
					n.Insert(CloneBlock(b))
					log.Setup(log.LevelCrit, false, false)
				}
				c.Fail("c01/honest-block-rejected", fmt.Sprintf("block %d built by the miner path is rejected by the validator path: %v; classes=%v", b.Height(), e, classesOf(cand)), nil)
				return "rejected"
			}
			if mode == "c01" {
				if n.BC.StableBlock().Hash() == b.Hash() {
					// a term with a single deputy: the miner's own signature makes the block stable at once, its parent's
					// view is gone — re-mining on the parent is not possible any more
					c.Count("c01:rebuild-skipped(block-stable-at-once)")
				} else {
					l.rebuildChecks(b, txs, t, byHash, blockGas, k)
				}
				l.redoChecks(b)
				l.redoKeyed(b)
			}
			var sel, inv []string
			for _, tx := range b.Txs {
				sel = append(sel, fmt.Sprintf("%d:%d", byHashID(byHash, tx), tx.GasUsed()))
			}
			if len(b.Txs) > 0 && len(b.Txs)+len(invalid) < len(cand) && blockGas-b.GasUsed() < 21000 {
				c.Count("nontrivial:block:pool-ran-dry-with-candidates-left(fees collected)")
			}
			var invIDs []int
			for _, tx := range invalid {
				invIDs = append(invIDs, byHashID(byHash, tx))
			}
			sort.Ints(invIDs)
			for _, id := range invIDs {
				inv = append(inv, fmt.Sprintf("%d", id))
			}
			if modelled {
				l.oracles(b, invalid, byHash, before, miner, multisig, rf, refunds)
			} else {
				// contract / set-reward / asset blocks: EVM value flows, reverts, out-of-gas, self-destruct, the precompile call,
				// asset handlers are not modelled — conservation is judged by the oracle alone (state reads of every named address)
				l.contractSupplyOracle(b, miner, byHash, contractClass)
				if rewardSetBlock {
					// what the reward manager set for which term, by the harness's own record
					for _, tx := range b.Txs {
						if lt := byHash[tx.Hash()]; lt != nil && lt.class == "set-reward" && tx.GasUsed() < tx.GasLimit() {
							l.rewardSet[lt.rewardTerm] = lt.rewardValue
						}
					}
				}
			}
			for _, tx := range b.Txs {
				if tx.Type() == params.CreateContractTx {
					if lt := byHash[tx.Hash()]; lt != nil {
						contractClass[crypto.CreateContractAddress(tx.From(), tx.Hash())] = lt.class
						if lt.fwdTarget != (common.Address{}) {
							l.fwd[crypto.CreateContractAddress(tx.From(), tx.Hash())] = lt.fwdTarget
						}
					}
				}
			}
			for _, cl := range b.ChangeLogs {
				if cl.LogType == account.CodeLog {
					contracts = append(contracts, cl.Address)
				}
			}
			for _, tx := range b.Txs {
				lt := byHash[tx.Hash()]
				if lt == nil {
					continue
				}
				if !modelled {
					c.Count("included:" + lt.class)
				}
				switch tx.Type() {
				case params.CreateAssetTx:
					assetCodes = append(assetCodes, assetRec{code: tx.Hash(), owner: l.actorOf[tx.From()]})
				case params.IssueAssetTx:
					if tx.To() != nil {
						if hn, ok := l.actorOf[*tx.To()]; ok {
							var iss struct {
								AssetCode common.Hash `json:"assetCode"`
							}
							json.Unmarshal(tx.Data(), &iss)
							// (category 1 = token asset: the asset id of every issue IS the asset code)
							assetIDs = append(assetIDs, assetRec{code: iss.AssetCode, id: iss.AssetCode, owner: l.actorOf[tx.From()], holder: hn})
						}
					}
				}
			}
			if mode == "c01" {
				// sometimes node B first executes a COMPETING block on the same parent (another slot, other txs) that the
				// network then drops: its state must leave no trace when B validates node A's block
				if !first && !isSnapshot && n.BC.StableBlock().Hash() != b.Hash() && rnd.Intn(5) == 0 {
					l.competingBlock(nb, parent, b, t, exp())
				}
				if !l.crossNode(nb, b, txs, t, byHash) {
					// node B lost the chain: a fresh follower replays node A's blocks (with their confirmations)
					Safe(func() string { nb.Close(); return "" })
					nb = w.NewNode(3)
					for h := uint32(1); h <= b.Height(); h++ {
						blk := n.BC.GetBlockByHeight(h)
						if blk == nil {
							break
						}
						waitAssetIndex(nb, blk)
						if e := nb.Insert(CloneBlock(blk)); e != nil {
							c.Fail("c01/honest-block-rejected/fresh-follower", fmt.Sprintf("block %d of node A's chain is rejected by a fresh node replaying it: %v", h, e), nil)
							break
						}
						l.confirmAll(nb, blk)
					}
					c.Count("nodeB:replaced-by-fresh-follower")
				} else if rnd.Intn(7) == 0 {
					nb.Reopen()
					c.Count("nodeB:reopen")
				}
			}
			// SIBLINGS: b changed an account's signer list; a second block on the same parent changes it DIFFERENTLY and is
			// inserted too; a child mined on that sibling must obey the sibling's list, not b's (nor the parent's)
			if modelled && mode != "c11" && mode != "c01" && n.BC.StableBlock().Hash() != b.Hash() && rnd.Intn(2) == 0 {
				l.siblingBranch(parent, b, t, exp())
			}
			l.commitSigners(b)
			// ground truth update for multisig accounts
			for _, tx := range b.Txs {
				if lt := byHash[tx.Hash()]; lt != nil {
					if p, ok := pendingMS[lt.id]; ok {
						multisig[p.acct] = p.keys
					}
				}
			}
			dumpStr := l.dump(b.Hash())
			// the other deputies of the term confirm: the block becomes stable (and durable across restarts)
			l.confirmAll(n, b)
			if isSnapshot {
				c.Count("block:snapshot")
				ds := fmt.Sprint(sortedLabels(l, func() (as []common.Address) {
					for _, d := range b.DeputyNodes {
						as = append(as, d.MinerAddress)
					}
					return
				}()))
				if prevDeputies != "" && ds != prevDeputies {
					c.Count("snapshot:deputies-changed")
				}
				prevDeputies = ds
				for _, d := range b.DeputyNodes {
					if w.KeyOfMiner(d.MinerAddress) == nil {
						c.Count("snapshot:non-genesis-deputy-elected")
					}
					if l.view(b.Hash(), d.MinerAddress).isCand != 1 {
						c.Count("snapshot:unregistered-deputy-elected")
					}
				}
			}
			parent = b
			return fmt.Sprintf("sel=%s inv=%s gas=%d | %s", strings.Join(sel, ","), strings.Join(inv, ","), b.GasUsed(), dumpStr)
		})
		if stopped {
			break
		}
		if !modelled {
			if contractBlock {
				c.Count("block:contract")
			}
			if assetBlock {
				c.Count("block:asset")
			}
			if strings.HasPrefix(res, "sel=") {
				resync()
			}
		} else {
			c.Op(blockLine, "ok")
			for _, ln := range txLines {
				c.Op(ln, "ok")
			}
			if isReward {
				c.Op(l.rewardLine(rf, refunds), "ok")
			}
			l.guardOp(res, parent, cand, refunds, isReward) // c05_guard.go: decision op `guard` + oracle c11/tally-mismatch/guarded-block
			c.Op("end", res)
		}
		if strings.HasPrefix(res, "panic") || strings.HasPrefix(res, "builderr") || res == "rejected" {
			sig := "c05/block-build-failed"
			if strings.Contains(pmsg, "negative") || strings.Contains(pmsg, "rlp") {
				sig = "c11/negative-votes/engine-panics"
			}
			c.Fail(sig, res+" "+pmsg+" classes="+fmt.Sprint(classesOf(cand)), nil)
			if sig == "c11/negative-votes/engine-panics" {
				// the miner cannot produce this block; the chain is unchanged: go on with other candidates
				t += uint32(1 + rnd.Intn(25))
				continue
			}
			break
		}
		t += uint32(1 + rnd.Intn(25))
	}
}

func classesOf(cand []*ledgerTx) []string {
	var cs []string
	for _, lt := range cand {
		cs = append(cs, lt.class)
	}
	return cs
}

func byHashID(m map[common.Hash]*ledgerTx, tx *types.Transaction) int {
	if lt, ok := m[tx.Hash()]; ok {
		return lt.id
	}
	// a box tx's data (and therefore its hash input) is rewritten with the sub-txs' gasUsed: match by signature bytes
	for _, lt := range m {
		if len(lt.tx.Sigs()) > 0 && len(tx.Sigs()) > 0 && string(lt.tx.Sigs()[0]) == string(tx.Sigs()[0]) && lt.tx.Type() == tx.Type() {
			return lt.id
		}
	}
	return -1
}

// oracles: the properties checked directly on the implementation's block.
func (l *ledger) oracles(b *types.Block, invalid types.Transactions, byHash map[common.Hash]*ledgerTx, before map[common.Address]*big.Int, miner common.Address, multisig map[string][]string, rf *rewardFacts, refunds []common.Address) {
	c := l.c
	hasBox, hasBoxWithSubs := false, false
	for _, tx := range b.Txs {
		if tx.Type() == params.BoxTx {
			hasBox = true
			if box, err := types.GetBox(tx.Data()); err == nil && len(box.SubTxList) > 0 {
				hasBoxWithSubs = true
			}
		}
	}
	_ = hasBox
	l.depositOracle(b) // c05_profile.go: recorded deposit == deposit paid by construction (c11/deposit-mismatch/…); before the tally oracle
	// ---- C05: conservation from the published balance logs
	delta := new(big.Int)
	for _, cl := range b.ChangeLogs {
		if cl.LogType == account.BalanceLog {
			o := cl.OldVal.(big.Int)
			nw := cl.NewVal.(big.Int)
			delta.Add(delta, new(big.Int).Sub(&nw, &o))
			if nw.Sign() < 0 {
				c.Fail("c05/negative-balance", fmt.Sprintf("block %d: balance of %s becomes %s", b.Height(), cl.Address.String(), nw.String()), nil)
			}
		}
	}
	minerInc := l.view(b.ParentHash(), miner)
	// a reward block mints the salaries issueTermReward pays (and nothing else): the expected change of the total is the
	// sum of the salaries by the harness's own arithmetic; refunds move pool -> candidate and cancel out
	expMint := new(big.Int)
	if rf != nil {
		c.Count("reward-block")
		if rf.total.Sign() > 0 {
			c.Count("reward:total>0")
		}
		// the closing term and its reward by the harness's own record: term index from own arithmetic, value = what the
		// included set-reward tx asked for (0 when none was sent)
		if b.Height() >= l.termT+l.termI+1 {
			ownTerm := (b.Height() - 1 - l.termI - 1) / l.termT
			if b.Height()-1 < l.termT+l.termI+1 {
				ownTerm = 0
			}
			want := l.rewardSet[ownTerm]
			if want == nil {
				want = new(big.Int)
			}
			if ownTerm != rf.term || want.Cmp(rf.total) != 0 {
				c.Fail("c05/fed-fact/reward-total", fmt.Sprintf("reward block %d: the closing term is %d with reward %s by the harness's record (own term arithmetic, value of the included set-reward tx); the engine's term record / storage of 0x09 say term %d, reward %s", b.Height(), ownTerm, want, rf.term, rf.total), nil)
			}
			if rf.total.Sign() > 0 {
				if at, ok := l.rewardPaid[ownTerm]; ok {
					c.Fail("c05/term-reward-issued-twice", fmt.Sprintf("block %d pays the reward of term %d, which block %d already paid", b.Height(), ownTerm, at), nil)
				}
				l.rewardPaid[ownTerm] = b.Height()
			}
		}
		sal := expectedSalaries(rf)
		for i, x := range sal {
			expMint.Add(expMint, x)
			if x.Sign() > 0 {
				c.Count("reward:salary>0")
				// does the receiver vote for a registered candidate? (then Finalize must move votes)
				recv := rf.nodes[i].MinerAddress
				if pv := l.view(b.Hash(), recv); pv.incomeSet {
					recv = pv.income
				}
				if vf := l.view(b.Hash(), recv).voteFor; vf != (common.Address{}) && l.view(b.Hash(), vf).isCand == 1 {
					c.Count("reward:salary-receiver-votes-for-registered")
				}
			}
		}
		if expMint.Cmp(rf.total) > 0 {
			c.Fail("c05/salaries-exceed-term-reward", fmt.Sprintf("block %d: salaries %s > reward %s", b.Height(), expMint.String(), rf.total.String()), nil)
		}
		if rf.total.Sign() > 0 && expMint.Cmp(rf.total) < 0 {
			c.Count("reward:rounding-remainder-not-issued")
		}
		if len(refunds) > 0 {
			c.Count("reward:refund")
		}
		// the refund SET, recomputed independently from the parent-view profiles and the real deputynode.Manager: every
		// unregistered account with a deposit whose node is not a deputy of the new term must be refunded, nobody else
		// (an account whose candidacy changed inside this very block is judged by the model diff only)
		{
			changed := map[common.Address]bool{}
			var walkReg func(tx *types.Transaction)
			walkReg = func(tx *types.Transaction) {
				if tx.Type() == params.RegisterTx {
					changed[tx.From()] = true
				}
				if tx.Type() == params.BoxTx {
					if box, err := types.GetBox(tx.Data()); err == nil {
						for _, st := range box.SubTxList {
							walkReg(st)
						}
					}
				}
			}
			for _, tx := range b.Txs {
				walkReg(tx)
			}
			got := map[common.Address]bool{}
			for _, a := range refunds {
				got[a] = true
			}
			for _, a := range l.univ {
				if changed[a] {
					continue
				}
				pv := l.view(b.ParentHash(), a)
				id := l.nodeIDOf(b.ParentHash(), a)
				due := pv.isCand == 2 && pv.deposit != "" && !l.n.DM.IsNodeDeputy(b.Height(), common.FromHex(id))
				if due != got[a] {
					nv := l.view(b.Hash(), a)
					c.Fail("c05/refund-set-wrong", fmt.Sprintf("reward block %d: account %d (isCandidate code %d, deposit %q, node is deputy of the new term: %v) refund due=%v, refunded=%v; after the block: flag %d deposit %q; refund list %v; classes=%v", b.Height(), l.label(a), pv.isCand, pv.deposit, l.n.DM.IsNodeDeputy(b.Height(), common.FromHex(id)), due, got[a], nv.isCand, nv.deposit, sortedLabels(l, refunds), classesOfBlock(b, byHash)), nil)
				}
				c.Count("reward:refund-set-checked")
			}
		}
		for _, a := range refunds {
			pv, nv := l.view(b.ParentHash(), a), l.view(b.Hash(), a)
			d, _ := new(big.Int).SetString(pv.deposit, 10)
			if d == nil {
				// registered and unregistered inside the reward block itself
				d = new(big.Int)
			}
			if nv.deposit != "" {
				c.Fail("c05/refund-keeps-deposit", fmt.Sprintf("block %d: refunded candidate %d still has deposit %s", b.Height(), l.label(a), nv.deposit), nil)
			}
			if vf := nv.voteFor; vf != (common.Address{}) && l.view(b.Hash(), vf).isCand == 1 && d.Sign() > 0 {
				c.Count("reward:refund-receiver-votes-for-registered")
			}
			if l.n.DM.IsNodeDeputy(b.Height()-1, common.FromHex(l.nodeIDOf(b.Hash(), a))) {
				c.Count("reward:refund-of-deputy-of-closing-term")
			}
		}
		// postponed refunds still pending after this reward block (ex-candidates elected into the new term)
		for _, a := range l.univ {
			if nv := l.view(b.Hash(), a); nv.isCand == 2 && nv.deposit != "" {
				c.Count("reward:refund-postponed-again(deputy-of-new-term)")
			}
		}
	}
	unexplained := new(big.Int).Sub(delta, expMint)
	if unexplained.Sign() != 0 {
		class := "other"
		if hasBoxWithSubs {
			class = "box-subtx-fee-paid-twice"
		} else if !minerInc.incomeSet {
			class = "miner-without-income-address"
		} else if rf != nil {
			class = "reward-block"
		}
		what := "no reward block, no burn"
		if rf != nil {
			what = fmt.Sprintf("reward block: term reward %s, salaries due %s", rf.total.String(), expMint.String())
		}
		c.Fail("c05/supply-changed/"+class, fmt.Sprintf("block %d: sum of balances changed by %s mo, unexplained %s (%s)", b.Height(), delta.String(), unexplained.String(), what), nil)
	}
	// gas: per tx gasUsed <= gasLimit, header total
	total := uint64(0)
	fees := new(big.Int)
	for _, tx := range b.Txs {
		total += tx.GasUsed()
		fees.Add(fees, new(big.Int).Mul(new(big.Int).SetUint64(tx.GasUsed()), tx.GasPrice()))
		if tx.GasUsed() > tx.GasLimit() {
			class := "other"
			if tx.Type() == params.BoxTx {
				class = "box"
			}
			c.Fail("c05/gas-used-exceeds-limit/"+class, fmt.Sprintf("block %d: tx gasUsed %d > gasLimit %d", b.Height(), tx.GasUsed(), tx.GasLimit()), nil)
		}
	}
	if total != b.GasUsed() {
		c.Fail("c05/header-gas", fmt.Sprintf("block %d: header.GasUsed %d != sum %d", b.Height(), b.GasUsed(), total), nil)
	}
	// not included => costs nothing: an account whose only txs were discarded and which received nothing keeps its balance
	// (checked through the model diff; here: invalid txs' payers that appear nowhere else)
	touched := map[common.Address]bool{}
	for _, cl := range b.ChangeLogs {
		touched[cl.Address] = true
	}
	// ---- C11: tally invariant, judged per block and per candidate: the ERROR of a candidate's count
	// (votes - (deposit votes + voters' balance votes), 0 for an unregistered account) must not be changed by the block —
	// so a block that breaks the tally of a candidate whose count was already off is still seen.
	if l.mode != "c06" {
		tallyErr := func(h common.Hash) map[common.Address]*big.Int {
			e := map[common.Address]*big.Int{}
			views := map[common.Address]acctView{}
			for _, a := range l.univ {
				v := l.view(h, a)
				views[a] = v
				if v.isCand == 1 {
					d, _ := new(big.Int).SetString(v.deposit, 10)
					if d == nil {
						d = new(big.Int)
					}
					if pd, ok := l.paidDeposit(h, a); ok {
						d = pd // the deposit PAID by construction (c05_profile.go), not the one the profile records
					}
					e[a] = new(big.Int).Sub(v.votes, new(big.Int).Div(d, depositRateLit))
				}
			}
			for _, a := range l.univ {
				v := views[a]
				if _, ok := e[v.voteFor]; ok {
					e[v.voteFor].Sub(e[v.voteFor], new(big.Int).Div(v.bal, voteRateLit))
				}
			}
			return e
		}
		errNow, errParent := tallyErr(b.Hash()), tallyErr(b.ParentHash())
		// candidates a vote tx of this block touches: the target, and the candidate the voter leaves
		voteTouched := map[common.Address]bool{}
		regBy := map[common.Address]bool{}
		var walk func(tx *types.Transaction)
		walk = func(tx *types.Transaction) {
			if tx.Type() == params.VoteTx {
				if tx.To() != nil {
					voteTouched[*tx.To()] = true
				}
				voteTouched[l.view(b.ParentHash(), tx.From()).voteFor] = true
			}
			if tx.Type() == params.RegisterTx {
				regBy[tx.From()] = true
			}
			if tx.Type() == params.BoxTx {
				if box, err := types.GetBox(tx.Data()); err == nil {
					for _, s := range box.SubTxList {
						walk(s)
					}
				}
			}
		}
		for _, tx := range b.Txs {
			walk(tx)
		}
		// how did the unregistrations of this block end? (refund at once / postponed: interim period / postponed: deputy)
		for a := range regBy {
			pv, nv := l.view(b.ParentHash(), a), l.view(b.Hash(), a)
			if pv.isCand == 1 && nv.isCand == 2 {
				switch {
				case nv.deposit == "":
					c.Count("unregister:refunded-at-once")
				case b.Height()%params.TermDuration <= params.InterimDuration && b.Height() > params.InterimDuration:
					c.Count("unregister:refund-postponed(interim-period)")
				default:
					c.Count("unregister:refund-postponed(deputy-of-running-term)")
				}
				if vf := nv.voteFor; vf != (common.Address{}) && l.view(b.Hash(), vf).isCand == 1 {
					c.Count("unregister:leaver-votes-for-registered")
				}
			}
		}
		votesMoved := false
		for _, a := range l.univ {
			v := l.view(b.Hash(), a)
			if v.votes.Sign() < 0 {
				c.Fail("c11/negative-votes", fmt.Sprintf("block %d: candidate %d has %s votes", b.Height(), l.label(a), v.votes.String()), nil)
			}
			if rf != nil && len(b.Txs) == 0 && v.votes.Cmp(l.view(b.ParentHash(), a).votes) != 0 {
				votesMoved = true
			}
			if v.isCand == 1 {
				was := errParent[a]
				if was == nil {
					was = new(big.Int)
				}
				if errNow[a].Cmp(was) != 0 {
					class := "other"
					if voteTouched[a] {
						class = "block-with-vote-tx"
					} else if pv := l.view(b.ParentHash(), a); regBy[a] && pv.isCand == 0 && pv.deposit != "" {
						// an account whose flag was blanked (it kept deposit, votes and voters) went through the
						// FIRST-registration path again: votes := new deposit votes, the voters' weight is dropped
						class = "blank-flag-account-registered-again"
					} else if regBy[a] {
						class = "block-with-register-tx"
					} else if rf != nil {
						class = "reward-block"
					}
					c.Fail("c11/tally-mismatch/"+class, fmt.Sprintf("block %d: candidate %d has %s votes; the block changed votes - (deposit votes + voters' balance votes) from %s to %s", b.Height(), l.label(a), v.votes.String(), was.String(), errNow[a].String()), nil)
					c.Count("tally:mismatch:" + class)
				} else if errNow[a].Sign() != 0 {
					c.Count("tally:off-since-earlier-block(kept)")
				} else {
					c.Count("tally:ok")
				}
			} else if (v.isCand == 2 || v.isCand == 0) && v.votes.Sign() != 0 {
				// "an unregistered candidate has zero votes": reported in the block that brings the state about
				pv := l.view(b.ParentHash(), a)
				if !((pv.isCand == 2 || pv.isCand == 0) && pv.votes.Sign() != 0) {
					class := "other"
					switch {
					case v.isCand == 2 && pv.isCand == 0:
						class = "first-registration-with-flag-false"
					case v.isCand == 0 && pv.isCand == 0:
						class = "first-registration-with-blank-flag"
					case v.isCand == 0 && pv.isCand == 1:
						class = "blank-flag-written-by-update"
					}
					c.Fail("c11/unregistered-has-votes/"+class, fmt.Sprintf("block %d: account %d has isCandidate=%q (not a candidate for CallVoteTx / the vote pass), deposit %q and %s votes", b.Height(), l.label(a), map[int]string{0: "", 2: "false"}[v.isCand], v.deposit, v.votes.String()), nil)
					c.Count("flag:unregistered-with-votes:" + class)
				}
			} else if v.isCand == 3 {
				// a flag value that is neither "true" nor "false" nor "": CallVoteTx accepts votes for the account, the vote
				// pass and re-votes ignore it (count frozen), RegisterOrUpdateToCandidate answers ErrIsCandidate for ever
				// (no top-up, no unregistration, no refund of the deposit)
				if pv := l.view(b.ParentHash(), a); pv.isCand != 3 {
					class := "first-registration"
					if pv.isCand == 1 {
						class = "written-by-update"
					}
					c.Fail("c11/odd-flag-candidate/"+class, fmt.Sprintf("block %d: account %d now has an isCandidate flag that is neither \"true\" nor \"false\": votable, vote count frozen, deposit %q locked", b.Height(), l.label(a), v.deposit), nil)
					c.Count("flag:odd-flag-candidate:" + class)
				} else if v.votes.Cmp(pv.votes) != 0 {
					c.Count("flag:odd-flag-candidate:receives-votes")
				}
			}
			if pv := l.view(b.ParentHash(), a); pv.isCand == 0 && pv.deposit != "" && v.deposit != "" && v.deposit != pv.deposit && regBy[a] {
				c.Count("flag:blank-flag-account-registered-again(first-deposit-stays-in-pool)")
			}
		}
		if votesMoved {
			c.Count("reward:votes-moved-by-finalize-alone")
		}
	}
	// ---- C06: every included tx was authorised — judged against the signer list in force WHEN the tx ran: the parent
	// view's list, replaced by what a ModifySignersTx included earlier in this block stored (no tx is skipped)
	curSigners := map[common.Address]types.Signers{}
	signersOfNow := func(a common.Address) types.Signers {
		if s, ok := curSigners[a]; ok {
			return s
		}
		return l.truth[a] // the harness's own record — NOT what the implementation says the parent state holds
	}
	// distinct-signer weight of the keys that REALLY signed, against a signer list
	weightOfKeys := func(keys []string, regs types.Signers) int {
		seen := map[common.Address]bool{}
		total := 0
		for _, kn := range keys {
			a := keyAddr(l.key(kn))
			if seen[a] {
				continue
			}
			seen[a] = true
			for _, r := range regs {
				if r.Address == a {
					total += int(r.Weight)
				}
			}
		}
		return total
	}
	var check func(tx *types.Transaction, lt *ledgerTx, parentHash common.Hash)
	check = func(tx *types.Transaction, lt *ledgerTx, parentHash common.Hash) {
		if lt == nil {
			return
		}
		defer func() {
			if tx.Type() == params.ModifySignersTx && tx.To() != nil {
				var ms struct {
					Signers types.Signers `json:"signers"`
				}
				if json.Unmarshal(tx.Data(), &ms) == nil {
					curSigners[*tx.To()] = ms.Signers
					c.Count("c06:signers-changed-in-block(later-txs-judged-by-new-list)")
				}
			}
		}()
		c.Count("included:" + lt.class)
		if lt.tampered {
			c.Fail("c06/tampered-tx-included/"+lt.class, fmt.Sprintf("block %d: tx changed after signing was executed", b.Height()), nil)
		}
		from := tx.From()
		regs := signersOfNow(from)
		if len(regs) == 0 {
			okk := false
			for _, kn := range lt.fromKeys {
				if keyAddr(l.key(kn)) == from {
					okk = true
				}
			}
			if !okk {
				c.Fail("c06/unauthorised-included/plain", fmt.Sprintf("block %d: tx from %d executed without the owner's signature (class %s)", b.Height(), l.label(from), lt.class), nil)
			}
		} else {
			if total := weightOfKeys(lt.fromKeys, regs); total < 100 {
				c.Fail("c06/unauthorised-included/multisig-"+lt.class, fmt.Sprintf("block %d: multisig tx executed with distinct signer weight %d < 100 (class %s)", b.Height(), total, lt.class), nil)
			}
		}
		if tx.GasPayer() != from {
			pregs := signersOfNow(tx.GasPayer())
			if len(pregs) == 0 {
				okk := false
				for _, kn := range lt.payerKeys {
					if keyAddr(l.key(kn)) == tx.GasPayer() {
						okk = true
					}
				}
				if !okk {
					c.Fail("c06/unauthorised-included/gas-payer", fmt.Sprintf("block %d: gas payer %d charged without its signature", b.Height(), l.label(tx.GasPayer())), nil)
				}
			} else {
				c.Count("c06:multisig-gas-payer-judged")
				if total := weightOfKeys(lt.payerKeys, pregs); total < 100 {
					c.Fail("c06/unauthorised-included/multisig-gas-payer", fmt.Sprintf("block %d: multisig gas payer %d charged with distinct signer weight %d < 100 (class %s)", b.Height(), l.label(tx.GasPayer()), total, lt.class), nil)
				}
			}
		}
	}
	for _, tx := range b.Txs {
		id := byHashID(byHash, tx)
		var lt *ledgerTx
		for _, x := range byHash {
			if x.id == id {
				lt = x
			}
		}
		check(tx, lt, b.ParentHash())
		if lt != nil && tx.Type() == params.BoxTx {
			if box, err := types.GetBox(tx.Data()); err == nil {
				for i, s := range box.SubTxList {
					if i < len(lt.subs) {
						check(s, lt.subs[i], b.ParentHash())
					}
				}
			}
		}
	}
	for _, tx := range invalid {
		if lt := byHash[tx.Hash()]; lt != nil {
			c.Count("discarded:" + lt.class)
		}
	}
}

func (l *ledger) tallyOK(h common.Hash, cand common.Address) bool {
	v := l.view(h, cand)
	if v.isCand != 1 {
		return v.votes.Sign() == 0 || v.isCand == 0
	}
	d, _ := new(big.Int).SetString(v.deposit, 10)
	if d == nil {
		d = new(big.Int)
	}
	if pd, ok := l.paidDeposit(h, cand); ok {
		d = pd
	}
	exp := new(big.Int).Div(d, depositRateLit)
	for _, a := range l.univ {
		x := l.view(h, a)
		if x.voteFor == cand {
			exp.Add(exp, new(big.Int).Div(x.bal, voteRateLit))
		}
	}
	return exp.Cmp(v.votes) == 0
}

// crossNode: C01's direct oracle. Node B (other history, sometimes restarted) validates the block node A
// mined; then everything either node can say about the block and the touched accounts must be equal.
// Returns false when node B cannot follow node A any more (it has to be replaced by a fresh follower).
func (l *ledger) crossNode(nb *Node, b *types.Block, cands types.Transactions, t uint32, byHash map[common.Hash]*ledgerTx) bool {
	c := l.c
	hasAssetTx := waitAssetIndex(nb, b)
	if e := nb.Insert(CloneBlock(b)); e != nil {
		if hasAssetTx && !assetIndexKnows(nb, b) {
			// asset txs are pre-checked against the node's STABLE asset index / canonical accounts (known finding) — filed
			// under it only when the known cause is PRESENT: node B's index does not know an asset the block refers to
			c.Fail("c01/honest-block-rejected/asset-tx-needs-locally-stable-asset", fmt.Sprintf("block %d (with asset txs) mined on node A is rejected by node B although B holds and confirmed the same blocks: %v", b.Height(), e), nil)
			return false
		}
		if deputynode.IsSnapshotBlock(b.Height()) {
			// does node B (restarted at some point) publish another candidate top list for the parent than node A did?
			// That is C10's known restart / tie defect of the store's ranking (c10/restart-differs,
			// c10/top-not-sorted-prefix/tie), seen here as the deputy-root check of the snapshot block failing.
			mine := Safe(func() string {
				am := account.NewManager(b.ParentHash(), nb.DB)
				return topLoader{nb, am}.LoadTopCandidates(b.ParentHash()).String()
			})
			if mine != b.DeputyNodes.String() {
				c.Fail("c10/restart-differs/snapshot-block-rejected-by-restarted-node", fmt.Sprintf("snapshot block %d mined on node A names deputies %s, the restarted node B computes %s for the same parent", b.Height(), b.DeputyNodes.String(), mine), nil)
				c.Count("nodeB:top-list-differs-after-restart(c10)")
				return false
			}
		}
		if os.Getenv("HX_DEBUG") != "" {
			log.Setup(log.LevelWarn, false, true)
			nb.Insert(CloneBlock(b))
			log.Setup(log.LevelCrit, false, false)
			os.Exit(3)
		}
		c.Fail("c01/honest-block-rejected/other-node", fmt.Sprintf("block %d mined on node A is rejected by node B: %v", b.Height(), e), nil)
		return false
	}
	l.confirmAll(nb, b)
	ba := l.n.BC.GetBlockByHash(b.Hash())
	bb := nb.BC.GetBlockByHash(b.Hash())
	if ba == nil || bb == nil {
		c.Fail("c01/block-missing", fmt.Sprintf("block %d not readable after insertion (A=%v B=%v)", b.Height(), ba != nil, bb != nil), nil)
		return true
	}
	if ba.VersionRoot() != bb.VersionRoot() || ba.LogRoot() != bb.LogRoot() || ba.TxRoot() != bb.TxRoot() || ba.GasUsed() != bb.GasUsed() {
		c.Fail("c01/roots-differ", fmt.Sprintf("block %d: stored header differs between nodes", b.Height()), nil)
	}
	// account state, field for field, for every address named in the block
	addrs := map[common.Address]bool{}
	for _, cl := range b.ChangeLogs {
		addrs[cl.Address] = true
	}
	for _, tx := range b.Txs {
		addrs[tx.From()] = true
		addrs[tx.GasPayer()] = true
		if tx.To() != nil {
			addrs[*tx.To()] = true
		}
	}
	for a := range addrs {
		ja := accountJSON(l.n, b.Hash(), a)
		jb := accountJSON(nb, b.Hash(), a)
		if ja != jb {
			c.Fail("c01/account-differs", fmt.Sprintf("block %d account %s: node A %s / node B %s", b.Height(), a.String(), ja, jb), nil)
		}
		c.Count("c01:accounts-compared")
	}
	return true
}

// rebuildChecks: must run while the block is still unconfirmed (its parent view is still addressable).
func (l *ledger) rebuildChecks(b *types.Block, cands types.Transactions, t uint32, byHash map[common.Hash]*ledgerTx, blockGas uint64, minerKey *ecdsa.PrivateKey) {
	c := l.c
	// the result does not depend on the discarded candidates, nor on map iteration order
	parent := l.n.BC.GetBlockByHash(b.ParentHash())
	for rep := 0; rep < 2; rep++ {
		var only types.Transactions
		if rep == 0 {
			for _, tx := range b.Txs {
				only = append(only, cloneTx(tx))
			}
		} else {
			for _, tx := range cands {
				only = append(only, cloneTx(tx))
			}
		}
		// box txs were rewritten in place by the first run (sub-tx gasUsed): restore the originals
		for i, tx := range only {
			if tx.Type() == params.BoxTx {
				id := byHashID(byHash, tx)
				for _, lt := range byHash {
					if lt.id == id {
						only[i] = cloneTx(lt.orig)
					}
				}
			}
		}
		b2, _, err := l.n.BuildGas(parent, t, only, minerKey, blockGas)
		if err != nil {
			c.Fail("c01/rebuild-error", err.Error(), nil)
			continue
		}
		if b2.Hash() != b.Hash() {
			if os.Getenv("HX_DEBUG") != "" {
				fmt.Fprintf(os.Stderr, "REBUILD DIFF block %d\n A: %s\n B: %s\n", b.Height(), fmt.Sprint(b.ChangeLogs), fmt.Sprint(b2.ChangeLogs))
			}
			what := "discarded-candidates"
			if rep == 1 {
				what = "repeat-same-input"
			}
			c.Fail("c01/result-depends-on/"+what, fmt.Sprintf("block %d: re-mining gives %s instead of %s (txs %d vs %d, gas %d vs %d, logRoot equal=%v, versionRoot equal=%v)", b.Height(), b2.Hash().Hex()[:10], b.Hash().Hex()[:10], len(b2.Txs), len(b.Txs), b2.GasUsed(), b.GasUsed(), b2.LogRoot() == b.LogRoot(), b2.VersionRoot() == b.VersionRoot()), nil)
		}
		c.Count("c01:rebuilds")
	}
}

// discardTrace: C07's clause "a transaction the miner discards leaves no trace at all", judged on the miner path itself
// and BEFORE the validator sees the block: mining the same slot with only the txs that were included must give the very
// same block (change logs, roots, gas) as mining it with the discarded candidates in the list.
func (l *ledger) discardTrace(b *types.Block, parent *types.Block, t uint32, byHash map[common.Hash]*ledgerTx, blockGas uint64, minerKey *ecdsa.PrivateKey) {
	c := l.c
	var only types.Transactions
	for _, tx := range b.Txs {
		only = append(only, cloneTx(tx))
	}
	for i, tx := range only {
		if tx.Type() == params.BoxTx {
			id := byHashID(byHash, tx)
			for _, lt := range byHash {
				if lt.id == id {
					only[i] = cloneTx(lt.orig)
				}
			}
		}
	}
	b2, inv2, err := l.n.BuildGas(parent, t, only, minerKey, blockGas)
	if err != nil {
		c.Count("c07:discard-trace:rebuild-error")
		return
	}
	c.Count("c07:discard-trace:blocks-with-discards-re-mined")
	if len(inv2) != 0 || len(b2.Txs) != len(b.Txs) {
		// every tx of `only` was executed successfully the first time, each fits the gas pool a fortiori now
		c.Fail("c07/discard-leaves-trace/miner-selection", fmt.Sprintf("block %d: the miner included %d of %d candidates; offered only those %d, it includes %d and refuses %d",
			b.Height(), len(b.Txs), len(byHash), len(b.Txs), len(b2.Txs), len(inv2)), nil)
		return
	}
	if b2.LogRoot() != b.LogRoot() || b2.VersionRoot() != b.VersionRoot() || b2.GasUsed() != b.GasUsed() {
		var diff string
		for i := 0; i < len(b.ChangeLogs) || i < len(b2.ChangeLogs); i++ {
			var x, y string
			if i < len(b.ChangeLogs) {
				x = b.ChangeLogs[i].String()
			}
			if i < len(b2.ChangeLogs) {
				y = b2.ChangeLogs[i].String()
			}
			if x != y {
				diff = fmt.Sprintf("first differing change log #%d: with discards %s / without %s", i, x, y)
				break
			}
		}
		c.Fail("c07/discard-leaves-trace/miner-block", fmt.Sprintf("block %d: the miner discarded %d candidate tx(s); mining the same slot with only the %d included txs gives another block (logRoot equal=%v, versionRoot equal=%v, gas %d vs %d, %d vs %d change logs); %s",
			b.Height(), len(byHash)-len(b.Txs), len(b.Txs), b2.LogRoot() == b.LogRoot(), b2.VersionRoot() == b.VersionRoot(), b.GasUsed(), b2.GasUsed(), len(b.ChangeLogs), len(b2.ChangeLogs), diff), nil)
	}
}

func accountJSON(n *Node, h common.Hash, a common.Address) string {
	am := account.NewManager(h, n.DB)
	acc := am.GetAccount(a)
	j, err := acc.(interface{ MarshalJSON() ([]byte, error) }).MarshalJSON()
	if err != nil {
		return "err:" + err.Error()
	}
	code, _ := acc.GetCode()
	return string(j) + fmt.Sprintf(" code=%x", []byte(code))
}

// redoChecks (C07's last clause, checked on whole blocks): replaying the block's PUBLISHED change logs onto
// its parent state (Manager.RebuildAll) must give the same observable account state as executing the block.
func (l *ledger) redoChecks(b *types.Block) {
	c := l.c
	wire := CloneBlock(b) // what a peer gets: logs decoded from their RLP form
	am := account.NewManager(b.ParentHash(), l.n.DB)
	res := Safe(func() string {
		if err := am.RebuildAll(wire); err != nil {
			return "err " + err.Error()
		}
		return "ok"
	})
	if res != "ok" {
		c.Fail("c07/redo-failed", fmt.Sprintf("block %d: RebuildAll of the published logs: %s", b.Height(), res), nil)
		return
	}
	ex := account.NewManager(b.Hash(), l.n.DB)
	seen := map[common.Address]bool{}
	for _, cl := range b.ChangeLogs {
		if seen[cl.Address] {
			continue
		}
		seen[cl.Address] = true
		ra, ea := am.GetAccount(cl.Address), ex.GetAccount(cl.Address)
		diff := ""
		if ra.GetBalance().Cmp(ea.GetBalance()) != 0 {
			diff += fmt.Sprintf(" balance %s/%s", ra.GetBalance(), ea.GetBalance())
		}
		if ra.GetVotes().Cmp(ea.GetVotes()) != 0 {
			diff += fmt.Sprintf(" votes %s/%s", ra.GetVotes(), ea.GetVotes())
		}
		if ra.GetVoteFor() != ea.GetVoteFor() {
			diff += " voteFor"
		}
		if fmt.Sprint(ra.GetSigners()) != fmt.Sprint(ea.GetSigners()) {
			diff += " signers"
		}
		rp, ep := ra.GetCandidate(), ea.GetCandidate()
		keys := map[string]bool{}
		for k := range rp {
			keys[k] = true
		}
		for k := range ep {
			keys[k] = true
		}
		for k := range keys {
			if rp[k] != ep[k] {
				diff += " profile." + k
			}
		}
		rc, _ := ra.GetCode()
		ec, _ := ea.GetCode()
		if string(rc) != string(ec) {
			diff += " code"
		}
		c.Count("c07:redo-accounts-compared")
		if diff != "" {
			var kinds []string
			hasSuicide := false
			for _, x := range b.ChangeLogs {
				if x.Address == cl.Address {
					kinds = append(kinds, fmt.Sprintf("%d", x.LogType))
					if x.LogType == account.SuicideLog {
						hasSuicide = true
					}
				}
			}
			sig := "c07/redo-mismatch"
			if hasSuicide {
				sig += "/account-with-suicide-log"
			}
			c.Fail(sig, fmt.Sprintf("block %d account %s: replayed logs vs executed:%s; published log types of the account in order: %v", b.Height(), cl.Address.String(), diff, kinds), nil)
		}
	}
	// storage / asset / equity entries named by the logs
	for _, cl := range b.ChangeLogs {
		ra, ea := am.GetAccount(cl.Address), ex.GetAccount(cl.Address)
		switch cl.LogType {
		case account.StorageLog:
			k := cl.Extra.(common.Hash)
			rv, _ := ra.GetStorageState(k)
			ev, _ := ea.GetStorageState(k)
			if string(rv) != string(ev) {
				c.Fail("c07/redo-mismatch/storage", fmt.Sprintf("block %d account %s key %s: %x / %x", b.Height(), cl.Address.String(), k.Hex()[:10], rv, ev), nil)
			}
			c.Count("c07:redo-storage-compared")
		}
	}
}

// cloneTx: Transaction.Clone dereferences the optional gasPayer pointer unconditionally (chain/types/tx.go), so it panics on a tx that
// carries no gas payer — an encoding that is legal on the wire (rlp:"nil") and that the tamper class gasPayer-dropped produces. The copy
// through the wire form is what a receiving node holds anyway.
func cloneTx(tx *types.Transaction) (out *types.Transaction) {
	defer func() {
		if recover() != nil {
			b, err := rlp.EncodeToBytes(tx)
			if err != nil {
				panic(err)
			}
			t := new(types.Transaction)
			if err := rlp.DecodeBytes(b, t); err != nil {
				panic(err)
			}
			out = t
		}
	}()
	return tx.Clone()
}

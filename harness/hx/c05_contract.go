package main

// Conservation oracle for CONTRACT blocks (EVM value flows, reverted and out-of-gas executions, self-destruct): the
// ledger model does not execute bytecode, so this part of C05 is judged by the oracle alone.
// Expected change of the total of all balances = - (what self-destruct-to-itself burns), nothing else.

import (
	"fmt"
	"math/big"
	"os"

	"github.com/LemoFoundationLtd/lemochain-core/chain/account"
	"github.com/LemoFoundationLtd/lemochain-core/chain/params"
	"github.com/LemoFoundationLtd/lemochain-core/chain/types"
	"github.com/LemoFoundationLtd/lemochain-core/common"
	"github.com/LemoFoundationLtd/lemochain-core/common/crypto"
)

func (l *ledger) contractSupplyOracle(b *types.Block, miner common.Address, byHash map[common.Hash]*ledgerTx, contractClass map[common.Address]string) {
	c := l.c
	// parent-side facts come from the capture taken before the block was inserted (see ledger.captureParent)
	parentCode := func(a common.Address) bool {
		if v, ok := l.pvCode[a]; ok && l.pvHash == b.ParentHash() {
			return v
		}
		code, _ := account.NewManager(b.ParentHash(), l.n.DB).GetAccount(a).GetCode()
		return len(code) > 0
	}
	parentBal := func(a common.Address) *big.Int {
		if v, ok := l.pvBal[a]; ok && l.pvHash == b.ParentHash() {
			return v
		}
		return l.n.balanceAt(b.ParentHash(), a)
	}
	// ---- expected burn, by the harness's own reading of the transactions (independent of the logs)
	burn := new(big.Int)
	destroyed := map[common.Address]bool{}
	for _, tx := range b.Txs {
		if tx.Type() != params.OrdinaryTx || tx.To() == nil {
			continue
		}
		to := *tx.To()
		cls := contractClass[to]
		executed := tx.GasUsed() < tx.GasLimit() // an EVM error (revert aside) eats the whole gas limit
		if cls != "" && parentCode(to) && !destroyed[to] {
			switch {
			case !executed:
				c.Count("contract:call-out-of-gas")
			case cls == "create-killer-self":
				// the contract's whole balance — endowment, earlier deposits, the value of this call — is destroyed
				burn.Add(burn, parentBal(to))
				burn.Add(burn, tx.Amount())
				destroyed[to] = true
				c.Count("contract:self-destruct-to-itself")
			case cls == "create-killer":
				destroyed[to] = true
				c.Count("contract:self-destruct-to-caller")
			case cls == "create-reverter":
				c.Count("contract:call-reverted")
			default:
				c.Count("contract:call-ok")
			}
			if executed && tx.Amount().Sign() > 0 {
				c.Count("contract:call-with-value")
			}
		}
	}
	if burn.Sign() > 0 {
		c.Count("contract:burn>0")
	}
	// ---- observed change: (a) from the balances of every address the block names, (b) from the published logs
	named := map[common.Address]bool{}
	for _, cl := range b.ChangeLogs {
		named[cl.Address] = true
	}
	for _, tx := range b.Txs {
		named[tx.From()] = true
		named[tx.GasPayer()] = true
		if tx.To() != nil {
			named[*tx.To()] = true
		}
		if tx.Type() == params.CreateContractTx {
			named[crypto.CreateContractAddress(tx.From(), tx.Hash())] = true
		}
	}
	if mv := l.view(b.ParentHash(), miner); mv.incomeSet {
		named[mv.income] = true
	}
	byView := new(big.Int)
	for a := range named {
		nb, ob := l.n.balanceAt(b.Hash(), a), parentBal(a)
		byView.Add(byView, new(big.Int).Sub(nb, ob))
		if nb.Sign() < 0 {
			c.Fail("c05/negative-balance", fmt.Sprintf("contract block %d: balance of %s becomes %s", b.Height(), a.String(), nb.String()), nil)
		}
	}
	byLogs := new(big.Int)
	for _, cl := range b.ChangeLogs {
		switch cl.LogType {
		case account.BalanceLog:
			o, nw := cl.OldVal.(big.Int), cl.NewVal.(big.Int)
			byLogs.Add(byLogs, new(big.Int).Sub(&nw, &o))
		case account.SuicideLog:
			if od, ok := cl.OldVal.(*types.AccountData); ok && od != nil && od.Balance != nil {
				byLogs.Sub(byLogs, od.Balance) // the account's balance is zeroed by the suicide log
			}
		}
	}
	c.Count("contract:supply-oracle-blocks")
	want := new(big.Int).Neg(burn)
	minerInc := l.view(b.ParentHash(), miner)
	if byView.Cmp(want) != 0 {
		class := "contract-block"
		if !minerInc.incomeSet {
			class = "miner-without-income-address"
		}
		c.Fail("c05/supply-changed/"+class, fmt.Sprintf("contract block %d: sum of balances changed by %s mo, expected %s (burnt by self-destruct-to-itself: %s); classes=%v", b.Height(), byView.String(), want.String(), burn.String(), classesOfBlock(b, byHash)), nil)
	}
	hasSuicide := false
	for _, cl := range b.ChangeLogs {
		if cl.LogType == account.SuicideLog {
			hasSuicide = true
		}
	}
	// (merged logs of an account with a SuicideLog do not replay to the executed balance: C07's known finding
	// c07/redo-mismatch/account-with-suicide-log — the log-based sum is only compared on blocks without one)
	if !hasSuicide && byLogs.Cmp(byView) != 0 {
		if os.Getenv("HX_DEBUG") != "" {
			for _, cl := range b.ChangeLogs {
				fmt.Fprintf(os.Stderr, "LOG %s\n", cl.String())
			}
			for _, tx := range b.Txs {
				to := "-"
				if tx.To() != nil {
					to = tx.To().String() + " class=" + contractClass[*tx.To()]
				}
				fmt.Fprintf(os.Stderr, "TX type=%d from=%s to=%s amount=%s gasUsed=%d/%d\n", tx.Type(), tx.From().String(), to, tx.Amount().String(), tx.GasUsed(), tx.GasLimit())
			}
			for a := range named {
				fmt.Fprintf(os.Stderr, "VIEW %s %s -> %s\n", a.String(), parentBal(a), l.n.balanceAt(b.Hash(), a))
			}
			fmt.Fprintf(os.Stderr, "burn=%s byView=%s byLogs=%s\n", burn, byView, byLogs)
		}
		c.Fail("c05/balance-change-without-log", fmt.Sprintf("contract block %d: balances changed by %s mo but the published Balance/Suicide logs account for %s", b.Height(), byView.String(), byLogs.String()), nil)
	}
	// gas: per tx gasUsed <= gasLimit, header total
	total := uint64(0)
	for _, tx := range b.Txs {
		total += tx.GasUsed()
		if tx.GasUsed() > tx.GasLimit() {
			c.Fail("c05/gas-used-exceeds-limit/contract", fmt.Sprintf("block %d: tx gasUsed %d > gasLimit %d", b.Height(), tx.GasUsed(), tx.GasLimit()), nil)
		}
	}
	if total != b.GasUsed() {
		c.Fail("c05/header-gas", fmt.Sprintf("block %d: header.GasUsed %d != sum %d", b.Height(), b.GasUsed(), total), nil)
	}
}

func classesOfBlock(b *types.Block, byHash map[common.Hash]*ledgerTx) []string {
	var cs []string
	for _, tx := range b.Txs {
		if lt := byHash[tx.Hash()]; lt != nil {
			cs = append(cs, lt.class)
		}
	}
	return cs
}

package main

// Conservation oracle for CONTRACT blocks (EVM value flows, reverted and out-of-gas executions, self-destruct): the
// ledger model does not execute bytecode, so this part of C05 is judged by the oracle alone.
// Expected change of the total of all balances = - (what self-destruct-to-itself burns), nothing else.

import (
	"crypto/ecdsa"
	"fmt"
	"math/big"
	"os"
	"sort"

	"github.com/LemoFoundationLtd/lemochain-core/chain/account"
	"github.com/LemoFoundationLtd/lemochain-core/chain/params"
	"github.com/LemoFoundationLtd/lemochain-core/chain/types"
	"github.com/LemoFoundationLtd/lemochain-core/common"
	"github.com/LemoFoundationLtd/lemochain-core/common/crypto"
)

func (l *ledger) contractSupplyOracle(b *types.Block, miner common.Address, byHash map[common.Hash]*ledgerTx, contractClass map[common.Address]string) {
	c := l.c
	// parent-side facts come from the capture taken before the block was inserted (see ledger.captureParent)
	parentCode := func(a common.Address) bool {
		if v, ok := l.pvCode[a]; ok && l.pvHash == b.ParentHash() {
			return v
		}
		code, _ := account.NewManager(b.ParentHash(), l.n.DB).GetAccount(a).GetCode()
		return len(code) > 0
	}
	parentBal := func(a common.Address) *big.Int {
		if v, ok := l.pvBal[a]; ok && l.pvHash == b.ParentHash() {
			return v
		}
		return l.n.balanceAt(b.ParentHash(), a)
	}
	// ---- expected burn, by the harness's own reading of the transactions (independent of the logs)
	burn := new(big.Int)
	destroyed := map[common.Address]bool{}
	for _, tx := range b.Txs {
		if tx.Type() != params.OrdinaryTx || tx.To() == nil {
			continue
		}
		to := *tx.To()
		cls := contractClass[to]
		executed := tx.GasUsed() < tx.GasLimit() // an EVM error (revert aside) eats the whole gas limit
		if cls != "" && parentCode(to) && !destroyed[to] {
			switch {
			case !executed:
				c.Count("contract:call-out-of-gas")
			case cls == "create-killer-self":
				// the contract's whole balance — endowment, earlier deposits, the value of this call — is destroyed
				burn.Add(burn, parentBal(to))
				burn.Add(burn, tx.Amount())
				destroyed[to] = true
				c.Count("contract:self-destruct-to-itself")
			case cls == "create-killer":
				destroyed[to] = true
				c.Count("contract:self-destruct-to-caller")
			case cls == "create-reverter":
				c.Count("contract:call-reverted")
			default:
				c.Count("contract:call-ok")
			}
			if executed && tx.Amount().Sign() > 0 {
				c.Count("contract:call-with-value")
				c.Count("contract:call-with-value:" + cls)
			}
		}
	}
	// addresses that an INNER value flow of this block may credit (forward targets of the called forwarder-like contracts,
	// and the contracts a forward-to-contract chain reaches): not judged by the per-sender checks below
	innerHits := map[common.Address]int{}
	for _, tx := range b.Txs {
		if tx.To() != nil {
			if f, ok := l.fwd[*tx.To()]; ok {
				innerHits[f]++
				if f2, ok2 := l.fwd[f]; ok2 {
					innerHits[f2]++
				}
			}
		}
	}
	// ---- INNER value flow of a plain forwarder (CALL(GAS, F, CALLVALUE, ...); STOP) called once with value and ample gas,
	// F an externally owned account nothing else in the block touches: F receives exactly the amount, the forwarder keeps
	// nothing of it; forwarder-revert: nobody but the gas payer's fee moves
	{
		touched := map[common.Address]int{}
		for _, tx := range b.Txs {
			touched[tx.From()]++
			if tx.GasPayer() != tx.From() {
				touched[tx.GasPayer()]++
			}
			if tx.To() != nil {
				touched[*tx.To()]++
			}
		}
		mInc := l.view(b.ParentHash(), miner).income
		for _, tx := range b.Txs {
			if tx.Type() != params.OrdinaryTx || tx.To() == nil || tx.Amount().Sign() == 0 {
				continue
			}
			to := *tx.To()
			cls := contractClass[to]
			f, isFwd := l.fwd[to]
			if !isFwd || (cls != "create-forwarder" && cls != "create-forwarder-revert" && cls != "create-overdrafter") || !parentCode(to) || parentCode(f) || touched[to] != 1 || touched[f] != 0 || innerHits[f] != 1 || f == mInc || f == to || tx.GasLimit() < 70000 {
				continue
			}
			gotF := new(big.Int).Sub(l.n.balanceAt(b.Hash(), f), parentBal(f))
			gotC := new(big.Int).Sub(l.n.balanceAt(b.Hash(), to), parentBal(to))
			wantF, wantC := tx.Amount(), new(big.Int)
			switch cls {
			case "create-forwarder-revert":
				wantF = new(big.Int)
			case "create-overdrafter":
				wantF, wantC = new(big.Int), tx.Amount()
			}
			c.Count("nontrivial:contract:inner-value-flow-judged:" + cls)
			if gotF.Cmp(wantF) != 0 || gotC.Cmp(wantC) != 0 {
				c.Fail("c05/inner-value-flow/"+cls, fmt.Sprintf("block %d: call of a %s contract with value %s (gasUsed %d of %d): the forward target received %s (expected %s), the contract's balance changed by %s (expected %s)", b.Height(), cls, tx.Amount(), tx.GasUsed(), tx.GasLimit(), gotF, wantF, gotC, wantC), nil)
			}
		}
	}
	if burn.Sign() > 0 {
		c.Count("contract:burn>0")
	}
	// ---- creations: "the amount moves from sender to recipient ONLY IF the transaction succeeds". The contract address is
	// fresh (derived from the tx hash) and no other tx of the block can name it: after the block it holds the endowment and
	// code (success) or nothing at all (failure: the sender paid the fee and nothing else).
	txsOf := map[common.Address]int{}
	for _, tx := range b.Txs {
		txsOf[tx.From()]++
		if tx.GasPayer() != tx.From() {
			txsOf[tx.GasPayer()]++
		}
		if tx.To() != nil {
			txsOf[*tx.To()]++
		}
	}
	minerIncome := l.view(b.ParentHash(), miner).income
	for _, tx := range b.Txs {
		if tx.Type() != params.CreateContractTx {
			continue
		}
		lt := byHash[tx.Hash()]
		k := crypto.CreateContractAddress(tx.From(), tx.Hash())
		code, _ := account.NewManager(b.Hash(), l.n.DB).GetAccount(k).GetCode()
		succeeded := len(code) > 0
		got := new(big.Int).Sub(l.n.balanceAt(b.Hash(), k), parentBal(k))
		cause := "create"
		if lt != nil && lt.need > 0 && tx.GasLimit() < lt.need && tx.GasLimit()+uint64(200*lt.rtLen) >= lt.need {
			cause = "create-codestore" // the init code ran to completion, the code deposit could not be paid
		}
		fee := new(big.Int).Mul(new(big.Int).SetUint64(tx.GasUsed()), tx.GasPrice())
		if succeeded {
			c.Count("contract:creation-succeeded")
			if got.Cmp(tx.Amount()) != 0 {
				c.Fail("c05/created-contract-balance-wrong", fmt.Sprintf("block %d: successful creation with amount %s: the contract address received %s", b.Height(), tx.Amount(), got), nil)
			}
		} else {
			c.Count("contract:creation-failed:" + cause)
			if tx.Amount().Sign() > 0 {
				c.Count("contract:creation-failed-with-value:" + cause)
			}
			if got.Sign() != 0 {
				c.Fail("c05/failed-tx-moved-value/"+cause, fmt.Sprintf("block %d: the CreateContractTx (amount %s, gasLimit %d, gasUsed %d, class %s) FAILED — no code at %s — but the address received %s mo of the sender's money", b.Height(), tx.Amount(), tx.GasLimit(), tx.GasUsed(), classOf(lt), k.String(), got), nil)
			}
		}
		// the sender's side, when nothing else in the block touches the sender
		if from := tx.From(); txsOf[from] == 1 && innerHits[from] == 0 && from != minerIncome && tx.GasPayer() == from {
			paid := new(big.Int).Sub(parentBal(from), l.n.balanceAt(b.Hash(), from))
			want := new(big.Int).Set(fee)
			if succeeded {
				want.Add(want, tx.Amount())
			}
			c.Count("contract:creation-sender-side-judged")
			if paid.Cmp(want) != 0 {
				sig := "c05/failed-tx-moved-value/" + cause
				if succeeded {
					sig = "c05/creation-sender-charged-wrong"
				}
				c.Fail(sig, fmt.Sprintf("block %d: CreateContractTx (succeeded=%v, amount %s, fee %s = gasUsed %d x price): the sender paid %s, expected %s", b.Height(), succeeded, tx.Amount(), fee, tx.GasUsed(), paid, want), nil)
			}
		}
		// the sweep knows the exact need: the outcome must be the predicted one
		if lt != nil && lt.need > 0 {
			if succeeded != (tx.GasLimit() >= lt.need) {
				c.Fail("c05/create-outcome-unexpected", fmt.Sprintf("block %d: creation needing %d gas with gasLimit %d: succeeded=%v", b.Height(), lt.need, tx.GasLimit(), succeeded), nil)
			}
			c.Count("contract:" + lt.class)
		}
	}
	// ---- observed change: (a) from the balances of every address the block names, (b) from the published logs
	named := map[common.Address]bool{}
	for _, cl := range b.ChangeLogs {
		named[cl.Address] = true
	}
	for _, tx := range b.Txs {
		named[tx.From()] = true
		named[tx.GasPayer()] = true
		if tx.To() != nil {
			named[*tx.To()] = true
		}
		if tx.Type() == params.CreateContractTx {
			named[crypto.CreateContractAddress(tx.From(), tx.Hash())] = true
		}
	}
	if mv := l.view(b.ParentHash(), miner); mv.incomeSet {
		named[mv.income] = true
	}
	// every address of the harness's own universe (inner CALL / CREATE targets are among them or carry a log): a balance
	// that moves without any log or tx naming its owner is seen too
	for _, a := range l.univ {
		named[a] = true
	}
	for a := range contractClass {
		named[a] = true
	}
	byView := new(big.Int)
	for a := range named {
		nb, ob := l.n.balanceAt(b.Hash(), a), parentBal(a)
		byView.Add(byView, new(big.Int).Sub(nb, ob))
		if nb.Sign() < 0 {
			c.Fail("c05/negative-balance", fmt.Sprintf("contract block %d: balance of %s becomes %s", b.Height(), a.String(), nb.String()), nil)
		}
	}
	byLogs := new(big.Int)
	for _, cl := range b.ChangeLogs {
		switch cl.LogType {
		case account.BalanceLog:
			o, nw := cl.OldVal.(big.Int), cl.NewVal.(big.Int)
			byLogs.Add(byLogs, new(big.Int).Sub(&nw, &o))
		case account.SuicideLog:
			if od, ok := cl.OldVal.(*types.AccountData); ok && od != nil && od.Balance != nil {
				byLogs.Sub(byLogs, od.Balance) // the account's balance is zeroed by the suicide log
			}
		}
	}
	c.Count("contract:supply-oracle-blocks")
	want := new(big.Int).Neg(burn)
	minerInc := l.view(b.ParentHash(), miner)
	if byView.Cmp(want) != 0 {
		class := "contract-block"
		if !minerInc.incomeSet {
			class = "miner-without-income-address"
		}
		c.Fail("c05/supply-changed/"+class, fmt.Sprintf("contract block %d: sum of balances changed by %s mo, expected %s (burnt by self-destruct-to-itself: %s); classes=%v", b.Height(), byView.String(), want.String(), burn.String(), classesOfBlock(b, byHash)), nil)
	}
	hasSuicide := false
	for _, cl := range b.ChangeLogs {
		if cl.LogType == account.SuicideLog {
			hasSuicide = true
		}
	}
	// (merged logs of an account with a SuicideLog do not replay to the executed balance: C07's known finding
	// c07/redo-mismatch/account-with-suicide-log — the log-based sum is only compared on blocks without one)
	if !hasSuicide && byLogs.Cmp(byView) != 0 {
		if os.Getenv("HX_DEBUG") != "" {
			for _, cl := range b.ChangeLogs {
				fmt.Fprintf(os.Stderr, "LOG %s\n", cl.String())
			}
			for _, tx := range b.Txs {
				to := "-"
				if tx.To() != nil {
					to = tx.To().String() + " class=" + contractClass[*tx.To()]
				}
				fmt.Fprintf(os.Stderr, "TX type=%d from=%s to=%s amount=%s gasUsed=%d/%d\n", tx.Type(), tx.From().String(), to, tx.Amount().String(), tx.GasUsed(), tx.GasLimit())
			}
			for a := range named {
				fmt.Fprintf(os.Stderr, "VIEW %s %s -> %s\n", a.String(), parentBal(a), l.n.balanceAt(b.Hash(), a))
			}
			fmt.Fprintf(os.Stderr, "burn=%s byView=%s byLogs=%s\n", burn, byView, byLogs)
		}
		c.Fail("c05/balance-change-without-log", fmt.Sprintf("contract block %d: balances changed by %s mo but the published Balance/Suicide logs account for %s", b.Height(), byView.String(), byLogs.String()), nil)
	}
	// gas: per tx gasUsed <= gasLimit, header total
	total := uint64(0)
	for _, tx := range b.Txs {
		total += tx.GasUsed()
		if tx.GasUsed() > tx.GasLimit() {
			c.Fail("c05/gas-used-exceeds-limit/contract", fmt.Sprintf("block %d: tx gasUsed %d > gasLimit %d", b.Height(), tx.GasUsed(), tx.GasLimit()), nil)
		}
	}
	if total != b.GasUsed() {
		c.Fail("c05/header-gas", fmt.Sprintf("block %d: header.GasUsed %d != sum %d", b.Height(), b.GasUsed(), total), nil)
	}
}

func classesOfBlock(b *types.Block, byHash map[common.Hash]*ledgerTx) []string {
	var cs []string
	for _, tx := range b.Txs {
		if lt := byHash[tx.Hash()]; lt != nil {
			cs = append(cs, lt.class)
		}
	}
	return cs
}

func classOf(lt *ledgerTx) string {
	if lt == nil {
		return "?"
	}
	return lt.class
}

// measureCreate: the gas a successful deployment of `tx` needs, measured by a trial build on `parent` that is thrown away
// (0 = the trial did not deploy).
func (l *ledger) measureCreate(parent *types.Block, t uint32, tx *types.Transaction) uint64 {
	_, k, err := l.inTurn(parent, t)
	if err != nil {
		return 0
	}
	need := uint64(0)
	Safe(func() string {
		b, _, _, err := l.buildRec(parent, t, types.Transactions{tx}, k, 105000000)
		if err == nil && len(b.Txs) == 1 && b.Txs[0].GasUsed() < b.Txs[0].GasLimit() {
			for _, cl := range b.ChangeLogs {
				if cl.LogType == account.CodeLog {
					need = b.Txs[0].GasUsed()
				}
			}
		}
		return ""
	})
	return need
}

// ---- environment-reading contracts (BLOCKHASH / COINBASE / TIMESTAMP / NUMBER / GASLIMIT) ------------------------

// bhCode: (prelude without STOP, runtime) that store BLOCKHASH(NUMBER-k) — or BLOCKHASH(NUMBER+5) for "oor" — in slot 0.
func bhCode(k string) ([]byte, []byte) {
	var ops []byte
	switch k {
	case "oor":
		ops = []byte{0x60, 0x05, 0x43, 0x01, 0x40, 0x60, 0x00, 0x55} // PUSH1 5 NUMBER ADD BLOCKHASH PUSH1 0 SSTORE
	case "257":
		ops = []byte{0x61, 0x01, 0x01, 0x43, 0x03, 0x40, 0x60, 0x00, 0x55} // PUSH2 257 NUMBER SUB BLOCKHASH PUSH1 0 SSTORE
	default:
		n := byte(k[0] - '0')
		ops = []byte{0x60, n, 0x43, 0x03, 0x40, 0x60, 0x00, 0x55} // PUSH1 k NUMBER SUB BLOCKHASH PUSH1 0 SSTORE
	}
	return ops, append(append([]byte{}, ops...), 0x00)
}

// envCode: COINBASE -> slot 1, TIMESTAMP -> 2, NUMBER -> 3, GASLIMIT -> 4.
func envCode() ([]byte, []byte) {
	ops := []byte{0x41, 0x60, 0x01, 0x55, 0x42, 0x60, 0x02, 0x55, 0x43, 0x60, 0x03, 0x55, 0x45, 0x60, 0x04, 0x55}
	return ops, append(append([]byte{}, ops...), 0x00)
}

// initWithPrelude: init code that first runs `prelude` (stack-neutral) and then deploys `runtime`.
func initWithPrelude(prelude, runtime []byte) []byte {
	n := len(runtime)
	hdr := cat(push(int64(n)), []byte{0x80}, []byte{0x60, 0x00}, []byte{0x60, 0x00}, []byte{0x39}, []byte{0x60, 0x00}, []byte{0xf3})
	hdr[len(push(int64(n)))+2] = byte(len(prelude) + len(hdr)) // CODECOPY source offset
	return cat(prelude, hdr, runtime)
}

// aliveContract: a contract of the given creation class that has code in the view of block h.
func (l *ledger) aliveContract(h common.Hash, contractClass map[common.Address]string, class string) common.Address {
	var found []common.Address
	for a, cl := range contractClass {
		if cl == class {
			found = append(found, a)
		}
	}
	sort.Slice(found, func(i, j int) bool { return found[i].String() < found[j].String() })
	am := account.NewManager(h, l.n.DB)
	for _, a := range found {
		if code, _ := am.GetAccount(a).GetCode(); len(code) > 0 {
			return a
		}
	}
	return common.Address{}
}

// blockhashFork: three blocks s1 <- s2 <- s3 on `parent`, mined on node A's data at slots of other deputies than the one
// in turn at `t`, inserted (never confirmed) into node A and node B; s3 calls the contract that stores BLOCKHASH(NUMBER-2),
// i.e. the hash of s1. The main chain continues from `parent` afterwards. Returns false when the branch could not be built.
func (l *ledger) blockhashFork(nb *Node, parent *types.Block, t uint32, exp uint64, bh2 common.Address) bool {
	c := l.c
	if l.n.DM.GetDeputiesCount(parent.Height()+1) < 2 {
		return false
	}
	mainMiner, _, err := l.inTurn(parent, t)
	if err != nil {
		return false
	}
	slot := uint32(l.w.Timeout / 1000)
	p, tt := parent, t
	var side []*types.Block
	for i := 0; i < 3; i++ {
		var k *ecdsa.PrivateKey
		found := false
		for j := uint32(1); j <= 6; j++ {
			t2 := tt + j*slot
			addr, kk, err := l.inTurn(p, t2)
			if err != nil || (i == 0 && addr == mainMiner) {
				continue
			}
			k, tt, found = kk, t2, true
			break
		}
		if !found {
			return false
		}
		txs := types.Transactions{txTransfer(l.w.FounderKey, keyAddr(l.key("u3")), lemo(int64(1+c.Rnd.Intn(50))), TxOpt{Exp: exp, Msg: fmt.Sprintf("bhf-%d-%d", parent.Height(), i)})}
		if i == 2 {
			txs = append(txs, txCall(l.w.FounderKey, bh2, nil, []byte{2}, TxOpt{Exp: exp, GasLimit: 200000, Msg: fmt.Sprintf("bhf-call-%d", parent.Height())}))
		}
		blk, _, _, err := l.buildRec(p, tt, txs, k, 105000000)
		if err != nil || len(blk.Txs) != len(txs) {
			c.Count("bhfork:side-block-not-built")
			return false
		}
		if e := l.n.Insert(CloneBlock(blk)); e != nil {
			c.Fail("c01/honest-block-rejected/side-branch", fmt.Sprintf("block %d of a side branch (honestly mined on node A's data) is rejected by node A's validator path: %v", blk.Height(), e), nil)
			return false
		}
		// (node B right away: the process-wide self node key is still this block's miner, so no engine adds a confirmation
		// of ANOTHER deputy on its own — the side branch must stay unstable)
		if e := nb.Insert(CloneBlock(blk)); e != nil {
			c.Fail("c01/honest-block-rejected/side-branch", fmt.Sprintf("block %d of a side branch mined on node A is rejected by node B: %v", blk.Height(), e), nil)
			return false
		}
		side = append(side, blk)
		p = blk
	}
	c.Count("bhfork:side-branch-executed-by-both-nodes")
	return true
}

package main

import (
	"fmt"
	"math/big"
	"time"

	"github.com/LemoFoundationLtd/lemochain-core/chain/account"
	"github.com/LemoFoundationLtd/lemochain-core/chain/types"
	"github.com/LemoFoundationLtd/lemochain-core/common"
	"github.com/LemoFoundationLtd/lemochain-core/common/crypto"
)

// C07 on the engine: "a transaction the miner discards leaves no trace at all" — the cases in which the trace is a WRITE
// THAT STAYS QUEUED in a storage cache (invisible to every getter) and shows only when Finalise publishes a root log
// {} -> hash of the empty trie for an account whose root is still the zero hash (defect repaired by 3a69bc7).
//
// Each case runs on its own pair of nodes (miner M, validator V) over the same three-block history:
//   block 1  founder funds U (issuer / contract owner) and V1 (a poor user whose overdraft makes a box fail)
//   block 2  U defines an asset; U deploys C (stores only when called with data), C2 (SSTORE then INVALID), C3 (SSTORE then REVERT)
//   block 3  the case: candidates offered to the MINER path (ApplyTxs with discards); the block it builds must
//            (a) be the block it builds when offered only the included txs      c07/discard-leaves-trace/miner-block
//            (b) be accepted by the validator path (InsertBlock on V)           c07/discard-leaves-trace/miner-block/validator-rejects
//            (c) carry no root log for the fresh address R / the storage-less contract
// Error classes that make ApplyTxs DISCARD after state was written: an execution error of a non-EVM tx kind and of a box
// (any failing sub-tx fails the whole box, the sub-txs that ran before it are reverted by the miner's RevertToSnapshot);
// an EVM failure (revert, invalid opcode, out of gas) does NOT discard: the tx is included, the EVM reverts its own frame
// and adds the failure event to the contract — that case is judged by (d):
//   (d) a KEPT failing call that stored before it failed leaves nothing beyond the failure event: no StorageRootLog,
//       storage root still zero                                                 c07/failed-call-leaves-trace/storage-root
func dirtyTraceCases(c *Ctx, mode string) {
	if mode != "c01" {
		return
	}
	if res := Safe(func() string { dirtyTraceBlockFull(c); return "ok" }); res != "ok" {
		c.Fail("c07/discard-leaves-trace/scenario-panic", "engine-level case box-gaslimit-reached panicked: "+res, nil)
	}
	for _, cs := range []string{"box-issue-asset/box-first", "box-issue-asset/transfer-first", "box-contract-sstore/box-first", "box-contract-sstore/transfer-first", "box-contract-sstore-noop/box-first", "box-contract-sstore-noop/transfer-first", "kept-failed-call/invalid", "kept-failed-call/revert"} {
		res := Safe(func() string { dirtyTraceCase(c, cs); return "ok" })
		c.Count("c07:dirtytrace:" + cs + ":" + res)
		if res != "ok" {
			c.Fail("c07/discard-leaves-trace/scenario-panic", "engine-level case "+cs+" panicked", nil)
		}
	}
}

// dirtyTraceBlockFull: the OTHER way a candidate is dropped after it wrote — the block is full (ErrGasLimitReached): a box whose
// later sub-tx no longer fits into the block's gas pool after its earlier sub-txs ran is skipped (not even listed as invalid). The
// block gas limit is swept so that every split point of the box is hit; whenever the miner includes the plain transfer and not the
// box, the block must be the block it builds from the transfer alone, and the validator path must accept it.
func dirtyTraceBlockFull(c *Ctx) {
	now := uint32(time.Now().Unix())
	w := NewWorld(3, now-600000, 10000)
	m := w.NewNode(3)
	defer m.Close()
	v := w.NewNode(3)
	defer v.Close()
	uk := detKey("dt-full-user")
	U := keyAddr(uk)
	A, B, D := keyAddr(detKey("dt-full-a")), keyAddr(detKey("dt-full-b")), keyAddr(detKey("dt-full-d"))
	parent := m.BC.CurrentBlock()
	t := parent.Time() + 1
	fund, _, err := m.Build(parent, t, types.Transactions{txTransfer(w.FounderKey, U, lemo(1000), TxOpt{Exp: uint64(t) + 100, Msg: "dt-full-fund"})}, nil)
	if err != nil {
		panic(err)
	}
	for _, n := range []*Node{m, v} {
		if err := n.Insert(CloneBlock(fund)); err != nil {
			panic(err)
		}
	}
	parent, t = fund, t+1
	mk := func() (types.Transactions, *types.Transaction, *types.Transaction) {
		exp := uint64(t) + 100
		s1 := txTransfer(uk, A, lemo(3), TxOpt{Exp: exp, GasLimit: 30000, Msg: "dt-full-s1"})
		s2 := txTransfer(uk, B, lemo(4), TxOpt{Exp: exp, GasLimit: 30000, Msg: "dt-full-s2"})
		box := txBox(uk, types.Transactions{s1, s2}, TxOpt{Exp: exp, GasLimit: 200000, Msg: "dt-full-box"})
		pay := txTransfer(w.FounderKey, D, lemo(1), TxOpt{Exp: exp, GasLimit: 30000, Msg: "dt-full-pay"})
		return types.Transactions{pay, box}, box, pay
	}
	hit := 0
	for gl := uint64(200000); gl <= 330000; gl += 2500 {
		cands, box, pay := mk()
		blk, _, err := m.BuildGas(parent, t, cands, nil, gl)
		if err != nil {
			continue
		}
		hasPay, hasBox := false, false
		for _, tx := range blk.Txs {
			hasPay = hasPay || tx.Hash() == pay.Hash()
			hasBox = hasBox || tx.Hash() == box.Hash()
		}
		if !hasPay || hasBox {
			continue
		}
		hit++
		_, _, pay2 := mk()
		only, _, err := m.BuildGas(parent, t, types.Transactions{pay2}, nil, gl)
		if err != nil {
			panic(err)
		}
		if only.Hash() != blk.Hash() || only.LogRoot() != blk.LogRoot() || only.VersionRoot() != blk.VersionRoot() {
			c.Fail("c07/discard-leaves-trace/miner-block", fmt.Sprintf("case box-gaslimit-reached (block gas limit %d): the miner skipped the box [transfer, transfer] because the block was full; mining the same slot with only the included transfer gives another block (logRoot equal=%v, versionRoot equal=%v, %d vs %d change logs)", gl, only.LogRoot() == blk.LogRoot(), only.VersionRoot() == blk.VersionRoot(), len(blk.ChangeLogs), len(only.ChangeLogs)), nil)
			return
		}
		if gl%10000 == 0 {
			vv := w.NewNode(3)
			e1 := vv.Insert(CloneBlock(fund))
			e2 := vv.Insert(CloneBlock(blk))
			vv.Close()
			if e1 != nil || e2 != nil {
				c.Fail("c07/discard-leaves-trace/miner-block/validator-rejects", fmt.Sprintf("case box-gaslimit-reached (block gas limit %d): the block the miner built after skipping the box is refused by another node: %v %v", gl, e1, e2), nil)
				return
			}
		}
	}
	c.Count(fmt.Sprintf("c07:dirtytrace:box-gaslimit-reached:splits-hit-%d", hit))
	if hit == 0 {
		c.Fail("c07/discard-leaves-trace/scenario-not-reached", "case box-gaslimit-reached: no block gas limit of the sweep made the miner include the transfer and skip the box", nil)
	}
}

func dirtyTraceCase(c *Ctx, cs string) {
	now := uint32(time.Now().Unix())
	w := NewWorld(3, now-600000, 10000)
	m := w.NewNode(3)
	defer m.Close()
	v := w.NewNode(3)
	defer v.Close()
	uk, pk := detKey("dt-issuer"), detKey("dt-poor")
	U, P := keyAddr(uk), keyAddr(pk)
	R := keyAddr(detKey("dt-fresh-" + cs)) // never touched before block 3
	parent := m.BC.CurrentBlock()
	t := parent.Time() + 1
	exp := func() uint64 { return uint64(t) + 100 }
	seq := 0
	msg := func() string { seq++; return fmt.Sprintf("dt-%s-%d", cs, seq) }
	// mine on M, insert on both; returns the block and the txs the miner refused
	mine := func(txs types.Transactions) (*types.Block, types.Transactions) {
		blk, inv, err := m.Build(parent, t, txs, nil)
		if err != nil {
			panic(err)
		}
		// the other deputies' confirms travel with the block: it is stable on arrival (IssueAssetTx is only accepted
		// for an asset whose definition is in a STABLE block: VerifyAssetTx reads the canonical account)
		for _, k := range w.DeputyKeys {
			if keyAddr(k) != blk.MinerAddress() {
				blk.Confirms = append(blk.Confirms, Confirm(blk, k))
			}
		}
		if err := m.Insert(CloneBlock(blk)); err != nil {
			panic(fmt.Sprintf("setup block %d refused by the miner's own node: %v", blk.Height(), err))
		}
		if err := v.Insert(CloneBlock(blk)); err != nil {
			panic(fmt.Sprintf("setup block %d refused by the validator: %v", blk.Height(), err))
		}
		if m.BC.StableBlock().Height() != blk.Height() || v.BC.StableBlock().Height() != blk.Height() {
			panic(fmt.Sprintf("setup block %d did not become stable", blk.Height()))
		}
		parent = blk
		t++
		return blk, inv
	}
	mine(types.Transactions{
		txTransfer(w.FounderKey, U, lemo(1000), TxOpt{Exp: exp(), Msg: msg()}),
		txTransfer(w.FounderKey, P, lemo(1), TxOpt{Exp: exp(), Msg: msg()}),
	})
	// C: CALLDATASIZE ISZERO PUSH1 0x0a JUMPI PUSH1 1 PUSH1 0 SSTORE JUMPDEST STOP — stores only when called with data
	rtC := []byte{0x36, 0x15, 0x60, 0x0a, 0x57, 0x60, 0x01, 0x60, 0x00, 0x55, 0x5b, 0x00}
	// C0: the same, but the value stored is ZERO: a write that changes nothing (its log is not "valuable"), yet it queues a pending write
	rtC0 := []byte{0x36, 0x15, 0x60, 0x0a, 0x57, 0x60, 0x00, 0x60, 0x00, 0x55, 0x5b, 0x00}
	rtC2 := []byte{0x60, 0x01, 0x60, 0x00, 0x55, 0xfe}                         // SSTORE(0,1); INVALID
	rtC3 := []byte{0x60, 0x01, 0x60, 0x00, 0x55, 0x60, 0x00, 0x60, 0x00, 0xfd} // SSTORE(0,1); REVERT(0,0)
	createAsset := txCreateAsset(uk, 1, true, true, TxOpt{Exp: exp(), Msg: msg()})
	mkC, mkC2, mkC3 := txCreate(uk, nil, initCodeFor(rtC), TxOpt{Exp: exp(), Msg: msg()}), txCreate(uk, nil, initCodeFor(rtC2), TxOpt{Exp: exp(), Msg: msg()}), txCreate(uk, nil, initCodeFor(rtC3), TxOpt{Exp: exp(), Msg: msg()})
	mkC0 := txCreate(uk, nil, initCodeFor(rtC0), TxOpt{Exp: exp(), Msg: msg()})
	b2, inv2 := mine(types.Transactions{createAsset, mkC, mkC2, mkC3, mkC0})
	if len(inv2) != 0 || len(b2.Txs) != 5 {
		panic(fmt.Sprintf("setup block 2: %d txs included, %d refused", len(b2.Txs), len(inv2)))
	}
	assetCode := createAsset.Hash()
	C, C2, C3 := crypto.CreateContractAddress(U, mkC.Hash()), crypto.CreateContractAddress(U, mkC2.Hash()), crypto.CreateContractAddress(U, mkC3.Hash())
	C0 := crypto.CreateContractAddress(U, mkC0.Hash())
	base := account.NewManager(parent.Hash(), m.DB)
	for _, ca := range []common.Address{C, C2, C3, C0} {
		a := base.GetAccount(ca)
		if code, _ := a.GetCode(); len(code) == 0 || a.GetStorageRoot() != (common.Hash{}) {
			panic("setup: the contract was not deployed, or it is not storage-less")
		}
	}
	if a := base.GetAccount(R); !a.IsEmpty() || a.GetEquityRoot() != (common.Hash{}) {
		panic("setup: R is not fresh")
	}
	overdraft := func() *types.Transaction {
		return txTransfer(pk, U, lemo(950000), TxOpt{Exp: exp(), Msg: msg()})
	}
	rootLogsOf := func(b *types.Block, a common.Address) (out []string) {
		for _, l := range b.ChangeLogs {
			if l.Address == a && (l.LogType == account.StorageRootLog || l.LogType == account.AssetCodeRootLog || l.LogType == account.AssetIdRootLog || l.LogType == account.EquityRootLog) {
				out = append(out, l.String())
			}
		}
		return
	}
	// judge a block-3 whose candidate list contains txs the miner must discard
	judgeDiscard := func(cands types.Transactions, mustDiscard *types.Transaction, watched common.Address, what string, probe *types.Transaction, probeLog types.ChangeLogType) {
		// the scenario is only reached if the box's first sub-tx really writes into a trie of the watched account: mined on its
		// own (dry run, nothing stored) it must be included and publish a log of that kind for the account
		pb, pinv, err := m.Build(parent, t, types.Transactions{probe.Clone()}, nil)
		wrote := probeLog == 0 // 0: the write changes nothing and publishes no log; being included is all the dry run can show
		if err == nil {
			for _, l := range pb.ChangeLogs {
				wrote = wrote || (l.Address == watched && l.LogType == probeLog)
			}
		}
		if err != nil || len(pinv) != 0 || !wrote {
			c.Fail("c07/discard-leaves-trace/scenario-not-reached", fmt.Sprintf("case %s: the first sub-tx of the box, mined alone, does not write a %s of %s (err=%v, refused=%d)", cs, probeLog.String(), watched.String(), err, len(pinv)), nil)
			return
		}
		orig := make(types.Transactions, len(cands))
		for i, tx := range cands {
			orig[i] = tx.Clone()
		}
		blk, inv, err := m.Build(parent, t, cands, nil)
		if err != nil {
			panic(err)
		}
		discarded := false
		for _, tx := range inv {
			discarded = discarded || tx.Hash() == mustDiscard.Hash() || string(tx.Sigs()[0]) == string(mustDiscard.Sigs()[0])
		}
		if !discarded || len(blk.Txs) != len(cands)-1 {
			c.Count("c07:dirtytrace:" + cs + ":scenario-not-reached")
			c.Fail("c07/discard-leaves-trace/scenario-not-reached", fmt.Sprintf("case %s: the miner included %d of %d candidates and refused %d; the box was expected to be discarded and everything else included", cs, len(blk.Txs), len(cands), len(inv)), nil)
			return
		}
		c.Count("c07:dirtytrace:" + cs + ":box-discarded-after-its-first-sub-tx-ran")
		// (a) the same slot with only the included txs
		var only types.Transactions
		for _, tx := range orig {
			if string(tx.Sigs()[0]) != string(mustDiscard.Sigs()[0]) {
				only = append(only, tx)
			}
		}
		b2, _, err := m.Build(parent, t, only, nil)
		if err != nil {
			panic(err)
		}
		roots := rootLogsOf(blk, watched)
		if b2.Hash() != blk.Hash() || b2.LogRoot() != blk.LogRoot() || b2.VersionRoot() != blk.VersionRoot() {
			c.Fail("c07/discard-leaves-trace/miner-block", fmt.Sprintf("case %s (%s): the miner discarded the box; mining the same slot with only the %d included txs gives another block (logRoot equal=%v, versionRoot equal=%v, %d vs %d change logs); root logs of %s in the block mined WITH the discarded box: %v",
				cs, what, len(only), b2.LogRoot() == blk.LogRoot(), b2.VersionRoot() == blk.VersionRoot(), len(blk.ChangeLogs), len(b2.ChangeLogs), watched.String(), roots), nil)
		}
		// (b) the validator path
		if err := v.Insert(CloneBlock(blk)); err != nil {
			c.Fail("c07/discard-leaves-trace/miner-block/validator-rejects", fmt.Sprintf("case %s (%s): the block the miner built after discarding the box is refused by InsertBlock on another node: %v; root logs of %s in it: %v", cs, what, err, watched.String(), roots), nil)
		} else {
			c.Count("c07:dirtytrace:" + cs + ":validator-accepts")
		}
		// (c) nothing about the tries of the watched account, whose only kept change is a balance
		if len(roots) != 0 {
			c.Fail("c07/discard-leaves-trace/miner-block/root-log", fmt.Sprintf("case %s (%s): the block carries root logs of %s although every write to its tries was discarded: %v", cs, what, watched.String(), roots), nil)
		}
	}
	switch cs {
	case "box-issue-asset/box-first", "box-issue-asset/transfer-first":
		issue := txIssueAsset(uk, R, assetCode, "500", "meta", TxOpt{Exp: exp(), Msg: msg()})
		box := txBox(uk, types.Transactions{issue, overdraft()}, TxOpt{Exp: exp(), Msg: msg()})
		pay := txTransfer(w.FounderKey, R, lemo(1), TxOpt{Exp: exp(), Msg: msg()})
		cands := types.Transactions{box, pay}
		if cs == "box-issue-asset/transfer-first" {
			cands = types.Transactions{pay, box}
		}
		judgeDiscard(cands, box, R, "box[IssueAssetTx to the fresh address R, overdraft] + transfer to R", issue, account.EquityLog)
	case "box-contract-sstore-noop/box-first", "box-contract-sstore-noop/transfer-first":
		// the discarded write is SSTORE(0,0) on a slot never written: nothing changes, no log is worth publishing, but a pending write is
		// queued; if the revert does not take it back, Finalise turns the zero storage root into the empty-trie hash on the miner only
		store := txCall(uk, C0, nil, []byte{0x01}, TxOpt{Exp: exp(), GasLimit: 200000, Msg: msg()})
		box := txBox(uk, types.Transactions{store, overdraft()}, TxOpt{Exp: exp(), Msg: msg()})
		pay := txTransfer(w.FounderKey, C0, lemo(1), TxOpt{Exp: exp(), GasLimit: 200000, Msg: msg()})
		cands := types.Transactions{box, pay}
		if cs == "box-contract-sstore-noop/transfer-first" {
			cands = types.Transactions{pay, box}
		}
		judgeDiscard(cands, box, C0, "box[call that stores ZERO into a never-written slot of the storage-less contract C0, overdraft] + plain transfer to C0", store, 0)
	case "box-contract-sstore/box-first", "box-contract-sstore/transfer-first":
		store := txCall(uk, C, nil, []byte{0x01}, TxOpt{Exp: exp(), GasLimit: 200000, Msg: msg()})
		box := txBox(uk, types.Transactions{store, overdraft()}, TxOpt{Exp: exp(), Msg: msg()})
		pay := txTransfer(w.FounderKey, C, lemo(1), TxOpt{Exp: exp(), GasLimit: 200000, Msg: msg()})
		cands := types.Transactions{box, pay}
		if cs == "box-contract-sstore/transfer-first" {
			cands = types.Transactions{pay, box}
		}
		judgeDiscard(cands, box, C, "box[call that SSTOREs into the storage-less contract C, overdraft] + plain transfer to C", store, account.StorageLog)
	case "kept-failed-call/invalid", "kept-failed-call/revert":
		target, kind := C2, "INVALID"
		if cs == "kept-failed-call/revert" {
			target, kind = C3, "REVERT"
		}
		call := txCall(uk, target, nil, []byte{0x01}, TxOpt{Exp: exp(), GasLimit: 200000, Msg: msg()})
		blk, inv, err := m.Build(parent, t, types.Transactions{call}, nil)
		if err != nil {
			panic(err)
		}
		if len(inv) != 0 || len(blk.Txs) != 1 {
			c.Fail("c07/discard-leaves-trace/scenario-not-reached", fmt.Sprintf("case %s: a call that fails inside the EVM is expected to be included (gas paid), got %d included, %d refused", cs, len(blk.Txs), len(inv)), nil)
			return
		}
		failed := false
		for _, l := range blk.ChangeLogs {
			if l.Address == target && l.LogType == account.AddEventLog {
				failed = true
			}
		}
		if !failed {
			c.Fail("c07/discard-leaves-trace/scenario-not-reached", fmt.Sprintf("case %s: no failure event on the contract", cs), nil)
			return
		}
		c.Count("c07:dirtytrace:" + cs + ":call-failed-after-sstore-and-was-included")
		if err := v.Insert(CloneBlock(blk)); err != nil {
			c.Fail("c07/discard-leaves-trace/miner-block/validator-rejects", fmt.Sprintf("case %s: block with the failing call refused: %v", cs, err), nil)
			return
		}
		roots := rootLogsOf(blk, target)
		after := account.NewManager(blk.Hash(), v.DB).GetAccount(target).GetStorageRoot()
		if len(roots) != 0 || after != (common.Hash{}) {
			c.Fail("c07/failed-call-leaves-trace/storage-root", fmt.Sprintf("case %s: a call to a storage-less contract that SSTOREs and then fails (%s) is included with its failure event; beyond it the block carries %v and the contract's storage root after the block is %s (expected: no root log, zero root)", cs, kind, roots, after.Hex()), nil)
		}
	}
	_ = big.NewInt
}

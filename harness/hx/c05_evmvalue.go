package main

// c05_evmvalue.go — the tie of lean/LemoModel/EvmValue.lean (the VALUE FLOW of contract execution) to the real engine.
//
// Two sources of `evmv` op lines (one line = one block of contract transactions):
//
//  A. evmValueCases: generated frame-tree PROGRAMS. The generator draws a plan (nested CALL / CALLCODE / DELEGATECALL /
//     STATICCALL / CREATE with values and gas allowances, SELFDESTRUCT to caller / itself / a fresh address / twice, bodies that
//     end with STOP / REVERT / an invalid opcode, init code that returns nothing / one byte / too much), compiles it to
//     bytecode, chooses every initial balance, stores that state as a block of its own store, and runs the REAL
//     transaction.TxProcessor.ApplyTxs (miner path) and Process (validator path) on it.
//  B. (*ledger).evmValueBlock: every contract block of the ledger scenario (forwarder / overdrafter / creator / killer
//     contracts, the creation gas sweep) is re-executed by the real Process on its parent state.
//
// In both the executed TREE — shape, operands of every CALL* / CREATE / SELFDESTRUCT, how every body ended — is recorded by a
// vm.Tracer (hook TxProcessor.VerifSetTracer, observation only), never taken from the plan; the INITIAL balances are the
// generator's (A) or the parent state's (B); the answer — which txs are included, the success flag every caller saw, the
// final balance of every address the trees name — is read from the real post-state / the real stacks on one side and
// computed by the Lean model from the initial balances on the other.
//
// WHAT IS FED ABOUT SUCCESS, AND WHAT IS NOT (repair of review finding H-C05-1): per frame the line carries only how the
// frame's BODY ended by itself — "" / REVERT / other error, taken from the last step traced AT THE CALLEE'S DEPTH (CaptureState
// with an error = the step was refused, CaptureFault = it failed while executing), see (*evNode).outcome. It never carries the
// flag the caller saw. A frame the engine refused before any callee code ran — depth limit, CanTransfer, CREATE / CALL with
// value / SELFDESTRUCT in read-only mode — is sent as "o" with an empty body: model and mirror must predict the refusal
// from the depth, their OWN balances and the read-only mode. Frames that run no code: a callee without code = "o"; fed
// facts: a PRECOMPILE's result (from the flag, and only when the mirror does not refuse the frame itself), a top-level
// precompile's result (CaptureEnd's error), CREATE onto a non-empty account (IsEmpty read before the step), a failed code
// deposit (recomputed from the RETURN step's size operand and remaining gas with the literals 24576 / 200).
// The REAL flags (callers' stacks) are printed in the implementation's answer and compared with the flags the Lean model
// computes; oracle c05/evm-flag-mismatch/<kind> compares them with the Go mirror's.
// The refusals are reached on purpose: shape "funds-boundary-inside-the-tree" (value = balance-1 / balance / balance+1 by
// CALL / CALLCODE / CREATE), shape "self-recursion-to-the-depth-limit" (a contract calling itself with 2·10^14 gas: the real
// engine enters evm.depth 1024 and refuses 1025 — the first cases of every run are forced to these shapes), "static-writes".
//
// Direct oracles (no model involved): c05/evm-flag-mismatch/<kind>, c05/evm-value-mismatch/<class> (a Go mirror of the model's rules, classified by what
// the tree contains), c05/evm-value-mismatch/validator-path (Process ≠ ApplyTxs), c05/evm-supply-grew,
// c05/evm-supply-changed/no-selfdestruct, c05/failed-tx-moved-value/evm, c05/negative-balance.

import (
	"crypto/ecdsa"
	"fmt"
	"math/big"
	"math/rand"
	"os"
	"sort"
	"strings"
	"time"

	"github.com/LemoFoundationLtd/lemochain-core/chain/account"
	"github.com/LemoFoundationLtd/lemochain-core/chain/params"
	"github.com/LemoFoundationLtd/lemochain-core/chain/transaction"
	"github.com/LemoFoundationLtd/lemochain-core/chain/types"
	"github.com/LemoFoundationLtd/lemochain-core/chain/vm"
	"github.com/LemoFoundationLtd/lemochain-core/common"
	"github.com/LemoFoundationLtd/lemochain-core/common/crypto"
	"github.com/LemoFoundationLtd/lemochain-core/store"
)

// ---- the recorded tree ------------------------------------------------------------------------------------------

type evNode struct {
	kind    string // c cc d s n
	callee  common.Address
	value   *big.Int
	acts    []evAct
	bodyErr string // how the BODY ended by itself: "" = well (or it never ran), "revert", "fail" — from the steps at the callee's depth, never from the flag
	flag    int    // what the caller REALLY saw pushed: 1 / 0; -1 = never entered (attempted under write protection). Compared, never fed.
	top     bool   // the frame of CaptureStart
	steps   bool   // at least one step of its own code was traced
	collide bool   // CREATE whose target account was not IsEmpty() just before the step (read from the state, not from the flag)
	retSeen bool   // creation: its init code ended with an executed RETURN …
	retSize *big.Int
	gasLeft uint64 // … with this much gas left after the RETURN step (code deposit = 200 / byte is paid from it)
	fed     string // precompile callee without a step: the precompile's result ("o"/"f"), resolved by evSimFrame
	simFlag int    // the flag the harness mirror computes (-1 never entered, -2 not reached)
}

type evAct struct {
	sub  *evNode
	kill *common.Address
}

// outcome: how the frame's BODY ended by itself — the only thing about success that is FED to the model. It never looks at
// n.flag (the exception, documented: a precompile's own result, see evSimFrame). A frame the engine refused before running
// any code (depth limit, CanTransfer, write protection) has no body outcome: "o" is sent and the MODEL must refuse it.
//   code ran:       from the last traced step at the callee's depth ("" / REVERT / any other error, out of gas included);
//                   a creation whose init code RETURNed n bytes fails when n > 24576 or 200·n > the gas left after the RETURN
//                   step (recomputed here from the step's operands, own literals)
//   no code ran:    CREATE on a non-empty account (collide, read from the state before the step) = "f"; a precompile = its
//                   result (fed); everything else (no code at the callee, empty init code) = "o"
func (n *evNode) outcome() string {
	if n.steps {
		switch n.bodyErr {
		case "revert":
			return "r"
		case "fail":
			return "f"
		}
		if n.kind == "n" && n.retSeen {
			if n.retSize.Cmp(big.NewInt(24576)) > 0 {
				return "f"
			}
			if new(big.Int).Mul(n.retSize, big.NewInt(200)).Cmp(new(big.Int).SetUint64(n.gasLeft)) > 0 {
				return "f"
			}
		}
		return "o"
	}
	switch {
	case n.collide:
		return "f"
	case n.top:
		switch n.bodyErr { // CaptureEnd's error of a run without a step: a precompile's result (fed)
		case "revert":
			return "r"
		case "fail":
			return "f"
		}
		return "o"
	case n.kind != "n" && vm.PrecompiledContracts[n.callee] != nil && n.fed != "":
		return n.fed
	}
	return "o"
}

// one CaptureStart .. CaptureEnd
type evRun struct {
	from, to common.Address
	create   bool
	gas      uint64
	txHash   common.Hash
	hashSeen bool
	top      *evNode
	ended    bool
}

type evTracer struct {
	am       *account.Manager // the manager the traced EVM works on (read only: IsEmpty of a CREATE target before the step)
	runs     []*evRun
	cur      *evRun
	frames   []*evNode // frames[i] runs at interpreter depth i+1
	pending  *evNode   // a CALL* / CREATE captured at pendingDepth whose own first step has not been seen yet
	pendingD int
	problems []string
}

func (t *evTracer) problem(f string, a ...interface{}) {
	if len(t.problems) < 5 {
		t.problems = append(t.problems, fmt.Sprintf(f, a...))
	}
}

func (t *evTracer) CaptureStart(from common.Address, to common.Address, create bool, input []byte, gas uint64, value *big.Int) error {
	k := "c"
	if create {
		k = "n"
	}
	v := new(big.Int)
	if value != nil {
		v.Set(value)
	}
	t.cur = &evRun{from: from, to: to, create: create, gas: gas, top: &evNode{kind: k, callee: to, value: v, flag: 1, top: true}}
	t.runs = append(t.runs, t.cur)
	t.frames = []*evNode{t.cur.top}
	t.pending = nil
	return nil
}

func evTop(st *vm.Stack) int {
	d := st.Data()
	if len(d) == 0 {
		return 0
	}
	if d[len(d)-1].Sign() != 0 {
		return 1
	}
	return 0
}

func evErrClass(err error) string {
	if err != nil && err.Error() == "evm: execution reverted" {
		return "revert"
	}
	return "fail"
}

func (t *evTracer) step(env *vm.EVM, op vm.OpCode, gas, cost uint64, stack *vm.Stack, contract *vm.Contract, depth int, err error, fault bool) {
	if t.cur == nil || t.cur.ended {
		t.problem("step outside a run")
		return
	}
	t.cur.txHash, t.cur.hashSeen = env.TxHash, true
	// 1. what the depth of this step says about the frames opened before
	if t.pending != nil {
		switch depth {
		case t.pendingD + 1: // its code runs
			t.frames = append(t.frames, t.pending)
		case t.pendingD: // it came back without a step of its own: refused at the entry, no code, a precompile
			t.pending.flag = evTop(stack)
		default:
			t.problem("pending frame of depth %d followed by a step at depth %d", t.pendingD, depth)
		}
		t.pending = nil
	}
	for len(t.frames) > depth && depth >= 1 {
		f := t.frames[len(t.frames)-1]
		t.frames = t.frames[:len(t.frames)-1]
		if len(t.frames) == depth {
			f.flag = evTop(stack)
		} else {
			t.problem("two frames closed without a step of the caller in between")
		}
	}
	if len(t.frames) != depth || depth < 1 {
		t.problem("step at depth %d with %d open frames", depth, len(t.frames))
		return
	}
	cur := t.frames[depth-1]
	cur.steps = true
	// 2. this step
	if fault {
		cur.bodyErr = evErrClass(err) // the step was logged and executed; it ended the frame (REVERT, or an error while executing)
		return
	}
	data := stack.Data()
	back := func(i int) *big.Int { return new(big.Int).Set(data[len(data)-1-i]) }
	var node *evNode
	var kill *common.Address
	switch op {
	case vm.CALL, vm.CALLCODE:
		if len(data) >= 7 {
			k := "c"
			if op == vm.CALLCODE {
				k = "cc"
			}
			node = &evNode{kind: k, callee: common.BigToAddress(back(1)), value: back(2), flag: -1}
		}
	case vm.DELEGATECALL, vm.STATICCALL:
		if len(data) >= 6 {
			k := "d"
			if op == vm.STATICCALL {
				k = "s"
			}
			node = &evNode{kind: k, callee: common.BigToAddress(back(1)), value: new(big.Int), flag: -1}
		}
	case vm.CREATE:
		if len(data) >= 3 {
			// the new address by the harness's own call of the address rule: creator's context address + tx hash
			node = &evNode{kind: "n", callee: crypto.CreateContractAddress(contract.GetAddress(), env.TxHash), value: back(0), flag: -1}
			if err == nil && t.am != nil {
				node.collide = !t.am.GetAccount(node.callee).IsEmpty()
			}
		}
	case vm.RETURN:
		if len(data) >= 2 && err == nil && cur.kind == "n" && gas >= cost {
			cur.retSeen, cur.retSize, cur.gasLeft = true, back(1), gas-cost
		}
	case vm.SELFDESTRUCT:
		if len(data) >= 1 {
			a := common.BigToAddress(back(0))
			kill = &a
		}
	}
	if err != nil {
		// the step was NOT executed (stack / write-protection / gas check failed): the frame ends with this error
		if err.Error() == "evm: write protection" && (node != nil || kill != nil) {
			// the attempted CREATE / CALL with value / SELFDESTRUCT is passed on and NO error is recorded for the body: the model
			// must refuse it by its own read-only rule (a model without the rule would go on and answer other flags)
			if node != nil {
				cur.acts = append(cur.acts, evAct{sub: node})
			} else {
				cur.acts = append(cur.acts, evAct{kill: kill})
			}
			return
		}
		cur.bodyErr = evErrClass(err)
		return
	}
	if node != nil {
		cur.acts = append(cur.acts, evAct{sub: node})
		t.pending, t.pendingD = node, depth
	} else if kill != nil {
		cur.acts = append(cur.acts, evAct{kill: kill})
	}
}

func (t *evTracer) CaptureState(env *vm.EVM, pc uint64, op vm.OpCode, gas, cost uint64, memory *vm.Memory, stack *vm.Stack, contract *vm.Contract, depth int, err error) error {
	t.step(env, op, gas, cost, stack, contract, depth, err, false)
	return nil
}

func (t *evTracer) CaptureFault(env *vm.EVM, pc uint64, op vm.OpCode, gas, cost uint64, memory *vm.Memory, stack *vm.Stack, contract *vm.Contract, depth int, err error) error {
	t.step(env, op, gas, cost, stack, contract, depth, err, true)
	return nil
}

func (t *evTracer) CaptureEnd(output []byte, gasUsed uint64, tm time.Duration, err error) error {
	if t.cur == nil {
		t.problem("CaptureEnd without a run")
		return nil
	}
	t.cur.ended = true
	if t.pending != nil || len(t.frames) > 1 {
		t.problem("the run ended with %d open frames", len(t.frames))
	}
	if err != nil {
		t.cur.top.flag = 0
		if t.cur.top.bodyErr == "" {
			if !t.cur.top.steps {
				t.cur.top.bodyErr = evErrClass(err) // no code ran: a precompile's own result (fed)
			} else if t.cur.top.kind != "n" {
				t.problem("top-level call failed with %v although its code ended well", err)
			} // (a creation: the code deposit failed — recomputed by outcome() from the RETURN step)
		}
	} else if t.cur.top.bodyErr != "" {
		t.problem("top-level frame ended with %s but the call returned no error", t.cur.top.bodyErr)
	}
	t.pending, t.frames = nil, nil
	return nil
}

// ---- a block of contract transactions, as the model sees it -----------------------------------------------------------

type evTx struct {
	tx        *types.Transaction
	intrinsic uint64
	included  bool
	gasUsed   uint64
	top       *evNode
}

type evLabels struct {
	m     map[common.Address]int
	order []common.Address
}

func (l *evLabels) of(a common.Address) int {
	if v, ok := l.m[a]; ok {
		return v
	}
	if l.m == nil {
		l.m = map[common.Address]int{}
	}
	l.order = append(l.order, a)
	l.m[a] = len(l.order)
	return len(l.order)
}

func evWalk(n *evNode, f func(n *evNode, kill *common.Address)) {
	f(n, nil)
	for _, a := range n.acts {
		if a.sub != nil {
			evWalk(a.sub, f)
		} else {
			f(nil, a.kill)
		}
	}
}

func evFrameString(n *evNode, lab *evLabels) string {
	var sb strings.Builder
	fmt.Fprintf(&sb, "F %s %d %s %s %d", n.kind, lab.of(n.callee), n.value.String(), n.outcome(), len(n.acts))
	for _, a := range n.acts {
		if a.sub != nil {
			sb.WriteString(" " + evFrameString(a.sub, lab))
		} else {
			fmt.Fprintf(&sb, " K %d", lab.of(*a.kill))
		}
	}
	return sb.String()
}

// evFlags: the success flags of the frames that were entered, caller first, in execution order
func evFlags(n *evNode, out *[]byte) {
	if n.flag < 0 {
		return
	}
	*out = append(*out, byte('0'+n.flag))
	for _, a := range n.acts {
		if a.sub != nil {
			evFlags(a.sub, out)
		}
	}
}

func evTopOf(tx *types.Transaction) *evNode {
	if tx.Type() == params.CreateContractTx {
		return &evNode{kind: "n", callee: crypto.CreateContractAddress(tx.From(), tx.Hash()), value: new(big.Int).Set(tx.Amount()), flag: 1, top: true}
	}
	to := common.Address{}
	if tx.To() != nil {
		to = *tx.To()
	}
	return &evNode{kind: "c", callee: to, value: new(big.Int).Set(tx.Amount()), flag: 1, top: true}
}

// evAttach gives every included tx the tree of its run (an included tx without a run took evm.Call's early exit: no code,
// no value — an empty successful frame). Returns a problem text when runs and txs cannot be matched.
func evAttach(txs []*evTx, tr *evTracer) string {
	used := make([]bool, len(tr.runs))
	match := func(e *evTx, r *evRun) bool {
		top := evTopOf(e.tx)
		return r.from == e.tx.From() && r.to == top.callee && r.create == (top.kind == "n") && r.top.value.Cmp(e.tx.Amount()) == 0 && r.gas == e.tx.GasLimit()-e.intrinsic
	}
	// runs that saw the tx hash first
	for _, e := range txs {
		if !e.included {
			continue
		}
		for i, r := range tr.runs {
			if !used[i] && r.hashSeen && r.txHash == e.tx.Hash() {
				if !match(e, r) {
					return fmt.Sprintf("the run of tx %s does not carry the tx's from / to / value / gas", e.tx.Hash().Hex())
				}
				e.top, used[i] = r.top, true
				break
			}
		}
	}
	// then, in order, the runs without a step
	ri := 0
	for _, e := range txs {
		if !e.included || e.top != nil {
			continue
		}
		for j := ri; j < len(tr.runs); j++ {
			if !used[j] && !tr.runs[j].hashSeen && match(e, tr.runs[j]) {
				e.top, used[j] = tr.runs[j].top, true
				ri = j + 1
				break
			}
		}
		if e.top == nil {
			e.top = evTopOf(e.tx) // early exit of evm.Call
		}
	}
	for i, r := range tr.runs {
		// (the run of a DISCARDED tx — top-level insufficient balance is refused before CaptureStart; nothing else discards after it)
		if !used[i] && r.ended {
			return fmt.Sprintf("a traced run (from %s to %s) belongs to no included tx", r.from.String(), r.to.String())
		}
	}
	return ""
}

// evIntrinsic: the intrinsic gas by the harness's own literals (21000 / 53000 base, 68 per message byte and non-zero data
// byte, 4 per zero data byte)
func evIntrinsic(tx *types.Transaction) uint64 {
	g := uint64(21000)
	if tx.Type() == params.CreateContractTx {
		g = 53000
	}
	g += uint64(len(tx.Message())) * 68
	for _, b := range tx.Data() {
		if b != 0 {
			g += 68
		} else {
			g += 4
		}
	}
	return g
}

// ---- the Go mirror of the model's rules (direct oracle; the tie is the Lean driver) ---------------------------------------

type evSimSt struct {
	bal  map[common.Address]*big.Int
	dead map[common.Address]bool
}

func (s *evSimSt) get(a common.Address) *big.Int {
	if v, ok := s.bal[a]; ok {
		return v
	}
	return new(big.Int)
}

func (s *evSimSt) clone() *evSimSt {
	c := &evSimSt{bal: map[common.Address]*big.Int{}, dead: map[common.Address]bool{}}
	for k, v := range s.bal {
		c.bal[k] = new(big.Int).Set(v)
	}
	for k, v := range s.dead {
		c.dead[k] = v
	}
	return c
}

func (s *evSimSt) move(a, b common.Address, v *big.Int) {
	s.bal[a] = new(big.Int).Sub(s.get(a), v)
	s.bal[b] = new(big.Int).Add(s.get(b), v)
}

// evSimFrame: the Go mirror of execFrame. It decides every refusal itself (depth, CanTransfer, read-only) from its own balances,
// records the flag it computes in n.simFlag, and resolves the one fed success fact: the result of a precompile that ran no step
// (n.fed) — taken from the real flag ONLY when the mirror itself does not refuse the frame.
func evSimFrame(depth int, static bool, self common.Address, s *evSimSt, n *evNode, note func(string)) (*evSimSt, bool) {
	kindName := map[string]string{"c": "call", "cc": "callcode", "d": "delegatecall", "s": "staticcall", "n": "create"}[n.kind]
	if depth > 1024 {
		note("refused:depth-limit:" + kindName)
		n.simFlag = 0
		return s, false
	}
	if depth == 1024 {
		note("entered-at-the-depth-limit(evm.depth=1024):" + kindName)
	}
	if n.kind == "c" || n.kind == "cc" || n.kind == "n" {
		d := new(big.Int).Sub(s.get(self), n.value)
		if depth >= 1 && n.value.Sign() > 0 && d.IsInt64() && d.Int64() >= -1 && d.Int64() <= 1 {
			note(fmt.Sprintf("funds-boundary:%s:balance-value=%d", kindName, d.Int64()))
		}
		if d.Sign() < 0 {
			if depth >= 1 {
				note("refused:insufficient-balance:" + kindName)
			}
			n.simFlag = 0
			return s, false
		}
	}
	if !n.steps && !n.top && n.kind != "n" && vm.PrecompiledContracts[n.callee] != nil {
		n.fed = "o"
		if n.flag == 0 {
			n.fed = "f"
			note("fed:precompile-failed")
		}
	}
	if n.collide {
		note("fed:create-onto-a-non-empty-account(collision)")
	}
	if n.kind == "n" && n.steps && n.bodyErr == "" && n.outcome() == "f" {
		note("recomputed:code-deposit-failed")
	}
	w := s.clone()
	if n.kind == "c" || n.kind == "n" {
		w.move(self, n.callee, n.value)
	}
	ctx := self
	if n.kind == "c" || n.kind == "s" || n.kind == "n" {
		ctx = n.callee
	}
	st := static || n.kind == "s"
	done := true
	for _, a := range n.acts {
		if a.sub != nil {
			if st && (a.sub.kind == "n" || a.sub.kind == "c" && a.sub.value.Sign() != 0) {
				note("refused:read-only:" + map[string]string{"c": "call-with-value", "n": "create"}[a.sub.kind])
				a.sub.simFlag = -1
				done = false
				break
			}
			w, _ = evSimFrame(depth+1, st, ctx, w, a.sub, note)
			continue
		}
		if st {
			note("refused:read-only:selfdestruct")
			done = false
			break
		}
		if w.dead[ctx] {
			note("selfdestruct-of-an-account-already-destroyed(no-op)")
			if w.get(ctx).Sign() > 0 {
				note("selfdestruct-of-an-account-already-destroyed(no-op, what arrived since stays)")
			}
		} else {
			x := w.get(ctx)
			switch {
			case *a.kill == ctx && x.Sign() > 0:
				note("selfdestruct-to-itself(burns)")
			case *a.kill == ctx:
				note("selfdestruct-to-itself(nothing-to-burn)")
			case *a.kill == self:
				note("selfdestruct-to-caller")
			case init0(s, *a.kill):
				note("selfdestruct-to-an-address-without-balance")
			default:
				note("selfdestruct-to-another-account")
			}
			if n.kind == "cc" || n.kind == "d" {
				note("selfdestruct-in-delegated-code(kills-the-caller)")
			}
			w.bal[*a.kill] = new(big.Int).Add(w.get(*a.kill), x)
			w.bal[ctx] = new(big.Int)
			w.dead[ctx] = true
		}
		break
	}
	if done && n.outcome() == "o" {
		n.simFlag = 1
		return w, true
	}
	n.simFlag = 0
	return s, false
}

// evResetSim marks every frame "not reached by the mirror" before a simulation
func evResetSim(n *evNode) {
	n.simFlag = -2
	for _, a := range n.acts {
		if a.sub != nil {
			evResetSim(a.sub)
		}
	}
}

// evFlagMismatch: the first frame (execution order) whose REAL flag is not the flag the mirror computes
func evFlagMismatch(n *evNode, depth int) (*evNode, int) {
	if n.flag != n.simFlag && !(n.flag == -1 && n.simFlag == -2) {
		return n, depth
	}
	for _, a := range n.acts {
		if a.sub != nil {
			if m, d := evFlagMismatch(a.sub, depth+1); m != nil {
				return m, d
			}
		}
	}
	return nil, 0
}

func init0(s *evSimSt, a common.Address) bool { return s.get(a).Sign() == 0 }

// evSimBlock: expected final balances and inclusion by the mirror
func evSimBlock(init map[common.Address]*big.Int, income common.Address, hasIncome bool, txs []*evTx, note func(string)) (map[common.Address]*big.Int, []bool) {
	s := &evSimSt{bal: map[common.Address]*big.Int{}, dead: map[common.Address]bool{}}
	for k, v := range init {
		s.bal[k] = new(big.Int).Set(v)
	}
	fee := new(big.Int)
	var inc []bool
	for _, e := range txs {
		tx := e.tx
		maxFee := new(big.Int).Mul(new(big.Int).SetUint64(tx.GasLimit()), tx.GasPrice())
		top := e.top
		if top == nil {
			top = evTopOf(tx)
		}
		evResetSim(top)
		if s.get(tx.GasPayer()).Cmp(maxFee) < 0 || tx.GasLimit() < e.intrinsic {
			inc = append(inc, false)
			continue
		}
		w := s.clone()
		w.bal[tx.GasPayer()] = new(big.Int).Sub(w.get(tx.GasPayer()), maxFee)
		if w.get(tx.From()).Cmp(top.value) < 0 {
			inc = append(inc, false)
			continue
		}
		w, _ = evSimFrame(0, false, tx.From(), w, top, note)
		rest := new(big.Int).Mul(new(big.Int).SetUint64(tx.GasLimit()-e.gasUsed), tx.GasPrice())
		w.bal[tx.GasPayer()] = new(big.Int).Add(w.get(tx.GasPayer()), rest)
		fee.Add(fee, new(big.Int).Mul(new(big.Int).SetUint64(e.gasUsed), tx.GasPrice()))
		inc = append(inc, true)
		s = w
	}
	if fee.Sign() != 0 && hasIncome {
		s.bal[income] = new(big.Int).Add(s.get(income), fee)
	}
	return s.bal, inc
}

// evClass: what a block's trees contain (for the oracle signature and the coverage counters)
func evClass(txs []*evTx) (string, map[string]bool) {
	has := map[string]bool{}
	for _, e := range txs {
		if e.top == nil {
			continue
		}
		var depthOf func(n *evNode, d int, underFail bool, static bool)
		depthOf = func(n *evNode, d int, underFail bool, static bool) {
			fail := n.flag == 0
			if d >= 1 {
				has["inner-"+map[string]string{"c": "call", "cc": "callcode", "d": "delegatecall", "s": "staticcall", "n": "create"}[n.kind]] = true
				if n.value.Sign() > 0 && n.flag == 1 && (n.kind == "c" || n.kind == "n") {
					if d <= 6 {
						has[fmt.Sprintf("inner-value-depth-%d", d)] = true
					} else {
						has["inner-value-depth-7-and-deeper"] = true
					}
				}
				if n.flag == 0 && len(n.acts) == 0 && n.bodyErr == "" && n.value.Sign() > 0 {
					has["inner-refused-or-failed-without-a-step(value>0)"] = true
				}
				if n.flag == -1 {
					has["attempted-under-write-protection"] = true
				}
				if vm.PrecompiledContracts[n.callee] != nil && n.value.Sign() > 0 && n.kind == "c" {
					has["value-to-precompile:"+map[int]string{1: "ok", 0: "failed"}[n.flag]] = true
				}
			}
			if fail && n.bodyErr == "revert" {
				has["revert"] = true
			}
			if fail && n.bodyErr == "fail" {
				has["error"] = true
			}
			if n.kind == "n" && n.flag == 0 && n.value.Sign() > 0 && d >= 1 {
				has["inner-create-with-endowment-failed"] = true
			}
			if n.kind == "n" && n.flag == 0 && n.bodyErr == "" && len(n.acts) > 0 {
				has["create-failed-after-its-init-code-ran"] = true
			}
			moved := false
			for _, a := range n.acts {
				if a.sub != nil {
					if a.sub.flag == 1 && a.sub.value.Sign() > 0 && (a.sub.kind == "c" || a.sub.kind == "n") {
						moved = true
					}
					depthOf(a.sub, d+1, underFail || fail, static || n.kind == "s")
				} else {
					has["selfdestruct"] = true
					if underFail || fail {
						has["selfdestruct-then-reverted"] = true
					}
				}
			}
			if fail && moved {
				has["failed-frame-after-inner-transfer"] = true
			}
		}
		depthOf(e.top, 0, false, false)
		if e.top.flag == 0 {
			has["top-failed"] = true
		}
	}
	for _, k := range []string{"selfdestruct", "inner-create", "inner-callcode", "inner-delegatecall", "inner-staticcall", "revert", "error", "inner-call"} {
		if has[k] {
			return k, has
		}
	}
	return "plain", has
}

// evEmit writes the op line of one block and runs the direct oracles. `init` = initial balance of every address in `lab`
// order is fixed here; `post` reads the real post-state. Returns the op and the implementation's answer.
func evEmit(c *Ctx, where string, init func(common.Address) *big.Int, post func(common.Address) *big.Int, income common.Address, hasIncome bool, txs []*evTx) {
	lab := &evLabels{}
	incLabel := 0
	if hasIncome {
		incLabel = lab.of(income)
	}
	// pass 1: labels in the order of the line (the frame strings of this pass are thrown away: outcomes are not resolved yet)
	for _, e := range txs {
		top := e.top
		if top == nil {
			top = evTopOf(e.tx)
		}
		lab.of(e.tx.From())
		lab.of(e.tx.GasPayer())
		evFrameString(top, lab)
	}
	initM := map[common.Address]*big.Int{}
	var balParts, outParts []string
	sumBefore, sumAfter := new(big.Int), new(big.Int)
	for _, a := range lab.order {
		initM[a] = init(a)
		nb := post(a)
		balParts = append(balParts, fmt.Sprintf("%d %s", lab.of(a), initM[a].String()))
		outParts = append(outParts, fmt.Sprintf("%d:%s", lab.of(a), nb.String()))
		sumBefore.Add(sumBefore, initM[a])
		sumAfter.Add(sumAfter, nb)
		if nb.Sign() < 0 {
			c.Fail("c05/negative-balance", fmt.Sprintf("%s: balance of %s becomes %s", where, a.String(), nb.String()), nil)
		}
	}
	// pass 2: the mirror (decides the refusals itself; resolves the fed precompile results), THEN the line
	want, wantInc := evSimBlock(initM, income, hasIncome, txs, func(k string) { c.Count("evmv:sim:" + k) })
	var txParts []string
	for _, e := range txs {
		top := e.top
		if top == nil {
			top = evTopOf(e.tx)
		}
		txParts = append(txParts, fmt.Sprintf("T %d %d %d %s %d %d %s", lab.of(e.tx.From()), lab.of(e.tx.GasPayer()), e.tx.GasLimit(), e.tx.GasPrice().String(), e.intrinsic, e.gasUsed, evFrameString(top, lab)))
	}
	incBits, flagBits := []byte{}, []byte{}
	gasOK := true
	for _, e := range txs {
		if !e.included {
			incBits = append(incBits, '0')
			continue
		}
		incBits = append(incBits, '1')
		evFlags(e.top, &flagBits)
		if e.gasUsed < e.intrinsic || e.gasUsed > e.tx.GasLimit() || (e.top.flag == 0 && e.top.outcome() == "f" && e.gasUsed != e.tx.GasLimit()) {
			gasOK = false
			c.Fail("c05/gas-used-inconsistent/evm", fmt.Sprintf("%s: tx gasLimit %d intrinsic %d gasUsed %d, top-level outcome %s", where, e.tx.GasLimit(), e.intrinsic, e.gasUsed, e.top.outcome()), nil)
		}
	}
	bits := func(b []byte) string {
		if len(b) == 0 {
			return "-"
		}
		return string(b)
	}
	op := fmt.Sprintf("evmv %d %d %s %d %s", incLabel, len(lab.order), strings.Join(balParts, " "), len(txs), strings.Join(txParts, " "))
	out := fmt.Sprintf("inc=%s flags=%s gas=%s bal=%s", bits(incBits), bits(flagBits), map[bool]string{true: "ok", false: "bad"}[gasOK], strings.Join(outParts, ","))
	c.Op(op, out)
	c.Count("evmv:lines:" + where)

	// ---- direct oracles
	class, has := evClass(txs)
	for k := range has {
		c.Count("evmv:has:" + k)
	}
	c.Count("evmv:class:" + class)
	for i, e := range txs {
		if wantInc[i] != e.included {
			c.Fail("c05/evm-value-mismatch/inclusion", fmt.Sprintf("%s: tx %d (gasLimit %d, price %s, amount %s): the engine included=%v, the rules say %v", where, i, e.tx.GasLimit(), e.tx.GasPrice(), e.tx.Amount(), e.included, wantInc[i]), op)
		}
	}
	// the success flag of every frame: the REAL one (caller's stack) against the one the rules give from depth, balances and the
	// read-only mode (the same comparison the op line makes with the Lean model's flags)
	for i, e := range txs {
		if !e.included || !wantInc[i] || e.top == nil {
			continue
		}
		if m, d := evFlagMismatch(e.top, 0); m != nil {
			kindName := map[string]string{"c": "call", "cc": "callcode", "d": "delegatecall", "s": "staticcall", "n": "create"}[m.kind]
			c.Fail("c05/evm-flag-mismatch/"+kindName, fmt.Sprintf("%s: tx %d, %s entered at evm.depth %d to #%d with value %s (body outcome %s, code ran: %v): the engine's flag is %d, the rules (depth limit 1024, CanTransfer balance >= value, read-only refusals, body outcome) give %d [-1 = refused under write protection, -2 = never reached]",
				where, i, strings.ToUpper(kindName), d, lab.of(m.callee), m.value, m.outcome(), m.steps, m.flag, m.simFlag), op)
			break
		}
	}
	for _, a := range lab.order {
		w := want[a]
		if w == nil {
			w = new(big.Int)
		}
		if w.Cmp(post(a)) != 0 {
			c.Fail("c05/evm-value-mismatch/"+class, fmt.Sprintf("%s: address #%d %s ends with %s, the value-flow rules (CanTransfer, Transfer, revert restores, self-destruct, gas money) give %s", where, lab.of(a), a.String(), post(a), w), op)
			break
		}
	}
	if hasIncome {
		if sumAfter.Cmp(sumBefore) > 0 {
			c.Fail("c05/evm-supply-grew", fmt.Sprintf("%s: the sum over every named address grew by %s", where, new(big.Int).Sub(sumAfter, sumBefore)), op)
		}
		if !has["selfdestruct"] && sumAfter.Cmp(sumBefore) != 0 {
			c.Fail("c05/evm-supply-changed/no-selfdestruct", fmt.Sprintf("%s: no SELFDESTRUCT ran, yet the sum over every named address changed by %s", where, new(big.Int).Sub(sumAfter, sumBefore)), op)
		}
	}
	// a failed tx moves nothing but the fee: judged when it is the only tx of the block
	if len(txs) == 1 && txs[0].included && txs[0].top.flag == 0 {
		e := txs[0]
		fee := new(big.Int).Mul(new(big.Int).SetUint64(e.gasUsed), e.tx.GasPrice())
		for _, a := range lab.order {
			d := new(big.Int).Sub(post(a), initM[a])
			exp := new(big.Int)
			if a == e.tx.GasPayer() {
				exp.Sub(exp, fee)
			}
			if hasIncome && a == income {
				exp.Add(exp, fee)
			}
			if d.Cmp(exp) != 0 {
				c.Fail("c05/failed-tx-moved-value/evm", fmt.Sprintf("%s: the only tx of the block FAILED (outcome %s) yet address #%d changed by %s (expected %s)", where, e.top.outcome(), lab.of(a), d, exp), op)
				break
			}
		}
		c.Count("evmv:failed-single-tx-judged")
	}
}

// ---- B: the contract blocks of the ledger scenario ------------------------------------------------------------------------

// evmValueBlock re-executes block b (built by the miner path, not inserted yet) with the real validator path on a fresh
// manager over its parent state, tracing every EVM run.
func (l *ledger) evmValueBlock(b *types.Block, miner common.Address) {
	c := l.c
	if len(b.Txs) == 0 {
		return
	}
	evm := false
	for _, tx := range b.Txs {
		if tx.Type() != params.OrdinaryTx && tx.Type() != params.CreateContractTx {
			return // (asset txs, votes, boxes: the ledger model's / C12's business)
		}
		if tx.Type() == params.CreateContractTx || len(tx.Data()) > 0 {
			evm = true
		} else if tx.To() != nil {
			if has, ok := l.pvCode[*tx.To()]; ok && has && l.pvHash == b.ParentHash() {
				evm = true // a plain transfer to an address with code runs that code
			}
		}
	}
	if !evm {
		return
	}
	res := Safe(func() string {
		am := account.NewManager(b.ParentHash(), l.n.DB)
		proc := transaction.NewTxProcessor(keyAddr(l.w.FounderKey), nodeChainID, parentLoader{l.n}, am, l.n.DB, l.n.DM)
		tr := &evTracer{am: am}
		proc.VerifSetTracer(tr)
		var txs types.Transactions
		var es []*evTx
		for _, tx := range b.Txs {
			cp := tx.Clone()
			txs = append(txs, cp)
			es = append(es, &evTx{tx: cp, intrinsic: evIntrinsic(cp), included: true, gasUsed: tx.GasUsed()})
		}
		if _, err := proc.Process(b.Header, txs); err != nil {
			c.Fail("c05/evm-value-mismatch/validator-path", fmt.Sprintf("block %d built by the miner path: Process on the parent state fails: %v", b.Height(), err), nil)
			return "process-failed"
		}
		if len(tr.problems) > 0 {
			c.Fail("c05/evm-trace-unreadable", fmt.Sprintf("block %d: %s", b.Height(), strings.Join(tr.problems, "; ")), nil)
			return "trace"
		}
		if p := evAttach(es, tr); p != "" {
			c.Fail("c05/evm-trace-unreadable", fmt.Sprintf("block %d: %s", b.Height(), p), nil)
			return "trace"
		}
		parent := account.NewManager(b.ParentHash(), l.n.DB)
		mv := l.view(b.ParentHash(), miner)
		evEmit(c, "ledger-block", func(a common.Address) *big.Int { return parent.GetAccount(a).GetBalance() },
			func(a common.Address) *big.Int { return am.GetAccount(a).GetBalance() }, mv.income, mv.incomeSet, es)
		return "ok"
	})
	if res == "panic" {
		c.Fail("c05/evm-value-mismatch/validator-path", fmt.Sprintf("block %d: re-execution by Process panicked", b.Height()), nil)
	}
}

// ---- A: generated frame-tree programs -------------------------------------------------------------------------------

type evWorld struct {
	dir     string
	db      *store.ChainDatabase
	genesis common.Hash
	uniq    uint32
	users   []*ecdsa.PrivateKey
	slots   []common.Address
	plain   []common.Address
	minerA  common.Address // has a profile with income address
	income  common.Address
	minerB  common.Address // no profile
	mgr     common.Address // reward manager (may call precompile 0x09)
}

type evLoader struct{}

func (evLoader) GetParentByHeight(height uint32, sonBlockHash common.Hash) *types.Block { return nil }

func evAddr(tag byte, i int) common.Address {
	var a common.Address
	a[0], a[1], a[2], a[19] = 0x01, 0xe5, tag, byte(i+1)
	return a
}

func newEvWorld() *evWorld {
	dir, err := os.MkdirTemp("", "hx-evmv-")
	if err != nil {
		panic(err)
	}
	w := &evWorld{dir: dir, db: store.NewChainDataBase(dir)}
	for i := 0; i < 4; i++ {
		w.users = append(w.users, detKey(fmt.Sprintf("evmv-user-%d", i)))
	}
	for i := 0; i < 5; i++ {
		w.slots = append(w.slots, evAddr(0xc0, i))
	}
	for i := 0; i < 3; i++ {
		w.plain = append(w.plain, evAddr(0xee, i))
	}
	w.minerA, w.income, w.minerB = evAddr(0xaa, 0), evAddr(0xaa, 1), evAddr(0xaa, 2)
	w.mgr = keyAddr(w.users[3])
	w.genesis = w.save(common.Hash{}, 0, func(am *account.Manager) {
		am.GetAccount(w.minerA).SetCandidateState(types.CandidateKeyIncomeAddress, w.income.String())
	})
	if _, err := w.db.SetStableBlock(w.genesis); err != nil {
		panic(err)
	}
	return w
}

func (w *evWorld) close() {
	w.db.Close()
	os.RemoveAll(w.dir)
}

// save stores the state `setup` writes on top of `parent` as a block of its own and returns the block's hash
func (w *evWorld) save(parent common.Hash, height uint32, setup func(am *account.Manager)) common.Hash {
	am := account.NewManager(parent, w.db)
	setup(am)
	if err := am.Finalise(); err != nil {
		panic(err)
	}
	logs := am.GetChangeLogs()
	w.uniq++
	header := &types.Header{ParentHash: parent, MinerAddress: w.minerB, TxRoot: (types.Transactions{}).MerkleRootSha(), Height: height,
		GasLimit: 105000000, Time: 1538209751 + w.uniq, VersionRoot: am.GetVersionRoot(), LogRoot: logs.MerkleRootSha()}
	block := types.NewBlock(header, nil, logs)
	hash := block.Hash()
	if err := w.db.SetBlock(hash, block); err != nil {
		panic(err)
	}
	if err := am.Save(hash); err != nil {
		panic(err)
	}
	return hash
}

// -- plans

type evScript struct {
	acts []*evPAct
	end  string // stop revert invalid | init code: ret0 ret1 retbig rethuge
}

type evPAct struct {
	kind   string // c cc d s n k
	target common.Address
	slot   int // index of the contract slot whose code runs (-1: none)
	value  *big.Int
	gas    int64 // -1 = all that is left
	script *evScript
	sel    byte
}

func c_count(g *evGen, k string) { g.c.Count("evmv:template:" + k) }

type evGen struct {
	c       *Ctx
	w       *evWorld
	r       *rand.Rand
	scripts [][]*evScript            // per slot
	need    map[common.Address]int64 // minimum initial balance a hand-made shape asks for
	exact   map[common.Address]int64 // initial balance a hand-made shape fixes (the CanTransfer boundary)
	frames  int
}

func (g *evGen) value() *big.Int {
	switch g.r.Intn(10) {
	case 0, 1, 2:
		return new(big.Int)
	case 3:
		return big.NewInt(1000000)
	}
	return big.NewInt(int64([]int{1, 2, 3, 5, 8, 13, 21}[g.r.Intn(7)]))
}

// script: what one frame's code does. `avail` = the value the frame is entered with (half of the sub-frames pass on a part of it:
// value that really travels several frames deep)
func (g *evGen) script(depth int, init bool, self int, avail *big.Int) *evScript {
	sc := &evScript{}
	n := 0
	if depth < 3 && g.frames < 14 {
		n = []int{0, 1, 1, 2, 2, 3}[g.r.Intn(6)]
	} else if depth < 5 && g.frames < 14 && g.r.Intn(2) == 0 {
		n = 1
	}
	for i := 0; i < n; i++ {
		g.frames++
		a := &evPAct{slot: -1, value: g.value(), gas: -1}
		if avail.Sign() > 0 && g.r.Intn(2) == 0 {
			a.value = new(big.Int).Rand(g.r, new(big.Int).Add(avail, big.NewInt(1)))
			if g.r.Intn(3) == 0 {
				a.value.Set(avail)
			}
		}
		a.kind = []string{"c", "c", "c", "c", "cc", "d", "s", "n", "n", "c"}[g.r.Intn(10)]
		if g.r.Intn(6) == 0 {
			a.gas = []int64{0, 700, 2300, 5000, 30000, 90000}[g.r.Intn(6)]
		}
		if a.kind == "n" {
			a.script = g.script(depth+1, true, -1, a.value)
		} else {
			switch t := g.r.Intn(10); {
			case t < 6:
				a.slot = g.r.Intn(len(g.w.slots))
				if self >= 0 && g.r.Intn(5) == 0 {
					a.slot = self // re-entrancy
				}
				a.target = g.w.slots[a.slot]
				a.script = g.script(depth+1, false, a.slot, evPassed(a))
				g.scripts[a.slot] = append(g.scripts[a.slot], a.script)
				a.sel = byte(len(g.scripts[a.slot]))
			case t < 8:
				a.target = g.w.plain[g.r.Intn(len(g.w.plain))]
			default:
				a.target = common.BytesToAddress([]byte{[]byte{2, 4, 4, 2, 9}[g.r.Intn(5)]})
			}
		}
		sc.acts = append(sc.acts, a)
	}
	if g.r.Intn(5) == 0 {
		// SELFDESTRUCT: to the caller-ish user, to ITSELF (the slot the code sits in — with callcode/delegatecall that is not
		// the dying account), to a plain / fresh address, to another contract
		k := &evPAct{kind: "k", slot: -1}
		switch g.r.Intn(6) {
		case 0, 1:
			if self >= 0 {
				k.target = g.w.slots[self]
			} else {
				k.target = g.w.plain[0]
			}
		case 2:
			k.target = keyAddr(g.w.users[g.r.Intn(3)])
		case 3:
			k.target = evAddr(0xf5, g.r.Intn(40))
		case 4:
			k.target = g.w.slots[g.r.Intn(len(g.w.slots))]
		default:
			k.target = g.w.plain[g.r.Intn(len(g.w.plain))]
		}
		sc.acts = append(sc.acts, k)
	}
	if init {
		sc.end = []string{"ret0", "ret1", "ret1", "ret1", "ret0", "retbig", "rethuge", "revert", "invalid", "stop"}[g.r.Intn(10)]
	} else {
		sc.end = []string{"stop", "stop", "stop", "stop", "stop", "stop", "stop", "revert", "revert", "invalid"}[g.r.Intn(10)]
	}
	return sc
}

// evPassed: the value a planned sub-frame's code sees arriving (only CALL moves it)
func evPassed(a *evPAct) *big.Int {
	if a.kind == "c" {
		return a.value
	}
	return new(big.Int)
}

// -- assembler

type evAsm struct {
	code   []byte
	fix    map[int]string
	labels map[string]int
	blobs  [][]byte
}

func newEvAsm() *evAsm { return &evAsm{fix: map[int]string{}, labels: map[string]int{}} }

func (a *evAsm) op(b ...byte) { a.code = append(a.code, b...) }
func (a *evAsm) pushLabel(l string) {
	a.op(0x61, 0, 0)
	a.fix[len(a.code)-2] = l
}
func (a *evAsm) pushBig(v *big.Int) {
	b := v.Bytes()
	if len(b) == 0 {
		b = []byte{0}
	}
	a.op(byte(0x60 + len(b) - 1))
	a.op(b...)
}

func (a *evAsm) emit(sc *evScript) {
	for _, x := range sc.acts {
		switch x.kind {
		case "k":
			a.op(pushAddr(x.target)...)
			a.op(0xff)
		case "n":
			blob := evInitCode(x.script)
			l := fmt.Sprintf("blob%d", len(a.blobs))
			a.blobs = append(a.blobs, blob)
			a.pushBig(big.NewInt(int64(len(blob))))
			a.pushLabel(l)
			a.op(0x60, 0, 0x39) // PUSH1 0 CODECOPY
			a.pushBig(big.NewInt(int64(len(blob))))
			a.op(0x60, 0)
			a.pushBig(x.value)
			a.op(0xf0, 0x50) // CREATE POP
		default:
			a.op(0x60, x.sel, 0x60, 0, 0x53)         // PUSH1 sel PUSH1 0 MSTORE8
			a.op(0x60, 0, 0x60, 0, 0x60, 1, 0x60, 0) // retSize retOff inSize inOff
			if x.kind == "c" || x.kind == "cc" {
				a.pushBig(x.value)
			}
			a.op(pushAddr(x.target)...)
			if x.gas < 0 {
				a.op(0x5a)
			} else {
				a.pushBig(big.NewInt(x.gas))
			}
			a.op(map[string]byte{"c": 0xf1, "cc": 0xf2, "d": 0xf4, "s": 0xfa}[x.kind], 0x50)
		}
	}
	switch sc.end {
	case "stop":
		a.op(0x00)
	case "revert":
		a.op(0x60, 0, 0x60, 0, 0xfd)
	case "invalid":
		a.op(0xfe)
	case "ret0":
		a.op(0x60, 0, 0x60, 0, 0xf3)
	case "ret1":
		a.op(0x60, 0, 0x60, 0, 0x53, 0x60, 1, 0x60, 0, 0xf3) // code = one STOP byte
	case "retbig":
		a.op(0x61, 0x03, 0xe8, 0x60, 0, 0xf3) // 1000 zero bytes: 200000 gas of code deposit
	case "rethuge":
		a.op(0x61, 0x61, 0xa8, 0x60, 0, 0xf3) // 25000 bytes: over MaxCodeSize
	}
}

func (a *evAsm) finish() []byte {
	for i, b := range a.blobs {
		a.labels[fmt.Sprintf("blob%d", i)] = len(a.code)
		a.code = append(a.code, b...)
	}
	for pos, l := range a.fix {
		v, ok := a.labels[l]
		if !ok {
			panic("evAsm: unknown label " + l)
		}
		a.code[pos], a.code[pos+1] = byte(v>>8), byte(v)
	}
	return a.code
}

func evInitCode(sc *evScript) []byte {
	a := newEvAsm()
	a.emit(sc)
	return a.finish()
}

// evSlotCode: dispatch on the first calldata byte over the scripts of one slot (no calldata / unknown selector: STOP)
func evSlotCode(scripts []*evScript) []byte {
	a := newEvAsm()
	a.op(0x60, 0, 0x35, 0x60, 0, 0x1a) // PUSH1 0 CALLDATALOAD PUSH1 0 BYTE
	for i := range scripts {
		a.op(0x80, 0x60, byte(i+1), 0x14) // DUP1 PUSH1 i EQ
		a.pushLabel(fmt.Sprintf("s%d", i))
		a.op(0x57) // JUMPI
	}
	a.op(0x00)
	for i, sc := range scripts {
		a.labels[fmt.Sprintf("s%d", i)] = len(a.code)
		a.op(0x5b, 0x50) // JUMPDEST POP
		a.emit(sc)
	}
	return a.finish()
}

func evmValueCases(c *Ctx, mode string) {
	if mode != "c05" {
		return
	}
	n := c.N/2 + 60
	if n > 2500 {
		n = 2500
	}
	r := rand.New(rand.NewSource(c.Seed*7919 + 505)) // (its own stream: the ledger scenario's draws stay what they were)
	w := newEvWorld()
	defer w.close()
	for i := 0; i < n; i++ {
		// the first cases are forced: the descent to the depth limit with each of CALL / CALLCODE / DELEGATECALL / STATICCALL, then
		// six draws of the funds-boundary shape (every run reaches the refusals, whatever the seed)
		force := -1
		if i < 10 {
			force = i
		}
		res, msg := SafeMsg(func() string { evmValueCase(c, w, r, force); return "ok" })
		if res == "panic" {
			c.Fail("c05/evm-value-case-panicked", msg, nil)
			c.Count("evmv:case-panicked")
		}
	}
}

func evmValueCase(c *Ctx, w *evWorld, r *rand.Rand, force int) {
	g := &evGen{c: c, w: w, r: r, scripts: make([][]*evScript, len(w.slots)), need: map[common.Address]int64{}, exact: map[common.Address]int64{}}
	type planTx struct {
		deep        bool
		from, payer int
		to          *common.Address
		data        []byte
		amount      *big.Int
		gasLimit    uint64
		price       *big.Int
		create      bool
		initSc      *evScript
		sel         byte
		slot        int
	}
	ntx := []int{1, 1, 1, 2, 3}[r.Intn(5)]
	var plans []*planTx
	for i := 0; i < ntx; i++ {
		p := &planTx{from: r.Intn(3), amount: g.value(), price: big.NewInt(int64(1+r.Intn(3)) * 1000000000), slot: -1}
		p.payer = p.from
		if r.Intn(6) == 0 {
			p.payer = (p.from + 1 + r.Intn(2)) % 3
		}
		if r.Intn(12) == 0 {
			p.from, p.payer = 3, 3 // the reward manager: precompile 0x09 does not refuse it
		}
		g.frames = 0
		switch k := r.Intn(10); {
		case r.Intn(9) == 0 || (force >= 0 && i == 0):
			// hand-made shapes the random plans rarely reach
			p.slot = r.Intn(len(w.slots))
			self := w.slots[p.slot]
			other := (p.slot + 1) % len(w.slots)
			reg := func(slot int, sc *evScript) byte {
				g.scripts[slot] = append(g.scripts[slot], sc)
				return byte(len(g.scripts[slot]))
			}
			kill := func(to common.Address) *evPAct { return &evPAct{kind: "k", slot: -1, target: to} }
			call := func(kind string, slot int, v *big.Int, sc *evScript) *evPAct {
				return &evPAct{kind: kind, slot: slot, target: w.slots[slot], value: v, gas: -1, script: sc, sel: reg(slot, sc)}
			}
			var sc *evScript
			shape := r.Intn(9)
			if shape == 8 && r.Intn(3) != 0 {
				shape = 7 // (the descent to the depth limit is long: a third of its draws)
			}
			forced := force >= 0 && i == 0
			if forced {
				shape = 7
				if force < 4 {
					shape = 8
				}
			}
			switch shape {
			case 7:
				// the CanTransfer boundary INSIDE the tree: the contract starts with a balance fixed here, receives the tx amount, then
				// spends balance-1 / balance / balance+1 by CALL / CALLCODE / CREATE (to a plain address, a contract, a precompile),
				// then tries to pay 1 more (after spending everything: refused)
				b0 := int64(r.Intn(30))
				g.exact[self] = b0
				v := new(big.Int).Add(big.NewInt(b0+int64(r.Intn(3)-1)), p.amount)
				if v.Sign() < 0 {
					v = new(big.Int)
				}
				var a *evPAct
				switch kind := []string{"c", "c", "cc", "n"}[r.Intn(4)]; kind {
				case "n":
					a = &evPAct{kind: "n", slot: -1, value: v, gas: -1, script: &evScript{end: []string{"ret1", "ret0", "stop"}[r.Intn(3)]}}
				default:
					switch r.Intn(3) {
					case 0:
						a = &evPAct{kind: kind, slot: -1, target: w.plain[r.Intn(len(w.plain))], value: v, gas: -1}
					case 1:
						a = call(kind, other, v, &evScript{end: []string{"stop", "stop", "revert"}[r.Intn(3)]})
					default:
						a = &evPAct{kind: kind, slot: -1, target: common.BytesToAddress([]byte{4}), value: v, gas: -1}
					}
				}
				sc = &evScript{acts: []*evPAct{a, {kind: "c", slot: -1, target: w.plain[1], value: big.NewInt(1), gas: -1}}, end: "stop"}
				c_count(g, "funds-boundary-inside-the-tree")
			case 8:
				// the depth limit on the REAL engine: a contract that calls ITSELF (CALL / CALLCODE / DELEGATECALL / STATICCALL, all gas
				// but 1/64 each time) until the EVM refuses; the tx gets 2·10^14 gas (price 1, block gas limit raised) so that gas
				// is not what stops the descent
				kind := []string{"c", "cc", "d", "s"}[r.Intn(4)]
				if forced {
					kind = []string{"c", "cc", "d", "s"}[force]
				}
				sc = &evScript{end: "stop"}
				a := &evPAct{kind: kind, slot: p.slot, target: self, value: big.NewInt(int64(r.Intn(2))), gas: -1, script: sc}
				g.need[self] = 2
				sc.acts = []*evPAct{a}
				a.sel = reg(p.slot, sc)
				p.deep, p.price = true, big.NewInt(1)
				c_count(g, "self-recursion-to-the-depth-limit:"+kind)
			case 6:
				// SELFDESTRUCT in delegated code two levels down, the level in between then REVERTs / fails: the revert covers the
				// self-destruct but NOT the transfer that entered the dying contract — only the undo of the SuicideLog itself can
				// give the balance back
				o2 := (p.slot + 2) % len(w.slots)
				g.need[self] = int64(1 + r.Intn(9))
				lib2 := &evScript{acts: []*evPAct{kill([]common.Address{self, keyAddr(w.users[p.from]), w.plain[1]}[r.Intn(3)])}, end: "stop"}
				lib1 := &evScript{acts: []*evPAct{call([]string{"d", "cc"}[r.Intn(2)], o2, new(big.Int), lib2)}, end: []string{"revert", "invalid"}[r.Intn(2)]}
				sc = &evScript{acts: []*evPAct{call([]string{"d", "cc"}[r.Intn(2)], other, new(big.Int), lib1)}, end: "stop"}
				c_count(g, "delegated-kill-reverted-by-the-library-in-between")
			case 0:
				// SELFDESTRUCT twice: the contract re-enters itself, the inner frame dies (to a fresh address), a plain address is paid,
				// value comes back to the dead account, the outer frame's SELFDESTRUCT then does nothing
				inner := &evScript{acts: []*evPAct{kill(evAddr(0xf5, r.Intn(40)))}, end: "stop"}
				v2 := int64(1 + r.Intn(5))
				g.need[w.slots[other]] = v2 // (the other contract pays the dead account out of its own pocket)
				back := &evScript{acts: []*evPAct{{kind: "c", slot: -1, target: self, value: big.NewInt(v2), gas: -1}}, end: "stop"}
				sc = &evScript{acts: []*evPAct{call("c", p.slot, new(big.Int), inner), call("c", other, new(big.Int), back), kill(keyAddr(w.users[p.from]))}, end: "stop"}
				c_count(g, "kill-twice")
			case 1:
				// a library that self-destructs, entered by DELEGATECALL / CALLCODE: the CALLER dies (to itself: burn / to the user)
				to := self
				if r.Intn(2) == 0 {
					to = keyAddr(w.users[p.from])
				}
				lib := &evScript{acts: []*evPAct{kill(to)}, end: "stop"}
				sc = &evScript{acts: []*evPAct{call([]string{"d", "cc"}[r.Intn(2)], other, g.value(), lib)}, end: "stop"}
				c_count(g, "delegated-kill")
			case 2:
				// inner transfer, inner self-destruct, then the OUTER frame reverts / fails: everything comes back
				dying := &evScript{acts: []*evPAct{kill(w.plain[r.Intn(len(w.plain))])}, end: "stop"}
				sc = &evScript{acts: []*evPAct{{kind: "c", slot: -1, target: w.plain[0], value: g.value(), gas: -1}, call("c", other, g.value(), dying)}, end: []string{"revert", "invalid"}[r.Intn(2)]}
				c_count(g, "kill-then-outer-failure")
			case 3:
				// a chain three deep that hands the whole amount on, the last link keeps it / reverts / overdraws by one
				v := p.amount
				last := &evScript{end: []string{"stop", "revert", "stop"}[r.Intn(3)]}
				if r.Intn(3) == 0 {
					last.acts = []*evPAct{{kind: "c", slot: -1, target: w.plain[1], value: new(big.Int).Add(v, big.NewInt(1000000000)), gas: -1}}
				}
				o2 := (p.slot + 2) % len(w.slots)
				o3 := (p.slot + 3) % len(w.slots)
				mid := &evScript{acts: []*evPAct{call("c", o3, v, last)}, end: "stop"}
				sc = &evScript{acts: []*evPAct{call("c", o2, v, mid)}, end: "stop"}
				c_count(g, "chain-3-deep")
			case 4:
				// STATICCALL whose callee tries to pay / create / self-destruct (refused by the running frame), then a normal payment
				bad := &evScript{acts: []*evPAct{[]*evPAct{{kind: "c", slot: -1, target: w.plain[0], value: big.NewInt(1), gas: -1},
					{kind: "n", slot: -1, value: new(big.Int), gas: -1, script: &evScript{end: "ret0"}}, kill(self)}[r.Intn(3)]}, end: "stop"}
				sc = &evScript{acts: []*evPAct{call("s", other, new(big.Int), bad), {kind: "c", slot: -1, target: w.plain[1], value: g.value(), gas: -1}}, end: "stop"}
				c_count(g, "static-writes")
			default:
				// CREATE with endowment whose init code pays on, then fails (REVERT / too much code / bad opcode): the endowment returns
				ini := &evScript{acts: []*evPAct{{kind: "c", slot: -1, target: w.plain[2], value: big.NewInt(1), gas: -1}}, end: []string{"revert", "rethuge", "invalid", "retbig"}[r.Intn(4)]}
				sc = &evScript{acts: []*evPAct{{kind: "n", slot: -1, value: g.value(), gas: []int64{-1, -1, 60000}[r.Intn(3)], script: ini}}, end: "stop"}
				c_count(g, "create-pays-then-fails")
			}
			p.sel = reg(p.slot, sc)
			to := self
			p.to, p.data = &to, []byte{p.sel}
		case k < 6:
			p.slot = r.Intn(len(w.slots))
			sc := g.script(1, false, p.slot, p.amount)
			g.scripts[p.slot] = append(g.scripts[p.slot], sc)
			p.sel = byte(len(g.scripts[p.slot]))
			to := w.slots[p.slot]
			p.to, p.data = &to, []byte{p.sel}
		case k < 8:
			p.create, p.initSc = true, g.script(1, true, -1, p.amount)
		case k < 9:
			to := w.plain[r.Intn(len(w.plain))]
			p.to = &to
		default:
			to := common.BytesToAddress([]byte{[]byte{2, 4, 9}[r.Intn(3)]})
			p.to, p.data = &to, []byte{1}
		}
		p.gasLimit = uint64(300000+r.Intn(2500000)) + uint64(i)
		if p.deep {
			p.gasLimit = 200000000000000 + uint64(i)
		}
		plans = append(plans, p)
	}
	// code of every slot, then the transactions (a create tx carries its init code)
	codes := make([][]byte, len(w.slots))
	for i, ss := range g.scripts {
		if len(ss) > 0 {
			if len(ss) > 250 {
				panic("too many scripts")
			}
			codes[i] = evSlotCode(ss)
		}
	}
	var es []*evTx
	for i, p := range plans {
		var tx *types.Transaction
		o := TxOpt{GasLimit: p.gasLimit, GasPrice: p.price, Exp: 1538209751 + 100000, Msg: fmt.Sprintf("e%d", i)}
		if p.payer != p.from {
			o.Payer = w.users[p.payer]
		}
		if p.create {
			p.data = evInitCode(p.initSc)
			tx = txCreate(w.users[p.from], p.amount, p.data, o)
		} else {
			tx = txCall(w.users[p.from], *p.to, p.amount, p.data, o)
		}
		intr := evIntrinsic(tx)
		// gas limit classes: ample / tight around the intrinsic gas / below it
		cls := r.Intn(14)
		if p.deep {
			cls = 13
		}
		switch cls {
		case 0:
			o.GasLimit = intr + uint64(r.Intn(3000))
		case 1:
			o.GasLimit = intr + uint64(3000+r.Intn(40000))
		case 2:
			if r.Intn(3) == 0 {
				o.GasLimit = intr - 1 - uint64(r.Intn(100))
			}
		}
		if o.GasLimit != p.gasLimit {
			o.GasLimit += uint64(i) // (gas limits stay pairwise different: runs are matched to txs by them)
			p.gasLimit = o.GasLimit
			if p.create {
				tx = txCreate(w.users[p.from], p.amount, p.data, o)
			} else {
				tx = txCall(w.users[p.from], *p.to, p.amount, p.data, o)
			}
		}
		if real, err := transaction.IntrinsicGas(tx.Type(), tx.Data(), tx.Message()); err != nil || real != intr {
			c.Fail("c05/fed-fact/intrinsic-gas", fmt.Sprintf("IntrinsicGas = %d (%v), the harness's literals give %d", real, err, intr), nil)
		}
		es = append(es, &evTx{tx: tx, intrinsic: intr})
	}
	// initial balances: every one chosen here
	init := map[common.Address]*big.Int{}
	for i, k := range w.users {
		b := new(big.Int).Add(lemo(int64(1+r.Intn(50))), big.NewInt(int64(r.Intn(1000))))
		// sometimes exactly around what user i's first tx needs
		for _, p := range plans {
			if (p.payer == i || p.from == i) && r.Intn(5) == 0 && !p.deep {
				need := new(big.Int)
				if p.payer == i {
					need.Mul(new(big.Int).SetUint64(p.gasLimit), p.price)
				}
				if p.from == i {
					need.Add(need, p.amount)
				}
				b = need.Add(need, big.NewInt(int64(r.Intn(3)-1)))
				if b.Sign() < 0 {
					b = new(big.Int)
				}
				break
			}
		}
		init[keyAddr(k)] = b
	}
	for _, s := range w.slots {
		init[s] = big.NewInt(int64([]int{0, 0, 1, 4, 9, 20, 100}[r.Intn(7)]))
		if init[s].Int64() < g.need[s] {
			init[s] = big.NewInt(g.need[s] + int64(r.Intn(3)))
		}
		if b, ok := g.exact[s]; ok {
			init[s] = big.NewInt(b)
		}
	}
	for _, s := range w.plain {
		init[s] = big.NewInt(int64([]int{0, 0, 3}[r.Intn(3)]))
	}
	miner, income, hasIncome := w.minerA, w.income, true
	if r.Intn(8) == 0 {
		miner, hasIncome = w.minerB, false
	}
	init[w.income] = big.NewInt(int64(r.Intn(2) * 77))
	pre := w.save(w.genesis, 1, func(am *account.Manager) {
		for a, b := range init {
			if b.Sign() != 0 {
				am.GetAccount(a).SetBalance(b)
			}
		}
		for i, code := range codes {
			if len(code) > 0 {
				am.GetAccount(w.slots[i]).SetCode(types.Code(code))
			}
		}
	})
	header := &types.Header{ParentHash: pre, MinerAddress: miner, Height: 2, GasLimit: 105000000, Time: 1538209751 + 50000}
	for _, p := range plans {
		if p.deep {
			header.GasLimit = 1000000000000000
		}
	}
	// ---- miner path
	am := account.NewManager(pre, w.db)
	proc := transaction.NewTxProcessor(w.mgr, nodeChainID, evLoader{}, am, w.db, nil)
	tr := &evTracer{am: am}
	proc.VerifSetTracer(tr)
	var txs types.Transactions
	for _, e := range es {
		txs = append(txs, e.tx)
	}
	selected, invalid, _ := proc.ApplyTxs(header, txs, 60000)
	if len(selected)+len(invalid) != len(txs) {
		c.Fail("c05/evm-value-mismatch/inclusion", fmt.Sprintf("ApplyTxs: %d selected + %d invalid of %d candidates", len(selected), len(invalid), len(txs)), nil)
		return
	}
	selSet := map[common.Hash]bool{}
	for _, tx := range selected {
		selSet[tx.Hash()] = true
	}
	for _, e := range es {
		if selSet[e.tx.Hash()] {
			e.included, e.gasUsed = true, e.tx.GasUsed()
		}
	}
	if len(tr.problems) > 0 {
		c.Fail("c05/evm-trace-unreadable", strings.Join(tr.problems, "; "), nil)
		return
	}
	if p := evAttach(es, tr); p != "" {
		c.Fail("c05/evm-trace-unreadable", p, nil)
		return
	}
	initOf := func(a common.Address) *big.Int {
		if b, ok := init[a]; ok {
			return new(big.Int).Set(b)
		}
		return new(big.Int) // an address the generator never funded
	}
	// ---- validator path on the same state: the same balances
	am2 := account.NewManager(pre, w.db)
	proc2 := transaction.NewTxProcessor(w.mgr, nodeChainID, evLoader{}, am2, w.db, nil)
	var stxs types.Transactions
	for _, tx := range selected {
		stxs = append(stxs, tx.Clone())
	}
	_, perr := proc2.Process(header, stxs)
	named := map[common.Address]bool{income: true}
	for _, e := range es {
		named[e.tx.From()], named[e.tx.GasPayer()] = true, true
		if e.top != nil {
			evWalk(e.top, func(n *evNode, kill *common.Address) {
				if n != nil {
					named[n.callee] = true
				} else {
					named[*kill] = true
				}
			})
		}
	}
	if perr != nil {
		c.Fail("c05/evm-value-mismatch/validator-path", fmt.Sprintf("Process refuses the txs ApplyTxs selected: %v", perr), nil)
	} else {
		var as []common.Address
		for a := range named {
			as = append(as, a)
		}
		sort.Slice(as, func(i, j int) bool { return strings.Compare(as[i].Hex(), as[j].Hex()) < 0 })
		for _, a := range as {
			if x, y := am.GetAccount(a).GetBalance(), am2.GetAccount(a).GetBalance(); x.Cmp(y) != 0 {
				c.Fail("c05/evm-value-mismatch/validator-path", fmt.Sprintf("address %s: %s after ApplyTxs, %s after Process of the selected txs", a.String(), x, y), nil)
				break
			}
		}
	}
	for _, e := range es {
		switch {
		case !e.included:
			c.Count("evmv:tx:discarded")
		case e.top.flag == 0:
			c.Count("evmv:tx:included-failed:" + e.top.outcome())
		default:
			c.Count("evmv:tx:included-ok")
		}
	}
	if !hasIncome {
		c.Count("evmv:block:miner-without-income-address")
	}
	evEmit(c, "generated", initOf, func(a common.Address) *big.Int { return am.GetAccount(a).GetBalance() }, income, hasIncome, es)
}

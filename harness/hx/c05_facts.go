package main

// T2 fact extractor for C06: which txdata fields does each of the four hash functions cover?
// Parsed from the current source of chain/types/tx_signing.go and tx.go with go/parser on every run.

import (
	"fmt"
	"go/ast"
	"go/parser"
	"go/token"
	"path/filepath"
	"sort"
	"strings"
)

var txdataFields = []string{"Type", "Version", "ChainID", "From", "GasPayer", "Recipient", "RecipientName", "GasPrice", "GasLimit", "GasUsed", "Amount", "Data", "Expiration", "Message", "Sigs", "GasPayerSigs"}

// fieldOfExpr maps one element of the hashed literal to the txdata field it stands for.
func fieldOfExpr(src string) string {
	src = strings.TrimSpace(src)
	m := map[string]string{
		"tx.Type()": "Type", "tx.Version()": "Version", "tx.ChainID()": "ChainID", "tx.data.From": "From", "tx.data.GasPayer": "GasPayer",
		"tx.data.Recipient": "Recipient", "tx.data.RecipientName": "RecipientName", "tx.data.GasPrice": "GasPrice", "tx.GasPrice()": "GasPrice",
		"tx.data.GasLimit": "GasLimit", "tx.GasLimit()": "GasLimit", "tx.data.Amount": "Amount", "hashData": "Data", "tx.data.Data": "Data",
		"tx.data.Expiration": "Expiration", "tx.data.Message": "Message", "tx.data.Sigs": "Sigs", "firstSignData": "Sigs",
		"tx.data.GasPayerSigs": "GasPayerSigs", "tx.data.GasUsed": "GasUsed", "tx.GasUsed()": "GasUsed",
	}
	if f, ok := m[src]; ok {
		return f
	}
	return "?" + src
}

func hashFacts(c *Ctx) {
	dir := filepath.Join(repoRoot(), "chain", "types")
	fset := token.NewFileSet()
	covered := map[string]map[string]bool{}
	for _, file := range []string{"tx_signing.go", "tx.go"} {
		f, err := parser.ParseFile(fset, filepath.Join(dir, file), nil, 0)
		if err != nil {
			c.Op("hashfacts parse-error "+file, "ok")
			continue
		}
		for _, d := range f.Decls {
			fd, ok := d.(*ast.FuncDecl)
			if !ok || fd.Name.Name != "Hash" || fd.Recv == nil || fd.Body == nil {
				continue
			}
			recv := ""
			switch t := fd.Recv.List[0].Type.(type) {
			case *ast.Ident:
				recv = t.Name
			case *ast.StarExpr:
				if id, ok := t.X.(*ast.Ident); ok {
					recv = id.Name
				}
			}
			if recv != "DefaultSigner" && recv != "ReimbursementTxSigner" && recv != "GasPayerSigner" && recv != "Transaction" {
				continue
			}
			covered[recv] = map[string]bool{}
			ast.Inspect(fd.Body, func(n ast.Node) bool {
				call, ok := n.(*ast.CallExpr)
				if !ok {
					return true
				}
				if id, ok := call.Fun.(*ast.Ident); !ok || id.Name != "rlpHash" || len(call.Args) != 1 {
					return true
				}
				lit, ok := call.Args[0].(*ast.CompositeLit)
				if !ok {
					return true
				}
				for _, e := range lit.Elts {
					var sb strings.Builder
					printExpr(&sb, e)
					covered[recv][fieldOfExpr(sb.String())] = true
				}
				return false
			})
		}
	}
	var fns []string
	for fn := range covered {
		fns = append(fns, fn)
	}
	sort.Strings(fns)
	for _, fn := range fns {
		for _, fld := range txdataFields {
			b := 0
			if covered[fn][fld] {
				b = 1
			}
			c.Op(fmt.Sprintf("hashcover %s %s %d", fn, fld, b), "ok")
		}
		for fld := range covered[fn] {
			if strings.HasPrefix(fld, "?") {
				c.Op(fmt.Sprintf("hashcover %s %s 1", fn, strings.ReplaceAll(fld, " ", "")), "ok")
			}
		}
	}
	c.Op(fmt.Sprintf("hashfns %d", len(fns)), "ok")
	hashDataFacts(c, dir, fset)
}

// hashDataFacts: what stands behind the names the Hash functions put into their rlpHash literal —
//   * the local `hashData` is getHashData(tx), the local `firstSignData` is tx.data.Sigs (assignment inside each Hash func),
//   * getHashData returns tx.data.Data, except for a decodable box with sub-txs: calcBoxSubTxHashSet(box.SubTxList),
//     which appends subTx.Hash() per sub-tx,
//   * the accessors tx.Type() / Version() / ChainID() return the txdata fields of the same name.
// Extracted with go/parser on every run; compared by the model driver with the committed expectation.
func hashDataFacts(c *Ctx, dir string, fset *token.FileSet) {
	var lines []string
	render := func(e ast.Expr) string {
		var sb strings.Builder
		printExprArgs(&sb, e)
		return sb.String()
	}
	for _, file := range []string{"tx_signing.go", "tx.go"} {
		f, err := parser.ParseFile(fset, filepath.Join(dir, file), nil, 0)
		if err != nil {
			c.Op("hashdata parse-error "+file, "ok")
			continue
		}
		for _, d := range f.Decls {
			fd, ok := d.(*ast.FuncDecl)
			if !ok || fd.Body == nil {
				continue
			}
			recv := ""
			if fd.Recv != nil {
				switch t := fd.Recv.List[0].Type.(type) {
				case *ast.Ident:
					recv = t.Name
				case *ast.StarExpr:
					if id, ok := t.X.(*ast.Ident); ok {
						recv = id.Name
					}
				}
			}
			name := fd.Name.Name
			switch {
			case name == "Hash" && (recv == "DefaultSigner" || recv == "ReimbursementTxSigner" || recv == "GasPayerSigner" || recv == "Transaction"):
				ast.Inspect(fd.Body, func(n ast.Node) bool {
					as, ok := n.(*ast.AssignStmt)
					if !ok || len(as.Lhs) != 1 || len(as.Rhs) != 1 {
						return true
					}
					if id, ok := as.Lhs[0].(*ast.Ident); ok && (id.Name == "hashData" || id.Name == "firstSignData") {
						lines = append(lines, fmt.Sprintf("hashdata local %s %s %s", recv, id.Name, render(as.Rhs[0])))
					}
					return true
				})
			case recv == "" && (name == "getHashData" || name == "calcBoxSubTxHashSet"):
				ast.Inspect(fd.Body, func(n ast.Node) bool {
					switch x := n.(type) {
					case *ast.ReturnStmt:
						for _, r := range x.Results {
							lines = append(lines, fmt.Sprintf("hashdata return %s %s", name, render(r)))
						}
					case *ast.RangeStmt:
						// what the loop over the sub-txs ranges over (a slice expression here would drop sub-txs from the hash)
						lines = append(lines, fmt.Sprintf("hashdata range %s %s", name, render(x.X)))
					case *ast.IfStmt:
						lines = append(lines, fmt.Sprintf("hashdata cond %s %s", name, render(x.Cond)))
					case *ast.CallExpr:
						if id, ok := x.Fun.(*ast.Ident); ok && id.Name == "append" && len(x.Args) == 2 {
							lines = append(lines, fmt.Sprintf("hashdata append %s %s", name, render(x.Args[1])))
						}
					}
					return true
				})
			case recv == "Transaction" && (name == "Type" || name == "Version" || name == "ChainID"):
				ast.Inspect(fd.Body, func(n ast.Node) bool {
					if x, ok := n.(*ast.ReturnStmt); ok {
						for _, r := range x.Results {
							lines = append(lines, fmt.Sprintf("hashdata accessor %s %s", name, render(r)))
						}
					}
					return true
				})
			}
		}
	}
	sort.Strings(lines)
	for _, ln := range lines {
		c.Op(ln, "ok")
	}
	c.Op(fmt.Sprintf("hashdata count %d", len(lines)), "ok")
}

// printExprArgs renders an expression with call arguments and binary operators (no spaces).
func printExprArgs(sb *strings.Builder, e ast.Expr) {
	switch x := e.(type) {
	case *ast.Ident:
		sb.WriteString(x.Name)
	case *ast.SelectorExpr:
		printExprArgs(sb, x.X)
		sb.WriteString("." + x.Sel.Name)
	case *ast.CallExpr:
		printExprArgs(sb, x.Fun)
		sb.WriteString("(")
		for i, a := range x.Args {
			if i > 0 {
				sb.WriteString(",")
			}
			printExprArgs(sb, a)
		}
		sb.WriteString(")")
	case *ast.BinaryExpr:
		printExprArgs(sb, x.X)
		sb.WriteString(x.Op.String())
		printExprArgs(sb, x.Y)
	case *ast.BasicLit:
		sb.WriteString(x.Value)
	case *ast.SliceExpr:
		printExprArgs(sb, x.X)
		sb.WriteString("[")
		if x.Low != nil {
			printExprArgs(sb, x.Low)
		}
		sb.WriteString(":")
		if x.High != nil {
			printExprArgs(sb, x.High)
		}
		sb.WriteString("]")
	case *ast.IndexExpr:
		printExprArgs(sb, x.X)
		sb.WriteString("[")
		printExprArgs(sb, x.Index)
		sb.WriteString("]")
	case *ast.ParenExpr:
		sb.WriteString("(")
		printExprArgs(sb, x.X)
		sb.WriteString(")")
	case *ast.UnaryExpr:
		sb.WriteString(x.Op.String())
		printExprArgs(sb, x.X)
	default:
		sb.WriteString(fmt.Sprintf("%T", e))
	}
}

func printExpr(sb *strings.Builder, e ast.Expr) {
	switch x := e.(type) {
	case *ast.Ident:
		sb.WriteString(x.Name)
	case *ast.SelectorExpr:
		printExpr(sb, x.X)
		sb.WriteString("." + x.Sel.Name)
	case *ast.CallExpr:
		printExpr(sb, x.Fun)
		sb.WriteString("()")
	default:
		sb.WriteString(fmt.Sprintf("%T", e))
	}
}

package main

// c05_guard: the `guard` DECISION op of the ledger scenario (C11, mixed blocks).
//
// The Lean side (LemoModel/LedgerGuard.lean, theorem LemoProofs.C11Mixed.mixed_block_keeps_tally_partial) says: a block
// keeps the tally of candidate x whenever guardX holds — every executed vote tx that touches x while x is registered
// moves exactly the weight the voter had at BLOCK START, and x is not refunded while registered. The driver answers the
// op `guard` (sent right before `end`) from the MODEL's execution of the block it was told.
//
// This file produces the implementation's answer to the same op from the REAL engine: the block's included transactions
// are executed once more by the real transaction.TxProcessor.ApplyTxs on a fresh account manager at the parent
// (before the block is inserted), and the RAW, unmerged change logs of that run are read: every VoteForLog is one
// executed vote tx; the VotesLog in front of it shows the weight CallVoteTx really moved; the BalanceLogs give the
// voter's balance when its tx started; CandidateLog / CandidateStateLog give the candidates' flags at that moment.
// The weight at block start is the parent balance divided by the harness's literal 200 LEMO.
//
// Oracle on the real engine (after the block was inserted by the validator path): for every account the guard accepts,
// the error of its tally (votes − deposit votes − voters' balance votes) must be what it was in the parent state (0 for an
// account that registered in the block): signature c11/tally-mismatch/guarded-block — a violation of a proved statement,
// never a known finding. An account the guard rejects may go either way (counted).

import (
	"fmt"
	"math/big"
	"strings"

	"github.com/LemoFoundationLtd/lemochain-core/chain/account"
	"github.com/LemoFoundationLtd/lemochain-core/chain/params"
	"github.com/LemoFoundationLtd/lemochain-core/chain/transaction"
	"github.com/LemoFoundationLtd/lemochain-core/chain/types"
	"github.com/LemoFoundationLtd/lemochain-core/common"
)

// one executed vote tx, as read from the real engine's raw change logs
type guardVote struct {
	id            int
	voter         common.Address
	old, cnd      common.Address
	oldFlag       int // isCandidate flag code of the old / new candidate when the tx ran
	cndFlag       int
	ib            *big.Int // the voter's balance when its tx started
	moved         *big.Int // the weight the VotesLog of the new candidate shows (0 without one)
	payerIsVoter  bool
	inBox         bool
	balanceBefore bool // a BalanceLog of the voter precedes its tx in this block
}

type guardCapture struct {
	hash       common.Hash // the block the capture belongs to
	ok         bool
	why        string
	votes      []guardVote
	flagsAfter map[common.Address]int // flags after the transactions (accounts whose flag a log of the block set)
	parentFlag map[common.Address]int
	nReg       int // executed register txs (top level and sub-txs)
	nExec      int // executed simple txs
	kinds      map[string]bool
}

// the capture of the block being judged (the scenario is single-threaded)
var guardCap *guardCapture

func flagOfProfile(p types.Profile) int {
	if p == nil {
		return 0
	}
	return flagCode(p[types.CandidateKeyIsCandidate])
}

// guardCaptureIf: call site in the scenario (only blocks the ledger model executes are judged).
func (l *ledger) guardCaptureIf(modelled bool, b *types.Block, byHash map[common.Hash]*ledgerTx) {
	guardCap = nil
	if modelled {
		l.guardCapture(b, byHash)
	}
}

// guardCapture: to be called after the block was built and BEFORE it is inserted (the parent's state is still there).
func (l *ledger) guardCapture(b *types.Block, byHash map[common.Hash]*ledgerTx) {
	guardCap = nil
	gc := &guardCapture{hash: b.Hash(), flagsAfter: map[common.Address]int{}, parentFlag: map[common.Address]int{}, kinds: map[string]bool{}}
	defer func() {
		if r := recover(); r != nil {
			gc.ok, gc.why = false, fmt.Sprint("panic: ", r)
		}
		guardCap = gc
	}()
	// the included txs, as fresh objects (a box tx is rewritten in place when it is executed: take the pristine copy)
	var txs types.Transactions
	type flat struct {
		tx    *types.Transaction
		id    int
		inBox bool
	}
	var exec []flat
	for _, tx := range b.Txs {
		lt := byHash[tx.Hash()]
		if lt == nil {
			gc.why = "included tx without ledger record"
			return
		}
		if tx.Type() == params.BoxTx {
			txs = append(txs, lt.orig.Clone())
			box, err := types.GetBox(tx.Data())
			if err != nil || len(box.SubTxList) != len(lt.subs) {
				gc.why = "box not readable"
				return
			}
			for i, s := range box.SubTxList {
				exec = append(exec, flat{s, lt.subs[i].id, true})
			}
		} else {
			txs = append(txs, tx.Clone())
			exec = append(exec, flat{tx, lt.id, false})
		}
	}
	gc.nExec = len(exec)
	for _, f := range exec {
		switch f.tx.Type() {
		case params.RegisterTx:
			gc.nReg++
			gc.kinds["register"] = true
		case params.VoteTx:
			gc.kinds["vote"] = true
		case params.OrdinaryTx:
			gc.kinds["transfer"] = true
		case params.ModifySignersTx:
			gc.kinds["setsigners"] = true
		}
		if f.tx.GasPayer() != f.tx.From() {
			gc.kinds["reimbursed"] = true
		}
	}
	for _, tx := range b.Txs {
		if tx.Type() == params.BoxTx {
			gc.kinds["box"] = true
		}
	}
	n := l.n
	am := account.NewManager(b.ParentHash(), n.DB)
	proc := transaction.NewTxProcessor(keyAddr(n.W.FounderKey), nodeChainID, parentLoader{n}, am, n.DB, n.DM)
	hdr := *b.Header
	sel, inv, gas := proc.ApplyTxs(&hdr, txs, 60000)
	if len(sel) != len(b.Txs) || len(inv) != 0 || gas != b.GasUsed() {
		gc.why = fmt.Sprintf("re-run of the included txs differs: %d/%d selected, %d invalid, gas %d vs %d", len(sel), len(b.Txs), len(inv), gas, b.GasUsed())
		return
	}
	raw := am.GetChangeLogs()
	// the parent's view, read through another manager (the first one now holds the block's changes)
	am0 := account.NewManager(b.ParentHash(), n.DB)
	parentBal := func(a common.Address) *big.Int { return new(big.Int).Set(am0.GetAccount(a).GetBalance()) }
	flag := map[common.Address]int{}
	flagOf := func(a common.Address) int {
		if a == (common.Address{}) {
			return 0
		}
		if f, ok := flag[a]; ok {
			return f
		}
		f := flagOfProfile(am0.GetAccount(a).GetCandidate())
		gc.parentFlag[a] = f
		flag[a] = f
		return f
	}
	bal := map[common.Address]*big.Int{}     // running balances
	lastOld := map[common.Address]*big.Int{} // OldVal of the latest BalanceLog of the address
	var voteTxs []flat
	for _, f := range exec {
		if f.tx.Type() == params.VoteTx {
			voteTxs = append(voteTxs, f)
		}
	}
	k := 0
	for j, cl := range raw {
		switch cl.LogType {
		case account.BalanceLog:
			o, nw := cl.OldVal.(big.Int), cl.NewVal.(big.Int)
			lastOld[cl.Address] = new(big.Int).Set(&o)
			bal[cl.Address] = new(big.Int).Set(&nw)
		case account.CandidateLog:
			flagOf(cl.Address)
			if p, ok := cl.NewVal.(*types.Profile); ok && p != nil {
				flag[cl.Address] = flagOfProfile(*p)
			} else {
				gc.why = "CandidateLog without profile"
				return
			}
		case account.CandidateStateLog:
			flagOf(cl.Address)
			if key, _ := cl.Extra.(string); key == types.CandidateKeyIsCandidate {
				flag[cl.Address] = flagCode(cl.NewVal.(string))
			}
		case account.VoteForLog:
			if k >= len(voteTxs) {
				gc.why = "more VoteForLogs than executed vote txs"
				return
			}
			f := voteTxs[k]
			k++
			v := cl.Address
			old, _ := cl.OldVal.(common.Address)
			cnd, _ := cl.NewVal.(common.Address)
			if f.tx.From() != v || f.tx.To() == nil || *f.tx.To() != cnd {
				gc.why = "VoteForLog does not match the executed vote tx"
				return
			}
			gv := guardVote{id: f.id, voter: v, old: old, cnd: cnd, oldFlag: flagOf(old), cndFlag: flagOf(cnd), moved: new(big.Int), payerIsVoter: f.tx.GasPayer() == v, inBox: f.inBox}
			// the weight really moved: the VotesLog of the new candidate stands right in front of the VoteForLog
			if j >= 1 && raw[j-1].LogType == account.VotesLog && raw[j-1].Address == cnd {
				o, nw := raw[j-1].OldVal.(big.Int), raw[j-1].NewVal.(big.Int)
				gv.moved = new(big.Int).Sub(&nw, &o)
				if j >= 2 && raw[j-2].LogType == account.VotesLog && raw[j-2].Address == old && old != cnd {
					o2, n2 := raw[j-2].OldVal.(big.Int), raw[j-2].NewVal.(big.Int)
					if new(big.Int).Sub(&o2, &n2).Cmp(gv.moved) != 0 {
						l.c.Fail("c11/vote-moves-unequal-weights", fmt.Sprintf("block %d: vote tx of %d takes %s from the old candidate and gives %s to the new one", b.Height(), l.label(v), new(big.Int).Sub(&o2, &n2), gv.moved), nil)
					}
				}
			}
			// the voter's balance when its tx started: buyGas (a BalanceLog of the gas payer) is the only balance change of
			// the tx in front of the VoteForLog
			_, gv.balanceBefore = bal[v]
			if gv.payerIsVoter {
				lo, ok := lastOld[v]
				if !ok {
					gc.why = "no buyGas log in front of a vote"
					return
				}
				gv.ib = new(big.Int).Set(lo)
				fee := new(big.Int).Mul(new(big.Int).SetUint64(f.tx.GasLimit()), f.tx.GasPrice())
				if new(big.Int).Sub(lo, fee).Cmp(bal[v]) != 0 {
					gc.why = "the balance log in front of a vote is not its buyGas"
					return
				}
				// was the voter's balance touched before this tx? (the buyGas log itself does not count)
				gv.balanceBefore = lo.Cmp(parentBal(v)) != 0
			} else if cur, ok := bal[v]; ok {
				gv.ib = new(big.Int).Set(cur)
			} else {
				gv.ib = parentBal(v)
			}
			gc.votes = append(gc.votes, gv)
		}
	}
	if k != len(voteTxs) {
		gc.why = "fewer VoteForLogs than executed vote txs"
		return
	}
	for a, f := range flag {
		gc.flagsAfter[a] = f
	}
	gc.ok = true
}

// tallyErrOf: votes − (deposit votes + voters' balance votes) of account x in the view of block h, by the harness's own
// literals (200 LEMO / 100 LEMO) over the account universe.
func (l *ledger) tallyErrOf(h common.Hash, x common.Address) *big.Int {
	v := l.view(h, x)
	d, _ := new(big.Int).SetString(v.deposit, 10)
	if d == nil {
		d = new(big.Int)
	}
	if pd, ok := l.paidDeposit(h, x); ok {
		d = pd // the deposit PAID by construction (c05_profile.go), not the one the profile records
	}
	e := new(big.Int).Sub(v.votes, new(big.Int).Div(d, depositRateLit))
	for _, a := range l.univ {
		w := l.view(h, a)
		if w.voteFor == x {
			e.Sub(e, new(big.Int).Div(w.bal, voteRateLit))
		}
	}
	return e
}

// guardOp: to be called right before the `end` op of a modelled block. `b` is the block (already inserted).
func (l *ledger) guardOp(res string, b *types.Block, cand []*ledgerTx, refunds []common.Address, isReward bool) {
	c := l.c
	gc := guardCap
	guardCap = nil
	if !strings.HasPrefix(res, "sel=") || gc == nil || gc.hash != b.Hash() {
		return
	}
	if !gc.ok {
		c.Fail("c11/guard-trace-unreadable", fmt.Sprintf("block %d: %s", b.Height(), gc.why), nil)
		return
	}
	inUniv := map[common.Address]bool{}
	for _, a := range l.univ {
		inUniv[a] = true
	}
	ph := b.ParentHash()
	startWeight := func(v common.Address) *big.Int {
		if !inUniv[v] {
			return new(big.Int)
		}
		return new(big.Int).Div(l.view(ph, v).bal, voteRateLit)
	}
	// ---- the trace and the per-candidate vote clause
	failing := map[common.Address]bool{}
	typical := true
	var tr []string
	for _, gv := range gc.votes {
		w0 := startWeight(gv.voter)
		tr = append(tr, fmt.Sprintf("%d:%d:%d.%d>%d.%d:%s/%s", gv.id, l.label(gv.voter), l.label(gv.old), gv.oldFlag, l.label(gv.cnd), gv.cndFlag, w0, gv.moved))
		same := w0.Cmp(gv.moved) == 0
		if !same {
			if gv.cndFlag == 1 {
				failing[gv.cnd] = true
			}
			if gv.oldFlag == 1 && gv.old != (common.Address{}) {
				failing[gv.old] = true
			}
		}
		untouched := inUniv[gv.voter] && gv.ib.Cmp(l.view(ph, gv.voter).bal) == 0 && gv.ib.Sign() >= 0
		if !untouched {
			typical = false
		}
		switch {
		case same && untouched:
			c.Count("guard:vote:weight-kept(voter-untouched-before-its-tx)")
		case same:
			c.Count("guard:vote:weight-kept(voter-touched,same-200-LEMO-bracket)")
		case gv.moved.Cmp(w0) > 0:
			c.Count("guard:vote:weight-differs(rose-before-the-vote)")
		default:
			c.Count("guard:vote:weight-differs(fell-before-the-vote)")
		}
		if gv.moved.Sign() == 0 {
			c.Count("guard:vote:moves-nothing(balance-below-200-LEMO)")
		}
		if gv.old != (common.Address{}) {
			c.Count("guard:vote:re-vote")
			if gv.oldFlag != 1 {
				c.Count("guard:vote:re-vote-from-unregistered")
			}
		}
		if !gv.payerIsVoter {
			c.Count("guard:vote:reimbursed")
		}
		if gv.inBox {
			c.Count("guard:vote:sub-tx-of-a-box")
		}
		if gv.voter == gv.cnd {
			c.Count("guard:vote:candidate-votes-for-itself")
		}
	}
	// ---- the sufficient condition on the candidate list alone (no boxes; no vote sender named by an earlier candidate)
	fresh := true
	seen := map[common.Address]bool{}
	for _, lt := range cand {
		tx := lt.tx
		switch {
		case tx.Type() == params.BoxTx:
			fresh = false
		case tx.Type() == params.VoteTx && tx.To() != nil:
			if !inUniv[tx.From()] || seen[tx.From()] || l.view(ph, tx.From()).bal.Sign() < 0 {
				fresh = false
			}
		}
		seen[tx.From()], seen[tx.GasPayer()], seen[params.DepositPoolAddress] = true, true, true
		if tx.Type() == params.OrdinaryTx && tx.To() != nil && len(tx.Data()) == 0 {
			seen[*tx.To()] = true
		}
	}
	// ---- the verdicts for the accounts that are registered after the block
	refunded := map[common.Address]bool{}
	if isReward {
		for _, a := range refunds {
			refunded[a] = true
		}
	}
	flagAfterTxs := func(a common.Address) int {
		if f, ok := gc.flagsAfter[a]; ok {
			return f
		}
		return l.view(ph, a).isCand
	}
	var ok, bad []string
	var okA, badA []common.Address
	for _, a := range l.univ {
		if l.view(b.Hash(), a).isCand != 1 {
			continue
		}
		refundClause := !(refunded[a] && flagAfterTxs(a) == 1)
		if !refundClause {
			c.Count("guard:refund-clause-false")
		}
		if refundClause && !failing[a] {
			ok, okA = append(ok, fmt.Sprintf("%d", l.label(a))), append(okA, a)
		} else {
			bad, badA = append(bad, fmt.Sprintf("%d", l.label(a))), append(badA, a)
		}
	}
	b2i := func(x bool) int {
		if x {
			return 1
		}
		return 0
	}
	c.Op("guard", fmt.Sprintf("votes=%s ok=%s bad=%s typical=%d fresh=%d", strings.Join(tr, ","), strings.Join(ok, ","), strings.Join(bad, ","), b2i(typical), b2i(fresh)))
	// ---- the oracle on the real engine: an accepted account keeps the error of its tally
	for _, a := range okA {
		was := new(big.Int)
		if l.view(ph, a).isCand == 1 {
			was = l.tallyErrOf(ph, a)
		}
		now := l.tallyErrOf(b.Hash(), a)
		if now.Cmp(was) != 0 {
			c.Fail("c11/tally-mismatch/guarded-block", fmt.Sprintf("block %d: the guard accepts the block for candidate %d (every vote tx that touches it moves the voter's weight of block start; not refunded) but the block changed votes - (deposit votes + voters' balance votes) from %s to %s; classes=%v", b.Height(), l.label(a), was, now, classesOf(cand)), nil)
		}
		c.Count("guard:candidate:accepted(tally-error-kept)")
	}
	for _, a := range badA {
		was := new(big.Int)
		if l.view(ph, a).isCand == 1 {
			was = l.tallyErrOf(ph, a)
		}
		if l.tallyErrOf(b.Hash(), a).Cmp(was) != 0 {
			c.Count("guard:candidate:rejected(tally-error-changed)")
		} else {
			c.Count("guard:candidate:rejected(tally-error-kept:errors-cancel-or-unregistered-later)")
		}
	}
	// ---- classes
	c.Count("guard:block")
	mixed := len(gc.votes) > 0 || gc.nReg > 0
	if !mixed {
		c.Count("guard:block:plain(no vote / register tx executed)")
		return
	}
	c.Count("guard:mixed-block")
	if len(bad) == 0 {
		c.Count("guard:mixed-block:guard-holds-for-every-candidate")
	} else {
		c.Count("guard:mixed-block:guard-fails-for-some-candidate")
	}
	if len(gc.votes) > 0 {
		c.Count("guard:mixed-block:with-vote-tx")
		if typical {
			c.Count("guard:mixed-block:with-vote-tx:typical(voters-untouched)")
		}
		if fresh {
			c.Count("guard:mixed-block:with-vote-tx:fresh-voters(list-condition)")
		}
	}
	if isReward {
		c.Count("guard:mixed-block:reward-block")
	}
	if len(gc.kinds) >= 3 {
		c.Count("guard:mixed-block:three-or-more-kinds")
	}
	for k := range gc.kinds {
		c.Count("guard:mixed-block:executes:" + k)
	}
	for _, a := range l.univ {
		pv, nv := l.view(ph, a), l.view(b.Hash(), a)
		switch {
		case pv.isCand == 0 && nv.isCand == 1:
			c.Count("guard:mixed-block:account-registers")
		case pv.isCand == 1 && nv.isCand == 2:
			c.Count("guard:mixed-block:candidate-unregisters")
		case pv.isCand == 1 && nv.isCand == 1 && pv.deposit != nv.deposit:
			c.Count("guard:mixed-block:candidate-tops-up")
		}
	}
}

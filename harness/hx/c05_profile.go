package main

// c05_profile: the tx-supplied candidate PROFILE of a RegisterTx in the ledger scenario (C11, recorded deposit).
//
// The Lean side (LemoModel/Ledger.lean: TxProfile / builtProfile / overlay / depositAfterOverlay inside doRegister;
// LemoModel/LedgerDeposit.lean + LemoProofs.C11Deposit: recorded_deposit_is_paid_deposit, protected_keys_not_overwritten,
// deposit_votes_from_recorded, forged_deposit_refuted) makes the whole profile of the tx explicit: a first registration
// stores it and writes the deposit entry itself, a modification overlays it on the stored profile key by key EXCEPT the
// protected keys nodeID and types.CandidateKeyDepositAmount, an unregistration ignores it.
//
// This file
//   * renders the profile of every generated RegisterTx on its `tx` / `sub` op line (`registerFields`: the deposit entry
//     the TX carries under the protected key — absent / not a numeral / numeral — and every other key as key:value labels;
//     the strings are the generator's own, read from the tx data it built),
//   * renders the stored profile of every universe account in the `end` answer (`profOf`) and describes the genesis /
//     re-synchronised profiles to the model (`profOps`),
//   * generates RegisterTxs whose profile carries FORGED protected keys (`forgedRegister`): a deposit entry that is
//     smaller / larger / zero / negative / not a numeral / empty, on first registrations and on updates, a nodeID of another
//     node, arbitrary extra keys — and top-ups whose amount crosses a 100-LEMO boundary of the FORGED deposit but not of
//     the real one (or the other way round), in the same tx or in a later one,
//   * keeps the deposits every account really PAID by construction (`depositBook`: amounts of the included first
//     registration and top-up txs, from the generator's own transactions — never from the candidate profile) and judges
//     every modelled block (`depositOracle`): recorded deposit == paid deposit for every registered candidate (and for an
//     unregistered one until its refund), deposit-pool balance delta == paid in − refunded paid deposits (+ plain
//     transfers to the pool address): signature c11/deposit-mismatch/<class>,
//   * hands the paid deposit to the tally oracles (`paidDeposit`), so that the tally is judged against the LEMO really
//     locked and not against what the profile says.

import (
	"encoding/json"
	"fmt"
	"math/big"
	"math/rand"
	"regexp"
	"sort"
	"strings"

	"github.com/LemoFoundationLtd/lemochain-core/chain/account"
	"github.com/LemoFoundationLtd/lemochain-core/chain/params"
	"github.com/LemoFoundationLtd/lemochain-core/chain/types"
	"github.com/LemoFoundationLtd/lemochain-core/common"
)

// depRec: what the harness knows BY CONSTRUCTION about one account's deposit.
// status: 0 never registered, 1 registered, 2 unregistered (deposit still held), 3 unregistered and refunded.
type depRec struct {
	status int
	paid   *big.Int
}

type profState struct {
	l        *ledger
	keyLabel map[string]int // profile key -> label (1 nodeID, 2 introduction, 3 host, 4 port, 5.. any other key)
	valLabel map[string]int // value string -> label ("" = 0)
	// deposit book: per block hash of the main chain (and of every ancestor walked), account -> record
	at map[common.Hash]map[common.Address]depRec
	// generator memory: the forged numeric deposit entry last SENT by a candidate (whether or not the tx was included)
	lastForged map[string]*big.Int
	lastBad    map[common.Address]string // account -> "recorded|paid" of the last reported mismatch
}

// the profile state of the epoch being run (the scenario is single-threaded; every epoch has its own *ledger)
var profCur *profState

func (l *ledger) ps() *profState {
	if profCur == nil || profCur.l != l {
		profCur = &profState{l: l,
			keyLabel:   map[string]int{types.CandidateKeyNodeID: 1, types.CandidateKeyIntroduction: 2, types.CandidateKeyHost: 3, types.CandidateKeyPort: 4},
			valLabel:   map[string]int{"": 0},
			at:         map[common.Hash]map[common.Address]depRec{},
			lastForged: map[string]*big.Int{},
			lastBad:    map[common.Address]string{}}
	}
	return profCur
}

// typedKey: the profile keys the ledger model keeps as typed fields (flag, income address, deposit entry).
func typedKey(k string) bool {
	return k == types.CandidateKeyIsCandidate || k == types.CandidateKeyIncomeAddress || k == types.CandidateKeyDepositAmount
}

func (ps *profState) internKey(k string) int {
	if v, ok := ps.keyLabel[k]; ok {
		return v
	}
	v := len(ps.keyLabel) + 1
	ps.keyLabel[k] = v
	return v
}

func (ps *profState) internVal(s string) int {
	if v, ok := ps.valLabel[s]; ok {
		return v
	}
	v := len(ps.valLabel)
	ps.valLabel[s] = v
	return v
}

// the harness's own reading of big.Int.SetString(s, 10): an optional sign and at least one decimal digit, nothing else
var decimalNumeral = regexp.MustCompile(`^[+-]?[0-9]+$`)

func parseNumeral(s string) (*big.Int, bool) {
	if !decimalNumeral.MatchString(s) {
		return nil, false
	}
	v, ok := new(big.Int).SetString(strings.TrimPrefix(s, "+"), 10)
	return v, ok
}

// registerFields: " <deposit entry> <other keys>" of a RegisterTx op line, from the profile the generator put into the tx
// data. Deposit entry: "-" key absent, "x" present but not a decimal numeral, "n<v>" the numeral v. Other keys:
// key:value labels sorted by key label, "-" = none. New strings get new labels here (generator-chosen input).
func (l *ledger) registerFields(p types.Profile) string {
	ps := l.ps()
	dep := "-"
	if s, ok := p[types.CandidateKeyDepositAmount]; ok {
		if v, isNum := parseNumeral(s); isNum {
			dep = "n" + v.String()
		} else {
			dep = "x"
		}
	}
	var keys []string
	for k := range p {
		if !typedKey(k) {
			keys = append(keys, k)
		}
	}
	sort.Strings(keys) // label assignment must not depend on map order
	type kv struct{ k, v int }
	var kvs []kv
	for _, k := range keys {
		kvs = append(kvs, kv{ps.internKey(k), ps.internVal(p[k])})
	}
	sort.Slice(kvs, func(i, j int) bool { return kvs[i].k < kvs[j].k })
	oth := "-"
	if len(kvs) > 0 {
		var ss []string
		for _, x := range kvs {
			ss = append(ss, fmt.Sprintf("%d:%d", x.k, x.v))
		}
		oth = strings.Join(ss, ",")
	}
	return " " + dep + " " + oth
}

// profileAt: the stored candidate profile of `a` in the view of block `h`.
func (l *ledger) profileAt(h common.Hash, a common.Address) types.Profile {
	return account.NewManager(h, l.n.DB).GetAccount(a).GetCandidate()
}

// profOf: the opaque keys of the stored profile for the `end` answer: `k=v;…` sorted by key label, "-" = none. A string
// the generator never produced has no label: it is printed as it is (and cannot match the model's answer).
func (l *ledger) profOf(h common.Hash, a common.Address) string {
	ps := l.ps()
	p := l.profileAt(h, a)
	type kv struct {
		k    int
		s    string
		text string
	}
	var kvs []kv
	for k, v := range p {
		if typedKey(k) {
			continue
		}
		kl, ok1 := ps.keyLabel[k]
		vl, ok2 := ps.valLabel[v]
		ks, vs := fmt.Sprint(kl), fmt.Sprint(vl)
		if !ok1 {
			kl, ks = 1<<30, "?"+k
		}
		if !ok2 {
			vs = "?" + strings.ReplaceAll(v, " ", "_")
		}
		kvs = append(kvs, kv{kl, ks, ks + "=" + vs})
	}
	if len(kvs) == 0 {
		return "-"
	}
	sort.Slice(kvs, func(i, j int) bool {
		if kvs[i].k != kvs[j].k {
			return kvs[i].k < kvs[j].k
		}
		return kvs[i].s < kvs[j].s
	})
	var ss []string
	for _, x := range kvs {
		ss = append(ss, x.text)
	}
	return strings.Join(ss, ";")
}

// profOps: describes the stored profiles of the universe in the view of `h` to the model (genesis and after a block the
// ledger model does not execute): trusted initial state, as the `acct` lines are. Also opens the deposit book there.
func (l *ledger) profOps(h common.Hash) {
	ps := l.ps()
	for _, a := range l.univ {
		p := l.profileAt(h, a)
		var keys []string
		for k := range p {
			if !typedKey(k) {
				keys = append(keys, k)
			}
		}
		if len(keys) == 0 {
			continue
		}
		sort.Strings(keys)
		type kv struct{ k, v int }
		var kvs []kv
		for _, k := range keys {
			kvs = append(kvs, kv{ps.internKey(k), ps.internVal(p[k])})
		}
		sort.Slice(kvs, func(i, j int) bool { return kvs[i].k < kvs[j].k })
		var ss []string
		for _, x := range kvs {
			ss = append(ss, fmt.Sprintf("%d:%d", x.k, x.v))
		}
		l.c.Op(fmt.Sprintf("prof %d %s", l.label(a), strings.Join(ss, ",")), "ok")
	}
	ps.book(h)
}

// ---------------------------------------------------------------------------------------------------------------------
// the deposit book (by construction)

func cloneBook(m map[common.Address]depRec) map[common.Address]depRec {
	r := map[common.Address]depRec{}
	for a, x := range m {
		r[a] = depRec{x.status, new(big.Int).Set(x.paid)}
	}
	return r
}

// regEvent: one included RegisterTx as the book reads it.
type regEvent struct {
	from  common.Address
	class string // first-registration / top-up / update / unregistration / unexpected
}

// applyBlock: the book after the RegisterTxs INCLUDED in `b` (top level and sub-txs of included boxes — an included tx
// was executed successfully: the miner discards failing candidates, the validator refuses a block with one), from the
// transactions' own amount and isCandidate flag. Returns what they paid into the pool, the plain transfers to the pool
// address, and the events in order.
func applyBlock(book map[common.Address]depRec, b *types.Block) (paidIn, toPool *big.Int, events []regEvent) {
	paidIn, toPool = new(big.Int), new(big.Int)
	var walk func(tx *types.Transaction)
	walk = func(tx *types.Transaction) {
		switch tx.Type() {
		case params.BoxTx:
			if box, err := types.GetBox(tx.Data()); err == nil {
				for _, s := range box.SubTxList {
					walk(s)
				}
			}
		case params.OrdinaryTx:
			if tx.To() != nil && *tx.To() == params.DepositPoolAddress && len(tx.Data()) == 0 {
				toPool.Add(toPool, tx.Amount())
			}
		case params.RegisterTx:
			from := tx.From()
			p := make(types.Profile)
			_ = json.Unmarshal(tx.Data(), &p)
			rec, ok := book[from]
			if !ok {
				rec = depRec{0, new(big.Int)}
			}
			ev := regEvent{from: from}
			switch {
			case rec.status == 0:
				rec = depRec{1, new(big.Int).Set(tx.Amount())}
				paidIn.Add(paidIn, tx.Amount())
				ev.class = "first-registration"
			case rec.status == 1 && p[types.CandidateKeyIsCandidate] == types.NotCandidateNode:
				rec.status = 2
				ev.class = "unregistration"
			case rec.status == 1 && tx.Amount().Sign() > 0:
				rec = depRec{1, new(big.Int).Add(rec.paid, tx.Amount())}
				paidIn.Add(paidIn, tx.Amount())
				ev.class = "top-up"
			case rec.status == 1:
				ev.class = "update"
			default:
				ev.class = "unexpected" // a RegisterTx of an unregistered account cannot be executed (ErrRegisterAgain)
			}
			book[from] = rec
			events = append(events, ev)
		}
	}
	for _, tx := range b.Txs {
		walk(tx)
	}
	return
}

// book: the deposit book in the view of block `h`. A block without a book yet is reached from its nearest ancestor that
// has one (the blocks between them — e.g. contract blocks the ledger model does not execute — are read from the chain);
// the first block asked for (the genesis of the epoch) opens the book from the state: trusted initial state.
func (ps *profState) book(h common.Hash) map[common.Address]depRec {
	if m, ok := ps.at[h]; ok {
		return m
	}
	l := ps.l
	var b *types.Block
	if len(ps.at) > 0 {
		b = l.n.BC.GetBlockByHash(h)
	}
	if b == nil || b.Height() == 0 {
		m := map[common.Address]depRec{}
		for _, a := range l.univ {
			v := l.view(h, a)
			d, _ := parseNumeral(v.deposit)
			if d == nil {
				d = new(big.Int)
			}
			switch {
			case v.isCand == 1:
				m[a] = depRec{1, d}
			case v.isCand == 2 && v.deposit != "":
				m[a] = depRec{2, d}
			case v.isCand == 2:
				m[a] = depRec{3, d}
			default:
				m[a] = depRec{0, new(big.Int)}
			}
		}
		ps.at[h] = m
		return m
	}
	// (blocks walked over here are the ones the ledger model does not execute: contract / asset / set-reward blocks — no
	// unregistration and no reward height among them, so no refund; a refund that happened nevertheless is seen — and
	// charged to the pool delta — by the next judged block)
	m := cloneBook(ps.book(b.ParentHash()))
	applyBlock(m, b)
	ps.at[h] = m
	return m
}

// paidDeposit: the deposit a REGISTERED candidate has paid by construction, in the view of block `h`.
func (l *ledger) paidDeposit(h common.Hash, a common.Address) (*big.Int, bool) {
	ps := l.ps()
	m, ok := ps.at[h]
	if !ok {
		return nil, false
	}
	rec, ok := m[a]
	if !ok || rec.status != 1 {
		return nil, false
	}
	return new(big.Int).Set(rec.paid), true
}

// paidField: the book entry of a registered candidate for the `end` answer ("-" for any other account): the model driver
// prints the entry of ITS book (LemoModel.LedgerDeposit.paidBlock over the transactions the model executed).
func (l *ledger) paidField(h common.Hash, a common.Address) string {
	if pd, ok := l.paidDeposit(h, a); ok {
		return pd.String()
	}
	return "-"
}

// depositOracle: judges the inserted block `b` (a block the ledger model executes). To be called before the tally oracle.
func (l *ledger) depositOracle(b *types.Block) {
	c := l.c
	ps := l.ps()
	parentBook := ps.book(b.ParentHash())
	m := cloneBook(parentBook)
	paidIn, toPool, events := applyBlock(m, b)
	lastClass := map[common.Address]string{}
	for _, ev := range events {
		lastClass[ev.from] = ev.class
		c.Count("deposit:included:" + ev.class)
		if ev.class == "unexpected" {
			c.Fail("c11/deposit-mismatch/register-tx-of-unregistered-account-included", fmt.Sprintf("block %d: a RegisterTx of account %d, which the harness's record says has unregistered, was executed", b.Height(), l.label(ev.from)), nil)
		}
	}
	refunded := new(big.Int)
	for _, a := range l.univ {
		rec, ok := m[a]
		if !ok {
			continue
		}
		recorded := l.view(b.Hash(), a).deposit
		class := lastClass[a]
		if class == "" {
			class = "no-register-tx-in-block"
		}
		want := ""
		switch rec.status {
		case 1:
			want = rec.paid.String()
		case 2:
			// unregistered: the recorded deposit stays until the refund clears it (at once, or in a reward block)
			if recorded == "" {
				rec.status = 3
				m[a] = rec
				refunded.Add(refunded, rec.paid)
				c.Count("deposit:refund-seen")
				if class == "no-register-tx-in-block" {
					class = "refund"
				}
			} else {
				want = rec.paid.String()
			}
		}
		if recorded != want {
			bad := recorded + "|" + want
			if ps.lastBad[a] != bad {
				ps.lastBad[a] = bad
				c.Fail("c11/deposit-mismatch/"+class, fmt.Sprintf("block %d: account %d (status %d by the harness's record) has RECORDED deposit %q in its candidate profile; the deposit its included register / top-up txs PAID into the pool since its registration is %q", b.Height(), l.label(a), rec.status, recorded, want), nil)
			}
			c.Count("deposit:mismatch:" + class)
		} else {
			delete(ps.lastBad, a)
			if rec.status == 1 {
				c.Count("deposit:recorded=paid")
			}
		}
	}
	ps.at[b.Hash()] = m
	// the deposit pool: what the block moved in and out of it
	pool := params.DepositPoolAddress
	delta := new(big.Int).Sub(l.view(b.Hash(), pool).bal, l.view(b.ParentHash(), pool).bal)
	want := new(big.Int).Sub(new(big.Int).Add(paidIn, toPool), refunded)
	if delta.Cmp(want) != 0 {
		c.Fail("c11/deposit-mismatch/pool-delta", fmt.Sprintf("block %d: the deposit pool's balance changed by %s; the included register / top-up txs paid %s into it, plain transfers %s, refunds of paid deposits %s: expected %s", b.Height(), delta, paidIn, toPool, refunded, want), nil)
		c.Count("deposit:mismatch:pool-delta")
	} else if paidIn.Sign() != 0 || refunded.Sign() != 0 {
		c.Count("deposit:pool-delta-ok(nonzero)")
	}
}

// ---------------------------------------------------------------------------------------------------------------------
// generator

var depositRate100 = lemo(100)

// crossingTopup: an amount A in (0, 100 LEMO] such that ⌊(F+A)/100 LEMO⌋ − ⌊F/100 LEMO⌋ ≠ ⌊(D+A)/100 LEMO⌋ − ⌊D/100 LEMO⌋
// (F = forged deposit entry, D = deposit really paid); ok = false when both have the same remainder.
func crossingTopup(forged, real *big.Int) (*big.Int, string, bool) {
	f := new(big.Int).Mod(forged, depositRate100) // Euclidean: 0 ≤ f < rate, also for a negative entry
	d := new(big.Int).Mod(real, depositRate100)
	switch f.Cmp(d) {
	case 1:
		return new(big.Int).Sub(depositRate100, f), "forged-crosses", true
	case -1:
		return new(big.Int).Sub(depositRate100, d), "real-crosses", true
	}
	return nil, "", false
}

// forgedDepositEntry: a value for the protected deposit key of a tx profile, relative to the real deposit.
func forgedDepositEntry(rnd *rand.Rand, real *big.Int) (string, string) {
	frac := big.NewInt(int64(rnd.Intn(3))) // a few mo beside whole LEMO
	switch rnd.Intn(10) {
	case 0, 1, 2:
		return new(big.Int).Add(lemo(int64(1+rnd.Intn(199))), frac).String(), "smaller"
	case 3, 4:
		return new(big.Int).Add(new(big.Int).Add(real, lemo(int64(1000000+rnd.Intn(300)))), frac).String(), "larger"
	case 5:
		return "0", "zero"
	case 6:
		return "-" + lemo(int64(1+rnd.Intn(500))).String(), "negative"
	case 7:
		return []string{"12abc", "0x10", "1e21", " 5", "5 ", "1_000", "+", "-", "five"}[rnd.Intn(9)], "not-a-numeral"
	case 8:
		return "", "empty"
	}
	return "+" + new(big.Int).Add(lemo(int64(1+rnd.Intn(99))), frac).String(), "plus-form"
}

// forgedRegister: a RegisterTx whose profile carries forged protected keys (or the top-up that follows one).
// `u` = the actor genTx drew, `cands` = the registered candidates in the parent view, `pick` = genTx's chooser.
// Returns nil when the variant drawn is not possible in this state.
func (l *ledger) forgedRegister(rnd *rand.Rand, cands []common.Address, u string, pick func([]common.Address) (string, bool), exp uint64, msg string) (*types.Transaction, string, string) {
	ps := l.ps()
	c := l.c
	extraKeys := func(extra map[string]string) {
		// arbitrary other keys (short values: the marshalled profile stays far below the 1200-byte limit), and the
		// ordinary keys an update may legitimately change
		for n := rnd.Intn(3); n > 0; n-- {
			switch rnd.Intn(7) {
			case 0:
				extra["website"] = fmt.Sprintf("w%d.example", rnd.Intn(3))
			case 1:
				extra["minerAddress"] = keyAddr(l.key("u" + fmt.Sprint(rnd.Intn(8)))).String()
			case 2:
				extra["depositAmount"] = fmt.Sprint(rnd.Intn(3) * 777) // NOT the protected key (that one is depositBalance): an ordinary key
			case 3:
				extra[types.CandidateKeyIntroduction] = fmt.Sprintf("intro %d", rnd.Intn(3))
			case 4:
				extra[types.CandidateKeyHost] = fmt.Sprintf("10.0.0.%d", 1+rnd.Intn(3))
			case 5:
				extra[types.CandidateKeyPort] = fmt.Sprint(7100 + rnd.Intn(3))
			case 6:
				extra["NodeID"] = "not-the-protected-key"
			}
		}
	}
	realOf := func(nm string) *big.Int {
		// the deposit the candidate really paid, by the harness's own book at the chain head
		if rec, ok := ps.book(l.n.BC.CurrentBlock().Hash())[keyAddr(l.key(nm))]; ok && rec.status == 1 {
			return new(big.Int).Set(rec.paid)
		}
		return new(big.Int)
	}
	variant := rnd.Intn(20)
	switch {
	case variant < 4:
		// FIRST registration with a forged deposit entry: registerCandidate writes the entry itself
		val, vc := forgedDepositEntry(rnd, lemo(1000))
		extra := map[string]string{types.CandidateKeyDepositAmount: val}
		extraKeys(extra)
		dep := lemo(int64(1000 + rnd.Intn(4)*50 + rnd.Intn(3)))
		c.Count("forged:gen:first-registration:" + vc)
		return txRegister(l.key(u), dep, l.key("node-"+u), false, extra, TxOpt{Exp: exp, Msg: msg}), "forge-first-" + vc, u
	case variant < 16:
		nm, ok := pick(cands)
		if !ok {
			return nil, "", ""
		}
		real := realOf(nm)
		val, vc := forgedDepositEntry(rnd, real)
		extra := map[string]string{types.CandidateKeyDepositAmount: val}
		extraKeys(extra)
		nodeKey := l.key("node-" + nm)
		class := "forge-update-" + vc
		if rnd.Intn(3) == 0 {
			// the other protected key: the node id of ANOTHER node (a sitting genesis deputy's, or another user's)
			if rnd.Intn(2) == 0 {
				nodeKey = l.w.DeputyKeys[rnd.Intn(len(l.w.DeputyKeys))]
			} else {
				nodeKey = l.key("node-u" + fmt.Sprint(rnd.Intn(8)))
			}
			class += "+nodeid"
		}
		amount := new(big.Int)
		if forged, isNum := parseNumeral(val); isNum {
			ps.lastForged[nm] = forged
			if variant >= 10 {
				// the top-up in the SAME tx: amount crosses a 100-LEMO boundary of exactly one of forged / real deposit
				if a, dir, ok := crossingTopup(forged, real); ok {
					amount = a
					class = strings.Replace(class, "forge-update-", "forge-update+topup("+dir+")-", 1)
				}
			}
		} else if variant >= 13 {
			amount = lemo(int64(1 + rnd.Intn(120)))
			class = strings.Replace(class, "forge-update-", "forge-update+topup-", 1)
		}
		c.Count("forged:gen:" + class)
		return txRegister(l.key(nm), amount, nodeKey, false, extra, TxOpt{Exp: exp, Msg: msg}), class, nm
	default:
		// a later, PLAIN top-up by a candidate that sent a forged deposit entry before: the amount crosses a boundary of
		// exactly one of the forged entry / the real deposit
		var nms []string
		for _, a := range cands {
			if nm, ok := l.actorOf[a]; ok && ps.lastForged[nm] != nil {
				nms = append(nms, nm)
			}
		}
		if len(nms) == 0 {
			return nil, "", ""
		}
		nm := nms[rnd.Intn(len(nms))]
		real := realOf(nm)
		a, dir, ok := crossingTopup(ps.lastForged[nm], real)
		if !ok {
			a, dir = lemo(int64(1+rnd.Intn(99))), "same-remainder"
		}
		extra := map[string]string{}
		extraKeys(extra)
		c.Count("forged:gen:followup-topup(" + dir + ")")
		return txRegister(l.key(nm), a, l.key("node-"+nm), false, extra, TxOpt{Exp: exp, Msg: msg}), "forge-followup-topup(" + dir + ")", nm
	}
}

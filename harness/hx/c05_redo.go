package main

import (
	"encoding/json"
	"fmt"
	"sort"

	"github.com/LemoFoundationLtd/lemochain-core/chain/account"
	"github.com/LemoFoundationLtd/lemochain-core/chain/types"
	"github.com/LemoFoundationLtd/lemochain-core/common"
)

// redoKeyed completes redoChecks (C07's last clause: replaying the PUBLISHED change logs onto the parent state gives
// the state the execution gave) for the attributes redoChecks does not look at: equity entries, asset codes with
// their profile and total supply, asset id states, and the self-destruct flag.
//
// The comparison set is not only what this block's logs name: every (account, asset code / asset id / equity id)
// named by ANY block of the scenario so far is compared again for every account of the ledger's universe and of the
// block, so an entry whose log is wrongly dropped from the published list, or skipped by RebuildAll, is still looked at.
type redoSeen struct {
	codes, ids, eqs map[common.Hash]bool
	keys            map[string]bool // asset profile keys
}

var redoSeenOf = map[*ledger]*redoSeen{}

func (l *ledger) redoKeyed(b *types.Block) {
	c := l.c
	seen := redoSeenOf[l]
	if seen == nil {
		seen = &redoSeen{codes: map[common.Hash]bool{}, ids: map[common.Hash]bool{}, eqs: map[common.Hash]bool{}, keys: map[string]bool{"freeze": true, "name": true, "symbol": true, "stop": true}}
		redoSeenOf[l] = seen
	}
	wire := CloneBlock(b)
	suicided := map[common.Address]bool{}
	addrs := map[common.Address]bool{}
	for _, a := range l.univ {
		addrs[a] = true
	}
	for _, tx := range b.Txs {
		addrs[tx.From()] = true
		addrs[tx.GasPayer()] = true
		if tx.To() != nil {
			addrs[*tx.To()] = true
		}
	}
	for _, cl := range wire.ChangeLogs {
		addrs[cl.Address] = true
		switch cl.LogType {
		case account.EquityLog:
			if id, ok := cl.Extra.(common.Hash); ok {
				seen.eqs[id] = true
			}
		case account.AssetCodeLog, account.AssetCodeTotalSupplyLog:
			if code, ok := cl.Extra.(common.Hash); ok {
				seen.codes[code] = true
			}
		case account.AssetCodeStateLog:
			if ex, ok := cl.Extra.(*account.ProfileChangeLogExtra); ok {
				seen.codes[ex.UUID] = true
				seen.keys[ex.Key] = true
			}
		case account.AssetIdLog:
			if id, ok := cl.Extra.(common.Hash); ok {
				seen.ids[id] = true
			}
		case account.SuicideLog:
			suicided[cl.Address] = true
		}
	}
	am := account.NewManager(b.ParentHash(), l.n.DB)
	if res := Safe(func() string {
		if err := am.RebuildAll(wire); err != nil {
			return "err " + err.Error()
		}
		return "ok"
	}); res != "ok" {
		return // reported by redoChecks as c07/redo-failed
	}
	ex := account.NewManager(b.Hash(), l.n.DB)
	js := func(v interface{}, err error) string {
		if err != nil {
			return "err:" + err.Error()
		}
		j, _ := json.Marshal(v)
		return string(j)
	}
	sorted := func(m map[common.Hash]bool) []common.Hash {
		var l []common.Hash
		for h := range m {
			l = append(l, h)
		}
		sort.Slice(l, func(i, j int) bool { return l[i].Hex() < l[j].Hex() })
		return l
	}
	var keys []string
	for k := range seen.keys {
		keys = append(keys, k)
	}
	sort.Strings(keys)
	fails := 0
	diff := func(kind string, a common.Address, what, rv, ev string) {
		if rv != ev && fails < 6 {
			fails++
			c.Fail("c07/redo-mismatch/"+kind, fmt.Sprintf("block %d account %s %s: replaying the published logs gives %s, the executed state has %s", b.Height(), a.String(), what, rv, ev), nil)
		}
	}
	for a := range addrs {
		ra, ea := am.GetAccount(a), ex.GetAccount(a)
		if suicided[a] {
			// the executed account was deleted when the block was saved: only the flag can be judged
			if !ra.GetSuicide() {
				diff("suicide", a, "self-destruct flag", "false", "true (a SuicideLog is published)")
			}
			c.Count("c07:redo-keyed:suicided-account")
			continue
		}
		for _, id := range sorted(seen.eqs) {
			rv, ev := Safe(func() string { return js(ra.GetEquityState(id)) }), Safe(func() string { return js(ea.GetEquityState(id)) })
			diff("equity", a, "equity "+id.Hex()[:10], rv, ev)
			c.Count("c07:redo-keyed:equity-compared")
		}
		for _, code := range sorted(seen.codes) {
			rv, ev := Safe(func() string { return js(ra.GetAssetCode(code)) }), Safe(func() string { return js(ea.GetAssetCode(code)) })
			diff("asset-code", a, "asset code "+code.Hex()[:10], rv, ev)
			rv, ev = Safe(func() string { return js(ra.GetAssetCodeTotalSupply(code)) }), Safe(func() string { return js(ea.GetAssetCodeTotalSupply(code)) })
			diff("asset-supply", a, "total supply of "+code.Hex()[:10], rv, ev)
			for _, k := range keys {
				rv, ev = Safe(func() string { return js(ra.GetAssetCodeState(code, k)) }), Safe(func() string { return js(ea.GetAssetCodeState(code, k)) })
				diff("asset-profile", a, "asset "+code.Hex()[:10]+" profile["+k+"]", rv, ev)
			}
			c.Count("c07:redo-keyed:asset-code-compared")
		}
		for _, id := range sorted(seen.ids) {
			rv, ev := Safe(func() string { return js(ra.GetAssetIdState(id)) }), Safe(func() string { return js(ea.GetAssetIdState(id)) })
			diff("asset-id", a, "asset id "+id.Hex()[:10], rv, ev)
			c.Count("c07:redo-keyed:asset-id-compared")
		}
	}
}

package main

// Term boundaries for the ledger scenario (c01 c05 c06 c11): small TermDuration / InterimDuration so that
// snapshot blocks and REWARD blocks (issueTermReward + refundCandidateDeposit in BlockAssembler.Finalize) occur
// several times per run; deputies change with the terms (miner / confirm keys are looked up per height);
// the facts Finalize reads from outside the account state of the universe (term record, reward value in the
// storage of precompile 0x09, the list LoadRefundCandidates returned) are put on the op lines.

import (
	"crypto/ecdsa"
	"encoding/json"
	"fmt"
	"math/big"
	"os"
	"sort"
	"strings"
	"time"

	"github.com/LemoFoundationLtd/lemochain-core/chain/account"
	"github.com/LemoFoundationLtd/lemochain-core/chain/consensus"
	"github.com/LemoFoundationLtd/lemochain-core/chain/deputynode"
	"github.com/LemoFoundationLtd/lemochain-core/chain/params"
	"github.com/LemoFoundationLtd/lemochain-core/chain/transaction"
	"github.com/LemoFoundationLtd/lemochain-core/chain/types"
	"github.com/LemoFoundationLtd/lemochain-core/common"
	"github.com/LemoFoundationLtd/lemochain-core/common/crypto"
	"github.com/LemoFoundationLtd/lemochain-core/common/log"
)

// nodeIDOf returns profile[nodeID] of `a` in the view of block `h` ("" = none).
func (l *ledger) nodeIDOf(h common.Hash, a common.Address) string {
	if h == l.pvHash && l.pvHash != (common.Hash{}) {
		if id, ok := l.pvNodeID[a]; ok {
			return id
		}
	}
	am := account.NewManager(h, l.n.DB)
	return am.GetAccount(a).GetCandidateState(types.CandidateKeyNodeID)
}

// nodeKeyOf: the node key that signs blocks for miner address `a` — a genesis deputy signs with its own
// account key, a registered user u with the key "node-u" its register tx announced.
func (l *ledger) nodeKeyOf(a common.Address) *ecdsa.PrivateKey {
	if k := l.w.KeyOfMiner(a); k != nil {
		return k
	}
	if nm, ok := l.actorOf[a]; ok {
		return l.key("node-" + nm)
	}
	return nil
}

// nodeKeyByID: the private key behind a node id (a candidate may have registered the node id of ANOTHER account's
// node — class register-dupnode — so the key is looked up by id, not by miner address).
func (l *ledger) nodeKeyByID(id []byte) *ecdsa.PrivateKey {
	if l.byNodeID == nil {
		l.byNodeID = map[string]*ecdsa.PrivateKey{}
		for _, k := range l.w.DeputyKeys {
			l.byNodeID[string(crypto.PrivateKeyToNodeID(k))] = k
		}
		for _, nm := range l.actorOf {
			k := l.key("node-" + nm)
			l.byNodeID[string(crypto.PrivateKeyToNodeID(k))] = k
		}
	}
	return l.byNodeID[string(id)]
}

// inTurn: miner address and node key of the deputy entitled to mine on `parent` at unix second t.
func (l *ledger) inTurn(parent *types.Block, t uint32) (common.Address, *ecdsa.PrivateKey, error) {
	n := l.n
	if n.DM.GetDeputiesCount(parent.Height()+1) == 0 {
		return common.Address{}, nil, fmt.Errorf("no deputies for height %d (term list empty)", parent.Height()+1)
	}
	addr, err := consensus.GetCorrectMiner(parent.Header, int64(t)*1000, int64(n.W.Timeout), n.DM)
	if err != nil {
		return common.Address{}, nil, err
	}
	d := n.DM.GetDeputyByAddress(parent.Height()+1, addr)
	if d == nil {
		return addr, nil, fmt.Errorf("miner %s is not a deputy", addr.String())
	}
	k := l.nodeKeyByID(d.NodeID)
	if k == nil {
		return addr, nil, fmt.Errorf("no node key for miner %s", addr.String())
	}
	// two deputies with the same node id (register-dupnode): the engine resolves a node id to the FIRST of them, the
	// other one can never produce a block in its slot
	if first := n.DM.GetDeputyByNodeID(parent.Height()+1, d.NodeID); first == nil || first.MinerAddress != addr {
		return addr, nil, errSlotUnmineable
	}
	return addr, k, nil
}

var errSlotUnmineable = fmt.Errorf("the deputy in turn shares its node id with a higher-ranked deputy")

// confirmAll: every other deputy of the block's term confirms it on node `n` (the block becomes stable).
func (l *ledger) confirmAll(n *Node, b *types.Block) {
	var sigs []types.SignData
	seen := map[string]bool{}
	if md := n.DM.GetDeputyByAddress(b.Height(), b.MinerAddress()); md != nil {
		seen[string(md.NodeID)] = true
	}
	for _, d := range n.DM.GetDeputiesByHeight(b.Height(), true) {
		if seen[string(d.NodeID)] {
			continue
		}
		seen[string(d.NodeID)] = true
		if k := l.nodeKeyByID(d.NodeID); k != nil {
			sigs = append(sigs, Confirm(b, k))
		}
	}
	if len(sigs) > 0 {
		n.BC.InsertConfirms(b.Height(), b.Hash(), sigs)
	}
}

// depsField: the universe accounts whose registered node id is a deputy at `height` (what IsNodeDeputy answers
// to unRegisterCandidate / LoadRefundCandidates), read in the view of the parent block.
func (l *ledger) depsField(parent common.Hash, height uint32) string {
	var ls []string
	for _, a := range l.univ {
		id := l.nodeIDOf(parent, a)
		if id != "" && l.n.DM.IsNodeDeputy(height, common.FromHex(id)) {
			ls = append(ls, fmt.Sprintf("%d", l.label(a)))
		}
	}
	if len(ls) == 0 {
		return "-"
	}
	return strings.Join(ls, ",")
}

// termReward reads what getTermRewards would read for `term` in the view of block h.
func (l *ledger) termReward(h common.Hash, term uint32) *big.Int {
	am := account.NewManager(h, l.n.DB)
	acc := am.GetAccount(params.TermRewardContract)
	v, err := acc.GetStorageState(params.TermRewardContract.Hash())
	if err != nil || len(v) == 0 {
		return new(big.Int)
	}
	m := make(params.RewardsMap)
	if json.Unmarshal(v, &m) != nil {
		return new(big.Int)
	}
	if r, ok := m[term]; ok && r.Value != nil {
		return new(big.Int).Set(r.Value)
	}
	return new(big.Int)
}

// rewardFacts of a reward block at `height`: total reward of the closing term, its nodes (miner label : votes).
type rewardFacts struct {
	term  uint32
	total *big.Int
	nodes types.DeputyNodes
}

func (l *ledger) rewardFacts(parent common.Hash, height uint32) (*rewardFacts, error) {
	term, err := l.n.DM.GetTermByHeight(height-1, true)
	if err != nil {
		return nil, err
	}
	return &rewardFacts{term: term.TermIndex, total: l.termReward(parent, term.TermIndex), nodes: term.Nodes}, nil
}

func (l *ledger) rewardLine(rf *rewardFacts, refunds []common.Address) string {
	var ns, rs []string
	for _, d := range rf.nodes {
		ns = append(ns, fmt.Sprintf("%d:%s", l.label(d.MinerAddress), d.Votes.String()))
	}
	for _, a := range refunds {
		rs = append(rs, fmt.Sprintf("%d", l.label(a)))
	}
	j := func(x []string) string {
		if len(x) == 0 {
			return "-"
		}
		return strings.Join(x, ",")
	}
	return fmt.Sprintf("reward %s %s %s", rf.total.String(), j(ns), j(rs))
}

// expectedSalaries: the harness's own arithmetic for DivideSalary (independent of the code under test):
// floor(total*votes/totalVotes) (or floor(total/n) when nobody has votes), rounded down to a multiple of 1 LEMO.
func expectedSalaries(rf *rewardFacts) []*big.Int {
	out := make([]*big.Int, len(rf.nodes))
	if rf.total.Sign() <= 0 {
		for i := range out {
			out[i] = new(big.Int)
		}
		return out
	}
	tv := new(big.Int)
	for _, d := range rf.nodes {
		tv.Add(tv, d.Votes)
	}
	for i, d := range rf.nodes {
		r := new(big.Int)
		if tv.Sign() == 0 {
			r.Div(rf.total, big.NewInt(int64(len(rf.nodes))))
		} else {
			r.Mul(rf.total, d.Votes)
			r.Div(r, tv)
		}
		r.Sub(r, new(big.Int).Mod(r, params.MinRewardPrecision))
		out[i] = r
	}
	return out
}

// recLoader is topLoader that remembers what LoadRefundCandidates answered to Finalize.
type recLoader struct {
	topLoader
	refunds []common.Address
	called  bool
}

func (r *recLoader) LoadRefundCandidates(height uint32) ([]common.Address, error) {
	res, err := r.topLoader.LoadRefundCandidates(height)
	r.called = true
	r.refunds = append([]common.Address{}, res...)
	return res, err
}

// buildRec is Node.BuildGas with a given signer key and a recording candidate loader.
func (l *ledger) buildRec(parent *types.Block, t uint32, txs types.Transactions, k *ecdsa.PrivateKey, gasLimit uint64) (*types.Block, types.Transactions, *recLoader, error) {
	n := l.n
	deputynode.SetSelfNodeKey(k)
	am := account.NewManager(parent.Hash(), n.DB)
	proc := transaction.NewTxProcessor(keyAddr(n.W.FounderKey), nodeChainID, parentLoader{n}, am, n.DB, n.DM)
	rec := &recLoader{topLoader: topLoader{n, am}}
	asm := consensus.NewBlockAssembler(am, n.DM, proc, rec)
	header, err := asm.PrepareHeader(parent.Header, "")
	if err != nil {
		return nil, nil, rec, err
	}
	header.Time = t
	if gasLimit != 0 {
		header.GasLimit = gasLimit
	}
	block, invalid, err := asm.MineBlock(header, txs, 60000)
	if err != nil {
		return nil, invalid, rec, err
	}
	return block, invalid, rec, nil
}

// deputiesLoadable: would the snapshot block's deputy list be accepted by deputynode.NewTermRecord (run when the
// block becomes stable and on every restart)? A vote change inside the snapshot block can break it: known
// finding c10/snapshot-deputies-not-loadable — the scenario then re-mines the snapshot block without txs.
func deputiesLoadable(b *types.Block) bool {
	return Safe(func() string {
		deputynode.NewTermRecord(b.Height(), CloneBlock(b).DeputyNodes)
		return "ok"
	}) == "ok"
}

// txSetReward: the reward manager (= founder) sets the reward of `term` through precompile 0x09.
func txSetReward(founder *ecdsa.PrivateKey, term uint32, value *big.Int, o TxOpt) *types.Transaction {
	data, err := params.RewardJson{Term: term, Value: value}.MarshalJSON()
	if err != nil {
		panic(err)
	}
	return txCall(founder, params.TermRewardContract, nil, data, o)
}

func sortedLabels(l *ledger, as []common.Address) []int {
	var out []int
	for _, a := range as {
		out = append(out, l.label(a))
	}
	sort.Ints(out)
	return out
}

// ---- c01refund: does a reward block's validity depend on which confirmations a node has seen? ----------------
//
// refundCandidateDeposit refunds the candidates LoadRefundCandidates lists, and that list is drawn from
// ChainDatabase.GetAllCandidates = the candidate cache of the node's STABLE state (store Context), not from the
// parent block's view. A candidate whose registration block is not yet stable ON THIS NODE is not refunded.
// Scenario (TermDuration 9, InterimDuration 4, first reward block 14; nodes A = miner, B = validator hold the same
// blocks 1..13): X registers in block 11 and unregisters in block 12 (interim period: refund postponed to block 14).
//   variant "both":            both nodes have every confirmation                  -> control, must be accepted
//   variant "validator-behind": B has the blocks but confirmations only up to 10  -> B re-executes A's honest block 14
//   variant "miner-behind":     A has confirmations only up to 10, B all          -> A mines 14 without the refund
// NOT registered in props/*.json (a new finding makes ./check print VIOLATION until it is listed).
func init() { subs["c01refund"] = c01refund }

func c01refund(c *Ctx) {
	if os.Getenv("HX_LOG") != "" {
		log.Setup(log.LevelError, false, true)
		defer log.Setup(log.LevelCrit, false, false)
	}
	for _, variant := range []string{"both", "validator-behind", "miner-behind"} {
		c01refundRound(c, variant)
	}
}

func c01refundRound(c *Ctx, variant string) {
	oldMin, oldT, oldI := params.MinCandidateDeposit, params.TermDuration, params.InterimDuration
	params.MinCandidateDeposit, params.TermDuration, params.InterimDuration = lemo(1000), 9, 4
	defer func() { params.MinCandidateDeposit, params.TermDuration, params.InterimDuration = oldMin, oldT, oldI }()
	w := NewWorld(3, 1700000000, 10000)
	a, b := w.NewNode(3), w.NewNode(3)
	defer a.Close()
	defer b.Close()
	x := detKey("c01refund-x")
	t := w.GenesisT + 10
	parent := a.BC.CurrentBlock()
	confirm := func(n *Node, blk *types.Block) {
		var sigs []types.SignData
		for _, k := range w.DeputyKeys {
			if keyAddr(k) != blk.MinerAddress() {
				sigs = append(sigs, Confirm(blk, k))
			}
		}
		n.BC.InsertConfirms(blk.Height(), blk.Hash(), sigs)
	}
	for h := uint32(1); h <= 13; h++ {
		t += 7
		var txs types.Transactions
		opt := TxOpt{Exp: uint64(t) + 600, Msg: fmt.Sprintf("r%d", h)}
		switch h {
		case 1:
			txs = append(txs, txTransfer(w.FounderKey, keyAddr(x), lemo(3000), opt))
		case 11:
			txs = append(txs, txRegister(x, lemo(1000), detKey("c01refund-x-node"), false, nil, opt))
		case 12:
			txs = append(txs, txRegister(x, nil, detKey("c01refund-x-node"), true, nil, opt))
		}
		blk, _, err := a.Build(parent, t, txs, nil)
		if err != nil || len(blk.Txs) != len(txs) {
			panic(fmt.Sprintf("c01refund: setup block %d: err=%v", h, err))
		}
		if err := a.Insert(CloneBlock(blk)); err != nil {
			panic(fmt.Sprintf("c01refund: node A rejects its own block %d: %v", h, err))
		}
		if err := b.Insert(CloneBlock(blk)); err != nil {
			panic(fmt.Sprintf("c01refund: node B rejects setup block %d: %v", h, err))
		}
		if h <= 10 || variant != "miner-behind" {
			confirm(a, blk)
		}
		if h <= 10 || variant != "validator-behind" {
			confirm(b, blk)
		}
		parent = blk
	}
	if a.BC.CurrentBlock().Hash() != b.BC.CurrentBlock().Hash() {
		panic("c01refund: nodes do not hold the same head")
	}
	sa, sb := a.BC.StableBlock().Height(), b.BC.StableBlock().Height()
	t += 7
	blk, _, err := a.Build(parent, t, nil, nil)
	if err != nil {
		panic(fmt.Sprintf("c01refund: build of the reward block failed: %v", err))
	}
	refunded := false
	for _, cl := range blk.ChangeLogs {
		if cl.Address == keyAddr(x) && cl.LogType == account.BalanceLog {
			refunded = true
		}
	}
	c.Count(fmt.Sprintf("refund:%s:miner-refunds=%v", variant, refunded))
	errA := a.Insert(CloneBlock(blk))
	errB := b.Insert(CloneBlock(blk))
	c.Op(fmt.Sprintf("c01refund %s stableA=%d stableB=%d", variant, sa, sb), fmt.Sprintf("minerRefundsX=%v A=%v B=%v", refunded, errA, errB))
	if errA != nil || errB != nil {
		c.Count("refund:" + variant + ":honest-reward-block-rejected")
		c.Fail("c01/honest-block-rejected/refund-list-from-locally-stable-candidates",
			fmt.Sprintf("variant %s: nodes A and B hold the same blocks 1..13 (head %s); X registered in block 11 and unregistered in block 12 (interim period, refund postponed to reward block 14); stable height A=%d B=%d; A mines reward block 14 (X refunded in it: %v); own node: %v, other node: %v",
				variant, parent.Hash().Prefix(), sa, sb, refunded, errA, errB),
			map[string]interface{}{"variant": variant, "stableA": sa, "stableB": sb, "minerRefunds": refunded})
	} else {
		c.Count("refund:" + variant + ":accepted")
	}
}

// txRegisterPaid: a RegisterTx (no receiver) whose gas is paid by `payer` (reimbursement tx).
func txRegisterPaid(from *ecdsa.PrivateKey, deposit *big.Int, nodeKey *ecdsa.PrivateKey, unregister bool, payer *ecdsa.PrivateKey, o TxOpt) *types.Transaction {
	o = o.norm(2000000)
	p := types.Profile{
		types.CandidateKeyNodeID: common.ToHex(crypto.PrivateKeyToNodeID(nodeKey))[2:],
		types.CandidateKeyHost:   "127.0.0.1",
		types.CandidateKeyPort:   "7100",
	}
	if unregister {
		p[types.CandidateKeyIsCandidate] = types.NotCandidateNode
	}
	data, _ := json.Marshal(p)
	if deposit == nil {
		deposit = new(big.Int)
	}
	tx := types.NewReimbursementContractCreation(keyAddr(from), keyAddr(payer), deposit, data, params.RegisterTx, nodeChainID, o.Exp, "", o.Msg)
	stx, err := types.MakeReimbursementTxSigner().SignTx(tx, from)
	if err != nil {
		panic(err)
	}
	stx = types.GasPayerSignatureTx(stx, o.GasPrice, o.GasLimit)
	ptx, err := types.MakeGasPayerSigner().SignTx(stx, payer)
	if err != nil {
		panic(err)
	}
	return ptx
}

// competingBlock: a sibling of `b` (same parent, a later slot, its own transactions) is mined on node A's data and given
// to node B BEFORE `b`: B executes a branch that is discarded afterwards (b gets the confirmations).
func (l *ledger) competingBlock(nb *Node, parent, b *types.Block, t uint32, exp uint64) {
	c := l.c
	slot := uint32(l.w.Timeout / 1000)
	for j := uint32(1); j <= 4; j++ {
		t2 := t + j*slot
		addr, k, err := l.inTurn(parent, t2)
		if err != nil || addr == b.MinerAddress() {
			continue
		}
		txs := types.Transactions{
			txTransfer(l.w.FounderKey, keyAddr(l.key("u1")), lemo(int64(200+c.Rnd.Intn(500))), TxOpt{Exp: exp, Msg: fmt.Sprintf("side-%d-a", b.Height())}),
			txTransfer(l.w.FounderKey, keyAddr(l.key("u2")), lemo(int64(1+c.Rnd.Intn(300))), TxOpt{Exp: exp, Msg: fmt.Sprintf("side-%d-b", b.Height())}),
		}
		side, _, _, err := l.buildRec(parent, t2, txs, k, 105000000)
		if err != nil {
			c.Count("nodeB:competing-block:build-failed")
			return
		}
		if e := nb.Insert(CloneBlock(side)); e != nil {
			c.Fail("c01/honest-block-rejected/competing-branch", fmt.Sprintf("a second honest block %d on the same parent (miner %s, later slot) is rejected by node B: %v", side.Height(), addr.String(), e), nil)
			return
		}
		c.Count("nodeB:executed-competing-block-first")
		return
	}
	c.Count("nodeB:competing-block:no-other-deputy-in-turn")
}

// waitAssetIndex: the asset code -> issuer index (and the canonical asset states VerifyAssetTx reads) are written by the
// store's background goroutine after a block became stable on THIS node. Before a node is given a block with asset txs,
// wait (bounded) until its index knows the assets the block refers to — otherwise the known finding
// c01/honest-block-rejected/asset-tx-needs-locally-stable-asset shows up as scheduling noise.
func waitAssetIndex(n *Node, b *types.Block) bool {
	has := false
	for _, tx := range b.Txs {
		var code common.Hash
		switch tx.Type() {
		case params.IssueAssetTx, params.ReplenishAssetTx, params.ModifyAssetTx:
			var d struct {
				AssetCode common.Hash `json:"assetCode"`
			}
			json.Unmarshal(tx.Data(), &d)
			code = d.AssetCode
		case params.TransferAssetTx:
			var d struct {
				AssetId common.Hash `json:"assetId"`
			}
			json.Unmarshal(tx.Data(), &d)
			code = d.AssetId // token assets: id == code
		default:
			continue
		}
		has = true
		for i := 0; i < 300; i++ {
			if is, err := n.DB.GetAssetCode(code); err == nil && is != (common.Address{}) {
				break
			}
			time.Sleep(10 * time.Millisecond)
		}
		// VerifyAssetTx reads the SENDER's canonical account (the store's stable data, written behind the stable block by the store's own
		// goroutine): under load it can lag behind the index. Waiting changes nothing for a node that will never know the asset
		// (the listed finding); it only keeps a slow background writer from looking like a rejected honest block.
		from := tx.From()
		for i := 0; i < 300; i++ {
			acc := account.NewManager(b.ParentHash(), n.DB).GetCanonicalAccount(from)
			var err error
			if tx.Type() == params.TransferAssetTx {
				_, err = acc.GetAssetIdState(code)
			} else {
				_, err = acc.GetAssetCode(code)
			}
			if err == nil {
				break
			}
			time.Sleep(10 * time.Millisecond)
		}
	}
	return has
}

// ---- signer lists: ground truth, saved-state immutability, abandoned executions (C06) ---------------------------

// signersIn returns the signer lists a ModifySigners tx of the block stores, in execution order (box sub-txs included).
func signersIn(b *types.Block, f func(target common.Address, ss types.Signers, tx *types.Transaction)) {
	var walk func(tx *types.Transaction)
	walk = func(tx *types.Transaction) {
		if tx.Type() == params.ModifySignersTx && tx.To() != nil {
			var ms struct {
				Signers types.Signers `json:"signers"`
			}
			if json.Unmarshal(tx.Data(), &ms) == nil {
				f(*tx.To(), ms.Signers, tx)
			}
		}
		if tx.Type() == params.BoxTx {
			if box, err := types.GetBox(tx.Data()); err == nil {
				for _, st := range box.SubTxList {
					walk(st)
				}
			}
		}
	}
	for _, tx := range b.Txs {
		walk(tx)
	}
}

// commitSigners: the block was inserted on the main chain — its signer changes become the registered lists.
func (l *ledger) commitSigners(b *types.Block) {
	if l.truth == nil {
		l.truth = map[common.Address]types.Signers{}
	}
	signersIn(b, func(target common.Address, ss types.Signers, _ *types.Transaction) {
		l.truth[target] = append(types.Signers{}, ss...)
	})
}

// savedSigners reads, through a FRESH manager, the signer list every watched account has in the state of block h.
func (l *ledger) savedSigners(h common.Hash) map[common.Address]string {
	am := account.NewManager(h, l.n.DB)
	out := map[common.Address]string{}
	watch := append([]common.Address{}, l.univ...)
	for a := range l.truth {
		watch = append(watch, a)
	}
	for _, a := range watch {
		var ss []string
		for _, s := range am.GetAccount(a).GetSigners() {
			ss = append(ss, fmt.Sprintf("%d:%d", l.label(s.Address), s.Weight))
		}
		out[a] = strings.Join(ss, ",")
	}
	return out
}

// buildJudged is buildRec plus the immutability oracle of saved state: whatever a miner executes on top of a saved block
// — whether its block is stored afterwards or thrown away — the signer lists of that saved block, read through a fresh
// manager, must be what they were (the strict copy check of C07, for the one field the authorisation rests on).
func (l *ledger) buildJudged(parent *types.Block, t uint32, txs types.Transactions, k *ecdsa.PrivateKey, gasLimit uint64) (*types.Block, types.Transactions, *recLoader, error) {
	before := l.savedSigners(parent.Hash())
	b, invalid, rec, err := l.buildRec(parent, t, txs, k, gasLimit)
	after := l.savedSigners(parent.Hash())
	for a, was := range before {
		if after[a] != was {
			l.c.Fail("c06/signers-of-saved-block-changed", fmt.Sprintf("building a block on top of saved block %d (not stored yet) changed the signer list of account %d IN THE SAVED BLOCK's state: [%s] -> [%s] (read through a fresh manager before / after the build)", parent.Height(), l.label(a), was, after[a]), nil)
		}
	}
	l.c.Count("c06:saved-signers-compared-around-build")
	return b, invalid, rec, err
}

// signedTransfer: a transfer of 1 LEMO from multisig account `from`, signed by the given keys in order.
func (l *ledger) signedTransfer(from, to common.Address, keys []string, exp uint64, msg string) *types.Transaction {
	tx := types.NewTransaction(from, to, lemo(1), 100000, oneGwei, nil, params.OrdinaryTx, nodeChainID, exp, "", msg)
	stx := tx
	for _, nm := range keys {
		stx, _ = types.MakeSigner().SignTx(stx, l.key(nm))
	}
	return stx
}

// userNamesOf: the names of the keys behind a signer list (signers that are not scenario keys are skipped).
func (l *ledger) userNamesOf(ss types.Signers) []string {
	var out []string
	for _, s := range ss {
		if nm, ok := l.actorOf[s.Address]; ok {
			out = append(out, nm)
		}
	}
	return out
}

// afterAbandoned: if block b changes the signer list of an account that HAS registered signers, return the candidates of
// the block that is mined instead of it (b is thrown away); nil otherwise.
func (l *ledger) afterAbandoned(b *types.Block, exp uint64, mk func(tx *types.Transaction, class string, fromKeys ...string) *ledgerTx) []*ledgerTx {
	var out []*ledgerTx
	done := map[common.Address]bool{}
	signersIn(b, func(target common.Address, ss types.Signers, tx *types.Transaction) {
		old := l.truth[target]
		if len(old) == 0 || done[target] {
			return
		}
		done[target] = true
		oldKeys, newKeys := l.userNamesOf(old), l.userNamesOf(ss)
		if len(oldKeys) != len(old) || len(newKeys) == 0 {
			return
		}
		to := keyAddr(l.key("u0"))
		out = append(out,
			mk(l.signedTransfer(target, to, oldKeys, exp, fmt.Sprintf("ab-old-%d", b.Height())), "spend-by-registered-signers", oldKeys...),
			mk(l.signedTransfer(target, to, newKeys, exp, fmt.Sprintf("ab-new-%d", b.Height())), "spend-by-abandoned-signers", newKeys...))
	})
	return out
}

// siblingBranch: see the call site. Works on node A only; the sibling is dropped when b gets its confirmations.
func (l *ledger) siblingBranch(parent, b *types.Block, t uint32, exp uint64) {
	c := l.c
	var target common.Address
	var l1 types.Signers
	signersIn(b, func(tg common.Address, ss types.Signers, _ *types.Transaction) {
		if old := l.truth[tg]; len(old) > 0 && len(l.userNamesOf(old)) == len(old) && target == (common.Address{}) {
			target, l1 = tg, ss
		}
	})
	if target == (common.Address{}) {
		return
	}
	old := l.truth[target]
	oldKeys := l.userNamesOf(old)
	// another list of the same length, other signers
	used := map[common.Address]bool{}
	for _, s := range l1 {
		used[s.Address] = true
	}
	var l2 types.Signers
	for _, nm := range []string{"u7", "u6", "u5", "u4", "u3", "u2", "u1", "u0"} {
		a := keyAddr(l.key(nm))
		if used[a] || len(l2) >= len(l1) {
			continue
		}
		w := uint8(10)
		switch {
		case len(l1) == 1:
			w = 100
		case len(l2) == 0:
			w = 60
		case len(l2) == 1:
			w = 50
		}
		l2 = append(l2, types.SignAccount{Address: a, Weight: w})
	}
	if len(l2) != len(l1) {
		return
	}
	data, _ := json.Marshal(struct {
		Signers types.Signers `json:"signers"`
	}{l2})
	chg := types.NewTransaction(target, target, new(big.Int), 2000000, oneGwei, data, params.ModifySignersTx, nodeChainID, exp, "", fmt.Sprintf("sib-%d", b.Height()))
	for _, nm := range oldKeys {
		chg, _ = types.MakeSigner().SignTx(chg, l.key(nm))
	}
	slot := uint32(l.w.Timeout / 1000)
	for j := uint32(1); j <= 4; j++ {
		t2 := t + j*slot
		addr, k, err := l.inTurn(parent, t2)
		if err != nil || addr == b.MinerAddress() {
			continue
		}
		if os.Getenv("HX_DEBUG") == "sib" {
			log.Setup(log.LevelInfo, false, true)
		}
		sib, _, _, err := l.buildJudged(parent, t2, types.Transactions{chg}, k, 105000000)
		if os.Getenv("HX_DEBUG") == "sib" {
			log.Setup(log.LevelCrit, false, false)
		}
		if err != nil {
			return
		}
		if len(sib.Txs) != 1 {
			c.Fail("c06/authorised-refused/sibling-branch", fmt.Sprintf("a second block on the parent of block %d: the ModifySigners tx of account %d signed by ALL registered signers is refused (after block %d, which changes the same list differently, was built on that parent)", b.Height(), l.label(target), b.Height()), nil)
			return
		}
		if e := l.n.Insert(CloneBlock(sib)); e != nil {
			c.Count("sibling:insert-refused")
			return
		}
		c.Count("sibling:two-blocks-change-the-same-signer-list-differently")
		// a child on the sibling: only the sibling's list counts there
		t3 := t2 + 1
		_, k3, err := l.inTurn(sib, t3)
		if err != nil {
			return
		}
		to := keyAddr(l.key("u0"))
		byL2 := l.signedTransfer(target, to, l.userNamesOf(l2), exp, fmt.Sprintf("sib-l2-%d", b.Height()))
		byL1 := l.signedTransfer(target, to, l.userNamesOf(l1), exp, fmt.Sprintf("sib-l1-%d", b.Height()))
		byOld := l.signedTransfer(target, to, oldKeys, exp, fmt.Sprintf("sib-old-%d", b.Height()))
		child, _, _, err := l.buildJudged(sib, t3, types.Transactions{byL2, byL1, byOld}, k3, 105000000)
		if err != nil {
			return
		}
		in := map[common.Hash]bool{}
		for _, tx := range child.Txs {
			in[tx.Hash()] = true
		}
		weight := func(keys []string) int {
			seen, tot := map[common.Address]bool{}, 0
			for _, nm := range keys {
				a := keyAddr(l.key(nm))
				if seen[a] {
					continue
				}
				seen[a] = true
				for _, r := range l2 {
					if r.Address == a {
						tot += int(r.Weight)
					}
				}
			}
			return tot
		}
		for _, x := range []struct {
			tx   *types.Transaction
			keys []string
			who  string
		}{{byL2, l.userNamesOf(l2), "the sibling's own list"}, {byL1, l.userNamesOf(l1), "the list of the OTHER branch"}, {byOld, oldKeys, "the parent's (replaced) list"}} {
			auth := weight(x.keys) >= 100
			switch {
			case auth && !in[x.tx.Hash()]:
				c.Fail("c06/authorised-refused/sibling-branch", fmt.Sprintf("child of the sibling of block %d: a spend of account %d signed by %s (weight %d on that branch) is refused", b.Height(), l.label(target), x.who, weight(x.keys)), nil)
			case !auth && in[x.tx.Hash()]:
				c.Fail("c06/unauthorised-included/sibling-branch", fmt.Sprintf("child of the sibling of block %d: a spend of account %d signed by %s (weight %d < 100 on that branch) is executed", b.Height(), l.label(target), x.who, weight(x.keys)), nil)
			default:
				c.Count("sibling:child-judged")
			}
		}
		return
	}
}

// assetIndexKnows: does node n's stable asset index know every asset code / id the block's asset txs refer to?
func assetIndexKnows(n *Node, b *types.Block) bool {
	for _, tx := range b.Txs {
		var code common.Hash
		switch tx.Type() {
		case params.IssueAssetTx, params.ReplenishAssetTx, params.ModifyAssetTx:
			var d struct {
				AssetCode common.Hash `json:"assetCode"`
			}
			json.Unmarshal(tx.Data(), &d)
			code = d.AssetCode
		case params.TransferAssetTx:
			var d struct {
				AssetId common.Hash `json:"assetId"`
			}
			json.Unmarshal(tx.Data(), &d)
			code = d.AssetId
		default:
			continue
		}
		if is, err := n.DB.GetAssetCode(code); err != nil || is == (common.Address{}) {
			return false
		}
	}
	return true
}

// signerFact: the recovered signer addresses (`fs` / `ps` of the op line) are produced by the code under test; the generator
// KNOWS which keys signed which tx. For a tx that was not edited after signing the recovered set must be exactly the
// addresses of those keys; for a tx edited after signing (tampered by construction) at least one of its signature sets must
// NOT recover to the keys that signed — otherwise a signing hash does not cover what was edited.
func (l *ledger) signerFact(lt *ledgerTx) {
	c := l.c
	set := func(keys []string) string {
		m := map[string]bool{}
		for _, kn := range keys {
			m[fmt.Sprintf("%d", l.label(keyAddr(l.key(kn))))] = true
		}
		var out []string
		for k := range m {
			out = append(out, k)
		}
		sort.Strings(out)
		return strings.Join(out, ",")
	}
	recSet := func(which string) (string, bool) {
		r := l.signersOf(lt.tx, which)
		if r == "!" {
			return "", false
		}
		if r == "-" {
			return "", true
		}
		m := map[string]bool{}
		for _, x := range strings.Split(r, ",") {
			m[x] = true
		}
		var out []string
		for k := range m {
			out = append(out, k)
		}
		sort.Strings(out)
		return strings.Join(out, ","), true
	}
	fromGot, fromOK := recSet("from")
	payerGot, payerOK := recSet("payer")
	fromWant, payerWant := set(lt.fromKeys), set(lt.payerKeys)
	if len(lt.fromKeys) == 0 || lt.class == "payer-unsigned" {
		// classes that do not record who signed; payer-unsigned: signed under the reimbursement hash but carrying no payer
		// signature, so the plain signing hash applies — the signature is not expected to recover its key
		return
	}
	if !lt.tampered {
		if !fromOK {
			c.Count("fed-fact:signers:recovery-error:" + lt.class)
			return
		}
		c.Count("fed-fact:signers:compared")
		if fromGot != fromWant {
			c.Fail("c06/fed-fact/signers", fmt.Sprintf("tx of class %s was signed by the keys of accounts {%s}; GetSigners recovers {%s}", lt.class, fromWant, fromGot), nil)
		}
		if len(lt.payerKeys) > 0 && payerOK && payerGot != payerWant {
			c.Fail("c06/fed-fact/signers", fmt.Sprintf("tx of class %s: gas payer part signed by {%s}; GetSigners recovers {%s}", lt.class, payerWant, payerGot), nil)
		}
		return
	}
	// edited after signing
	fromSurvives := fromOK && fromGot == fromWant
	payerSurvives := len(lt.payerKeys) == 0 || (payerOK && payerGot == payerWant)
	c.Count("fed-fact:signers:tampered-compared")
	if fromSurvives && payerSurvives {
		cls := lt.class
		if i := strings.Index(cls, "@"); i > 0 && strings.HasPrefix(cls, "tamper-box-multi:") {
			cls = cls[:i] + "@" + map[bool]string{true: "first", false: "later"}[strings.Contains(cls, "@0/")]
		}
		c.Fail("c06/fed-fact/signers-survive-tamper/"+cls, fmt.Sprintf("tx of class %s was edited after signing, yet every signature still recovers to the keys that signed ({%s}%s): the signing hash does not cover the edit", lt.class, fromWant, map[bool]string{true: " / payer {" + payerWant + "}", false: ""}[len(lt.payerKeys) > 0]), nil)
	}
}

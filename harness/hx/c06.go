package main

// C06 extras run at the end of the `c06` ledger scenario (hooked through ledgerExtras in c05.go) and alone as `hx c06x`:
//   gateFacts       c06_gate.go    regenerated fact: the signature check dominates every state-changing call
//   tempAddrCases   c06_temp.go    verifyTempAddress / CreateTempAddress / BytesToAddress vs LemoModel.TempAddr
//   gateEngineCases c06_engine.go  unauthorised txs of ALL eleven types on the real engine (oracle c06/unauthorised-included/<type>)

import (
	"fmt"

	"github.com/LemoFoundationLtd/lemochain-core/chain/params"
)

// the eleven tx types: name as written in the `switch tx.Type()` of handleTx, the number the code gives it
var c06TxTypes = []struct {
	name string
	num  uint16
}{{"OrdinaryTx", params.OrdinaryTx}, {"CreateContractTx", params.CreateContractTx}, {"VoteTx", params.VoteTx}, {"RegisterTx", params.RegisterTx},
	{"CreateAssetTx", params.CreateAssetTx}, {"IssueAssetTx", params.IssueAssetTx}, {"ReplenishAssetTx", params.ReplenishAssetTx},
	{"ModifyAssetTx", params.ModifyAssetTx}, {"TransferAssetTx", params.TransferAssetTx}, {"ModifySignersTx", params.ModifySignersTx}, {"BoxTx", params.BoxTx}}

func c06Extras(c *Ctx) {
	gateFacts(c)
	for _, t := range c06TxTypes {
		c.Op(fmt.Sprintf("c06 gate type %s %d", t.name, t.num), "ok")
	}
	c.Op(fmt.Sprintf("c06 gate types %d", len(c06TxTypes)), "ok")
	tempAddrCases(c)
	gateEngineCases(c)
}

func init() {
	subs["c06x"] = c06Extras
	ledgerExtras["c06"] = c06Extras
}

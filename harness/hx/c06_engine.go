package main

// C06: unauthorised transactions of ALL eleven tx types on the real engine.
//
// A small world of its own (3 deputies): alice (plain account), msacct (multisig {s1:50, s2:50, s3:30}), mallory (the
// attacker, funded), pat (a funded account that never signs for mallory).  alice / msacct / mallory each own a STABLE asset
// (code + issued id) — VerifyAssetTx runs before the signature check and would otherwise refuse the asset kinds first —
// a contract is deployed, deputy-0 is a candidate.  For every tx type and every unauthorised variant
//     wrongkey (from = alice, signed by mallory)      nosig (from = alice, no signature)
//     ms-below (from = msacct, s3 alone = 30)         ms-dup (from = msacct, s1's signature three times, one malleated)
//     payer-forged (from = mallory, gas payer = pat, payer part signed by MALLORY)   payer-nosig (payer part unsigned)
// (the box also with an honest box around an unauthorised sub-tx) an otherwise VALID tx is given
//   * to the MINER path (Build on the same parent: nothing is stored) — it must be in the invalid list, not in the block:
//         c06/unauthorised-included/<type>
//   * to the VALIDATOR path (TxProcessor.Process on a fresh manager, alone in a block) — it must be refused by applyTx
//     (ErrInvalidTxInBlock; a gasUsed mismatch means it was EXECUTED):  c06/unauthorised-executed-by-validator/<type>
// Positive controls (the same bodies properly signed: alice / s1+s2 / mallory with pat's payer signature) must be
// included: c06/authorised-refused/<type> — so a refusal above is a refusal by the signature check and nothing else.

import (
	"crypto/ecdsa"
	"encoding/json"
	"fmt"
	"math/big"
	"os"
	"time"

	"github.com/LemoFoundationLtd/lemochain-core/chain/account"
	"github.com/LemoFoundationLtd/lemochain-core/chain/params"
	"github.com/LemoFoundationLtd/lemochain-core/chain/transaction"
	"github.com/LemoFoundationLtd/lemochain-core/chain/types"
	"github.com/LemoFoundationLtd/lemochain-core/common"
	"github.com/LemoFoundationLtd/lemochain-core/common/crypto"
	"github.com/LemoFoundationLtd/lemochain-core/common/log"
)

type c06Body struct {
	name   string
	typ    uint16
	to     *common.Address
	amount *big.Int
	data   []byte
	gas    uint64
}

type c06Ident struct {
	name     string
	key      *ecdsa.PrivateKey
	addr     common.Address
	code, id common.Hash // its stable asset
}

func c06Raw(b c06Body, from common.Address, payer *common.Address, exp uint64, msg string) *types.Transaction {
	amount := b.amount
	if amount == nil {
		amount = new(big.Int)
	}
	if payer != nil {
		to := common.Address{}
		if b.to != nil {
			to = *b.to
		}
		return types.NewReimbursementTransaction(from, to, *payer, amount, b.data, b.typ, nodeChainID, exp, "", msg)
	}
	if b.to == nil {
		return types.NoReceiverTransaction(from, amount, b.gas, oneGwei, b.data, b.typ, nodeChainID, exp, "", msg)
	}
	return types.NewTransaction(from, *b.to, amount, b.gas, oneGwei, b.data, b.typ, nodeChainID, exp, "", msg)
}

// c06Sign: sender part by `keys`; with a gas payer the gas terms are filled in and the payer part is signed by `payerKeys`.
func c06Sign(tx *types.Transaction, keys []*ecdsa.PrivateKey, reimb bool, gas uint64, payerKeys []*ecdsa.PrivateKey) *types.Transaction {
	var s types.Signer = types.MakeSigner()
	if reimb {
		s = types.MakeReimbursementTxSigner()
	}
	for _, k := range keys {
		stx, err := s.SignTx(tx, k)
		if err != nil {
			panic(err)
		}
		tx = stx
	}
	if reimb {
		tx = types.GasPayerSignatureTx(tx, oneGwei, gas)
		for _, k := range payerKeys {
			stx, err := types.MakeGasPayerSigner().SignTx(tx, k)
			if err != nil {
				panic(err)
			}
			tx = stx
		}
	}
	return tx
}

func gateEngineCases(c *Ctx) {
	oldMin := params.MinCandidateDeposit
	params.MinCandidateDeposit = lemo(1000)
	defer func() { params.MinCandidateDeposit = oldMin }()
	now := uint32(time.Now().Unix())
	w := NewWorld(3, now-600000, 10000)
	n := w.NewNode(3)
	defer n.Close()
	id := func(name string) *c06Ident {
		k := detKey("c06g-" + name)
		return &c06Ident{name: name, key: k, addr: keyAddr(k)}
	}
	alice, msacct, mallory, pat := id("alice"), id("msacct"), id("mallory"), id("pat")
	s1, s2, s3 := id("s1"), id("s2"), id("s3")
	parent := n.BC.CurrentBlock()
	t := parent.Time() + 1
	uniq := 0
	u_ := func(p string) string { uniq++; return fmt.Sprintf("c06g-%s%d", p, uniq) }
	exp := func() uint64 { return uint64(t) + 600 }
	// setup block: every tx must be included; the block is inserted and confirmed by the other deputies (stable)
	setup := func(what string, txs types.Transactions) bool {
		blk, invalid, err := n.Build(parent, t, txs, nil)
		if err != nil || len(invalid) != 0 || len(blk.Txs) != len(txs) {
			c.Count("c06:gate-engine:setup-failed:" + what)
			c.Fail("c06/gate-engine/setup-failed", fmt.Sprintf("setup block `%s`: err=%v invalid=%d", what, err, len(invalid)), nil)
			return false
		}
		if e := n.Insert(CloneBlock(blk)); e != nil {
			c.Fail("c06/gate-engine/setup-failed", fmt.Sprintf("setup block `%s` rejected: %v", what, e), nil)
			return false
		}
		var sigs []types.SignData
		for _, k := range w.DeputyKeys {
			if keyAddr(k) != blk.MinerAddress() {
				sigs = append(sigs, Confirm(blk, k))
			}
		}
		n.BC.InsertConfirms(blk.Height(), blk.Hash(), sigs)
		parent = blk
		t += 1
		return true
	}
	runtime := []byte{0x60, 0x01, 0x60, 0x00, 0x55, 0x00} // SSTORE(0, 1); STOP
	deploy := txCreate(w.FounderKey, nil, initCodeFor(runtime), TxOpt{Exp: exp(), Msg: u_("dep")})
	ctr := crypto.CreateContractAddress(keyAddr(w.FounderKey), deploy.Hash())
	fund := types.Transactions{deploy}
	for _, x := range []*c06Ident{alice, msacct, mallory, pat} {
		fund = append(fund, txTransfer(w.FounderKey, x.addr, lemo(200000), TxOpt{Exp: exp(), Msg: u_("fund")}))
	}
	if !setup("fund+deploy", fund) {
		return
	}
	owners := []*c06Ident{alice, msacct, mallory}
	var creates types.Transactions
	for _, x := range owners {
		tx := txCreateAsset(x.key, 1, true, true, TxOpt{Exp: exp(), Msg: u_("ca")})
		x.code = tx.Hash()
		creates = append(creates, tx)
	}
	if !setup("create-assets", creates) {
		return
	}
	var issues types.Transactions
	for _, x := range owners {
		tx := txIssueAsset(x.key, x.addr, x.code, "100000", "m", TxOpt{Exp: exp(), Msg: u_("ia")})
		x.id = x.code // category 1 (token): the asset id IS the asset code (asset_tx.go IssueAssetTx)
		issues = append(issues, tx)
	}
	if !setup("issue-assets", issues) {
		return
	}
	regs := types.Signers{{Address: s1.addr, Weight: 50}, {Address: s2.addr, Weight: 50}, {Address: s3.addr, Weight: 30}}
	if !setup("msacct-signers", types.Transactions{txModifySigners(msacct.key, msacct.addr, regs, TxOpt{Exp: exp(), Msg: u_("ms")})}) {
		return
	}
	if n.BC.StableBlock().Hash() != parent.Hash() {
		c.Count("c06:gate-engine:setup-not-stable")
	}
	// VerifyAssetTx reads the asset from the CANONICAL account (the store's stable data, written behind the stable block by
	// the store's own goroutine): wait until every owner's asset is there, or the asset kinds would be refused BEFORE the gate
	for _, x := range owners {
		ok := false
		for i := 0; i < 400 && !ok; i++ {
			acc := account.NewManager(parent.Hash(), n.DB).GetCanonicalAccount(x.addr)
			_, e1 := acc.GetAssetIdState(x.id)
			_, e2 := acc.GetAssetCode(x.code)
			// TransferAssetTx also asks the database-wide code -> issuer index, which the store's background writer fills some time after
			// the block is stable (under load: later than the canonical account): without it the honest positive control is refused
			// (a missing index entry reads as the zero address with a nil error)
			is, e3 := n.DB.GetAssetCode(x.code)
			if ok = e1 == nil && e2 == nil && e3 == nil && is != (common.Address{}); !ok {
				time.Sleep(25 * time.Millisecond)
			}
		}
		if !ok {
			c.Fail("c06/gate-engine/setup-failed", fmt.Sprintf("the asset of %s never reached the canonical account", x.name), nil)
			return
		}
	}
	candAddr := keyAddr(w.DeputyKeys[0])
	bob := keyAddr(detKey("c06g-bob"))
	bodies := func(x *c06Ident) []c06Body {
		prof := types.Profile{types.CandidateKeyNodeID: common.ToHex(crypto.PrivateKeyToNodeID(detKey("c06g-node-" + x.name)))[2:], types.CandidateKeyHost: "127.0.0.1", types.CandidateKeyPort: "7100"}
		pj, _ := json.Marshal(prof)
		asset := &types.Asset{Category: 1, IsDivisible: true, Decimal: 2, IsReplenishable: true,
			Profile: types.Profile{types.AssetName: "A", types.AssetSymbol: "A", types.AssetDescription: "d", types.AssetFreeze: "false", types.AssetSuggestedGasLimit: "60000"}}
		aj, _ := json.Marshal(asset)
		own, _ := json.Marshal(struct {
			Signers types.Signers `json:"signers"`
		}{types.Signers{{Address: x.addr, Weight: 100}}})
		if x == msacct {
			own, _ = json.Marshal(struct {
				Signers types.Signers `json:"signers"`
			}{types.Signers{{Address: s1.addr, Weight: 60}, {Address: s2.addr, Weight: 60}, {Address: s3.addr, Weight: 30}}})
		}
		// the sub-tx of the box: a properly signed transfer of MALLORY's (so that only the box's own authorisation is in question)
		sub := txTransfer(mallory.key, bob, lemo(1), TxOpt{Exp: exp(), Msg: u_("sub"), GasLimit: 100000})
		bd, _ := types.MarshalBoxData(types.Transactions{sub})
		return []c06Body{
			{"OrdinaryTx", params.OrdinaryTx, &ctr, lemo(3), []byte{1, 2, 3, 4}, 200000},
			{"CreateContractTx", params.CreateContractTx, nil, nil, initCodeFor(runtime), 1000000},
			{"VoteTx", params.VoteTx, &candAddr, nil, nil, 200000},
			{"RegisterTx", params.RegisterTx, nil, lemo(1000), pj, 400000},
			{"CreateAssetTx", params.CreateAssetTx, nil, nil, aj, 400000},
			{"IssueAssetTx", params.IssueAssetTx, &x.addr, nil, []byte(fmt.Sprintf(`{"assetCode":"%s","metaData":"m","supplyAmount":"500"}`, x.code.Hex())), 400000},
			{"ReplenishAssetTx", params.ReplenishAssetTx, &x.addr, nil, []byte(fmt.Sprintf(`{"assetCode":"%s","assetId":"%s","replenishAmount":"7"}`, x.code.Hex(), x.id.Hex())), 400000},
			{"ModifyAssetTx", params.ModifyAssetTx, nil, nil, []byte(fmt.Sprintf(`{"assetCode":"%s","updateProfile":{"name":"B"}}`, x.code.Hex())), 400000},
			{"TransferAssetTx", params.TransferAssetTx, &bob, nil, []byte(fmt.Sprintf(`{"assetId":"%s","transferAmount":"5"}`, x.id.Hex())), 400000},
			{"BoxTx", params.BoxTx, nil, nil, bd, 2300000},
			{"ModifySignersTx", params.ModifySignersTx, &x.addr, nil, own, 400000}, // last: it changes who may sign for x
		}
	}
	type cand struct {
		tx      *types.Transaction
		typ     string
		variant string
	}
	variants := []string{"wrongkey", "nosig", "ms-below", "ms-dup", "payer-forged", "payer-nosig", "box-sub"}
	mkVariant := func(v string) []cand {
		var out []cand
		switch v {
		case "wrongkey", "nosig":
			for _, b := range bodies(alice) {
				tx := c06Raw(b, alice.addr, nil, exp(), u_(v))
				if v == "wrongkey" {
					tx = c06Sign(tx, []*ecdsa.PrivateKey{mallory.key}, false, b.gas, nil)
				}
				out = append(out, cand{tx, b.name, v})
			}
		case "ms-below", "ms-dup":
			for _, b := range bodies(msacct) {
				tx := c06Raw(b, msacct.addr, nil, exp(), u_(v))
				if v == "ms-below" {
					tx = c06Sign(tx, []*ecdsa.PrivateKey{s3.key}, false, b.gas, nil)
				} else {
					tx = c06Sign(tx, []*ecdsa.PrivateKey{s1.key}, false, b.gas, nil)
					sig := tx.Sigs()[0]
					tx = txEdit(tx, func(m map[string]interface{}) {
						m["sigs"] = []string{common.ToHex(sig), common.ToHex(malleate(sig)), common.ToHex(sig)}
					})
				}
				out = append(out, cand{tx, b.name, v})
			}
		case "payer-forged", "payer-nosig":
			for _, b := range bodies(mallory) {
				tx := c06Raw(b, mallory.addr, &pat.addr, exp(), u_(v))
				var pk []*ecdsa.PrivateKey
				if v == "payer-forged" {
					pk = []*ecdsa.PrivateKey{mallory.key}
				}
				tx = c06Sign(tx, []*ecdsa.PrivateKey{mallory.key}, true, b.gas, pk)
				out = append(out, cand{tx, b.name, v})
			}
		case "box-sub":
			// an honest box of mallory's around sub-txs of alice's that alice never signed — one sub-tx of every non-box type
			for _, b := range bodies(alice) {
				if b.typ == params.BoxTx {
					continue
				}
				sub := c06Sign(c06Raw(b, alice.addr, nil, exp(), u_(v)), []*ecdsa.PrivateKey{mallory.key}, false, b.gas, nil)
				bd, err := types.MarshalBoxData(types.Transactions{sub})
				if err != nil {
					continue
				}
				box := c06Sign(c06Raw(c06Body{"BoxTx", params.BoxTx, nil, nil, bd, b.gas + 200000}, mallory.addr, nil, exp(), u_(v)), []*ecdsa.PrivateKey{mallory.key}, false, 0, nil)
				out = append(out, cand{box, "BoxTx(sub:" + b.name + ")", v})
			}
		}
		return out
	}
	included := func(blk *types.Block, tx *types.Transaction) bool {
		// a box is rewritten when executed (its hash changes): compare what the signatures cover — sender, message
		for _, x := range blk.Txs {
			if x.From() == tx.From() && x.Message() == tx.Message() {
				return true
			}
		}
		return false
	}
	for _, v := range variants {
		cs := mkVariant(v)
		var txs types.Transactions
		for _, x := range cs {
			txs = append(txs, x.tx.Clone())
		}
		blk, invalid, err := n.Build(parent, t, txs, nil)
		if err != nil {
			c.Fail("c06/gate-engine/build-failed", fmt.Sprintf("variant %s: %v", v, err), nil)
			continue
		}
		for _, x := range cs {
			if included(blk, x.tx) {
				c.Fail("c06/unauthorised-included/"+x.typ, fmt.Sprintf("a %s from %x (%s) is in the block the miner path built", x.typ, x.tx.From(), v), nil)
			} else {
				c.Count("c06:gate-engine:refused-by-miner:" + v + ":" + x.typ)
			}
		}
		if len(invalid) != len(cs) {
			c.Count(fmt.Sprintf("c06:gate-engine:invalid-list-%d-of-%d:%s", len(invalid), len(cs), v))
		}
		// validator path: each candidate alone in a block, on a fresh manager over the same parent
		hdr := blk.Header.Copy()
		for _, x := range cs {
			am := account.NewManager(parent.Hash(), n.DB)
			proc := transaction.NewTxProcessor(keyAddr(w.FounderKey), nodeChainID, parentLoader{n}, am, n.DB, n.DM)
			res := Safe(func() string {
				_, e := proc.Process(hdr, types.Transactions{x.tx.Clone()})
				if e == nil {
					return "executed"
				}
				if e == transaction.ErrInvalidTxInBlock {
					return "refused"
				}
				return "executed(" + e.Error() + ")"
			})
			if res != "refused" {
				c.Fail("c06/unauthorised-executed-by-validator/"+x.typ, fmt.Sprintf("TxProcessor.Process ran a %s from %x (%s): %s", x.typ, x.tx.From(), v, res), nil)
			} else {
				c.Count("c06:gate-engine:refused-by-validator:" + v + ":" + x.typ)
			}
		}
	}
	// positive controls: the same bodies properly signed run
	controls := []struct {
		name string
		mk   func() []cand
	}{
		{"ok-plain", func() (out []cand) {
			for _, b := range bodies(alice) {
				out = append(out, cand{c06Sign(c06Raw(b, alice.addr, nil, exp(), u_("okp")), []*ecdsa.PrivateKey{alice.key}, false, b.gas, nil), b.name, "ok-plain"})
			}
			return
		}},
		{"ok-ms", func() (out []cand) {
			for _, b := range bodies(msacct) {
				out = append(out, cand{c06Sign(c06Raw(b, msacct.addr, nil, exp(), u_("okm")), []*ecdsa.PrivateKey{s1.key, s2.key}, false, b.gas, nil), b.name, "ok-ms"})
			}
			return
		}},
		{"ok-payer", func() (out []cand) {
			for _, b := range bodies(mallory) {
				out = append(out, cand{c06Sign(c06Raw(b, mallory.addr, &pat.addr, exp(), u_("oky")), []*ecdsa.PrivateKey{mallory.key}, true, b.gas, []*ecdsa.PrivateKey{pat.key}), b.name, "ok-payer"})
			}
			return
		}},
	}
	for _, ctl := range controls {
		cs := ctl.mk()
		var txs types.Transactions
		for _, x := range cs {
			txs = append(txs, x.tx.Clone())
		}
		if os.Getenv("HX_DEBUG") == "c06g" {
			log.Setup(log.LevelDebug, false, true)
		}
		blk, _, err := n.Build(parent, t, txs, nil)
		log.Setup(log.LevelCrit, false, false)
		if err != nil {
			c.Fail("c06/gate-engine/build-failed", fmt.Sprintf("control %s: %v", ctl.name, err), nil)
			continue
		}
		// positive control of the VALIDATOR path (review R4): the block of properly signed txs, as built (gasUsed set), must
		// pass TxProcessor.Process on a fresh manager -- otherwise 'refused' above would hold vacuously
		{
			am := account.NewManager(parent.Hash(), n.DB)
			proc := transaction.NewTxProcessor(keyAddr(w.FounderKey), nodeChainID, parentLoader{n}, am, n.DB, n.DM)
			res := Safe(func() string {
				var vtxs types.Transactions
				for _, x := range blk.Txs {
					vtxs = append(vtxs, x.Clone())
				}
				_, e := proc.Process(blk.Header.Copy(), vtxs)
				return fmt.Sprint(e)
			})
			if res != "<nil>" || len(blk.Txs) == 0 {
				c.Fail("c06/authorised-refused/by-validator", fmt.Sprintf("positive control %s: TxProcessor.Process on the block of %d properly signed txs the miner path built: %s", ctl.name, len(blk.Txs), res), nil)
			} else {
				c.Count(fmt.Sprintf("c06:gate-engine:control-passes-validator:%s:%d-txs", ctl.name, len(blk.Txs)))
			}
		}
		for _, x := range cs {
			if !included(blk, x.tx) {
				c.Fail("c06/authorised-refused/"+x.typ, fmt.Sprintf("positive control %s: a properly signed %s from %x is not in the block the miner path built", ctl.name, x.typ, x.tx.From()), nil)
			} else {
				c.Count("c06:gate-engine:control-included:" + ctl.name + ":" + x.typ)
			}
		}
	}
}

package main

// C06 gate fact (T2, regenerated on every run): does the signature check dominate every state-changing call?
//
// go/ast over chain/transaction/tx_processor.go and box_tx.go of the CURRENT source.  For every function of the two
// files the statement lists are walked in order with a flag "a gate call has returned nil on every path to here":
//   * a GUARD is `err := G(..)` directly followed by `if err != nil { …; return …, err }` (or the same with the call in
//     the if's init clause; inside a loop the body may end in `continue`) where G is a gate function; after the guard
//     the flag is set for the REST of that statement list and everything nested in it; inside the if body (the gate
//     FAILED) the flag is what it was before; a nested statement list never changes the flag of its parent;
//   * gate functions: the primitive `verifyTransactionSigs`, and every function of the two files that has such a guard
//     on a gate function in its top-level statement list with nothing but non-nil-error returns before it and that
//     returns the gate's error (VerifyTxBeforeApply, applyTx: found by iteration, not listed);
//   * the code has no goto (a `goto` is reported as a row of its own).
// Rows (op lines, the committed table LemoModel.GateFacts.rows answers `ok` / `table-mismatch`):
//   c06 gate guard <fn> <ctx> <gate callee> <flag before>     a guard as described
//   c06 gate site  <fn> <ctx> <package function> <flag>        a call of a function declared in the two files
//   c06 gate call  <fn> <ctx> <callee> <flag>                  any other call that is not on the pure list below
//   c06 gate wrapper <fn>                                      fn was recognised as a gate wrapper
//   c06 gate count <n>
// <ctx> is `-` or the case label of the enclosing `switch tx.Type()` (`case:params.VoteTx`).
// The interprocedural reading (handleTx / buyGas / RunBoxTxs are only ever called from dominated sites) is computed by
// LEAN from the site rows (LemoProofs.C06Gate).

import (
	"fmt"
	"go/ast"
	"go/parser"
	"go/token"
	"path/filepath"
	"sort"
	"strings"
)

const gatePrimitive = "verifyTransactionSigs"

// calls that cannot change the account state: logging, arithmetic, constructors of environments, getters.
var gatePureRoots = map[string]bool{"log": true, "big": true, "time": true, "math": true, "new()": true, "len()": true, "make()": true,
	"append()": true, "uint()": true, "uint64()": true, "int64()": true, "common": true, "params": true, "errors": true, "context": true,
	"invalidTxMeter": true, "hexutil": true, "cancel()": true, "panic()": true}
var gatePureNames = map[string]bool{
	// transaction / header / block getters
	"From": true, "To": true, "Type": true, "Data": true, "Hash": true, "GasLimit": true, "GasPrice": true, "GasPayer": true, "GasPayerSigs": true,
	"Amount": true, "Message": true, "GasUsed": true, "String": true, "Error": true, "Unix": true, "Seconds": true, "Done": true,
	// big.Int / pool reads
	"Cmp": true, "Sign": true, "Gas": true, "Mul": true, "Add": true, "Sub": true, "Div": true, "SetUint64": true, "Copy": true,
	// account reads (GetAccount loads an account into the manager's cache: no change log, no state change)
	"GetAccount": true, "GetCanonicalAccount": true, "GetBalance": true, "GetSigners": true, "ToSignerMap": true, "GetCandidate": true, "GetVoteFor": true,
	"GetVotes": true, "GetCandidateState": true, "GetAssetIdState": true, "GetAssetCode": true, "GetChangeLogs": true,
	// decoders / constructors
	"GetIssueAsset": true, "GetReplenishAsset": true, "GetModifyAssetInfo": true, "GetTransferAsset": true, "GetBox": true, "MarshalBoxData": true,
	"MakeGasPayerSigner": true, "MakeReimbursementTxSigner": true, "MakeSigner": true, "NewEVM": true, "NewTransaction": true,
	"WithTimeout": true, "WithCancel": true, "Background": true, "Since": true, "Now": true, "Duration": true, "StringToAddress": true, "HexToAddress": true,
	"NewInt": true, "AddGas": true, "Lock": true, "Unlock": true,
}

type gateWalker struct {
	fn      string
	pkgFns  map[string]bool
	gates   map[string]bool
	rows    *[]string
	emit    bool
	sawGate bool // a guard on a gate function in the TOP-LEVEL statement list
	topOK   bool // nothing but non-nil-error returns before it
	depth   int
	early   bool // a return that is not `return …, <checked non-nil err>` was seen at top level before the guard
}

func gateLast(callee string) string {
	if i := strings.LastIndex(callee, "."); i >= 0 {
		return callee[i+1:]
	}
	return callee
}

func gateRoot(callee string) string {
	if i := strings.Index(callee, "."); i >= 0 {
		return callee[:i]
	}
	return callee
}

func gateRender(e ast.Expr) string {
	var sb strings.Builder
	printExpr(&sb, e)
	return sb.String()
}

func (w *gateWalker) row(kind, ctx, callee string, g bool) {
	if w.emit {
		*w.rows = append(*w.rows, fmt.Sprintf("c06 gate %s %s %s %s dominated=%v", kind, w.fn, ctx, callee, g))
	}
}

// calls inside an expression / simple statement, in source order
func (w *gateWalker) calls(n ast.Node, g bool, ctx string) {
	if n == nil {
		return
	}
	ast.Inspect(n, func(x ast.Node) bool {
		call, ok := x.(*ast.CallExpr)
		if !ok {
			return true
		}
		callee := strings.TrimSuffix(gateRender(call), "()")
		last := gateLast(callee)
		switch {
		case w.pkgFns[last] && (gateRoot(callee) == "p" || gateRoot(callee) == "b" || gateRoot(callee) == "boxEnv" || !strings.Contains(callee, ".")):
			w.row("site", ctx, last, g)
		case gatePureRoots[gateRoot(callee)] || gatePureRoots[gateRoot(callee)+"()"] && !strings.Contains(callee, ".") || gatePureNames[last]:
		default:
			w.row("call", ctx, callee, g)
		}
		return true
	})
}

// `err != nil` over the identifier v
func gateErrCond(e ast.Expr, v string) bool {
	b, ok := e.(*ast.BinaryExpr)
	if !ok || b.Op != token.NEQ {
		return false
	}
	x, ok1 := b.X.(*ast.Ident)
	y, ok2 := b.Y.(*ast.Ident)
	return ok1 && ok2 && x.Name == v && y.Name == "nil"
}

// the body leaves the statement list: last statement `return …, v` (v = the checked error), or — inside a loop —
// `continue` / `break`
func gateLeaves(body *ast.BlockStmt, v string, inLoop bool) bool {
	if body == nil || len(body.List) == 0 {
		return false
	}
	switch x := body.List[len(body.List)-1].(type) {
	case *ast.ReturnStmt:
		if len(x.Results) == 0 {
			return false
		}
		id, ok := x.Results[len(x.Results)-1].(*ast.Ident)
		return ok && id.Name == v
	case *ast.BranchStmt:
		return inLoop && (x.Tok == token.CONTINUE || x.Tok == token.BREAK) && x.Label == nil
	}
	return false
}

// the single call on the right-hand side of `…, err := call` and the name of the error variable (last lhs)
func gateAssign(st ast.Stmt) (call *ast.CallExpr, errVar string) {
	as, ok := st.(*ast.AssignStmt)
	if !ok || len(as.Rhs) != 1 || len(as.Lhs) == 0 {
		return nil, ""
	}
	c, ok := as.Rhs[0].(*ast.CallExpr)
	if !ok {
		return nil, ""
	}
	id, ok := as.Lhs[len(as.Lhs)-1].(*ast.Ident)
	if !ok {
		return nil, ""
	}
	return c, id.Name
}

func (w *gateWalker) block(stmts []ast.Stmt, g bool, ctx string, inLoop bool) {
	w.depth++
	defer func() { w.depth-- }()
	for i := 0; i < len(stmts); i++ {
		st := stmts[i]
		// guard, form A: `…, err := G(..)` + `if err != nil { …; return …, err }`
		if call, ev := gateAssign(st); call != nil && i+1 < len(stmts) {
			if ifs, ok := stmts[i+1].(*ast.IfStmt); ok && ifs.Init == nil && ifs.Else == nil && gateErrCond(ifs.Cond, ev) && gateLeaves(ifs.Body, ev, inLoop) {
				callee := strings.TrimSuffix(gateRender(call), "()")
				if w.gates[gateLast(callee)] {
					w.row("guard", ctx, gateLast(callee), g)
					for _, a := range call.Args {
						w.calls(a, g, ctx)
					}
					w.block(ifs.Body.List, g, ctx, inLoop) // the gate FAILED in there
					if w.depth == 1 && !w.early {
						w.sawGate = true
					}
					g = true
					i++
					continue
				}
			}
		}
		// guard, form B: `if err := G(..); err != nil { …; return …, err }`
		if ifs, ok := st.(*ast.IfStmt); ok && ifs.Init != nil && ifs.Else == nil {
			if call, ev := gateAssign(ifs.Init); call != nil && gateErrCond(ifs.Cond, ev) && gateLeaves(ifs.Body, ev, inLoop) {
				callee := strings.TrimSuffix(gateRender(call), "()")
				if w.gates[gateLast(callee)] {
					w.row("guard", ctx, gateLast(callee), g)
					for _, a := range call.Args {
						w.calls(a, g, ctx)
					}
					w.block(ifs.Body.List, g, ctx, inLoop)
					if w.depth == 1 && !w.early {
						w.sawGate = true
					}
					g = true
					continue
				}
			}
		}
		if w.depth == 1 && !w.sawGate && gateHasPlainReturn(st) {
			w.early = true
		}
		w.stmt(st, g, ctx, inLoop)
	}
}

// a return statement that is not the tail of an `if v != nil { …; return …, v }`
func gateHasPlainReturn(st ast.Stmt) bool {
	found := false
	var visit func(n ast.Node, okRet *ast.ReturnStmt)
	visit = func(n ast.Node, okRet *ast.ReturnStmt) {
		ast.Inspect(n, func(x ast.Node) bool {
			switch y := x.(type) {
			case *ast.FuncLit:
				return false
			case *ast.IfStmt:
				// `if v != nil { … return …, v }`: that return is a non-nil-error return
				if b, ok := y.Cond.(*ast.BinaryExpr); ok && b.Op == token.NEQ {
					if id, ok := b.X.(*ast.Ident); ok {
						if nl, ok := b.Y.(*ast.Ident); ok && nl.Name == "nil" && gateLeaves(y.Body, id.Name, false) {
							last := y.Body.List[len(y.Body.List)-1].(*ast.ReturnStmt)
							if y.Init != nil {
								visit(y.Init, nil)
							}
							for _, s := range y.Body.List {
								visit(s, last)
							}
							if y.Else != nil {
								visit(y.Else, nil)
							}
							return false
						}
					}
				}
			case *ast.ReturnStmt:
				if y != okRet {
					found = true
				}
			}
			return true
		})
	}
	visit(st, nil)
	return found
}

func (w *gateWalker) stmt(st ast.Stmt, g bool, ctx string, inLoop bool) {
	switch x := st.(type) {
	case nil:
	case *ast.BlockStmt:
		w.block(x.List, g, ctx, inLoop)
	case *ast.IfStmt:
		if x.Init != nil {
			w.stmt(x.Init, g, ctx, inLoop)
		}
		w.calls(x.Cond, g, ctx)
		w.block(x.Body.List, g, ctx, inLoop)
		if x.Else != nil {
			w.stmt(x.Else, g, ctx, inLoop)
		}
	case *ast.ForStmt:
		if x.Init != nil {
			w.stmt(x.Init, g, ctx, inLoop)
		}
		w.calls(x.Cond, g, ctx)
		if x.Post != nil {
			w.stmt(x.Post, g, ctx, inLoop)
		}
		w.block(x.Body.List, g, ctx, true)
	case *ast.RangeStmt:
		w.calls(x.X, g, ctx)
		w.block(x.Body.List, g, ctx, true)
	case *ast.SwitchStmt:
		if x.Init != nil {
			w.stmt(x.Init, g, ctx, inLoop)
		}
		w.calls(x.Tag, g, ctx)
		for _, cl := range x.Body.List {
			cc := cl.(*ast.CaseClause)
			label := "default"
			if len(cc.List) > 0 {
				var ls []string
				for _, e := range cc.List {
					ls = append(ls, gateRender(e))
				}
				label = "case:" + strings.Join(ls, ",")
			}
			if ctx != "-" {
				label = ctx + "/" + label
			}
			w.block(cc.Body, g, label, false)
		}
	case *ast.LabeledStmt:
		w.stmt(x.Stmt, g, ctx, inLoop)
	case *ast.BranchStmt:
		if x.Tok == token.GOTO {
			w.row("goto", ctx, "goto", false)
		}
	default:
		w.calls(st, g, ctx)
	}
}

func gateFacts(c *Ctx) {
	dir := filepath.Join(repoRoot(), "chain", "transaction")
	fset := token.NewFileSet()
	var decls []*ast.FuncDecl
	pkgFns := map[string]bool{}
	for _, file := range []string{"tx_processor.go", "box_tx.go"} {
		f, err := parser.ParseFile(fset, filepath.Join(dir, file), nil, 0)
		if err != nil {
			c.Op("c06 gate parse-error "+file, "ok")
			continue
		}
		for _, d := range f.Decls {
			if fd, ok := d.(*ast.FuncDecl); ok && fd.Body != nil {
				decls = append(decls, fd)
				pkgFns[fd.Name.Name] = true
			}
		}
	}
	// gate wrappers: least fixed point from the primitive
	gates := map[string]bool{gatePrimitive: true}
	for changed := true; changed; {
		changed = false
		for _, fd := range decls {
			if gates[fd.Name.Name] {
				continue
			}
			w := &gateWalker{fn: fd.Name.Name, pkgFns: pkgFns, gates: gates}
			w.block(fd.Body.List, false, "-", false)
			if w.sawGate {
				gates[fd.Name.Name] = true
				changed = true
			}
		}
	}
	var rows []string
	for _, fd := range decls {
		w := &gateWalker{fn: fd.Name.Name, pkgFns: pkgFns, gates: gates, rows: &rows, emit: true}
		w.block(fd.Body.List, false, "-", false)
		if gates[fd.Name.Name] && fd.Name.Name != gatePrimitive {
			rows = append(rows, "c06 gate wrapper "+fd.Name.Name)
		}
	}
	// other files of the package must not call the gated internals at all
	internals := map[string]bool{"applyTx": true, "handleTx": true, "buyGas": true, "buyAndPayIntrinsicGas": true, "payIntrinsicGas": true, "refundGas": true, "RunBoxTxs": true}
	matches, _ := filepath.Glob(filepath.Join(dir, "*.go"))
	sort.Strings(matches)
	for _, m := range matches {
		base := filepath.Base(m)
		if base == "tx_processor.go" || base == "box_tx.go" || strings.HasSuffix(base, "_test.go") {
			continue
		}
		f, err := parser.ParseFile(fset, m, nil, 0)
		if err != nil {
			continue
		}
		ast.Inspect(f, func(x ast.Node) bool {
			if call, ok := x.(*ast.CallExpr); ok {
				callee := strings.TrimSuffix(gateRender(call), "()")
				if internals[gateLast(callee)] {
					rows = append(rows, fmt.Sprintf("c06 gate site file:%s - %s dominated=false", base, gateLast(callee)))
				}
			}
			return true
		})
	}
	// duplicates (the same call twice in one context) are kept once with a multiplicity
	cnt := map[string]int{}
	var uniq []string
	for _, r := range rows {
		if cnt[r] == 0 {
			uniq = append(uniq, r)
		}
		cnt[r]++
	}
	sort.Strings(uniq)
	for _, r := range uniq {
		c.Op(r, "ok")
		c.Count("c06:gate-row:" + strings.Fields(r)[2])
	}
	c.Op(fmt.Sprintf("c06 gate count %d", len(uniq)), "ok")
}

package main

// C06: verifyTempAddress / crypto.CreateTempAddress / common.BytesToAddress, the REAL functions, against LemoModel.TempAddr.
// Op lines (the driver recomputes everything from the bytes on the line; `-` = no bytes):
//   c06 tempaddr create <creator raw hex> <user id hex>   -> <hex of CreateTempAddress(BytesToAddress(raw), uid)> <verify result>
//   c06 tempaddr verify <creator raw hex> <temp raw hex>  -> ok | ErrAddressType | ErrTempAddress   (both through BytesToAddress)
//   c06 tempaddr b2a <raw hex>                            -> hex of BytesToAddress(raw)
// Structured mutations per generated (creator, user id): every byte position of the temp address and of the creator
// flipped in one bit / replaced, version byte variants, raw inputs of every length 0..19 and longer than 20.
// Direct oracle (the harness's own reading isTempOf, c05.go): c06/temp-address/*.

import (
	"encoding/hex"
	"fmt"
	"math/rand"

	"github.com/LemoFoundationLtd/lemochain-core/chain/transaction"
	"github.com/LemoFoundationLtd/lemochain-core/common"
	"github.com/LemoFoundationLtd/lemochain-core/common/crypto"
)

func c06Hex(b []byte) string {
	if len(b) == 0 {
		return "-"
	}
	return hex.EncodeToString(b)
}

func c06VerifyName(creator, temp common.Address) string {
	return Safe(func() string {
		err := transaction.VerifVerifyTempAddress(creator, temp)
		switch err {
		case nil:
			return "ok"
		case transaction.ErrAddressType:
			return "ErrAddressType"
		case transaction.ErrTempAddress:
			return "ErrTempAddress"
		}
		return "err:" + err.Error()
	})
}

func tempAddrCases(c *Ctx) {
	rnd := rand.New(rand.NewSource(c.Seed*7919 + 606))
	nCreators := 6
	if c.Tier == "thorough" {
		nCreators = 40
	}
	verify := func(class string, craw, traw []byte) string {
		cr, tp := common.BytesToAddress(craw), common.BytesToAddress(traw)
		out := c06VerifyName(cr, tp)
		c.Op(fmt.Sprintf("c06 tempaddr verify %s %s", c06Hex(craw), c06Hex(traw)), out)
		c.Count("c06:tempaddr:" + class + ":" + out)
		// independent reading
		want := isTempOf(cr, tp)
		if (out == "ok") != want {
			sig := "c06/temp-address/foreign-creator-accepted"
			if want {
				sig = "c06/temp-address/own-creator-refused"
			}
			c.Fail(sig, fmt.Sprintf("verifyTempAddress(%x, %x) = %s; by the rule (version byte 0x03, bytes 1..9 = the creator's last 9 bytes) it is %v (class %s)", cr, tp, out, want, class), nil)
		}
		return out
	}
	for k := 0; k < nCreators; k++ {
		var creator common.Address
		if k%2 == 0 {
			creator = keyAddr(detKey(fmt.Sprintf("c06-temp-creator-%d-%d", c.Seed, k)))
		} else {
			rnd.Read(creator[:])
			creator[0] = []byte{1, 2, 3, 0}[rnd.Intn(4)] // a contract / a temp address / a version-0 address as creator
		}
		var uid [10]byte
		switch k % 3 {
		case 0:
			rnd.Read(uid[:])
		case 1: // all zero
		case 2:
			for i := range uid {
				uid[i] = 0xff
			}
		}
		temp := Safe(func() string { a := crypto.CreateTempAddress(creator, uid); return string(a[:]) })
		if temp == "panic" {
			c.Op(fmt.Sprintf("c06 tempaddr create %x %x", creator[:], uid[:]), "panic")
			continue
		}
		var ta common.Address
		copy(ta[:], temp)
		c.Op(fmt.Sprintf("c06 tempaddr create %x %x", creator[:], uid[:]), fmt.Sprintf("%x %s", ta[:], c06VerifyName(creator, ta)))
		c.Count("c06:tempaddr:create")
		if c06VerifyName(creator, ta) != "ok" {
			c.Fail("c06/temp-address/created-not-verified", fmt.Sprintf("CreateTempAddress(%x, %x) = %x does not pass verifyTempAddress for its own creator", creator, uid, ta), nil)
		}
		verify("created", creator[:], ta[:])
		// every byte position of the temp address: one bit flipped, and replaced by a random other byte
		for i := 0; i < common.AddressLength; i++ {
			m := ta
			m[i] ^= 1 << uint(rnd.Intn(8))
			region := "uid"
			if i == 0 {
				region = "version"
			} else if i < 10 {
				region = "issuer"
			}
			verify("temp-bitflip-"+region, creator[:], m[:])
			m = ta
			m[i] = byte(int(m[i]) + 1 + rnd.Intn(255))
			verify("temp-replace-"+region, creator[:], m[:])
		}
		// every byte position of the creator
		for i := 0; i < common.AddressLength; i++ {
			m := creator
			m[i] ^= 1 << uint(rnd.Intn(8))
			region := "prefix(ignored)"
			if i >= common.AddressLength-9 {
				region = "suffix"
			}
			verify("creator-bitflip-"+region, m[:], ta[:])
		}
		// version byte variants
		for _, v := range []byte{0x00, 0x01, 0x02, 0x03, 0x04, 0x13, 0x83, 0xff} {
			m := ta
			m[0] = v
			verify(fmt.Sprintf("version-%02x", v), creator[:], m[:])
		}
		// a creator that shares the 9-byte suffix (any other prefix) is accepted as well: the check binds the SUFFIX
		{
			var twin common.Address
			rnd.Read(twin[:11])
			copy(twin[11:], creator[11:])
			if twin != creator {
				verify("suffix-twin", twin[:], ta[:])
			}
		}
		// the issuer part shifted by one position (bytes 2..10 instead of 1..9), and the creator's FIRST 9 bytes instead of the last
		{
			m := ta
			copy(m[2:11], creator[11:])
			m[1] = creator[10]
			verify("issuer-shifted", creator[:], m[:])
			m = ta
			copy(m[1:10], creator[:9])
			verify("issuer-from-prefix", creator[:], m[:])
		}
		// raw inputs of every short length (BytesToAddress right-aligns) and longer ones (keeps the last 20)
		for n := 0; n <= 24; n++ {
			if n == 20 {
				continue
			}
			raw := make([]byte, n)
			if n < 20 {
				copy(raw, ta[20-n:]) // the tail of the temp address: the version byte is lost
			} else {
				rnd.Read(raw)
				copy(raw[n-20:], ta[:]) // junk in front is cut off
			}
			verify(fmt.Sprintf("temp-raw-len-%s", map[bool]string{true: "short", false: "long"}[n < 20]), creator[:], raw)
			craw := make([]byte, n)
			if n < 20 {
				copy(craw, creator[20-n:])
			} else {
				rnd.Read(craw)
				copy(craw[n-20:], creator[:])
			}
			verify(fmt.Sprintf("creator-raw-len-%s", map[bool]string{true: "short", false: "long"}[n < 20]), craw, ta[:])
			b := common.BytesToAddress(raw)
			c.Op(fmt.Sprintf("c06 tempaddr b2a %s", c06Hex(raw)), fmt.Sprintf("%x", b[:]))
			c.Count("c06:tempaddr:b2a")
		}
		// create from a short raw creator (right-aligned zero-padded address)
		{
			n := rnd.Intn(20)
			raw := make([]byte, n)
			rnd.Read(raw)
			cr := common.BytesToAddress(raw)
			a := crypto.CreateTempAddress(cr, uid)
			c.Op(fmt.Sprintf("c06 tempaddr create %s %x", c06Hex(raw), uid[:]), fmt.Sprintf("%x %s", a[:], c06VerifyName(cr, a)))
			c.Count("c06:tempaddr:create-short-creator")
		}
	}
}

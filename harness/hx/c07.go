package main

import (
	"strconv"
	"fmt"
	"math/big"
	"os"
	"sort"
	"strings"

	"github.com/LemoFoundationLtd/lemochain-core/chain"
	"github.com/LemoFoundationLtd/lemochain-core/chain/account"
	"github.com/LemoFoundationLtd/lemochain-core/chain/params"
	"github.com/LemoFoundationLtd/lemochain-core/chain/types"
	"github.com/LemoFoundationLtd/lemochain-core/common"
	"github.com/LemoFoundationLtd/lemochain-core/common/crypto"
	"github.com/LemoFoundationLtd/lemochain-core/store"
)

func init() { subs["c07"] = c07 }

// ---- universe -------------------------------------------------------------

// a0: user with committed assets/profile; a1: existing contract (committed code, storage, equity);
// a2: fresh user; a3: fresh address that may become a contract
var c07Addrs = []common.Address{common.HexToAddress("0x7001"), common.HexToAddress("0x7002"), common.HexToAddress("0x7003"), common.HexToAddress("0x7004")}

func hashN(n int) common.Hash { return common.BigToHash(big.NewInt(int64(n))) }

var c07Codes = map[int]types.Code{1: {0x60, 0x01}, 2: {0x60, 0x02, 0x00}}

func c07Asset(code int, supply int64, prof map[int]int) *types.Asset {
	p := make(types.Profile)
	for k, v := range prof {
		p[fmt.Sprintf("k%d", k)] = valStr(v)
	}
	return &types.Asset{Category: 1, IsDivisible: true, AssetCode: hashN(code), Decimal: 0, TotalSupply: big.NewInt(supply), IsReplenishable: true, Issuer: c07Addrs[0], Profile: p}
}

// profSlot prints a profile entry strictly: "-" when the key is absent, otherwise its value ("" prints as 0)
func profSlot(p types.Profile, key string) string {
	v, ok := p[key]
	if !ok {
		return "-"
	}
	return fmt.Sprint(strVal(v))
}

func valStr(v int) string {
	if v == 0 {
		return ""
	}
	return fmt.Sprintf("v%d", v)
}

func strVal(s string) int {
	if s == "" {
		return 0
	}
	var n int
	fmt.Sscanf(s, "v%d", &n)
	return n
}

// c07Genesis builds a database whose stable genesis block already contains committed
// storage / asset / equity / profile entries for account 0 (so that roots are non-zero).
func c07Genesis(dir string) (*store.ChainDatabase, common.Hash) {
	db := store.NewChainDataBase(dir)
	am := account.NewManager(common.Hash{}, db)
	a0 := am.GetAccount(c07Addrs[0])
	a0.SetBalance(big.NewInt(1000))
	a0.SetAssetCode(hashN(1), c07Asset(1, 500, map[int]int{1: 7}))
	a0.SetAssetIdState(hashN(1), valStr(3))
	a0.SetEquityState(hashN(1), &types.AssetEquity{AssetCode: hashN(1), AssetId: hashN(1), Equity: big.NewInt(40)})
	a0.SetCandidateState("k1", valStr(5))
	a0.SetVotes(big.NewInt(9))
	a1 := am.GetAccount(c07Addrs[1])
	a1.SetBalance(big.NewInt(70))
	a1.SetCode(c07Codes[1])
	a1.SetStorageState(hashN(1), []byte{11})
	a1.SetStorageState(hashN(2), []byte{12})
	a1.SetEquityState(hashN(1), &types.AssetEquity{AssetCode: hashN(1), AssetId: hashN(1), Equity: big.NewInt(5)})
	a2 := am.GetAccount(c07Addrs[2])
	a2.SetBalance(big.NewInt(50))
	// a committed signer list: the slice is shared by every copy of the account data (AccountData.Copy is shallow here),
	// which is only sound while every writer replaces the list as a whole
	a2.SetSingers(types.Signers{{Address: common.BigToAddress(big.NewInt(1)), Weight: 60}, {Address: common.BigToAddress(big.NewInt(2)), Weight: 50}})
	g := &chain.Genesis{Time: 1538209751, ExtraData: "c07", GasLimit: params.GenesisGasLimit, Founder: common.HexToAddress("0x7fff"), DeputyNodesInfo: chain.DefaultDeputyNodesInfo[:1]}
	block, err := g.ToBlock(am)
	if err != nil {
		panic(err)
	}
	h := block.Hash()
	if err := db.SetBlock(h, block); err != nil {
		panic(err)
	}
	if err := am.Save(h); err != nil {
		panic(err)
	}
	if _, err := db.SetStableBlock(h); err != nil {
		panic(err)
	}
	return db, h
}

// c07WantInit: the base state by construction (what c07Genesis writes), in the order the init lines are emitted
var c07WantInit = []string{
	"init 0 bal 1000", "init 0 votes 9", "init 0 votefor 0", "init 0 profile 1 5", "init 0 assetcode 1 500 7 -", "init 0 assetid 1 3", "init 0 equity 1 40",
	"init 0 base 1 1", "init 0 base 4 1", "init 0 base 8 1", "init 0 base 10 1", "init 0 base 13 1", "init 0 base 18 1",
	"init 1 bal 70", "init 1 votes 0", "init 1 votefor 0", "init 1 storage 1 11", "init 1 storage 2 12", "init 1 code 1", "init 1 equity 1 5",
	"init 1 base 1 1", "init 1 base 2 2", "init 1 base 10 1", "init 1 base 14 1",
	"init 2 bal 50", "init 2 votes 0", "init 2 votefor 0", "init 2 signers - 1:60 2:50", "init 2 base 1 1", "init 2 base 19 1",
	"init 3 bal 0", "init 3 votes 0", "init 3 votefor 0",
}

// ---- canonical observation --------------------------------------------------

type c07Obs struct {
	fields map[string]string // lenient canonical form, keyed "addrIdx.field"
}

func rootLabel(h common.Hash, init common.Hash) string {
	if h == (common.Hash{}) {
		return "0"
	}
	if h == init {
		return "R"
	}
	return "X" + h.Hex()[2:8]
}

type c07World struct {
	am        *account.Manager
	initRoots [4][4]common.Hash
}

func (w *c07World) observe() (string, map[string]string) {
	f := map[string]string{}
	var sb strings.Builder
	for i, addr := range c07Addrs {
		a := w.am.GetAccount(addr)
		p := fmt.Sprintf("a%d.", i)
		f[p+"bal"] = a.GetBalance().String()
		ch := a.GetCodeHash()
		chs := "E"
		if ch != (common.Hash{}) && ch != common.Sha3Nil {
			chs = "?"
			for id, c := range c07Codes {
				if crypto.Keccak256Hash(c) == ch {
					chs = fmt.Sprintf("h%d", id)
				}
			}
		}
		f[p+"codehash"] = chs
		code, err := a.GetCode()
		cs := "-"
		if err != nil {
			cs = "err"
		} else if len(code) > 0 {
			cs = "?"
			for id, c := range c07Codes {
				if string(c) == string(code) {
					cs = fmt.Sprintf("c%d", id)
				}
			}
		}
		f[p+"code"] = cs
		f[p+"sui"] = fmt.Sprintf("%v", a.GetSuicide())
		f[p+"roots"] = rootLabel(a.GetStorageRoot(), w.initRoots[i][0]) + rootLabel(a.GetAssetCodeRoot(), w.initRoots[i][1]) + rootLabel(a.GetAssetIdRoot(), w.initRoots[i][2]) + rootLabel(a.GetEquityRoot(), w.initRoots[i][3])
		f[p+"votes"] = a.GetVotes().String()
		vf := a.GetVoteFor()
		f[p+"votefor"] = new(big.Int).SetBytes(vf[:]).String()
		var ss []string
		for _, s := range a.GetSigners() {
			ss = append(ss, fmt.Sprintf("%s:%d", new(big.Int).SetBytes(s.Address[:]).String(), s.Weight))
		}
		f[p+"signers"] = strings.Join(ss, ",")
		// profile: lenient = pairs with non-empty value
		prof := a.GetCandidate()
		var ps []string
		for k := 1; k <= 3; k++ {
			ps = append(ps, fmt.Sprintf("%d", strVal(prof[fmt.Sprintf("k%d", k)])))
		}
		f[p+"profile"] = strings.Join(ps, ",")
		var st []string
		for k := 1; k <= 3; k++ {
			v, err := a.GetStorageState(hashN(k))
			if err != nil {
				st = append(st, "err")
			} else if len(v) == 0 {
				st = append(st, "0")
			} else {
				st = append(st, fmt.Sprintf("%d", v[len(v)-1]))
			}
		}
		f[p+"storage"] = strings.Join(st, ",")
		var ai []string
		for k := 1; k <= 2; k++ {
			v, err := a.GetAssetIdState(hashN(k))
			if err != nil {
				ai = append(ai, "0")
			} else {
				ai = append(ai, fmt.Sprintf("%d", strVal(v)))
			}
		}
		f[p+"assetid"] = strings.Join(ai, ",")
		var eq []string
		for k := 1; k <= 2; k++ {
			v, err := a.GetEquityState(hashN(k))
			if err != nil || v == nil {
				eq = append(eq, "-")
			} else {
				eq = append(eq, v.Equity.String())
			}
		}
		f[p+"equity"] = strings.Join(eq, ",")
		var ac []string
		for k := 1; k <= 2; k++ {
			v, err := a.GetAssetCode(hashN(k))
			if err != nil || v == nil {
				ac = append(ac, "-")
			} else {
				ac = append(ac, fmt.Sprintf("%s;%s;%s", v.TotalSupply.String(), profSlot(v.Profile, "k1"), profSlot(v.Profile, "k2")))
			}
		}
		f[p+"assetcode"] = strings.Join(ac, ",")
	}
	keys := make([]string, 0, len(f))
	for k := range f {
		keys = append(keys, k)
	}
	sort.Strings(keys)
	for _, k := range keys {
		sb.WriteString(k + "=" + f[k] + " ")
	}
	// journal: (addr index, type, version)
	sb.WriteString("J:")
	for _, l := range w.am.GetChangeLogs() {
		ai := -1
		for i, a := range c07Addrs {
			if a == l.Address {
				ai = i
			}
		}
		sb.WriteString(fmt.Sprintf("%d.%d.%d,", ai, l.LogType, l.Version))
	}
	// the pending-write (dirty) key sets of the four storage caches of every account: invisible to the getters above,
	// decisive for what Finalise publishes. Printed FIRST: a divergence must be visible in the first 300 characters
	return "D:" + c07DirtyDump(w.am) + " " + sb.String(), f
}

// ---- the script generator ----------------------------------------------------

func c07(c *Ctx) {
	dir, err := os.MkdirTemp("", "hx-c07-")
	if err != nil {
		panic(err)
	}
	defer os.RemoveAll(dir)
	db, gh := c07Genesis(dir)
	defer db.Close()
	// strict view of what a FRESH manager would load for the base block: nothing executed on a manager that is
	// later thrown away may change it ("discard leaves no trace"), not even by adding an empty-valued map key
	strictView := func() map[int]string {
		m := map[int]string{}
		adb, err := db.GetActDatabase(gh)
		if err != nil {
			return m
		}
		for i, addr := range c07Addrs {
			x, err := adb.Get(addr)
			if err != nil {
				m[i] = "absent"
				continue
			}
			var pk []string
			for k, v := range x.Candidate.Profile {
				pk = append(pk, k+"="+v)
			}
			sort.Strings(pk)
			var rk []string
			for k, v := range x.NewestRecords {
				rk = append(rk, fmt.Sprintf("%d:%d@%d", k, v.Version, v.Height))
			}
			sort.Strings(rk)
			m[i] = fmt.Sprintf("profile{%s} records{%s} bal=%v votes=%v signers=%v", strings.Join(pk, ","), strings.Join(rk, ","), x.Balance, x.Candidate.Votes, x.Signers)
		}
		return m
	}
	// taken before ANY manager has read the base block: a leak caused by a pure read is not part of the expectation
	leakBase := strictView()
	c07Merge(c)
	c07Copy(c)
	w := &c07World{}
	newWorld := func() {
		w.am = account.NewManager(gh, db)
		for i, addr := range c07Addrs {
			a := w.am.GetAccount(addr)
			w.initRoots[i] = [4]common.Hash{a.GetStorageRoot(), a.GetAssetCodeRoot(), a.GetAssetIdRoot(), a.GetEquityRoot()}
		}
	}
	newWorld()
	// describe the base block's state to the model, as read from the real manager — and compare what was read with
	// what c07Genesis wrote (the generator knows the base state by construction: a wrong load must not blind the model)
	var gotInit []string
	for i, addr := range c07Addrs {
		a := w.am.GetAccount(addr)
		ini := func(f string, args ...interface{}) {
			line := fmt.Sprintf("init %d ", i) + fmt.Sprintf(f, args...)
			gotInit = append(gotInit, line)
			c.Op(line, "ok")
		}
		ini("bal %s", a.GetBalance().String())
		ini("votes %s", a.GetVotes().String())
		vf := a.GetVoteFor()
		ini("votefor %s", new(big.Int).SetBytes(vf[:]).String())
		if ss := a.GetSigners(); len(ss) > 0 {
			parts := []string{"-"}
			for _, sg := range ss {
				parts = append(parts, fmt.Sprintf("%s:%d", new(big.Int).SetBytes(sg.Address[:]).String(), sg.Weight))
			}
			ini("signers %s", strings.Join(parts, " "))
		}
		for k := 1; k <= 3; k++ {
			if v := a.GetCandidateState(fmt.Sprintf("k%d", k)); v != "" {
				ini("profile %d %d", k, strVal(v))
			}
			if v, err := a.GetStorageState(hashN(k)); err == nil && len(v) > 0 {
				ini("storage %d %d", k, v[len(v)-1])
			}
		}
		if code, err := a.GetCode(); err == nil && len(code) > 0 {
			for id, cc := range c07Codes {
				if string(cc) == string(code) {
					ini("code %d", id)
				}
			}
		}
		for k := 1; k <= 2; k++ {
			if as, err := a.GetAssetCode(hashN(k)); err == nil && as != nil {
				ini("assetcode %d %s %s %s", k, as.TotalSupply.String(), profSlot(as.Profile, "k1"), profSlot(as.Profile, "k2"))
			}
			if v, err := a.GetAssetIdState(hashN(k)); err == nil {
				ini("assetid %d %d", k, strVal(v))
			}
			if e, err := a.GetEquityState(hashN(k)); err == nil && e != nil {
				ini("equity %d %s", k, e.Equity.String())
			}
		}
		for t := 1; t < 20; t++ {
			if v := a.GetVersion(types.ChangeLogType(t)); v != 0 {
				ini("base %d %d", t, v)
			}
		}
	}
	if strings.Join(gotInit, "\n") != strings.Join(c07WantInit, "\n") {
		c.Fail("c07/fed-fact/base-state", fmt.Sprintf("the base block's state as read through a fresh manager differs from what the genesis script wrote:\n read: %v\n want: %v", gotInit, c07WantInit), nil)
	}
	newWorld() // the reads above filled caches; start from a clean manager
	type snap struct {
		id    int
		obs   map[string]string
		ops   []string
		dirty [4][4][]string
	}
	var live []snap
	var script []string
	tainted := map[string]bool{}
	emptySui := map[string]bool{}
	leakSeen := map[string]bool{}
	opNo := 0
	emit := func(op, res string) {
		if op == "reset" || opNo%16 == 0 {
			for i, cur := range strictView() {
				if old := leakBase[i]; old != cur && !leakSeen[old+cur] {
					leakSeen[old+cur] = true
					tail := script
					if len(tail) > 12 {
						tail = tail[len(tail)-12:]
					}
					c.Fail("c07/discard-leaves-trace/base-view-changed", fmt.Sprintf("op#%d: the base block's view of account %d (what a fresh manager loads) changed although nothing was saved: %s  =>  %s ; last ops: %v", opNo, i, old, cur, tail), map[string]interface{}{"script": append([]string{}, script...)})
				}
			}
		}
		opNo++
		d, _ := w.observe()
		c.Op(op, res+" | "+d)
		script = append(script, op)
		for i := range live {
			live[i].ops = append(live[i].ops, op)
		}
	}
	// redoAtReset (C07's last clause, judged at journal level over ALL log kinds): the script's surviving change logs,
	// merged the way a block publishes them and sent through their RLP form, are replayed by RebuildAll onto the base
	// block; every observable attribute of the four accounts must equal the executed (not yet finalised) state.
	redoAtReset := func() {
		if len(script) == 0 {
			return
		}
		// values no transaction can produce (SetAssetCode(nil), an empty signer list, an empty candidate profile) are
		// accepted by the journal API and exercised by the revert part, but can never be in a block's published logs
		for _, o := range script {
			f := strings.Fields(o)
			if len(f) >= 3 && f[0] == "w" && (f[2] == "acnil" || (f[2] == "signers" && len(f) == 4) || (f[2] == "cand" && len(f) == 5 && f[3] == "0" && f[4] == "0")) {
				c.Count("redo-at-reset:skipped(script-has-values-no-tx-produces)")
				return
			}
		}
		// likewise a journal in which an asset is DEFINED (AssetCodeLog, written by CreateAssetTx only) after the same asset code was
		// already defined or touched earlier in the block: the code of an asset is the hash of its creating tx, a tx is in a block at
		// most once (verifyTxs), and nothing can touch an asset before its definition. The journal API accepts such a sequence
		// (the revert part exercises it), MergeChangeLogs is not order-faithful for it (the merged TotalSupply log lands in front of
		// the second definition: merge_redo_eq_partial's guard), but it can never be in a block's published logs.
		{
			type ak struct {
				a common.Address
				k common.Hash
			}
			touched := map[ak]bool{}
			for _, l := range w.am.GetChangeLogs() {
				var code common.Hash
				switch l.LogType {
				case account.AssetCodeLog, account.AssetCodeTotalSupplyLog:
					code, _ = l.Extra.(common.Hash)
				case account.AssetCodeStateLog:
					if ex, ok := l.Extra.(*account.ProfileChangeLogExtra); ok {
						code = ex.UUID
					}
				default:
					continue
				}
				key := ak{l.Address, code}
				if l.LogType == account.AssetCodeLog && touched[key] {
					c.Count("redo-at-reset:skipped(asset-defined-after-it-was-touched-in-the-same-block)")
					return
				}
				touched[key] = true
			}
		}
		_, executed := w.observe()
		var logs types.ChangeLogSlice
		if Safe(func() string { w.am.MergeChangeLogs(); logs = w.am.GetChangeLogs(); return "ok" }) != "ok" {
			c.Fail("c07/redo-failed/merge-panic", fmt.Sprintf("MergeChangeLogs panicked after script %v", script), map[string]interface{}{"script": append([]string{}, script...)})
			return
		}
		blk := &types.Block{Header: &types.Header{ParentHash: gh, Height: 1}, ChangeLogs: logs}
		am2 := account.NewManager(gh, db)
		res := Safe(func() string {
			if err := am2.RebuildAll(CloneBlock(blk)); err != nil {
				return "err " + err.Error()
			}
			return "ok"
		})
		c.Count("redo-at-reset:" + res)
		if res != "ok" {
			// which log? the shortest prefix of the published list that RebuildAll refuses
			culprit, kind := "?", "?"
			for k := 1; k <= len(logs); k++ {
				pb := &types.Block{Header: &types.Header{ParentHash: gh, Height: 1}, ChangeLogs: logs[:k]}
				if Safe(func() string {
					if err := account.NewManager(gh, db).RebuildAll(CloneBlock(pb)); err != nil {
						return "err"
					}
					return "ok"
				}) != "ok" {
					culprit, kind = logs[k-1].String(), logs[k-1].LogType.String()
					break
				}
			}
			c.Fail("c07/redo-failed/journal/"+kind, fmt.Sprintf("RebuildAll of the %d merged logs of the script: %s at log %s; script: %v", len(logs), res, culprit, script), map[string]interface{}{"script": append([]string{}, script...)})
			return
		}
		_, redone := (&c07World{am: am2, initRoots: w.initRoots}).observe()
		reported := map[string]bool{}
		for key, want := range executed {
			if redone[key] == want {
				continue
			}
			acct := key[1:strings.Index(key, ".")]
			field := key[strings.Index(key, ".")+1:]
			if field == "sui" && emptySui[acct] {
				c.Count("redo-at-reset:flag-of-empty-self-destructed-account-not-compared")
				continue
			}
			// shrink to a minimal script with the same mismatch — first without any self-destruct of this account, so that
			// a defect that does not need one is not filed under the self-destruct findings
			bad := func(ops []string) bool {
				r := c07Exec(db, gh, w.initRoots, ops)
				return !r.panicked && r.redo == "ok" && r.redone[key] != r.executed[key]
			}
			keep := make([]bool, len(script))
			for i, o := range script {
				keep[i] = o != "w "+acct+" sui"
			}
			min := c07Renumber(script, keep)
			if !bad(min) {
				min = script
			}
			if bad(min) {
				min = c07Shrink(min, bad)
			} else {
				c.Count("redo-at-reset:mismatch-not-reproduced-by-replay")
			}
			hasSui, revertedSui := c07SuiClass(min, acct)
			sig := "c07/redo-mismatch/journal/" + field
			if hasSui {
				// the account self-destructs in the minimal script: logs merged in front of the SuicideLog (listed)
				sig = "c07/redo-mismatch/account-with-suicide-log/journal/" + field
			}
			if revertedSui {
				// a SetSuicide on this account is REVERTED in the minimal script: the executed state is the damaged one
				// (listed suicide-undo findings); the replay of the logs does not reproduce the damage
				sig = "c07/redo-mismatch/after-suicide-undo/journal/" + field
			}
			r := c07Exec(db, gh, w.initRoots, min)
			if hasSui && !revertedSui {
				pub := false
				ai, _ := strconv.Atoi(acct)
				for _, t := range r.published[c07Addrs[ai]] {
					pub = pub || t == "SuicideLog"
				}
				if !pub {
					// the SuicideLog itself is missing from the published list (dropped as "not valuable": the account had
					// no balance, code hash or COMMITTED storage root at that moment) although writes of the block precede it
					sig = "c07/redo-mismatch/suicide-log-not-published/journal/" + field
				}
			}
			if reported[sig] {
				continue
			}
			reported[sig] = true
			c.Fail(sig, fmt.Sprintf("replaying the merged logs onto the base block: %s = %s, the executed state has %s; minimal script (%d of %d ops): %v", key, r.redone[key], r.executed[key], len(min), len(script), min),
				map[string]interface{}{"script": min, "full_script": append([]string{}, script...)})
		}
	}
	// finish: the episode ends regularly. After the redo oracle (which looks at the un-finalised state), the `fin` op:
	// MergeChangeLogs + Finalise on the real manager, the published list (merged logs, versions, root logs) compared with
	// the model's `publish`; then the oracle c07/discard-leaves-trace/finalise on the same script.
	abnormal := false
	finish := func() {
		if abnormal || len(script) == 0 {
			return
		}
		p := c07Fin(w.am, w.initRoots)
		c.Op("fin", p.line)
		switch {
		case p.line == "fin err" || p.line == "fin panic":
			c.Count("op:" + strings.Replace(p.line, " ", ":", 1))
		case p.line == "fin ":
			c.Count("op:fin:nothing-published")
		default:
			c.Count("op:fin:ok")
		}
		if strings.Contains(p.line, ":0>") {
			c.Count("nontrivial:c07:fin:root-log-from-zero-root")
		}
		if strings.Contains(p.line, ":R>") {
			c.Count("nontrivial:c07:fin:root-log-from-committed-root")
		}
		if strings.Contains(p.line, ">E") {
			c.Count("nontrivial:c07:fin:new-root-is-empty-trie")
		}
		c07FinaliseOracle(c, db, gh, w.initRoots, script)
	}
	reset := func() {
		redoAtReset()
		finish()
		abnormal = false
		tainted = map[string]bool{}
		emptySui = map[string]bool{}
		newWorld()
		live = nil
		script = nil
		emit("reset", "ok")
	}
	emit("reset", "ok")
	errStr := func(err error) string {
		if err == nil {
			return "ok"
		}
		return "err"
	}
	doSnap := func() {
		id := w.am.Snapshot()
		_, obs := w.observe()
		live = append(live, snap{id: id, obs: obs, dirty: c07DirtyKeys(w.am)})
		c.Count("op:snapshot")
		emit("snap", fmt.Sprintf("snap %d", id))
	}
	// doRevert reverts to live[k]; false = RevertToSnapshot panicked (reported, episode reset)
	doRevert := func(k int) bool {
		s := live[k]
		res, msg := SafeMsg(func() string { w.am.RevertToSnapshot(s.id); return "ok" })
		c.Count("op:revert:" + res)
		c.Count(fmt.Sprintf("revert-depth:%d", len(live)-k))
		if res == "panic" {
			c.Fail("c07/revert-panic/"+panicClass(msg), fmt.Sprintf("RevertToSnapshot(%d) panicked: %s; ops since snapshot: %v", s.id, msg, s.ops), map[string]interface{}{"script": append(append([]string{}, script...), fmt.Sprintf("rev %d", s.id))})
			c.Op(fmt.Sprintf("rev %d", s.id), "panic")
			abnormal = true
			reset()
			return false
		}
		for _, o := range s.ops {
			if strings.HasPrefix(o, "w ") && strings.HasSuffix(o, " sui") {
				tainted[strings.Fields(o)[1]] = true
			}
		}
		_, now := w.observe()
		for key, want := range s.obs {
			if now[key] != want {
				field := key[strings.Index(key, ".")+1:]
				// classify: does the reverted span contain a SetSuicide on this very account — or was a
				// SetSuicide on it already reverted earlier in this script (the account then stays damaged:
				// code object dropped, storage cache reset), so that later snapshots record the damage?
				acct := key[1:strings.Index(key, ".")]
				sui := tainted[acct]
				for _, o := range s.ops {
					if o == "w "+acct+" sui" {
						sui = true
						break
					}
				}
				if sui {
					field += "/after-suicide-undo"
				}
				c.Fail("c07/revert-mismatch/"+field, fmt.Sprintf("after RevertToSnapshot(%d): %s = %s, at snapshot it was %s; ops since snapshot: %v", s.id, key, now[key], want, s.ops),
					map[string]interface{}{"script": append(append([]string{}, script...), fmt.Sprintf("rev %d", s.id))})
			}
		}
		// the pending-write sets are part of the state a revert has to give back (strict, on the real code): a write that
		// stays queued is invisible to every getter above and still changes what Finalise publishes
		nowDirty := c07DirtyKeys(w.am)
		for i := range c07Addrs {
			acct := fmt.Sprint(i)
			sui := tainted[acct]
			for t := 0; t < 4; t++ {
				got, want := strings.Join(nowDirty[i][t], ","), strings.Join(s.dirty[i][t], ",")
				if got == want {
					continue
				}
				if sui {
					// SetStorageRoot / SetAssetCodeRoot / SetAssetIdRoot reset the caches (listed suicide-undo findings; the model reproduces it)
					c.Count("revert-dirty:differs-after-suicide-undo(listed)")
					continue
				}
				if t == 1 && c07OnlyNoopAssetCode(w.am, i, s.dirty[i][t], nowDirty[i][t]) {
					// undoAssetCode / undoAssetCodeState / undoAssetCodeTotalSupply restore through SetAssetCode(code, old): for an asset
					// that was committed and not queued, a write of its committed value stays queued. The asset-code root of such an
					// account is not zero, the write does not change the trie: nothing is published (Lean: assetcode_undo_leaves_noop_dirty,
					// noop_dirty_publishes_nothing). Counted, not failed.
					c.Count("nontrivial:c07:assetcode-undo-leaves-noop-pending-write")
					continue
				}
				c.Fail("c07/revert-mismatch/dirty/"+c07TrieNames[t], fmt.Sprintf("after RevertToSnapshot(%d): the pending-write (dirty) key set of the %s cache of account %d is {%s}, at the snapshot it was {%s}; ops since snapshot: %v", s.id, c07TrieNames[t], i, got, want, s.ops),
					map[string]interface{}{"script": append(append([]string{}, script...), fmt.Sprintf("rev %d", s.id))})
			}
		}
		live = live[:k]
		emit(fmt.Sprintf("rev %d", s.id), "ok")
		return true
	}
	// directed scripts first: the first write of a zero-root account inside a reverted span (see c07Directed)
	for _, ds := range c07Directed() {
		ok := true
		for _, o := range ds {
			f := strings.Fields(o)
			switch {
			case o == "snap":
				doSnap()
			case f[0] == "rev":
				id, _ := strconv.Atoi(f[1])
				k := -1
				for i := range live {
					if live[i].id == id {
						k = i
					}
				}
				if k < 0 || !doRevert(k) {
					ok = false
				}
			default:
				res := c07ApplyWrite(w.am, f)
				c.Count("op:w:" + f[2] + ":" + res)
				if res == "panic" {
					c.Op(o, "panic")
					abnormal = true
					ok = false
				} else {
					emit(o, res)
				}
			}
			if !ok {
				break
			}
		}
		c.Count("directed-script")
		if ok || abnormal {
			reset()
		}
	}
	exactOnly := false
	for n := 0; n < c.N; n++ {
		if n%60 == 59 {
			reset()
			exactOnly = c.Rnd.Intn(2) == 0 // half of the scripts use only the kinds the _partial theorem covers
		}
		r := c.Rnd.Intn(100)
		switch {
		case r < 14:
			doSnap()
		case r < 28 && len(live) > 0:
			// revert to a live snapshot (usually the newest, sometimes deeper)
			k := len(live) - 1
			if c.Rnd.Intn(4) == 0 {
				k = c.Rnd.Intn(len(live))
			}
			doRevert(k)
		default:
			ai := c.Rnd.Intn(4)
			a := w.am.GetAccount(c07Addrs[ai])
			isContract := ai == 1 || ai == 3
			var kind int
			if isContract {
				// what contract execution can do to a contract account
				kind = []int{0, 0, 4, 4, 4, 7, 6, 13, 14, 12}[c.Rnd.Intn(10)]
				if c.Rnd.Intn(12) == 0 {
					// the journal API does not stop an account with code from defining assets (in the deployed flows only
					// externally owned accounts do): lets SetSuicide meet asset roots
					kind = []int{5, 8, 8}[c.Rnd.Intn(3)]
				}
				if exactOnly {
					kind = []int{0, 4, 4, 7, 6}[c.Rnd.Intn(5)]
				}
				if kind == 12 {
					if code, _ := a.GetCode(); len(code) > 0 || a.GetSuicide() {
						kind = 4 // Create refuses an address that already has code
					}
				}
			} else {
				kind = []int{0, 1, 2, 3, 5, 6, 7, 8, 9, 10, 11, 11}[c.Rnd.Intn(12)]
			}
			if kind == 9 || kind == 10 {
				// the tx code checks that the asset exists before touching its state / supply
				as1, e1 := a.GetAssetCode(hashN(1))
				as2, e2 := a.GetAssetCode(hashN(2))
				if (e1 != nil || as1 == nil) && (e2 != nil || as2 == nil) {
					kind = 8
				}
			}
			var op, res string
			switch kind {
			case 0:
				v := c.Rnd.Intn(2000)
				if c.Rnd.Intn(4) == 0 {
					// a NO-OP write (what every zero-value transfer does: it writes the balance it has read): journalled like
					// any other write, dropped only when the block's logs are published (removeUnchanged). The value only
					// selects the input; the model gets the literal
					if cur := a.GetBalance(); cur != nil && cur.IsInt64() && cur.Sign() >= 0 {
						v = int(cur.Int64())
						c.Count("nontrivial:c07:no-op-balance-write")
					}
				}
				op, res = fmt.Sprintf("w %d bal %d", ai, v), Safe(func() string { a.SetBalance(big.NewInt(int64(v))); return "ok" })
			case 1:
				v := c.Rnd.Intn(50)
				op, res = fmt.Sprintf("w %d votes %d", ai, v), Safe(func() string { a.SetVotes(big.NewInt(int64(v))); return "ok" })
			case 2:
				v := c.Rnd.Intn(4)
				op, res = fmt.Sprintf("w %d votefor %d", ai, v), Safe(func() string { a.SetVoteFor(common.BigToAddress(big.NewInt(int64(v)))); return "ok" })
			case 3:
				n := c.Rnd.Intn(3)
				var ss types.Signers
				var parts []string
				for i := 0; i < n; i++ {
					ad, wt := 1+c.Rnd.Intn(5), 1+c.Rnd.Intn(100)
					ss = append(ss, types.SignAccount{Address: common.BigToAddress(big.NewInt(int64(ad))), Weight: uint8(wt)})
					parts = append(parts, fmt.Sprintf("%d:%d", ad, wt))
				}
				op, res = fmt.Sprintf("w %d signers %s", ai, strings.Join(append([]string{"-"}, parts...), " ")), Safe(func() string { return errStr(a.SetSingers(ss)) })
			case 4:
				k, v := 1+c.Rnd.Intn(3), c.Rnd.Intn(5)
				var val []byte
				if v != 0 {
					val = []byte{byte(v)}
				}
				op, res = fmt.Sprintf("w %d sto %d %d", ai, k, v), Safe(func() string { return errStr(a.SetStorageState(hashN(k), val)) })
			case 5:
				k, v := 1+c.Rnd.Intn(2), c.Rnd.Intn(4)
				op, res = fmt.Sprintf("w %d aid %d %d", ai, k, v), Safe(func() string { return errStr(a.SetAssetIdState(hashN(k), valStr(v))) })
			case 6, 7:
				k, v := 1+c.Rnd.Intn(2), c.Rnd.Intn(60)
				if kind == 7 || c.Rnd.Intn(5) > 0 {
					op, res = fmt.Sprintf("w %d eq %d %d", ai, k, v), Safe(func() string {
						return errStr(a.SetEquityState(hashN(k), &types.AssetEquity{AssetCode: hashN(k), AssetId: hashN(k), Equity: big.NewInt(int64(v))}))
					})
				} else {
					op, res = fmt.Sprintf("w %d eqnil %d", ai, k), Safe(func() string { return errStr(a.SetEquityState(hashN(k), nil)) })
				}
			case 8:
				k, s, p1 := 1+c.Rnd.Intn(2), c.Rnd.Intn(900), c.Rnd.Intn(4)
				if c.Rnd.Intn(5) == 0 {
					op, res = fmt.Sprintf("w %d acnil %d", ai, k), Safe(func() string { return errStr(a.SetAssetCode(hashN(k), nil)) })
				} else {
					op, res = fmt.Sprintf("w %d ac %d %d %d", ai, k, s, p1), Safe(func() string { return errStr(a.SetAssetCode(hashN(k), c07Asset(k, int64(s), map[int]int{1: p1}))) })
				}
			case 9:
				k, pk, v := 1+c.Rnd.Intn(2), 1+c.Rnd.Intn(2), c.Rnd.Intn(4)
				if as, err := a.GetAssetCode(hashN(k)); err != nil || as == nil {
					k = 3 - k
				}
				op, res = fmt.Sprintf("w %d acs %d %d %d", ai, k, pk, v), Safe(func() string { return errStr(a.SetAssetCodeState(hashN(k), fmt.Sprintf("k%d", pk), valStr(v))) })
			case 10:
				k, v := 1+c.Rnd.Intn(2), c.Rnd.Intn(900)
				if as, err := a.GetAssetCode(hashN(k)); err != nil || as == nil {
					k = 3 - k
				}
				op, res = fmt.Sprintf("w %d act %d %d", ai, k, v), Safe(func() string { return errStr(a.SetAssetCodeTotalSupply(hashN(k), big.NewInt(int64(v)))) })
			case 11:
				if c.Rnd.Intn(3) == 0 {
					p := make(types.Profile)
					v1, v2 := c.Rnd.Intn(4), c.Rnd.Intn(4)
					if v1 != 0 {
						p["k1"] = valStr(v1)
					}
					if v2 != 0 {
						p["k2"] = valStr(v2)
					}
					op, res = fmt.Sprintf("w %d cand %d %d", ai, v1, v2), Safe(func() string { a.SetCandidate(p); return "ok" })
				} else {
					k, v := 1+c.Rnd.Intn(3), c.Rnd.Intn(4)
					op, res = fmt.Sprintf("w %d cs %d %d", ai, k, v), Safe(func() string { a.SetCandidateState(fmt.Sprintf("k%d", k), valStr(v)); return "ok" })
				}
			case 12:
				id := 1 + c.Rnd.Intn(2)
				op, res = fmt.Sprintf("w %d code %d", ai, id), Safe(func() string { a.SetCode(c07Codes[id]); return "ok" })
			case 13:
				op, res = fmt.Sprintf("w %d ev", ai), Safe(func() string {
					a.PushEvent(&types.Event{Address: c07Addrs[ai], Topics: []common.Hash{hashN(1)}, Data: []byte{1}})
					return "ok"
				})
			case 14:
				// a self-destruct of an account that is empty at that moment (no balance, code or storage — e.g. init code that
				// self-destructs) publishes no SuicideLog (not "valuable"): executed = deleted, replayed = never there; the
				// un-finalised flag differs, the saved states do not — the redo oracle does not compare the flag then
				if code, _ := a.GetCode(); a.GetBalance().Sign() == 0 && len(code) == 0 && (a.GetStorageRoot() == common.Hash{}) {
					emptySui[fmt.Sprint(ai)] = true
				}
				op, res = fmt.Sprintf("w %d sui", ai), Safe(func() string { a.SetSuicide(true); return "ok" })
			}
			c.Count("op:w:" + strings.Fields(op)[2] + ":" + res)
			if res == "panic" {
				c.Op(op, "panic")
				abnormal = true
				reset()
				continue
			}
			emit(op, res)
		}
	}
}

func panicClass(msg string) string {
	switch {
	case strings.Contains(msg, "version"):
		return "changelog-version"
	case strings.Contains(msg, "change log data"), strings.Contains(msg, "changelog data"), strings.Contains(msg, "wrong"):
		return "wrong-changelog-data"
	case strings.Contains(msg, "nil pointer"):
		return "nil-deref"
	case strings.Contains(msg, "revision"):
		return "revision"
	}
	if len(msg) > 40 {
		msg = msg[:40]
	}
	return strings.ReplaceAll(strings.ReplaceAll(msg, " ", "-"), "/", "-")
}

package main

import (
	"fmt"
	"math/big"
	"sort"
	"strings"

	"github.com/LemoFoundationLtd/lemochain-core/chain/types"
)

// c07Copy ties LemoModel.CopyHeap to types.AccountData.Copy: for every shape of the two map fields (nil, empty,
// n entries) the REAL Copy is taken, the given writes go through the copy's maps, and the content of the SOURCE
// and of the copy is printed.  op: `copy <p> <r> f:k:v ...`  with p, r in {nil, e, n1, n2, ...}
func c07Copy(c *Ctx) {
	shapes := []string{"nil", "e", "n1", "n2", "n3"}
	mkProfile := func(s string) types.Profile {
		switch s {
		case "nil":
			return nil
		case "e":
			return types.Profile{}
		}
		p := types.Profile{}
		for i := 1; i <= int(s[1]-'0'); i++ {
			p[fmt.Sprint(i)] = "7"
		}
		return p
	}
	mkRecords := func(s string) map[types.ChangeLogType]types.VersionRecord {
		switch s {
		case "nil":
			return nil
		case "e":
			return map[types.ChangeLogType]types.VersionRecord{}
		}
		m := map[types.ChangeLogType]types.VersionRecord{}
		for i := 1; i <= int(s[1]-'0'); i++ {
			m[types.ChangeLogType(i)] = types.VersionRecord{Version: 7}
		}
		return m
	}
	showP := func(p types.Profile) string {
		var l []string
		for k, v := range p {
			l = append(l, k+"="+v)
		}
		sort.Strings(l)
		return "{" + strings.Join(l, ",") + "}"
	}
	showR := func(m map[types.ChangeLogType]types.VersionRecord) string {
		var l []string
		for k, v := range m {
			l = append(l, fmt.Sprintf("%d=%d", k, v.Version))
		}
		sort.Strings(l)
		return "{" + strings.Join(l, ",") + "}"
	}
	run := func(ps, rs string, ws [][3]int) {
		src := &types.AccountData{Balance: big.NewInt(1), Candidate: types.Candidate{Profile: mkProfile(ps)}, NewestRecords: mkRecords(rs)}
		cp := src.Copy()
		var words []string
		for _, w := range ws {
			words = append(words, fmt.Sprintf("%d:%d:%d", w[0], w[1], w[2]))
			if w[0] == 0 {
				if cp.Candidate.Profile == nil { // what NewAccount / SetCandidateState do
					cp.Candidate.Profile = make(types.Profile)
				}
				cp.Candidate.Profile[fmt.Sprint(w[1])] = fmt.Sprint(w[2])
			} else {
				if cp.NewestRecords == nil {
					cp.NewestRecords = make(map[types.ChangeLogType]types.VersionRecord)
				}
				cp.NewestRecords[types.ChangeLogType(w[1])] = types.VersionRecord{Version: uint32(w[2])}
			}
		}
		c.Count("copy:profile-" + ps[:1] + ":records-" + rs[:1])
		c.Op(strings.TrimSpace(fmt.Sprintf("copy %s %s %s", ps, rs, strings.Join(words, " "))),
			fmt.Sprintf("src.profile=%s src.records=%s cpy.profile=%s cpy.records=%s", showP(src.Candidate.Profile), showR(src.NewestRecords), showP(cp.Candidate.Profile), showR(cp.NewestRecords)))
	}
	// all shape pairs with no write, one write per field, and random write lists
	for _, ps := range shapes {
		for _, rs := range shapes {
			run(ps, rs, nil)
			run(ps, rs, [][3]int{{0, 5, 9}})
			run(ps, rs, [][3]int{{1, 5, 9}})
			for k := 0; k < 2+c.N/2000; k++ {
				var ws [][3]int
				for i := c.Rnd.Intn(6); i >= 0; i-- {
					ws = append(ws, [3]int{c.Rnd.Intn(2), 1 + c.Rnd.Intn(6), 1 + c.Rnd.Intn(9)})
				}
				run(ps, rs, ws)
			}
		}
	}
}

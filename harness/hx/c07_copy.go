package main

import (
	"fmt"
	"math/big"
	"sort"
	"strings"

	"github.com/LemoFoundationLtd/lemochain-core/chain/account"
	"github.com/LemoFoundationLtd/lemochain-core/chain/types"
	"github.com/LemoFoundationLtd/lemochain-core/common"
)

// c07Copy ties LemoModel.CopyHeap to types.AccountData.Copy: for every shape of the two map fields (nil, empty,
// n entries) the REAL Copy is taken, the given writes go through the copy's maps, and the content of the SOURCE
// and of the copy is printed.  op: `copy <p> <r> f:k:v ...`  with p, r in {nil, e, n1, n2, ...}
func c07Copy(c *Ctx) {
	shapes := []string{"nil", "e", "n1", "n2", "n3"}
	mkProfile := func(s string) types.Profile {
		switch s {
		case "nil":
			return nil
		case "e":
			return types.Profile{}
		}
		p := types.Profile{}
		for i := 1; i <= int(s[1]-'0'); i++ {
			p[fmt.Sprint(i)] = "7"
		}
		return p
	}
	mkRecords := func(s string) map[types.ChangeLogType]types.VersionRecord {
		switch s {
		case "nil":
			return nil
		case "e":
			return map[types.ChangeLogType]types.VersionRecord{}
		}
		m := map[types.ChangeLogType]types.VersionRecord{}
		for i := 1; i <= int(s[1]-'0'); i++ {
			m[types.ChangeLogType(i)] = types.VersionRecord{Version: 7}
		}
		return m
	}
	showP := func(p types.Profile) string {
		var l []string
		for k, v := range p {
			l = append(l, k+"="+v)
		}
		sort.Strings(l)
		return "{" + strings.Join(l, ",") + "}"
	}
	showR := func(m map[types.ChangeLogType]types.VersionRecord) string {
		var l []string
		for k, v := range m {
			l = append(l, fmt.Sprintf("%d=%d", k, v.Version))
		}
		sort.Strings(l)
		return "{" + strings.Join(l, ",") + "}"
	}
	run := func(ps, rs string, ws [][3]int) {
		src := &types.AccountData{Balance: big.NewInt(1), Candidate: types.Candidate{Profile: mkProfile(ps)}, NewestRecords: mkRecords(rs)}
		cp := src.Copy()
		var words []string
		for _, w := range ws {
			words = append(words, fmt.Sprintf("%d:%d:%d", w[0], w[1], w[2]))
			if w[0] == 0 {
				if cp.Candidate.Profile == nil { // what NewAccount / SetCandidateState do
					cp.Candidate.Profile = make(types.Profile)
				}
				cp.Candidate.Profile[fmt.Sprint(w[1])] = fmt.Sprint(w[2])
			} else {
				if cp.NewestRecords == nil {
					cp.NewestRecords = make(map[types.ChangeLogType]types.VersionRecord)
				}
				cp.NewestRecords[types.ChangeLogType(w[1])] = types.VersionRecord{Version: uint32(w[2])}
			}
		}
		c.Count("copy:profile-" + ps[:1] + ":records-" + rs[:1])
		c.Op(strings.TrimSpace(fmt.Sprintf("copy %s %s %s", ps, rs, strings.Join(words, " "))),
			fmt.Sprintf("src.profile=%s src.records=%s cpy.profile=%s cpy.records=%s", showP(src.Candidate.Profile), showR(src.NewestRecords), showP(cp.Candidate.Profile), showR(cp.NewestRecords)))
	}
	// the slice field: Copy shares the backing array of Signers; SetSingers through an account made from the data
	// (NewAccount copies the data the way the store's account database does) must not change what the source shows.
	// op: `copysig <n> <list> ...`  — source has signers 1..n; each list is what one SetSingers call gets
	runSig := func(n int, lists [][]int) {
		src := &types.AccountData{Balance: big.NewInt(1)}
		for i := 1; i <= n; i++ {
			src.Signers = append(src.Signers, types.SignAccount{Address: common.BigToAddress(big.NewInt(int64(i))), Weight: 1})
		}
		acc := account.NewAccount(nil, common.Address{}, src)
		var words []string
		for _, l := range lists {
			var ss types.Signers
			var parts []string
			for _, x := range l {
				ss = append(ss, types.SignAccount{Address: common.BigToAddress(big.NewInt(int64(x))), Weight: 1})
				parts = append(parts, fmt.Sprint(x))
			}
			if len(parts) == 0 {
				words = append(words, "-")
			} else {
				words = append(words, strings.Join(parts, ","))
			}
			acc.SetSingers(ss)
		}
		show := func(ss types.Signers) string {
			var l []string
			for _, s := range ss {
				l = append(l, new(big.Int).SetBytes(s.Address[:]).String())
			}
			return "[" + strings.Join(l, ",") + "]"
		}
		c.Count(fmt.Sprintf("copysig:source-len-%d", n))
		res := fmt.Sprintf("src=%s cpy=%s", show(src.Signers), show(acc.GetSigners()))
		c.Op(strings.TrimSpace(fmt.Sprintf("copysig %d %s", n, strings.Join(words, " "))), res)
		// direct oracle (C07 "discard leaves no trace", slice field)
		for i, s := range src.Signers {
			if new(big.Int).SetBytes(s.Address[:]).Int64() != int64(i+1) {
				c.Fail("c07/discard-leaves-trace/signers-of-source-changed", fmt.Sprintf("AccountData with %d signers; SetSingers %v through an account made from a copy of it: the SOURCE now shows %s", n, words, show(src.Signers)), nil)
				break
			}
		}
	}
	for n := 0; n <= 4; n++ {
		runSig(n, nil)
		for l := 0; l <= 5; l++ {
			var one []int
			for i := 0; i < l; i++ {
				one = append(one, 9-i)
			}
			runSig(n, [][]int{one})
		}
		for k := 0; k < 4+c.N/2000; k++ {
			var lists [][]int
			for i := c.Rnd.Intn(4); i >= 0; i-- {
				var one []int
				for j := c.Rnd.Intn(6); j > 0; j-- {
					one = append(one, 5+c.Rnd.Intn(5))
				}
				lists = append(lists, one)
			}
			runSig(n, lists)
		}
	}
	// all shape pairs with no write, one write per field, and random write lists
	for _, ps := range shapes {
		for _, rs := range shapes {
			run(ps, rs, nil)
			run(ps, rs, [][3]int{{0, 5, 9}})
			run(ps, rs, [][3]int{{1, 5, 9}})
			for k := 0; k < 2+c.N/2000; k++ {
				var ws [][3]int
				for i := c.Rnd.Intn(6); i >= 0; i-- {
					ws = append(ws, [3]int{c.Rnd.Intn(2), 1 + c.Rnd.Intn(6), 1 + c.Rnd.Intn(9)})
				}
				run(ps, rs, ws)
			}
		}
	}
}

package main

import (
	"fmt"
	"math/big"
	"strconv"
	"strings"

	"github.com/LemoFoundationLtd/lemochain-core/chain/account"
	"github.com/LemoFoundationLtd/lemochain-core/chain/types"
	"github.com/LemoFoundationLtd/lemochain-core/common"
	"github.com/LemoFoundationLtd/lemochain-core/common/rlp"
	"github.com/LemoFoundationLtd/lemochain-core/store"
)

// C07, the pending-write layer: the `dirty` sets of the four StorageCaches of an account are invisible to every getter
// but decide what Manager.Finalise publishes (a queued no-op write turns a zero root into the empty trie's hash).
//   * c07DirtyDump      the key sets after every op (compared with LemoModel.JournalDirty by the driver)
//   * c07Fin            the `fin` op: MergeChangeLogs + Finalise on the real manager, the published list printed canonically
//   * c07FinDiff        oracle c07/discard-leaves-trace/finalise: a script with reverted spans publishes exactly what the
//                       script with those spans cut out publishes (types, addresses, versions, values, root logs)
//   * c07Directed       scripts that put the first write of a fresh (zero-root) account inside a reverted span

var c07EmptyTrieRoot = common.HexToHash("0x56e81f171bcc55a6ff8345e692c0f86e5b48e01b996cadc001622fb5e363b421")

var c07TrieNames = [4]string{"storage", "assetcode", "assetid", "equity"}

// c07DirtyKeys: per account, per trie, the queued keys as the generator's small integers
func c07DirtyKeys(am *account.Manager) (out [4][4][]string) {
	for i, addr := range c07Addrs {
		keys, ok := account.VerifDirtyKeys(am.GetAccount(addr))
		if !ok {
			for t := 0; t < 4; t++ {
				out[i][t] = []string{"?"}
			}
			continue
		}
		for t := 0; t < 4; t++ {
			for _, k := range keys[t] {
				out[i][t] = append(out[i][t], new(big.Int).SetBytes(k[:]).String())
			}
		}
	}
	return
}

func c07DirtyDump(am *account.Manager) string {
	d := c07DirtyKeys(am)
	var sb strings.Builder
	for i := range c07Addrs {
		sb.WriteString(fmt.Sprintf("%d[%s|%s|%s|%s]", i, strings.Join(d[i][0], ","), strings.Join(d[i][1], ","), strings.Join(d[i][2], ","), strings.Join(d[i][3], ",")))
	}
	return sb.String()
}

func c07AddrIdx(a common.Address) int {
	for i, x := range c07Addrs {
		if x == a {
			return i
		}
	}
	return -1
}

type c07Published struct {
	line  string   // canonical `fin` answer
	wire  []string // hex RLP of every published log (what a block carries), in order
	text  []string // readable form, same order
	addrs []int    // account index of every log
	kinds []string
}

// c07Fin runs MergeChangeLogs + Finalise on the manager and describes the published change-log list.
// Root logs are printed `addr.type.version:old>new` with old/new ∈ 0 (zero hash), E (hash of the empty trie),
// R (the root the account was loaded with), X (anything else); other logs `addr.type.version`.
func c07Fin(am *account.Manager, initRoots [4][4]common.Hash) (p c07Published) {
	res := Safe(func() string {
		am.MergeChangeLogs()
		if err := am.Finalise(); err != nil {
			return "err"
		}
		return "ok"
	})
	if res != "ok" {
		p.line = "fin " + res
		return
	}
	label := func(h common.Hash, init common.Hash) string {
		switch {
		case h == (common.Hash{}):
			return "0"
		case h == c07EmptyTrieRoot:
			return "E"
		case h == init:
			return "R"
		}
		return "X"
	}
	var ents []string
	for _, l := range am.GetChangeLogs() {
		ai := c07AddrIdx(l.Address)
		e := fmt.Sprintf("%d.%d.%d", ai, l.LogType, l.Version)
		trie := -1
		switch l.LogType {
		case account.StorageRootLog:
			trie = 0
		case account.AssetCodeRootLog:
			trie = 1
		case account.AssetIdRootLog:
			trie = 2
		case account.EquityRootLog:
			trie = 3
		}
		if trie >= 0 && ai >= 0 {
			o, _ := l.OldVal.(common.Hash)
			n, _ := l.NewVal.(common.Hash)
			e += ":" + label(o, initRoots[ai][trie]) + ">" + label(n, initRoots[ai][trie])
		}
		ents = append(ents, e)
		b, err := rlp.EncodeToBytes(l)
		if err != nil {
			p.wire = append(p.wire, "unencodable:"+l.String())
		} else {
			p.wire = append(p.wire, common.ToHex(b))
		}
		p.text = append(p.text, fmt.Sprintf("a%d %s", ai, l.String()))
		p.addrs = append(p.addrs, ai)
		p.kinds = append(p.kinds, l.LogType.String())
	}
	p.line = "fin " + strings.Join(ents, ",")
	return
}

// c07CutReverted removes every reverted span (`snap` … `rev id`, both inclusive, with everything nested in it) from a
// script. nSpans = number of `rev` ops; sui[acct] = the account self-destructs inside a reverted span (the listed
// suicide-undo findings: the revert is not exact there).
func c07CutReverted(ops []string) (cut []string, nSpans int, sui map[string]bool) {
	sui = map[string]bool{}
	keep := make([]bool, len(ops))
	var snapAt []int
	for i, o := range ops {
		keep[i] = true
		switch {
		case o == "snap":
			snapAt = append(snapAt, i)
		case strings.HasPrefix(o, "rev "):
			id, _ := strconv.Atoi(o[4:])
			if id < len(snapAt) {
				nSpans++
				for j := snapAt[id]; j <= i; j++ {
					if keep[j] {
						if f := strings.Fields(ops[j]); len(f) == 3 && f[0] == "w" && f[2] == "sui" {
							sui[f[1]] = true
						}
					}
					keep[j] = false
				}
			}
		}
	}
	return c07Renumber(ops, keep), nSpans, sui
}

// c07RunScript executes a script on a fresh manager over the base block. ok = false: a step panicked.
func c07RunScript(db *store.ChainDatabase, gh common.Hash, ops []string) (am *account.Manager, ok bool) {
	am = account.NewManager(gh, db)
	for _, o := range ops {
		f := strings.Fields(o)
		switch {
		case o == "reset" || o == "fin" || len(f) == 0:
		case o == "snap":
			if Safe(func() string { am.Snapshot(); return "ok" }) == "panic" {
				return am, false
			}
		case f[0] == "rev":
			id, _ := strconv.Atoi(f[1])
			if Safe(func() string { am.RevertToSnapshot(id); return "ok" }) == "panic" {
				return am, false
			}
		case f[0] == "w":
			if c07ApplyWrite(am, f) == "panic" {
				return am, false
			}
		}
	}
	return am, true
}

// c07FinDiff: the script and the script with its reverted spans cut out, each on a fresh manager over the same base,
// each followed by MergeChangeLogs + Finalise. "" = the two published lists are identical (accounts that self-destruct
// inside a reverted span are left out: listed findings). Otherwise a description of the first difference and its kind.
func c07FinDiff(db *store.ChainDatabase, gh common.Hash, initRoots [4][4]common.Hash, ops []string) (diff, kind string) {
	cut, n, sui := c07CutReverted(ops)
	if n == 0 {
		return "", ""
	}
	am1, ok1 := c07RunScript(db, gh, ops)
	am2, ok2 := c07RunScript(db, gh, cut)
	if !ok1 || !ok2 {
		return "", ""
	}
	p1, p2 := c07Fin(am1, initRoots), c07Fin(am2, initRoots)
	if p1.line == "fin panic" || p2.line == "fin panic" || p1.line == "fin err" || p2.line == "fin err" {
		if p1.line != p2.line {
			return fmt.Sprintf("Finalise: with the reverted spans `%s`, without them `%s`", p1.line, p2.line), "finalise-failed"
		}
		return "", ""
	}
	filter := func(p c07Published) (w, t, k []string) {
		for i := range p.wire {
			if sui[fmt.Sprint(p.addrs[i])] {
				continue
			}
			w, t, k = append(w, p.wire[i]), append(t, p.text[i]), append(k, p.kinds[i])
		}
		return
	}
	w1, t1, k1 := filter(p1)
	w2, t2, k2 := filter(p2)
	for i := 0; i < len(w1) || i < len(w2); i++ {
		switch {
		case i >= len(w2):
			return fmt.Sprintf("published log #%d exists only WITH the reverted spans: %s", i, t1[i]), k1[i]
		case i >= len(w1):
			return fmt.Sprintf("published log #%d exists only WITHOUT the reverted spans: %s", i, t2[i]), k2[i]
		case w1[i] != w2[i]:
			return fmt.Sprintf("published log #%d: with the reverted spans %s, without them %s", i, t1[i], t2[i]), k1[i]
		}
	}
	return "", ""
}

// c07FinaliseOracle judges one finished script (called when the episode ends).
func c07FinaliseOracle(c *Ctx, db *store.ChainDatabase, gh common.Hash, initRoots [4][4]common.Hash, script []string) {
	_, n, sui := c07CutReverted(script)
	if n == 0 {
		c.Count("finalise-oracle:no-reverted-span")
		return
	}
	if len(sui) > 0 {
		c.Count("finalise-oracle:account-with-reverted-suicide-left-out")
	}
	d, kind := c07FinDiff(db, gh, initRoots, script)
	if d == "" {
		c.Count("finalise-oracle:identical")
		return
	}
	min := c07Shrink(script, func(ops []string) bool { x, _ := c07FinDiff(db, gh, initRoots, ops); return x != "" })
	d2, k2 := c07FinDiff(db, gh, initRoots, min)
	if d2 != "" {
		d, kind = d2, k2
	} else {
		min = script
	}
	cut, _, _ := c07CutReverted(min)
	c.Fail("c07/discard-leaves-trace/finalise/"+kind,
		fmt.Sprintf("MergeChangeLogs+Finalise after a script with reverted spans publishes other change logs than after the same script with the reverted spans cut out: %s; minimal script (%d of %d ops): %v ; without the reverted spans: %v", d, len(min), len(script), min, cut),
		map[string]interface{}{"script": min, "cut": cut, "full_script": append([]string{}, script...)})
}

// c07Directed: every storage-like trie × the two fresh accounts (a2: zero roots, has a balance; a3: nothing at all) and
// the accounts with committed roots: the FIRST write of the slot sits inside a reverted span (plain, nested, after a
// kept delete of the same key), and the account gets another log afterwards, so that Finalise looks at it.
func c07Directed() [][]string {
	var out [][]string
	w := map[string][]string{ // a write and the "delete" of the same key, per trie
		"sto": {"sto 1 4", "sto 1 0"},
		"aid": {"aid 1 2", "aid 1 0"},
		"eq":  {"eq 1 5", "eqnil 1"},
		"ac":  {"ac 1 9 2", "acnil 1"},
	}
	for _, ai := range []int{2, 3, 0, 1} {
		for _, t := range []string{"sto", "aid", "eq", "ac"} {
			set, del := fmt.Sprintf("w %d %s", ai, w[t][0]), fmt.Sprintf("w %d %s", ai, w[t][1])
			bal := fmt.Sprintf("w %d bal 7", ai)
			out = append(out,
				[]string{"snap", set, "rev 0", bal},                       // the witness of 3a69bc7
				[]string{bal, "snap", "snap", set, "rev 1", set, "rev 0"}, // nested
				[]string{set, del, "snap", set, "rev 0", bal},             // set K; delete K (both kept); set K reverted
				[]string{set, "snap", del, set, "rev 0"},                  // the slot was queued before the span
				[]string{"snap", set, del, "rev 0", bal},
			)
		}
		// asset-code family on an asset defined in this block / committed in the base block (a0 has asset 1)
		out = append(out,
			[]string{fmt.Sprintf("w %d ac 1 9 2", ai), "snap", fmt.Sprintf("w %d acs 1 1 3", ai), fmt.Sprintf("w %d act 1 77", ai), "rev 0", fmt.Sprintf("w %d bal 7", ai)},
		)
	}
	out = append(out,
		[]string{"snap", "w 0 acs 1 2 3", "rev 0", "w 0 bal 7"},
		[]string{"snap", "w 0 act 1 77", "rev 0", "w 0 bal 7"},
		[]string{"snap", "w 0 ac 1 9 2", "rev 0", "w 0 bal 7"},
		[]string{"snap", "w 0 acnil 1", "rev 0", "w 0 bal 7"},
	)
	return out
}

var _ = types.ChangeLogSlice(nil)

// c07OnlyNoopAssetCode: the asset-code dirty set after a revert is the one at the snapshot plus keys of assets that are
// in the committed trie of the account (root not zero) and read exactly as committed.
func c07OnlyNoopAssetCode(am *account.Manager, ai int, want, got []string) bool {
	at := map[string]bool{}
	for _, k := range want {
		at[k] = true
	}
	now := map[string]bool{}
	for _, k := range got {
		now[k] = true
	}
	for k := range at {
		if !now[k] {
			return false
		}
	}
	a := am.GetAccount(c07Addrs[ai])
	if a.GetAssetCodeRoot() == (common.Hash{}) {
		return len(got) == len(want)
	}
	for k := range now {
		if at[k] {
			continue
		}
		n, _ := strconv.Atoi(k)
		cur, err := a.GetAssetCode(hashN(n))
		if err != nil || cur == nil {
			return false
		}
		// the committed value by construction (c07Genesis): only account 0 has a committed asset, asset 1 = (500, k1=v7)
		if !(ai == 0 && n == 1 && cur.TotalSupply.Cmp(big.NewInt(500)) == 0 && len(cur.Profile) == 1 && cur.Profile["k1"] == valStr(7)) {
			return false
		}
	}
	return true
}

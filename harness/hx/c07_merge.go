package main

import (
	"fmt"
	"math/big"
	"strings"

	"github.com/LemoFoundationLtd/lemochain-core/chain/account"
	"github.com/LemoFoundationLtd/lemochain-core/chain/types"
)

// c07Merge ties LemoModel.MergeLogs to chain/account/log_compressor.go:
//   - `needmerge <type> <bool>` rows: the table of merged log types (T2 fact, compared with the committed Lean table)
//   - `merge t:e:v …` ops: the real merge() (hook VerifMerge) and the model's merge on the same log list.
func c07Merge(c *Ctx) {
	for t := types.ChangeLogType(1); t < account.LOG_TYPE_STOP; t++ {
		c.Op(fmt.Sprintf("needmerge %d %v", t, account.VerifNeedMerge(t)), "ok")
	}
	c.Op(fmt.Sprintf("needmerge-stop %d", account.LOG_TYPE_STOP), "ok")
	for n := 0; n < c.N/8+4; n++ {
		k := c.Rnd.Intn(12)
		if c.Rnd.Intn(10) == 0 {
			k = c.Rnd.Intn(40)
		}
		var logs types.ChangeLogSlice
		var words []string
		// few types / extras so that keys collide often
		nt := 1 + c.Rnd.Intn(5)
		tset := make([]int, nt)
		for i := range tset {
			tset[i] = 1 + c.Rnd.Intn(int(account.LOG_TYPE_STOP)-1)
		}
		for i := 0; i < k; i++ {
			t := tset[c.Rnd.Intn(nt)]
			e := c.Rnd.Intn(3)
			v := c.Rnd.Intn(50)
			var extra interface{}
			if e > 0 {
				extra = hashN(e)
			}
			logs = append(logs, &types.ChangeLog{LogType: types.ChangeLogType(t), Address: c07Addrs[0], Version: uint32(i + 1),
				OldVal: *big.NewInt(int64(1000 + i)), NewVal: *big.NewInt(int64(v)), Extra: extra})
			words = append(words, fmt.Sprintf("%d:%d:%d", t, e, v))
		}
		res := account.VerifMerge(logs)
		var out []string
		for _, l := range res {
			e := 0
			for x := 1; x < 3; x++ {
				if l.Extra == interface{}(hashN(x)) {
					e = x
				}
			}
			nv := l.NewVal.(big.Int)
			out = append(out, fmt.Sprintf("%d:%d:%s", l.LogType, e, nv.String()))
		}
		if len(res) < len(logs) {
			c.Count("merge:shrunk")
		} else {
			c.Count("merge:same-length")
		}
		c.Op(strings.TrimSpace("merge "+strings.Join(words, " ")), strings.TrimSpace("merged "+strings.Join(out, " ")))
	}
}

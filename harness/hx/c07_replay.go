package main

import (
	"fmt"
	"math/big"
	"strconv"
	"strings"

	"github.com/LemoFoundationLtd/lemochain-core/chain/account"
	"github.com/LemoFoundationLtd/lemochain-core/chain/types"
	"github.com/LemoFoundationLtd/lemochain-core/common"
	"github.com/LemoFoundationLtd/lemochain-core/store"
)

// Replay and shrinking of C07 journal scripts. A script is the list of op lines of one episode (`w <acct> <kind> …`,
// `snap`, `rev <id>`); snapshot ids are the real LogProcessor's (0, 1, 2, … in the order the `snap` ops run), so a
// script with ops removed is renumbered before it is run again.

// c07ApplyWrite performs one `w` op on the real manager (the same calls the generator makes).
func c07ApplyWrite(am *account.Manager, f []string) string {
	atoi := func(s string) int { n, _ := strconv.Atoi(s); return n }
	if len(f) < 3 {
		return "bad-op"
	}
	ai := atoi(f[1])
	a := am.GetAccount(c07Addrs[ai])
	errStr := func(err error) string {
		if err == nil {
			return "ok"
		}
		return "err"
	}
	return Safe(func() string {
		switch f[2] {
		case "bal":
			a.SetBalance(big.NewInt(int64(atoi(f[3]))))
		case "votes":
			a.SetVotes(big.NewInt(int64(atoi(f[3]))))
		case "votefor":
			a.SetVoteFor(common.BigToAddress(big.NewInt(int64(atoi(f[3])))))
		case "signers":
			var ss types.Signers
			for _, p := range f[4:] {
				x := strings.Split(p, ":")
				ss = append(ss, types.SignAccount{Address: common.BigToAddress(big.NewInt(int64(atoi(x[0])))), Weight: uint8(atoi(x[1]))})
			}
			return errStr(a.SetSingers(ss))
		case "sto":
			var val []byte
			if v := atoi(f[4]); v != 0 {
				val = []byte{byte(v)}
			}
			return errStr(a.SetStorageState(hashN(atoi(f[3])), val))
		case "aid":
			return errStr(a.SetAssetIdState(hashN(atoi(f[3])), valStr(atoi(f[4]))))
		case "eq":
			k := atoi(f[3])
			return errStr(a.SetEquityState(hashN(k), &types.AssetEquity{AssetCode: hashN(k), AssetId: hashN(k), Equity: big.NewInt(int64(atoi(f[4])))}))
		case "eqnil":
			return errStr(a.SetEquityState(hashN(atoi(f[3])), nil))
		case "ac":
			k := atoi(f[3])
			return errStr(a.SetAssetCode(hashN(k), c07Asset(k, int64(atoi(f[4])), map[int]int{1: atoi(f[5])})))
		case "acnil":
			return errStr(a.SetAssetCode(hashN(atoi(f[3])), nil))
		case "acs":
			return errStr(a.SetAssetCodeState(hashN(atoi(f[3])), "k"+f[4], valStr(atoi(f[5]))))
		case "act":
			return errStr(a.SetAssetCodeTotalSupply(hashN(atoi(f[3])), big.NewInt(int64(atoi(f[4])))))
		case "cand":
			p := make(types.Profile)
			if v := atoi(f[3]); v != 0 {
				p["k1"] = valStr(v)
			}
			if v := atoi(f[4]); v != 0 {
				p["k2"] = valStr(v)
			}
			a.SetCandidate(p)
		case "cs":
			a.SetCandidateState("k"+f[3], valStr(atoi(f[4])))
		case "code":
			a.SetCode(c07Codes[atoi(f[3])])
		case "ev":
			a.PushEvent(&types.Event{Address: c07Addrs[ai], Topics: []common.Hash{hashN(1)}, Data: []byte{1}})
		case "sui":
			a.SetSuicide(true)
		default:
			return "bad-op"
		}
		return "ok"
	})
}

// c07Renumber drops `rev` ops whose snapshot was removed and renumbers the others. `keep[i]` says whether op i of
// `ops` stays. Snapshot id k = the k-th `snap` op of the script.
func c07Renumber(ops []string, keep []bool) []string {
	newID := map[int]int{}
	old, nw := 0, 0
	for i, o := range ops {
		if o == "snap" {
			if keep[i] {
				newID[old] = nw
				nw++
			}
			old++
		}
	}
	var out []string
	for i, o := range ops {
		if !keep[i] {
			continue
		}
		if strings.HasPrefix(o, "rev ") {
			id, _ := strconv.Atoi(o[4:])
			n, ok := newID[id]
			if !ok {
				continue
			}
			o = fmt.Sprintf("rev %d", n)
		}
		out = append(out, o)
	}
	return out
}

type c07Run struct {
	executed, redone map[string]string
	redo             string // "ok", "err …", "panic", "skipped"
	revertBad        []string
	panicked         bool
	published        map[common.Address][]string // log types of the merged (published) list, per account
}

// c07Exec runs a script on a fresh manager over the base block, then replays its merged logs (RebuildAll) onto the base.
func c07Exec(db *store.ChainDatabase, gh common.Hash, initRoots [4][4]common.Hash, ops []string) (r c07Run) {
	w := &c07World{am: account.NewManager(gh, db), initRoots: initRoots}
	type snap struct {
		obs map[string]string
	}
	var snaps []snap
	for _, o := range ops {
		f := strings.Fields(o)
		switch {
		case o == "reset" || len(f) == 0:
		case o == "snap":
			_, obs := w.observe()
			Safe(func() string { w.am.Snapshot(); return "ok" })
			snaps = append(snaps, snap{obs})
		case f[0] == "rev":
			id, _ := strconv.Atoi(f[1])
			if id >= len(snaps) {
				continue
			}
			if Safe(func() string { w.am.RevertToSnapshot(id); return "ok" }) == "panic" {
				r.panicked = true
				return
			}
			_, now := w.observe()
			for k, v := range snaps[id].obs {
				if now[k] != v {
					r.revertBad = append(r.revertBad, k)
				}
			}
		case f[0] == "w":
			if c07ApplyWrite(w.am, f) == "panic" {
				r.panicked = true
				return
			}
		}
	}
	_, r.executed = w.observe()
	var logs types.ChangeLogSlice
	if Safe(func() string { w.am.MergeChangeLogs(); logs = w.am.GetChangeLogs(); return "ok" }) != "ok" {
		r.redo = "panic"
		return
	}
	r.published = map[common.Address][]string{}
	for _, cl := range logs {
		r.published[cl.Address] = append(r.published[cl.Address], cl.LogType.String())
	}
	blk := &types.Block{Header: &types.Header{ParentHash: gh, Height: 1}, ChangeLogs: logs}
	am2 := account.NewManager(gh, db)
	r.redo = Safe(func() string {
		if err := am2.RebuildAll(CloneBlock(blk)); err != nil {
			return "err " + err.Error()
		}
		return "ok"
	})
	if r.redo == "ok" {
		_, r.redone = (&c07World{am: am2, initRoots: initRoots}).observe()
	}
	return
}

// c07Shrink removes ops (halves, quarters, …, single ops, the last until nothing can be removed) while `bad` still
// holds for the renumbered script.
func c07Shrink(ops []string, bad func([]string) bool) []string {
	cur := append([]string{}, ops...)
	chunk := len(cur) / 2
	if chunk < 1 {
		chunk = 1
	}
	for {
		removedAny := false
		for start := 0; start < len(cur); {
			keep := make([]bool, len(cur))
			for i := range keep {
				keep[i] = i < start || i >= start+chunk
			}
			cand := c07Renumber(cur, keep)
			if len(cand) < len(cur) && bad(cand) {
				cur = cand
				removedAny = true
			} else {
				start += chunk
			}
		}
		if chunk == 1 {
			if !removedAny {
				return cur
			}
			continue
		}
		chunk /= 2
	}
}

// c07SuiClass: does the script self-destruct account `acct`, and is one of those self-destructs inside a span that a
// later `rev` undoes?
func c07SuiClass(ops []string, acct string) (hasSui, revertedSui bool) {
	var snapAt []int // op index of the k-th snap
	var live []int   // indices of not (yet) reverted `w acct sui` ops
	for i, o := range ops {
		switch {
		case o == "snap":
			snapAt = append(snapAt, i)
		case strings.HasPrefix(o, "rev "):
			id, _ := strconv.Atoi(o[4:])
			if id < len(snapAt) {
				var keep []int
				for _, j := range live {
					if j > snapAt[id] {
						revertedSui = true
					} else {
						keep = append(keep, j)
					}
				}
				live = keep
			}
		case o == "w "+acct+" sui":
			hasSui = true
			live = append(live, i)
		}
	}
	return
}

package main

// C08 — durability across crashes.
//
// (a) byte level correspondence: the REAL FileUtilsEncode / FileQueue.scanFile / FileUtilsRead
//     (through the verif hook store.VerifScanFile) against LemoModel.Wal on the same records and on
//     EVERY truncation offset of the last record (plus zero-filled tails and a malformed stream);
// (b) direct oracles on the implementation: c08_oracle.go (BeansDB level and ChainDatabase level
//     crash images, reopened with the real start-up code).

import (
	"bytes"
	"encoding/binary"
	"encoding/hex"
	"fmt"
	"os"
	"path/filepath"
	"strings"
	"time"

	"github.com/LemoFoundationLtd/lemochain-core/store"
)

func init() { subs["c08"] = c08 }

const c08Scratch = "/scratch"

// c08Fail reports the first failure of every signature to the evidence (the check keeps 20 in the
// replay file); every further one is only counted.
var c08FailSeen = map[string]int{}

func c08Fail(c *Ctx, sig string, detail string, replay interface{}) {
	c08FailSeen[sig]++
	if c08FailSeen[sig] > 1 {
		c.Count("suppressed-repeat:" + sig)
		return
	}
	c.Fail(sig, detail, replay)
	// on disk at once: a run that is killed (or that the watchdog ends) must not lose what it has found
	c.oracle.Flush()
}

func hexOrDash(b []byte) string {
	if len(b) == 0 {
		return "-"
	}
	return hex.EncodeToString(b)
}

func fnv32(b []byte) uint32 {
	h := uint32(2166136261)
	for _, x := range b {
		h ^= uint32(x)
		h *= 16777619
	}
	return h
}

// c08ErrName maps the errors scanFile can return to short stable names.
func c08ErrName(err error) string {
	if err == nil {
		return "nil"
	}
	if err == store.ErrEOF {
		return "eof"
	}
	s := err.Error()
	switch {
	case strings.Contains(s, "expected input list"), s == "rlp: expected List":
		return "err:ExpectedList"
	case strings.Contains(s, "expected input string"), s == "rlp: expected String or Byte":
		return "err:ExpectedString"
	case strings.Contains(s, "non-canonical size"):
		return "err:CanonSize"
	case strings.Contains(s, "value size exceeds"):
		return "err:ValueTooLarge"
	case strings.Contains(s, "element is larger"):
		return "err:ElemTooLarge"
	case strings.Contains(s, "too few elements"):
		return "err:TooFew"
	case strings.Contains(s, "too many elements"):
		return "err:TooMany"
	case strings.Contains(s, "more than one value"):
		return "err:MoreThanOne"
	}
	return "err:other(" + strings.ReplaceAll(s, " ", "_") + ")"
}

// set when the real scanFile did not return within 30 s; the sweep is abandoned (the stuck goroutine
// dies with the process)
var c08ScanHung bool
var c08ScanSlow int

type c08Rec struct {
	Flg uint32
	Key []byte
	Val []byte
}

func c08RecStr(flg uint32, key, val []byte) string {
	return fmt.Sprintf("%d:%s:%d:%d", flg, hexOrDash(key), len(val), fnv32(val))
}

// c08Scan runs the real scan on the given bytes (written to a scratch file).
func c08Scan(path string, data []byte) (status string, recs []c08Rec, line string) {
	if err := os.WriteFile(path, data, 0644); err != nil {
		panic(err)
	}
	var out []*store.Inject
	var ret, off int64
	var err error
	if c08ScanHung {
		return "hang", nil, "skipped (an earlier scan never returned)"
	}
	c08MarkFor("scan-file", 40*time.Second) // the scan has its own 30 s limit below
	defer c08Unmark()
	t0 := time.Now()
	defer func() {
		// a scan of a few KB takes well under a millisecond; seconds mean the loop mis-parsed a length
		// field and allocated gigabytes (changed code under test): give up after three of those
		if time.Since(t0) > 2*time.Second {
			c08ScanSlow++
			if c08ScanSlow >= 3 {
				c08ScanHung = true
			}
		}
	}()
	done := make(chan struct{})
	go func() {
		defer close(done)
		status = Safe(func() string {
			out, ret, off, err = store.VerifScanFile(path)
			return c08ErrName(err)
		})
	}()
	select {
	case <-done:
	case <-time.After(30 * time.Second):
		// the real scan loop does not come back (changed code under test): report once, stop sweeping
		c08ScanHung = true
		return "hang", nil, "hang"
	}
	var sb strings.Builder
	fmt.Fprintf(&sb, "%s ret=%d off=%d n=%d", status, ret, off, len(out))
	for _, r := range out {
		recs = append(recs, c08Rec{r.Flg, r.Key, r.Val})
		sb.WriteByte(' ')
		sb.WriteString(c08RecStr(r.Flg, r.Key, r.Val))
	}
	return status, recs, sb.String()
}

func c08RandBytes(c *Ctx, n int) []byte {
	b := make([]byte, n)
	for i := range b {
		b[i] = byte(c.Rnd.Intn(256))
	}
	// sometimes end with zero bytes: a torn copy is then indistinguishable from the original
	if n > 4 && c.Rnd.Intn(8) == 0 {
		for i := n - 1 - c.Rnd.Intn(n/2); i < n; i++ {
			b[i] = 0
		}
	}
	return b
}

func c08GenRecord(c *Ctx) c08Rec {
	keyLens := []int{1, 1, 4, 20, 20, 32, 32, 55, 56, 60, 0}
	kl := keyLens[c.Rnd.Intn(len(keyLens))]
	key := c08RandBytes(c, kl)
	if kl == 1 && c.Rnd.Intn(2) == 0 {
		key[0] = byte(c.Rnd.Intn(128)) // single byte < 0x80: its own RLP encoding
	}
	var vl int
	switch c.Rnd.Intn(10) {
	case 0:
		vl = 0
	case 1:
		vl = 1
	case 2:
		vl = 54 + c.Rnd.Intn(4) // around the 55/56 string-header boundary
	case 3, 4:
		vl = c.Rnd.Intn(200)
	case 5:
		// total length around a 256 boundary: 18 + body
		vl = 256*(1+c.Rnd.Intn(3)) - 18 - kl - 6 + c.Rnd.Intn(8)
	case 6:
		vl = 250 + c.Rnd.Intn(20) // body around 255/256 (1- vs 2-byte rlp length)
	case 7:
		vl = 600 + c.Rnd.Intn(900)
	default:
		vl = 20 + c.Rnd.Intn(400)
	}
	if vl < 0 {
		vl = 0
	}
	val := c08RandBytes(c, vl)
	if vl == 1 && c.Rnd.Intn(2) == 0 {
		val[0] = byte(c.Rnd.Intn(128))
	}
	flg := uint32(1 + c.Rnd.Intn(9))
	if c.Rnd.Intn(12) == 0 {
		flg = []uint32{0, 10, 255, 256, 0xffffffff}[c.Rnd.Intn(5)]
	}
	return c08Rec{flg, key, val}
}

// c08Encode calls the real encoder and returns the raw bytes plus a copy with the
// timestamp field (head bytes 8..15) zeroed — the model's canonical form.
func c08Encode(r c08Rec) (raw []byte, canon []byte) {
	raw, err := store.FileUtilsEncode(r.Flg, r.Key, r.Val)
	if err != nil {
		panic("FileUtilsEncode: " + err.Error())
	}
	canon = append([]byte{}, raw...)
	for i := 8; i < 16 && i < len(canon); i++ { // the CRC field (bytes 16,17) is modelled and compared
		canon[i] = 0
	}
	return raw, canon
}

func c08BodyLen(enc []byte) int { return int(binary.LittleEndian.Uint32(enc[4:8])) }

func c08SameRecs(a, b []c08Rec) bool {
	if len(a) != len(b) {
		return false
	}
	for i := range a {
		if a[i].Flg != b[i].Flg || !bytes.Equal(a[i].Key, b[i].Key) || !bytes.Equal(a[i].Val, b[i].Val) {
			return false
		}
	}
	return true
}

func c08(c *Ctx) {
	base, err := os.MkdirTemp(c08Scratch, "c08-")
	if err != nil {
		panic(err)
	}
	defer os.RemoveAll(base)
	scanPath := filepath.Join(base, "scan.data")
	wdDirs := []string{base}
	// the byte-level sweep rewrites one small file ~20000 times: keep it on tmpfs when there is one
	if shm, err := os.MkdirTemp("/dev/shm", "c08-"); err == nil {
		defer os.RemoveAll(shm)
		scanPath = filepath.Join(shm, "scan.data")
		wdDirs = append(wdDirs, shm)
	}
	// every blocking call into the code under test runs under the watchdog (c08_watch.go): a call that does not
	// come back becomes the failure c08/hang/<op-kind> and the run ends cleanly
	c08WatchStart(c, nil, wdDirs...)
	defer c08WatchStop()
	c08Family("byte-level-sweep")

	// development / replay aid: C08_ONLY=putcrash runs the bitcask-put-crash family alone
	if only := os.Getenv("C08_ONLY"); only != "" {
		c08Family(only)
		c.Op("headlen", fmt.Sprintf("%d", store.RecordHeadLength)) // (an evidence file without any op confuses ./check)
		switch only {
		case "putcrash":
			c08PutCrashFamily(c, filepath.Dir(scanPath))
		case "queue":
			c08QueueTie(c, filepath.Dir(scanPath))
			c08RemnantFamily(c, filepath.Dir(scanPath))
			c08RewindTie(c, filepath.Dir(scanPath))
		case "overwrite":
			c08OverwriteOracle(c, base)
		case "oracles":
			c08Oracles(c, base)
		}
		c08Family("end")
		return
	}

	// ---------- (a) byte level ----------
	c.Op("headlen", fmt.Sprintf("%d", store.RecordHeadLength))
	nCases := c.N
	for it := 0; it < nCases && !c08ScanHung; it++ {
		nrec := 1 + c.Rnd.Intn(3)
		var good []c08Rec
		var file []byte
		for i := 0; i < nrec-1; i++ {
			r := c08GenRecord(c)
			raw, canon := c08Encode(r)
			c.Op(fmt.Sprintf("enc %d %s %s", r.Flg, hexOrDash(r.Key), hexOrDash(r.Val)), hex.EncodeToString(canon))
			file = append(file, raw...) // real bytes, with the real timestamp and crc
			good = append(good, r)
		}
		last := c08GenRecord(c)
		// keep the every-offset sweep affordable in the quick tier
		if c.Tier == "quick" && len(last.Val) > 700 && it%4 != 0 {
			last.Val = last.Val[:300+c.Rnd.Intn(100)]
		}
		rawLast, canonLast := c08Encode(last)
		c.Op(fmt.Sprintf("enc %d %s %s", last.Flg, hexOrDash(last.Key), hexOrDash(last.Val)), hex.EncodeToString(canonLast))
		bodyLen := c08BodyLen(rawLast)
		if len(rawLast)%256 != 0 || len(rawLast) < 18+bodyLen || len(rawLast)-(18+bodyLen) >= 256 {
			c08Fail(c, "c08/encode-shape", fmt.Sprintf("encoded length %d, head.Len %d", len(rawLast), bodyLen), nil)
		}
		goodLen := len(file)
		file = append(file, rawLast...)
		c.Op("file "+hex.EncodeToString(file), fmt.Sprintf("len %d", len(file)))
		c.Count(fmt.Sprintf("nrec=%d", nrec))
		c.Count(fmt.Sprintf("blocks=%d", len(rawLast)/256))

		// the complete file: scan returns exactly the records (scan_encode)
		st, recs, line := c08Scan(scanPath, file)
		c.Op(fmt.Sprintf("scan %d 0", len(file)), line)
		if st != "eof" || !c08SameRecs(recs, append(append([]c08Rec{}, good...), last)) {
			c08Fail(c, "c08/scan-encode", "scan of a complete file does not return the appended records: "+line, nil)
		}

		// EVERY truncation offset of the last record
		for cut := 0; cut <= len(rawLast) && !c08ScanHung; cut++ {
			var class string
			switch {
			case cut == 0 || cut == len(rawLast):
				class = "boundary"
			case cut <= 18:
				class = "head"
			case cut < 18+bodyLen:
				class = "body"
			default:
				class = "pad"
			}
			ztails := []int{0}
			if cut < len(rawLast) && (c.Rnd.Intn(16) == 0 || cut <= 20) {
				// zero-filled tail: up to the next 256 boundary / the full record / one extra block
				z := []int{256 - (goodLen+cut)%256, len(rawLast) - cut, len(rawLast) - cut + 256, 1 + c.Rnd.Intn(40)}
				ztails = append(ztails, z[c.Rnd.Intn(len(z))])
			}
			for _, zt := range ztails {
				data := append(append([]byte{}, file[:goodLen+cut]...), make([]byte, zt)...)
				st, recs, line := c08Scan(scanPath, data)
				c.Op(fmt.Sprintf("scan %d %d", goodLen+cut, zt), line)
				zc := ""
				if zt > 0 {
					zc = "+z"
				}
				c.Count("cut:" + class + zc + ":" + st)
				// direct oracle: "opens without manual repair, never a phantom record"
				want := good
				if cut >= 18+bodyLen {
					want = append(append([]c08Rec{}, good...), last)
				}
				replay := map[string]interface{}{"flg": last.Flg, "key": hex.EncodeToString(last.Key), "vallen": len(last.Val), "good_records": len(good), "cut": cut, "zero_tail": zt, "head_len": 18, "body_len": bodyLen}
				// with the repaired reader a zero-filled torn record gets past the CheckSum comparison only by a
				// collision of the 16-bit CRC (probability 2^-16 per such image): name that root cause
				collision := false
				if zt > 0 && len(data) >= goodLen+18 {
					ln := int(binary.LittleEndian.Uint32(data[goodLen+4:]))
					if ln > 0 && goodLen+18+ln <= len(data) && store.CheckSum(data[goodLen+18:goodLen+18+ln]) == binary.LittleEndian.Uint16(data[goodLen+16:]) {
						collision = true
						c.Count("crc16-collision-on-zero-tail")
					}
				}
				if strings.HasPrefix(st, "err") || st == "panic" {
					sig := "c08/torn-record-scan-error"
					if zt > 0 {
						sig = "c08/torn-record-scan-error/zero-tail"
					}
					if collision {
						sig = "c08/torn-record-scan-error/zero-tail-crc16-collision"
					}
					c08Fail(c, sig, fmt.Sprintf("tmp.data = %d good records + first %d of %d bytes of the record in flight (+%d zero bytes): scanFile returns %s, FileQueue.Start panics", len(good), cut, len(rawLast), zt, st), replay)
				} else if c08SameRecs(recs, append(append([]c08Rec{}, good...), last)) {
					// the record in flight is delivered exactly as written (cut behind the body, or the cut-off
					// tail consisted of zero bytes anyway): allowed by the full statement
					c.Count("torn-delivered-intact")
				} else if !c08SameRecs(recs, want) {
					if len(recs) == len(good)+1 && c08SameRecs(recs[:len(good)], good) {
						sig := "c08/torn-record-redelivered"
						if zt > 0 {
							sig = "c08/torn-record-redelivered/zero-tail"
						}
						if collision {
							sig = "c08/torn-record-redelivered/zero-tail-crc16-collision"
						}
						c08Fail(c, sig, fmt.Sprintf("record cut at byte %d (head 18, body %d, class %s, zero tail %d) is redelivered with a zero-filled body: %s", cut, bodyLen, class, zt, line[:min(len(line), 300)]), replay)
					} else {
						c08Fail(c, "c08/torn-record-phantom", fmt.Sprintf("cut %d zt %d: %s", cut, zt, line[:min(len(line), 300)]), replay)
					}
				}
			}
		}

		// malformed stream: flip bytes of the file in the head / rlp header region of some record
		for m := 0; m < 6; m++ {
			data := append([]byte{}, file...)
			nflip := 1 + c.Rnd.Intn(2)
			for f := 0; f < nflip; f++ {
				var pos int
				switch c.Rnd.Intn(4) {
				case 0: // flag
					pos = goodLen + c.Rnd.Intn(4)
				case 1: // low two bytes of Len (keeps allocations small)
					pos = goodLen + 4 + c.Rnd.Intn(2)
				case 2: // rlp headers
					pos = goodLen + 18 + c.Rnd.Intn(min(8+len(last.Key), len(rawLast)-18))
				default:
					pos = c.Rnd.Intn(len(data))
					if pos%256 == 6 || pos%256 == 7 { // never the high Len bytes
						pos -= 2
					}
				}
				vals := []byte{0x00, 0x01, 0x7f, 0x80, 0x81, 0xb7, 0xb8, 0xb9, 0xbf, 0xc0, 0xc1, 0xf7, 0xf8, 0xf9, 0xff, byte(c.Rnd.Intn(256))}
				data[pos] = vals[c.Rnd.Intn(len(vals))]
			}
			if c.Rnd.Intn(3) == 0 {
				data = data[:c.Rnd.Intn(len(data)+1)]
			}
			// re-seal every record head the scan will meet whose body is completely in the file (2 of 3 cases), so
			// that flipped rlp bytes reach the decoder instead of being stopped by the checksum
			if c.Rnd.Intn(3) != 0 {
				for off := 0; off+18 <= len(data); {
					ln := int(binary.LittleEndian.Uint32(data[off+4:]))
					if ln > 1<<20 || off+18+ln > len(data) {
						break
					}
					binary.LittleEndian.PutUint16(data[off+16:], store.CheckSum(data[off+18:off+18+ln]))
					adv := int(store.FileUtilsAlign(uint32(18 + ln)))
					if adv == 0 {
						break
					}
					off += adv
				}
			}
			st, _, line := c08Scan(scanPath, data)
			c.Op("file "+hexOrDash(data), fmt.Sprintf("len %d", len(data)))
			c.Op(fmt.Sprintf("scan %d 0", len(data)), line)
			c.Count("malformed:" + st)
		}
	}
	// hand-made rlp bodies behind a well-formed head: every branch of the decoder model
	bodies := [][]byte{{0xc0}, {0xc2, 0x01, 0x02}, {0xc2, 0x80, 0x80}, {0xc3, 0x01, 0x02, 0x03}, {0xc1, 0x01}, {0xc2, 0x81, 0x05}, {0xc2, 0x81, 0x85}, {0xc3, 0x81, 0x85, 0x01},
		{0xc3, 0x01, 0x81, 0x05}, {0xf8, 0x02, 0x01, 0x02}, {0xf8, 0x38}, {0xc2, 0xc0, 0x01}, {0xc2, 0x01, 0xc0}, {0xc3, 0x01, 0xc1, 0x01}, {0xc4, 0xb8, 0x38, 0x01, 0x02}, {0xc3, 0x83, 0x01, 0x02},
		{0xc2, 0x01, 0x02, 0x03}, {0x01}, {0x7f}, {0x80}, {0x85, 1, 2}, {0x85, 1, 2, 3, 4, 5}, {0xb8}, {0xb8, 0x38}, {0xb9, 0x00, 0x40}, {0xf9, 0x00, 0x40}, {0xf9, 0x01}, {0xf9}, {0xc5, 0xb9, 0x00, 0x40, 1, 2},
		{0xc4, 0xb9, 0x01, 0x00, 1}, {0xc3, 0xb8, 0x01, 0x01}, {0xc2, 0xb8, 0x38}, {0xc2, 0xb7, 0x01}, {0xc1, 0xb8}, {0xc2, 0xbf, 0x01}, {0xc1, 0x80}, {0xc4, 0x82, 1, 2, 0x80}, {0xc5, 0x82, 1, 2, 0x81, 0x80},
		{0xfa, 0x00, 0x00, 0x40}, {0xff, 1, 2, 3, 4, 5, 6, 7, 8}, {0xbf, 1, 2, 3, 4, 5, 6, 7, 8}, {0xc9, 0xbf, 0, 0, 0, 0, 0, 0, 0, 0x38}}
	long := append([]byte{0xf8, 0x3a, 0x01, 0xb8, 0x38}, bytes.Repeat([]byte{0x77}, 56)...) // long list header + long string header, valid
	bodies = append(bodies, long, long[:len(long)-1], append(append([]byte{}, long...), 0x00))
	for bi, b := range bodies {
		for _, dl := range []int{0, -1, 1} {
			head := make([]byte, 18)
			binary.LittleEndian.PutUint32(head[0:], uint32(bi%12))
			ln := len(b) + dl
			if ln < 0 {
				continue
			}
			binary.LittleEndian.PutUint32(head[4:], uint32(ln))
			data := append(head, b...)
			if bi%2 == 0 {
				data = append(data, make([]byte, 256-len(data)%256)...)
			}
			// the REAL checksum of the bytes the reader will take as the body, so that the repaired reader
			// hands them to rlp.DecodeBytes (every error branch of the decoder model stays tied);
			// one variant in four keeps a wrong checksum (-> end of the log)
			if 18+ln <= len(data) && (bi+dl)%4 != 3 {
				binary.LittleEndian.PutUint16(data[16:], store.CheckSum(data[18:18+ln]))
			}
			st, _, line := c08Scan(scanPath, data)
			c.Op("file "+hexOrDash(data), fmt.Sprintf("len %d", len(data)))
			c.Op(fmt.Sprintf("scan %d 0", len(data)), line)
			c.Count("handmade:" + st)
		}
	}
	// pure garbage / degenerate files
	for g := 0; g < 60; g++ {
		var data []byte
		switch g % 4 {
		case 0:
			data = make([]byte, c.Rnd.Intn(600)) // zeros
		case 1:
			data = c08RandBytes(c, c.Rnd.Intn(40))
			if len(data) > 7 {
				data[6], data[7] = 0, 0 // keep head.Len < 65536
			}
		case 2:
			r := c08GenRecord(c)
			raw, _ := c08Encode(r)
			data = append(raw, c08RandBytes(c, c.Rnd.Intn(30))...)
			if len(data) >= len(raw)+8 {
				data[len(raw)+6], data[len(raw)+7] = 0, 0
			} else if len(data) > len(raw)+4 {
				data = data[:len(raw)+4]
			}
		default:
			data = []byte{}
		}
		st, _, line := c08Scan(scanPath, data)
		c.Op("file "+hexOrDash(data), fmt.Sprintf("len %d", len(data)))
		c.Op(fmt.Sprintf("scan %d 0", len(data)), line)
		c.Count("garbage:" + st)
	}

	if c08ScanHung {
		c08Fail(c, "c08/scan-hang", "FileQueue.scanFile needs seconds (or never returns) on files of a few KB; byte-level sweep and store oracles abandoned", nil)
		return
	}
	// ---------- (c) the pending index of the queue: real setIndex/delIndex/emptyFile vs the model ----------
	qbase := base
	if dir := filepath.Dir(scanPath); strings.HasPrefix(dir, "/dev/shm/") {
		qbase = dir // thousands of tiny fsyncs: tmpfs
	}
	c08Family("queue-tie")
	c08Guard(c, "queue-tie", func() { c08QueueTie(c, qbase) })
	c08Family("remnant")
	c08Guard(c, "remnant", func() { c08RemnantFamily(c, qbase) })
	c08Family("rewind-tie")
	c08Guard(c, "rewind-tie", func() { c08RewindTie(c, qbase) })
	c08Family("bitcask-put-crash")
	c08PutCrashFamily(c, qbase) // crash images INSIDE BitCask.Put (c08_putcrash.go) vs LemoModel.Bitcask

	// ---------- (b) direct oracles on the real store ----------
	c08Oracles(c, base)
	c08Family("end")
}

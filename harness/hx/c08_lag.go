package main

// C08 — writer-lag crash family (ChainDatabase level).
//
// The asynchronous bitcask writer is DELAYED (never altered) with the exported BitCask.RW locks: blocks 1
// and 2, which both change the same accounts, are promoted while the writer stands in front of the very
// first record of block 1; then the writer is released record by record; for every stop position k the
// next block is promoted (PutBatch -> emptyFile) and the data directory is copied at that instant — that
// is what a dead process leaves behind. Every image is reopened by the real code in a child process and
// checked with the per-image oracles (stable block, accounts as of exactly that block, blocks by
// hash/height, restart equivalence).
// Direct invariant at image time: every acknowledged record the writer has not persisted yet must be in
// tmp.data; if it is not, the image's root cause is "wal-removed-with-record-pending".

import (
	"encoding/binary"
	"fmt"
	"math/big"
	"os"
	"path/filepath"
	"sort"
	"strings"
	"sync"
	"time"

	"github.com/LemoFoundationLtd/lemochain-core/chain/types"
	"github.com/LemoFoundationLtd/lemochain-core/common"
	"github.com/LemoFoundationLtd/lemochain-core/store"
)

// genesis writes X, Y, Z; blocks 1 and 2 both change X and Y (accounts changed by consecutive stable blocks: a
// miner, a fee receiver); block 3 changes only Z, so nothing later repairs a lost write of X or Y
func c08MakeLagWorkload(seed int64, idx int, H int) *c08Workload {
	w := &c08Workload{H: H}
	for i := 0; i < 3; i++ {
		w.Addrs = append(w.Addrs, c08Addr(i+3*idx))
	}
	state := map[string]string{}
	var parent common.Hash
	for h := 0; h <= H; h++ {
		hdr := &types.Header{Height: uint32(h), ParentHash: parent, Time: uint32(1600000000 + h)}
		binary.BigEndian.PutUint64(hdr.VersionRoot[0:], uint64(seed))
		binary.BigEndian.PutUint32(hdr.VersionRoot[8:], uint32(idx))
		binary.BigEndian.PutUint32(hdr.VersionRoot[12:], uint32(h+1))
		blk := &types.Block{}
		blk.SetHeader(hdr)
		parent = blk.Hash()
		w.Blocks = append(w.Blocks, blk)
		var ch []*types.AccountData
		for i, a := range w.Addrs {
			if (h == 1 || h == 2) && i == 2 || h >= 3 && i != 2 {
				continue
			}
			acc := &types.AccountData{
				Address:       a,
				Balance:       big.NewInt(int64(1000*(h+1) + i)),
				NewestRecords: map[types.ChangeLogType]types.VersionRecord{1: {Version: uint32(h + 1), Height: uint32(h)}},
				Candidate:     types.Candidate{Votes: new(big.Int), Profile: make(types.Profile)},
			}
			state[a.Hex()] = c08AccDigest(acc)
			ch = append(ch, acc)
		}
		w.Changes = append(w.Changes, ch)
		cp := map[string]string{}
		for k, v := range state {
			cp[k] = v
		}
		w.Exp = append(w.Exp, cp)
		w.Cand = append(w.Cand, map[string]string{})
	}
	return w
}

func c08Bucket(db *store.ChainDatabase, key []byte) int {
	s := db.Beansdb.Queue.SyncFileDB
	return int(store.Byte2Uint32(key) >> ((8 - s.Height) * 4))
}

func c08WaitFor(what string, cond func() bool) bool {
	deadline := time.Now().Add(20 * time.Second)
	for !cond() {
		if time.Now().After(deadline) {
			return false
		}
		time.Sleep(time.Millisecond)
	}
	return true
}

// c08LagRun: one run of the scenario with the writer released up to stop position `stop`
// (index into `stops`, computed on the first run). Returns the images taken.
type c08LagResult struct {
	stops  []int // record counts at which the writer can be held
	images []*c08Image
	total  int
}

func c08LagRun(c *Ctx, base string, wl int, w *c08Workload, stopIdx int, tag string) *c08LagResult {
	res := &c08LagResult{}
	live := filepath.Join(base, "lag-live-"+tag)
	os.MkdirAll(live, 0755)
	defer os.RemoveAll(live)
	db := c08OpenChain(live)
	q := db.Beansdb.Queue
	sf := q.SyncFileDB
	walPath := filepath.Join(live, "tmp.data")
	if sb, ss := w.apply(db, 0); sb != "ok" || ss != "ok" {
		panic("lag workload: genesis rejected")
	}
	if !c08QueueIdle(q, 20*time.Second) {
		panic(c08HangPanic{"writer-drain", "lag: genesis does not drain"})
	}
	// what the bitcasks hold for the accounts before anything of blocks 1..3 is written
	baseline := map[string][]byte{}
	for _, a := range w.Addrs {
		v, _ := q.VerifPersisted(4, a.Bytes())
		baseline["4:"+string(a.Bytes())] = v
	}
	// blocks 1..3 arrive (unconfirmed, memory only) BEFORE the writer is gated: SetBlock reads through the bitcasks
	for h := 1; h <= 3; h++ {
		blk := w.Blocks[h]
		c08Mark("set-block")
		err := db.SetBlock(blk.Hash(), blk)
		c08Unmark()
		if err != nil {
			panic("lag: SetBlock: " + err.Error())
		}
		act, _ := db.GetActDatabase(blk.Hash())
		for _, a := range w.Changes[h] {
			act.Put(a, uint32(h))
		}
	}
	scanWal := func() []c08Rec {
		recs, _, _, _ := store.VerifScanFile(walPath)
		var out []c08Rec
		for _, r := range recs {
			out = append(out, c08Rec{r.Flg, r.Key, r.Val})
		}
		return out
	}
	// gate: the writer stops in front of the first record of block 1 (the block record, key = block hash)
	held := c08Bucket(db, w.Blocks[1].Hash().Bytes())
	sf.BitCasks[held].RW.Lock()
	unlockHeld := func() {
		if held >= 0 {
			sf.BitCasks[held].RW.Unlock()
			held = -1
		}
	}
	defer unlockHeld()
	promote := func(h int) {
		c08Note(fmt.Sprintf("SetStableBlock(block %d) with the writer held", h))
		c08Mark("set-stable-block")
		_, err := db.SetStableBlock(w.Blocks[h].Hash())
		c08Unmark()
		if err != nil {
			panic(fmt.Sprintf("lag: SetStableBlock(%d): %v", h, err))
		}
	}
	if stopIdx%2 == 0 {
		promote(1)
		promote(2)
	} else {
		promote(2) // ONE SetStableBlock call that commits block 1 and then block 2 (chain_database.go commit loop)
		c.Count("lag:multi-block-promotion")
	}
	fifo := scanWal() // batch 1 ++ batch 2, in queue order (tmp.data was empty: the queue was idle)
	res.total = len(fifo)
	// persist-before-acknowledge, on the LIVE store with the real writer and queue goroutines: the index says how many
	// records of a key are still pending; everything before them has been acknowledged, so the bitcasks must hold
	// at least that version (read without the bitcask lock: the harness holds it to delay the writer)
	ackInvariant := func(where string) {
		idx := map[string]int{}
		for _, e := range q.VerifIndexDump() {
			p := strings.Split(e, ":")
			if len(p) == 3 {
				n := 0
				fmt.Sscanf(p[2], "%d", &n)
				idx[p[0]] = n
			}
		}
		seen := map[string]bool{}
		for _, r := range fifo {
			k := fmt.Sprintf("%d:%s", r.Flg, string(r.Key))
			if seen[k] {
				continue
			}
			seen[k] = true
			var versions [][]byte
			for _, r2 := range fifo {
				if r2.Flg == r.Flg && string(r2.Key) == string(r.Key) {
					versions = append(versions, r2.Val)
				}
			}
			acked := len(versions) - idx[common.ToHex(r.Key)]
			if acked <= 0 {
				continue
			}
			got, _ := q.VerifPersisted(r.Flg, r.Key)
			ok := false
			for j := acked - 1; j < len(versions); j++ {
				if string(got) == string(versions[j]) {
					ok = true
				}
			}
			if !ok {
				c.Count("lag:acknowledged-before-persisted")
				c08Fail(c, "c08/acked-record-lost/acknowledged-before-persisted", fmt.Sprintf("[%s] the index holds %d pending record(s) for key %d:%x, so %d of its %d queued versions have been acknowledged — but the bitcasks do not hold version %d or a later one (they hold %d bytes): a record is acknowledged (and may leave the index, which lets emptyFile delete tmp.data) before it is persisted", where, idx[common.ToHex(r.Key)], r.Flg, r.Key, acked, len(versions), acked, len(got)),
					map[string]interface{}{"level": "ChainDatabase", "family": "writer-lag", "where": where, "index": q.VerifIndexDump()})
			}
		}
		_ = baseline
	}
	// stop positions: the writer can be held in front of record p iff its bitcask differs from the one held before
	res.stops = []int{0}
	{
		cur := c08Bucket(db, fifo[0].Key)
		for p := 1; p < len(fifo); p++ {
			if b := c08Bucket(db, fifo[p].Key); b != cur {
				res.stops = append(res.stops, p)
				cur = b
			}
		}
		res.stops = append(res.stops, len(fifo)) // everything persisted
	}
	if stopIdx >= len(res.stops) {
		unlockHeld()
		c08QueueIdle(q, 20*time.Second)
		c08CloseChain(db)
		return res
	}
	// release the writer stop by stop
	persisted := 0
	for si := 1; si <= stopIdx; si++ {
		next := res.stops[si]
		if next < len(fifo) {
			nb := c08Bucket(db, fifo[next].Key)
			sf.BitCasks[nb].RW.Lock()
			old := held
			held = nb
			sf.BitCasks[old].RW.Unlock()
			// the writer has taken record `next` out of the channel and blocks on its bitcask
			want := len(fifo) - next - 1
			if !c08WaitFor("writer advanced", func() bool { return len(sf.WriteChan) == want && len(q.DoneChan) == 0 }) {
				panic(c08HangPanic{"writer-drain", "lag: writer does not advance"})
			}
		} else {
			unlockHeld()
			if !c08QueueIdle(q, 20*time.Second) {
				panic(c08HangPanic{"writer-drain", "lag: writer does not drain"})
			}
		}
		// let the queue goroutine finish delIndex of the last acknowledged record
		for g := 0; g < 3; g++ {
			q.IndexRW.Lock()
			q.IndexRW.Unlock()
			time.Sleep(2 * time.Millisecond)
		}
		persisted = next
		ackInvariant(fmt.Sprintf("writer lag: blocks 1,2 promoted, writer released up to record %d of %d", next, len(fifo)))
	}
	ackInvariant(fmt.Sprintf("writer lag: writer held in front of record %d of %d", persisted, len(fifo)))
	pending := fifo[persisted:]
	mkImg := func(name, class string, completed int) *c08Image {
		img := &c08Image{candsOld: -1, name: name, class: class, cause: "writer-lag", dir: filepath.Join(base, fmt.Sprintf("lagimg-%s-%s", tag, class)), completed: completed, inflight: -1}
		c08CopyDir(live, img.dir)
		// direct invariant: every acknowledged record the writer has not persisted is in tmp.data
		wal := scanWal()
		missing := 0
		for _, p := range pending {
			found := false
			for _, r := range wal {
				if r.Flg == p.Flg && string(r.Key) == string(p.Key) && string(r.Val) == string(p.Val) {
					found = true
					break
				}
			}
			if !found {
				missing++
			}
		}
		img.replay = map[string]interface{}{"level": "ChainDatabase", "family": "writer-lag", "workload": wl, "seed": c.Seed, "records_queued": len(fifo), "records_persisted": persisted, "index": q.VerifIndexDump(), "crash_point": name}
		if missing > 0 {
			img.cause = "wal-removed-with-record-pending"
			c.Count("lag:pending-not-in-wal")
			c08Fail(c, "c08/acked-record-not-in-wal/wal-removed-with-record-pending", fmt.Sprintf("[%s] %d acknowledged record(s) are neither persisted by the writer nor in tmp.data (tmp.data holds %d records, index %v): emptyFile removed tmp.data while records were pending", name, missing, len(wal), q.VerifIndexDump()), img.replay)
		}
		res.images = append(res.images, img)
		return img
	}
	if c.Tier == "thorough" {
		mkImg(fmt.Sprintf("writer lag: blocks 1,2 promoted, writer has persisted %d of %d records", persisted, len(fifo)), "lag-before-next-promotion", 2)
	}
	promote(3) // PutBatch -> emptyFile
	pendingWith3 := pending
	_ = pendingWith3
	mkImg(fmt.Sprintf("writer lag: blocks 1,2 promoted, writer has persisted %d of %d records, then block 3 promoted", persisted, len(fifo)), "lag-after-next-promotion", 3)
	unlockHeld()
	c08QueueIdle(q, 20*time.Second)
	c08CloseChain(db)
	return res
}

func c08LagOracle(c *Ctx, base string) {
	nWl := 1
	if c.Tier == "thorough" {
		nWl = 2
	}
	for j := 0; j < nWl; j++ {
		wl := 100 + j
		H := 3
		w := c08MakeLagWorkload(c.Seed, wl, H)
		var images []*c08Image
		first := c08LagRun(c, base, wl, w, 0, fmt.Sprintf("%d-0", j))
		images = append(images, first.images...)
		c.Count(fmt.Sprintf("lag:stops=%d", len(first.stops)))
		for si := 1; si < len(first.stops); si++ {
			r := c08LagRun(c, base, wl, w, si, fmt.Sprintf("%d-%d", j, si))
			images = append(images, r.images...)
		}
		// reopen every image in a child process
		type result struct {
			out *c08ChildOut
			die string
		}
		results := make([]result, len(images))
		var wg sync.WaitGroup
		sem := make(chan struct{}, 4)
		for i, img := range images {
			wg.Add(1)
			go func(i int, img *c08Image) {
				defer wg.Done()
				sem <- struct{}{}
				defer func() { <-sem }()
				o, die := c08RunChild(c, img, wl, H, H)
				results[i] = result{o, die}
				os.RemoveAll(img.dir)
			}(i, img)
		}
		wg.Wait()
		for i, img := range images {
			r := results[i]
			if r.out == nil {
				c.Count("chain:" + img.class + ":process-died")
				c08ChildDied(c, img, r.die)
				continue
			}
			if r.out.OpenPanic != "" {
				c.Count("chain:" + img.class + ":reopen-panic")
				c08Fail(c, "c08/reopen-panic/"+img.cause, fmt.Sprintf("[%s] NewChainDataBase panics: %s", img.name, r.out.OpenPanic), img.replay)
				continue
			}
			fails := c08CheckDump(c, w, img, r.out.First, "after reopen", img.completed, img.completed)
			if len(fails) == 0 {
				for _, s := range r.out.Cont {
					if !strings.HasSuffix(s, ":ok/ok") {
						fails = append(fails, "c08/restart-rejects-block")
						c08Fail(c, "c08/restart-rejects-block/"+img.cause, fmt.Sprintf("[%s] restarted node re-applies the next blocks: %v", img.name, r.out.Cont), img.replay)
						break
					}
				}
				if r.out.Second != nil && len(fails) == 0 {
					fails = append(fails, c08CheckDump(c, w, img, r.out.Second, "after continuing to block H", H, H)...)
				}
			}
			if len(fails) == 0 {
				c.Count("chain:" + img.class + ":intact")
			} else {
				sort.Strings(fails)
				c.Count("chain:" + img.class + ":" + strings.TrimPrefix(fails[0], "c08/"))
			}
		}
	}
}

// ---------------------------------------------------------------------------------------------
// idle-rewind family: the queue drains completely between promotions (the normal case on a real node: a
// promotion is written in milliseconds, blocks come every few seconds), so every promotion starts with
// emptyFile finding the index empty. Block 1 changes A and B, block 2 changes only B, block 3 only C; after
// each promotion (queue idle) the data directory is copied — a process that dies while idle — and reopened.
// Direct invariant at image time: tmp.data was emptied when the promotion started, so every record in it must
// carry the value the running node serves for its key; a record with an older value is a stale record left
// behind a rewound write position (root cause "stale-records-behind-rewound-offset").
// ---------------------------------------------------------------------------------------------

func c08MakeRewindWorkload(seed int64, idx int, H int) *c08Workload {
	w := &c08Workload{H: H}
	for i := 0; i < 3; i++ {
		w.Addrs = append(w.Addrs, c08Addr(i+5*idx))
	}
	state := map[string]string{}
	var parent common.Hash
	for h := 0; h <= H; h++ {
		hdr := &types.Header{Height: uint32(h), ParentHash: parent, Time: uint32(1600000000 + h)}
		binary.BigEndian.PutUint64(hdr.VersionRoot[0:], uint64(seed))
		binary.BigEndian.PutUint32(hdr.VersionRoot[8:], uint32(idx))
		binary.BigEndian.PutUint32(hdr.VersionRoot[12:], uint32(h+1))
		blk := &types.Block{}
		blk.SetHeader(hdr)
		parent = blk.Hash()
		w.Blocks = append(w.Blocks, blk)
		var ch []*types.AccountData
		for i, a := range w.Addrs {
			// genesis: A,B,C; block 1: A,B; block 2: B; block 3: C; block 4: A,B; block 5: A ...
			var touch bool
			switch h % 4 {
			case 0:
				touch = h == 0 || i != 2
			case 1:
				touch = i != 2
			case 2:
				touch = i == 1
			default:
				touch = i == 2
			}
			if !touch {
				continue
			}
			acc := &types.AccountData{
				Address:       a,
				Balance:       big.NewInt(int64(1000*(h+1) + i)),
				NewestRecords: map[types.ChangeLogType]types.VersionRecord{1: {Version: uint32(h + 1), Height: uint32(h)}},
				Candidate:     types.Candidate{Votes: new(big.Int), Profile: make(types.Profile)},
			}
			state[a.Hex()] = c08AccDigest(acc)
			ch = append(ch, acc)
		}
		w.Changes = append(w.Changes, ch)
		cp := map[string]string{}
		for k, v := range state {
			cp[k] = v
		}
		w.Exp = append(w.Exp, cp)
		w.Cand = append(w.Cand, map[string]string{})
	}
	return w
}

func c08RewindOracle(c *Ctx, base string) {
	wl := 200
	H := 3
	if c.Tier == "thorough" {
		H = 6
	}
	w := c08MakeRewindWorkload(c.Seed, wl, H)
	live := filepath.Join(base, "rewind-live")
	os.MkdirAll(live, 0755)
	defer os.RemoveAll(live)
	db := c08OpenChain(live)
	var images []*c08Image
	for h := 0; h <= H; h++ {
		if sb, ss := w.apply(db, h); sb != "ok" || ss != "ok" {
			c08Fail(c, "c08/workload", fmt.Sprintf("continuous node rejects block %d of the rewind workload: %s/%s", h, sb, ss), nil)
			break
		}
		if !c08QueueIdle(db.Beansdb.Queue, 20*time.Second) {
			panic(c08HangPanic{"writer-drain", "rewind: queue does not drain"})
		}
		if h == 0 {
			continue
		}
		img := &c08Image{candsOld: -1, name: fmt.Sprintf("idle queue: blocks 0..%d promoted one by one, the queue drained after each; the process dies while idle", h), class: "idle-after-promotion", cause: "idle-restart", dir: filepath.Join(base, fmt.Sprintf("rewimg%d", h)), completed: h, inflight: -1}
		c08CopyDir(live, img.dir)
		img.replay = map[string]interface{}{"level": "ChainDatabase", "family": "idle-rewind", "workload": wl, "seed": c.Seed, "H": H, "promoted": h, "recipe": "genesis A,B,C; block 1 changes A,B; block 2 changes B; block 3 changes C; drain after every promotion; copy the data dir; reopen; every account must read as of the stable block"}
		// direct invariant: every record in tmp.data carries the value the running node serves for its key
		recs, _, _, _ := store.VerifScanFile(filepath.Join(live, "tmp.data"))
		stale := 0
		var staleKey string
		for _, r := range recs {
			cur, err := db.Beansdb.Get(r.Flg, r.Key)
			if err == nil && cur != nil && string(cur) != string(r.Val) {
				stale++
				staleKey = fmt.Sprintf("%d:%x", r.Flg, r.Key)
			}
		}
		c.Count(fmt.Sprintf("rewind:wal-records=%d", len(recs)))
		if stale > 0 {
			img.cause = "stale-records-behind-rewound-offset"
			c.Count("rewind:stale-record-in-wal")
			c08Fail(c, "c08/stale-record-in-wal/stale-records-behind-rewound-offset", fmt.Sprintf("[%s] tmp.data holds %d records, %d of them carry an OLDER value than the node serves (e.g. %s): the write position was rewound to 0 on an idle queue but the old records behind the new ones were not removed; a restart redelivers them after the newer versions", img.name, len(recs), stale, staleKey), img.replay)
		}
		images = append(images, img)
	}
	c08CloseChain(db)
	for _, img := range images {
		img := img
		c08Guard(c, "image-check", func() {
			o, die := c08RunChild(c, img, wl, H, H)
			os.RemoveAll(img.dir)
			if o == nil {
				c.Count("chain:" + img.class + ":process-died")
				c08ChildDied(c, img, die)
				return
			}
			if o.OpenPanic != "" {
				c.Count("chain:" + img.class + ":reopen-panic")
				c08Fail(c, "c08/reopen-panic/"+img.cause, fmt.Sprintf("[%s] NewChainDataBase panics: %s", img.name, o.OpenPanic), img.replay)
				return
			}
			fails := c08CheckDump(c, w, img, o.First, "after reopen", img.completed, img.completed)
			if len(fails) == 0 {
				for _, s := range o.Cont {
					if !strings.HasSuffix(s, ":ok/ok") {
						fails = append(fails, "c08/restart-rejects-block")
						c08Fail(c, "c08/restart-rejects-block/"+img.cause, fmt.Sprintf("[%s] restarted node re-applies the next blocks: %v", img.name, o.Cont), img.replay)
						break
					}
				}
				if o.Second != nil && len(fails) == 0 {
					fails = append(fails, c08CheckDump(c, w, img, o.Second, "after continuing to block H", H, H)...)
				}
				if o.Reopen2 != nil && len(fails) == 0 {
					fails = append(fails, c08CheckDump(c, w, img, o.Reopen2, "second clean reopen", H, H)...)
				}
			}
			if len(fails) == 0 {
				c.Count("chain:" + img.class + ":intact")
			} else {
				sort.Strings(fails)
				c.Count("chain:" + img.class + ":" + strings.TrimPrefix(fails[0], "c08/"))
			}
		})
	}
}

package main

// C08 direct oracles on the real store (no model involved):
//   1. BeansDB level: a value written through the real Put API, tmp.data truncated mid-record,
//      reopened with the real start-up code, key read back.
//   2. ChainDatabase level: a workload of SetBlock / account Put / SetStableBlock on a real
//      store.NewChainDataBase; crash images are built from directory snapshots taken between
//      promotions plus a prefix of the write-ahead bytes of the promotion in flight (and torn
//      context.data images); every image is reopened by the real code in a CHILD PROCESS (a panic in
//      one of the store's goroutines kills the process, exactly what the property's "exit status
//      of reopening the data directory" observes) and the observables of the property are checked.

import (
	"bytes"
	"context"
	"encoding/binary"
	"encoding/hex"
	"encoding/json"
	"fmt"
	"io"
	"math/big"
	"os"
	"os/exec"
	"path/filepath"
	"sort"
	"strconv"
	"strings"
	"sync"
	"sync/atomic"
	"syscall"
	"time"

	"github.com/LemoFoundationLtd/lemochain-core/chain/types"
	"github.com/LemoFoundationLtd/lemochain-core/common"
	"github.com/LemoFoundationLtd/lemochain-core/common/rlp"
	"github.com/LemoFoundationLtd/lemochain-core/store"
	"github.com/LemoFoundationLtd/lemochain-core/store/leveldb"
	"github.com/LemoFoundationLtd/lemochain-core/store/trie"
)

func init() { subs["c08child"] = c08Child }

func c08CopyDir(src, dst string) {
	err := filepath.Walk(src, func(p string, info os.FileInfo, err error) error {
		if err != nil {
			return err
		}
		rel, _ := filepath.Rel(src, p)
		t := filepath.Join(dst, rel)
		if info.IsDir() {
			return os.MkdirAll(t, 0755)
		}
		if info.Name() == "LOCK" {
			return os.WriteFile(t, nil, 0644)
		}
		in, err := os.Open(p)
		if err != nil {
			return err
		}
		defer in.Close()
		out, err := os.Create(t)
		if err != nil {
			return err
		}
		defer out.Close()
		_, err = io.Copy(out, in)
		return err
	})
	if err != nil {
		panic("copy dir: " + err.Error())
	}
}

func c08QueueIdle(q *store.FileQueue, timeout time.Duration) bool {
	deadline := time.Now().Add(timeout)
	stable := 0
	for time.Now().Before(deadline) {
		q.IndexRW.RLock()
		n := len(q.Index)
		q.IndexRW.RUnlock()
		if n == 0 && len(q.SyncFileDB.WriteChan) == 0 && len(q.DoneChan) == 0 {
			stable++
			if stable >= 3 {
				return true
			}
		} else {
			stable = 0
		}
		time.Sleep(2 * time.Millisecond)
	}
	return false
}

// ---------------------------------------------------------------------------------------------
// 1. BeansDB level
// ---------------------------------------------------------------------------------------------

type c08Beans struct {
	ldb *leveldb.LevelDBDatabase
	db  *store.BeansDB
}

func c08OpenBeans(dir string) (b *c08Beans, status string) {
	b = &c08Beans{}
	c08Mark("beansdb-start")
	defer c08Unmark()
	status = Safe(func() string {
		b.ldb = leveldb.NewLevelDBDatabase(filepath.Join(dir, "index"), 16, 16)
		b.db = store.NewBeansDB(dir, b.ldb)
		b.db.Start()
		return "ok"
	})
	return
}

func (b *c08Beans) close() {
	c08Mark("beansdb-close")
	defer c08Unmark()
	Safe(func() string {
		if b.db != nil && b.db.Queue != nil {
			b.db.Close()
		}
		time.Sleep(5 * time.Millisecond)
		if b.ldb != nil {
			b.ldb.Close()
		}
		return ""
	})
}

func c08BeansOracle(c *Ctx, base string) {
	flag := leveldb.ItemFlagAct
	nKeys := 2
	if c.Tier == "thorough" {
		nKeys = 6
	}
	for k := 0; k < nKeys; k++ {
		valLen := []int{1000, 300, 40, 2000, 700, 120}[k%6]
		key := c08RandBytes(c, 20)
		val1 := bytes.Repeat([]byte{0x11}, valLen)
		val2 := bytes.Repeat([]byte{0x22}, valLen)
		live := filepath.Join(base, fmt.Sprintf("beans%d", k))
		os.MkdirAll(live, 0755)
		b, st := c08OpenBeans(live)
		if st != "ok" {
			c08Fail(c, "c08/reopen-panic", "fresh BeansDB does not open", nil)
			continue
		}
		if err := b.db.Put(flag, key, val1); err != nil {
			panic(err)
		}
		if !c08QueueIdle(b.db.Queue, 10*time.Second) {
			panic(c08HangPanic{"writer-drain", "queue does not drain"})
		}
		got, _ := b.db.Get(flag, key)
		if !bytes.Equal(got, val1) {
			c08Fail(c, "c08/put-get", "Get after Put differs", nil)
		}
		b.close()
		// the bytes Put(key, val2) appends to the (emptied) tmp.data
		enc2, _ := store.FileUtilsEncode(flag, key, val2)
		bodyLen := c08BodyLen(enc2)
		cuts := []int{0, 5, 17, 18, 19, 18 + 3 + 10, 18 + 3 + 21 + 1, 18 + 3 + 21 + 2, 18 + bodyLen/2, 18 + bodyLen - 1, 18 + bodyLen, len(enc2) - 1, len(enc2)}
		if valLen == 1000 {
			cuts = append(cuts, 500)
		}
		for _, cut := range cuts {
			if cut > len(enc2) {
				continue
			}
			img := filepath.Join(base, "img")
			os.RemoveAll(img)
			c08CopyDir(live, img)
			os.WriteFile(filepath.Join(img, "tmp.data"), enc2[:cut], 0644)
			b2, st := c08OpenBeans(img)
			class := "head"
			switch {
			case cut == 0 || cut == len(enc2):
				class = "boundary"
			case cut <= 18:
				class = "head"
			case cut < 18+bodyLen:
				class = "body"
			default:
				class = "pad"
			}
			replay := map[string]interface{}{"level": "BeansDB", "vallen": valLen, "cut": cut, "body_len": bodyLen, "recipe": "Put(4,key,0x11*n); drain; close; tmp.data := FileUtilsEncode(4,key,0x22*n)[:cut]; reopen; Get(4,key)"}
			if st != "ok" {
				c.Count("beans:" + class + ":reopen-panic")
				c08Fail(c, "c08/reopen-panic/torn-record", fmt.Sprintf("BeansDB.Start panics after tmp.data was cut at byte %d of a %d-byte record (%s)", cut, len(enc2), class), replay)
				b2.close()
				continue
			}
			c08QueueIdle(b2.db.Queue, 10*time.Second)
			got, err := b2.db.Get(flag, key)
			b2.close()
			want := val1
			if cut >= 18+bodyLen {
				want = val2
			}
			switch {
			case err != nil:
				c.Count("beans:" + class + ":get-error")
				c08Fail(c, "c08/value-unreadable", fmt.Sprintf("cut %d (%s): Get fails: %v", cut, class, err), replay)
			case bytes.Equal(got, want) || bytes.Equal(got, val2):
				c.Count("beans:" + class + ":intact")
			case bytes.Equal(got, val1) && cut >= 18+bodyLen:
				// the complete new record is in tmp.data (head and body intact) and the key still reads the old value
				c.Count("beans:" + class + ":complete-record-not-redelivered")
				c08Fail(c, "c08/acked-record-lost/complete-record-in-wal-not-redelivered", fmt.Sprintf("BeansDB: key held %d x 0x11 (in the bitcask, indexed); tmp.data holds the COMPLETE record of the write of %d x 0x22 (cut at byte %d: %s, behind the body); after reopen and drain the key still reads the old value: the record was not redelivered", valLen, valLen, cut, class), replay)
			default:
				zeros := 0
				for _, x := range got {
					if x == 0 {
						zeros++
					}
				}
				c.Count("beans:" + class + ":torn-redelivered")
				c08Fail(c, "c08/torn-record-redelivered/beansdb", fmt.Sprintf("BeansDB: key held %d x 0x11 (durable in the bitcask); the write of %d x 0x22 was cut at byte %d of tmp.data (%s); after reopen the key reads %d bytes of which %d are zero — neither the old nor the new value, the intact copy is overwritten", valLen, valLen, cut, class, len(got), zeros), replay)
			}
		}
		os.RemoveAll(filepath.Join(base, "img"))
		os.RemoveAll(live)
	}
}

// ---------------------------------------------------------------------------------------------
// 2. ChainDatabase level
// ---------------------------------------------------------------------------------------------

type c08Workload struct {
	H      int
	Addrs  []common.Address
	Blocks []*types.Block
	// Changes[h] = accounts written by block h
	Changes [][]*types.AccountData
	// Exp[h][addrHex] = balance string as of block h ; Cand[h][addrHex] = votes
	Exp  []map[string]string
	Cand []map[string]string
	// contract code written while block h is executed (un-batched SetContractCode) and the version trie of block h
	// (nodes written by TrieDatabase.Commit while the block is inserted): Codes[h], CodeHash[h], Roots[h], TrieKV[h]
	Codes    [][]byte
	CodeHash []common.Hash
	Roots    []common.Hash
	TrieKV   []map[string]string
	// Confirms[h]: confirm signatures that arrive for block h AFTER it became stable (SetConfirms rewrites its record)
	Confirms [][]types.SignData
}

func c08AccDigest(acc *types.AccountData) string {
	b, err := rlp.EncodeToBytes(acc)
	if err != nil {
		return "encode-error"
	}
	return fmt.Sprintf("%s/%d:%d", acc.Balance.String(), len(b), fnv32(b))
}

var c08TrieKeys = []string{"alpha", "beta", "gamma-key-that-is-a-little-longer"}

// c08TrieStep applies block h's changes to the version trie rooted at `root` in `tdb` and commits the nodes
func c08TrieStep(tdb *store.TrieDatabase, root common.Hash, kv map[string]string) (common.Hash, error) {
	t, err := trie.NewSecure(root, tdb, 120)
	if err != nil {
		return common.Hash{}, err
	}
	keys := make([]string, 0, len(kv))
	for k := range kv {
		keys = append(keys, k)
	}
	sort.Strings(keys)
	for _, k := range keys {
		if err := t.TryUpdate([]byte(k), []byte(kv[k])); err != nil {
			return common.Hash{}, err
		}
	}
	newRoot, err := t.Commit(nil)
	if err != nil {
		return common.Hash{}, err
	}
	return newRoot, tdb.Commit(newRoot, false)
}

func c08Addr(i int) common.Address {
	var a common.Address
	h := fnv32([]byte{byte(i), 0x5a})
	binary.BigEndian.PutUint32(a[0:], h)
	binary.BigEndian.PutUint32(a[4:], fnv32([]byte{byte(i), 0x77}))
	a[19] = byte(i + 1)
	return a
}

func c08MakeWorkload(seed int64, idx int, H int) *c08Workload {
	if idx >= 400 {
		return c08MakeOverwriteWorkload(seed, idx, H)
	}
	if idx >= 300 {
		return c08MakeStepWorkload(seed, idx, H)
	}
	if idx >= 200 {
		return c08MakeRewindWorkload(seed, idx, H)
	}
	if idx >= 100 {
		return c08MakeLagWorkload(seed, idx, H)
	}
	w := &c08Workload{H: H}
	nAddr := 5
	for i := 0; i < nAddr; i++ {
		w.Addrs = append(w.Addrs, c08Addr(i+16*idx))
	}
	state := map[string]string{}
	cands := map[string]string{}
	var parent common.Hash
	for h := 0; h <= H; h++ {
		hdr := &types.Header{Height: uint32(h), ParentHash: parent, Time: uint32(1600000000 + h)}
		binary.BigEndian.PutUint64(hdr.VersionRoot[0:], uint64(seed))
		binary.BigEndian.PutUint32(hdr.VersionRoot[8:], uint32(idx))
		binary.BigEndian.PutUint32(hdr.VersionRoot[12:], uint32(h+1))
		blk := &types.Block{}
		blk.SetHeader(hdr)
		parent = blk.Hash()
		w.Blocks = append(w.Blocks, blk)
		var ch []*types.AccountData
		for i, a := range w.Addrs {
			// block 0 writes every account; block h writes accounts i with (i+h+idx)%2==0 (at least two)
			// (the two candidate accounts are written by EVERY block from their registration on: an update of a candidate that is
			// already in context.data is a code path of its own — CandidateCache.Set rewrites a fixed slot in place)
			isCand := (i == 0 && h >= 1) || (i == 2 && h >= 2)
			if h != 0 && (i+h+idx)%2 != 0 && !isCand {
				continue
			}
			acc := &types.AccountData{
				Address:       a,
				Balance:       big.NewInt(int64(1000*(h+1) + i)),
				NewestRecords: map[types.ChangeLogType]types.VersionRecord{1: {Version: uint32(h + 1), Height: uint32(h)}},
				Candidate:     types.Candidate{Votes: new(big.Int), Profile: make(types.Profile)},
			}
			// candidates: account 0 registers in block 1, account 2 in block 2; votes follow the height
			if (i == 0 && h >= 1) || (i == 2 && h >= 2) {
				acc.Candidate.Profile[types.CandidateKeyIsCandidate] = types.IsCandidateNode
				acc.Candidate.Profile["host"] = "node" + strconv.Itoa(i)
				// the vote total changes its RLP byte length with (almost) every update, growing and shrinking: a fixed-slot
				// candidate record whose persisted length field is not rewritten on update only shows on such updates
				sizes := []int64{100, 300, 70000, 200, 20000000, 5, 65536}
				acc.Candidate.Votes = big.NewInt(sizes[(h-1)%len(sizes)] + int64(i))
				cands[a.Hex()] = acc.Candidate.Votes.String()
			}
			state[a.Hex()] = c08AccDigest(acc)
			ch = append(ch, acc)
		}
		w.Changes = append(w.Changes, ch)
		cp := map[string]string{}
		for k, v := range state {
			cp[k] = v
		}
		w.Exp = append(w.Exp, cp)
		cc := map[string]string{}
		for k, v := range cands {
			cc[k] = v
		}
		w.Cand = append(w.Cand, cc)
		// contract code of block h and the changes of the version trie
		code := bytes.Repeat([]byte{byte(0x60 + h), byte(idx), 0x5b}, 100+37*h)
		w.Codes = append(w.Codes, code)
		var ch32 common.Hash
		binary.BigEndian.PutUint32(ch32[0:], fnv32(code))
		binary.BigEndian.PutUint32(ch32[28:], uint32(h+1))
		ch32[4] = 0xc0
		w.CodeHash = append(w.CodeHash, ch32)
		kv := map[string]string{}
		for i, k := range c08TrieKeys {
			if h == 0 || (i+h)%2 == 0 {
				kv[k] = fmt.Sprintf("value-%d-%d-%d-%s", idx, h, i, strings.Repeat("x", 10*i))
			}
		}
		w.TrieKV = append(w.TrieKV, kv)
	}
	// the roots a node computes for this workload (memory database: nothing of this is tied to a data directory)
	mem, _ := store.NewMemDatabase()
	tdb := store.NewTrieDatabase(mem)
	var root common.Hash
	for h := 0; h <= H; h++ {
		r, err := c08TrieStep(tdb, root, w.TrieKV[h])
		if err != nil {
			panic("workload trie: " + err.Error())
		}
		root = r
		w.Roots = append(w.Roots, r)
	}
	return w
}

func (w *c08Workload) apply(db *store.ChainDatabase, h int) (setBlock, setStable string) {
	blk := w.Blocks[h]
	c08Note(fmt.Sprintf("apply block %d (SetBlock, account writes, SetStableBlock)", h))
	c08Mark("set-block")
	err := db.SetBlock(blk.Hash(), blk)
	c08Unmark()
	setBlock = c08DbErr(err)
	if err != nil {
		return setBlock, "skipped"
	}
	c08Mark("account-writes")
	defer c08Unmark()
	act, err := db.GetActDatabase(blk.Hash())
	if err != nil {
		return setBlock, "actdb:" + err.Error()
	}
	for _, a := range w.Changes[h] {
		act.Put(a, uint32(h))
	}
	if h < len(w.Roots) {
		c08Mark("code-and-trie-writes")
		// executing the block: contract code (un-batched Put) and the version trie, computed on top of the trie the
		// data directory holds for the parent ("computes the same hashes")
		if err := db.SetContractCode(w.CodeHash[h], w.Codes[h]); err != nil {
			return setBlock, "code:" + c08DbErr(err)
		}
		var parentRoot common.Hash
		if h > 0 {
			parentRoot = w.Roots[h-1]
		}
		root, err := c08TrieStep(db.GetTrieDatabase(), parentRoot, w.TrieKV[h])
		if err != nil {
			return setBlock, "trie:" + c08DbErr(err)
		}
		if root != w.Roots[h] {
			return setBlock, "trie-root-differs"
		}
	}
	c08Mark("set-stable-block")
	_, err = db.SetStableBlock(blk.Hash())
	if err == nil && h < len(w.Confirms) && len(w.Confirms[h]) > 0 {
		// confirm packages that arrive after the block became stable: SetConfirms REWRITES the block record
		c08Mark("set-confirms")
		_, err = db.SetConfirms(blk.Hash(), w.Confirms[h])
	}
	return setBlock, c08DbErr(err)
}

func c08DbErr(err error) string {
	switch err {
	case nil:
		return "ok"
	case store.ErrExist:
		return "ErrExist"
	case store.ErrArgInvalid:
		return "ErrArgInvalid"
	case store.ErrBlockNotExist:
		return "ErrBlockNotExist"
	case store.ErrAccountNotExist:
		return "ErrAccountNotExist"
	}
	s := err.Error()
	if len(s) > 60 {
		s = s[:60]
	}
	return "err(" + s + ")"
}

type c08Dump struct {
	Stable     int               `json:"stable"` // -1: no stable block
	StableHash string            `json:"stableHash"`
	ByHeight   []string          `json:"byHeight"` // hash or error, heights 0..H
	ByHash     []string          `json:"byHash"`   // "ok"/error for the workload's blocks 0..H
	Accounts   map[string]string `json:"accounts"`
	Cands      map[string]string `json:"cands"`
	Top        map[string]string `json:"top"`      // GetCandidatesTop(stable hash)
	Codes      []string          `json:"codes"`    // GetContractCode(CodeHash[h]) for h = 0..H
	Tries      []string          `json:"tries"`    // every key of the version trie read from Roots[h]
	Confirms   []string          `json:"confirms"` // GetConfirms(hash of block h): count:fingerprint, or the error
	Idle       bool              `json:"idle"`
}

type c08ChildOut struct {
	OpenPanic string   `json:"openPanic"`
	Hang      string   `json:"hang"` // op kind of a call into the code under test that did not return (child watchdog)
	HangInfo  string   `json:"hangInfo"`
	First     *c08Dump `json:"first"`
	Cont      []string `json:"cont"` // results of re-applying blocks stable+1..upTo
	Second    *c08Dump `json:"second"`
	Reopen2   *c08Dump `json:"reopen2"` // after a clean close and a second reopen
	Notes     []string `json:"notes"`
}

func c08Observe(db *store.ChainDatabase, w *c08Workload) *c08Dump {
	d := &c08Dump{Stable: -1, Accounts: map[string]string{}, Cands: map[string]string{}}
	c08MarkFor("writer-drain", 25*time.Second)
	d.Idle = c08QueueIdle(db.Beansdb.Queue, 15*time.Second)
	c08Mark("observe-reads")
	defer c08Unmark()
	if blk, err := db.LoadLatestBlock(); err == nil && blk != nil {
		d.Stable = int(blk.Height())
		d.StableHash = blk.Hash().Hex()
	}
	for h := 0; h <= w.H; h++ {
		d.ByHeight = append(d.ByHeight, Safe(func() string {
			b, err := db.GetBlockByHeight(uint32(h))
			if err != nil {
				return c08DbErr(err)
			}
			return b.Hash().Hex()
		}))
		d.ByHash = append(d.ByHash, Safe(func() string {
			b, err := db.GetBlockByHash(w.Blocks[h].Hash())
			if err != nil {
				return c08DbErr(err)
			}
			if b.Hash() != w.Blocks[h].Hash() {
				return "wrong-block"
			}
			return "ok"
		}))
		d.Confirms = append(d.Confirms, Safe(func() string {
			cs, err := db.GetConfirms(w.Blocks[h].Hash())
			if err != nil {
				return c08DbErr(err)
			}
			var all []byte
			for _, sg := range cs {
				all = append(all, sg[:]...)
			}
			return fmt.Sprintf("%d:%d", len(cs), fnv32(all))
		}))
	}
	for _, a := range w.Addrs {
		d.Accounts[a.Hex()] = Safe(func() string {
			acc, err := db.GetAccount(a)
			if err != nil {
				return c08DbErr(err)
			}
			if acc.Address != a {
				return "wrong-address"
			}
			return c08AccDigest(acc)
		})
	}
	for h := 0; h < len(w.Roots); h++ {
		d.Codes = append(d.Codes, Safe(func() string {
			code, err := db.GetContractCode(w.CodeHash[h])
			if err != nil {
				return c08DbErr(err)
			}
			if !bytes.Equal(code, w.Codes[h]) {
				return fmt.Sprintf("wrong-code(%d bytes, want %d)", len(code), len(w.Codes[h]))
			}
			return "ok"
		}))
		d.Tries = append(d.Tries, Safe(func() string {
			t, err := trie.NewSecure(w.Roots[h], db.GetTrieDatabase(), 120)
			if err != nil {
				return "open:" + c08DbErr(err)
			}
			want := map[string]string{}
			for g := 0; g <= h; g++ {
				for k, v := range w.TrieKV[g] {
					want[k] = v
				}
			}
			for k, v := range want {
				got, err := t.TryGet([]byte(k))
				if err != nil {
					return "get:" + c08DbErr(err)
				}
				if string(got) != v {
					return "wrong-value(" + k + ")"
				}
			}
			return "ok"
		}))
	}
	if d.Stable >= 0 {
		d.Top = map[string]string{}
		Safe(func() string {
			for _, cd := range db.GetCandidatesTop(w.Blocks[d.Stable].Hash()) {
				d.Top[cd.Address.Hex()] = cd.Total.String()
			}
			return ""
		})
	}
	Safe(func() string {
		cs, err := db.Context.GetCandidates()
		if err != nil {
			d.Cands["error"] = err.Error()
			return ""
		}
		for _, cd := range cs {
			d.Cands[cd.Address.Hex()] = cd.Total.String()
		}
		return ""
	})
	return d
}

// c08Child: `hx c08child` — reopen an image with the real code and print the observables.
// env: C08_DIR image, C08_WL workload index, C08_H workload height, C08_UPTO continue up to this block (-1: no)
func c08Child(c *Ctx) {
	dir := os.Getenv("C08_DIR")
	idx, _ := strconv.Atoi(os.Getenv("C08_WL"))
	H, _ := strconv.Atoi(os.Getenv("C08_H"))
	upTo, _ := strconv.Atoi(os.Getenv("C08_UPTO"))
	w := c08MakeWorkload(c.Seed, idx, H)
	out := &c08ChildOut{}
	emit := func() {
		b, _ := json.Marshal(out)
		fmt.Println("C08CHILD " + string(b))
	}
	// the child's own watchdog: a call into the code under test that does not come back ends the child with what it
	// has observed so far and the op kind
	c08WatchStart(c, func(kind, detail string) {
		out.Hang, out.HangInfo = kind, detail
		emit()
	})
	c08Case("reopen of a crash image in a child process")
	var db *store.ChainDatabase
	_, msg := SafeMsg(func() string {
		db = c08OpenChain(dir)
		return ""
	})
	if msg != "" || db == nil {
		out.OpenPanic = "panic: " + msg
		emit()
		return
	}
	out.First = c08Observe(db, w)
	if upTo >= 0 {
		for h := out.First.Stable + 1; h <= upTo && h <= w.H; h++ {
			var sb, ss string
			_, msg := SafeMsg(func() string { sb, ss = w.apply(db, h); return "" })
			if msg != "" {
				out.Cont = append(out.Cont, fmt.Sprintf("%d:panic(%s)", h, msg))
				break
			}
			out.Cont = append(out.Cont, fmt.Sprintf("%d:%s/%s", h, sb, ss))
		}
		out.Second = c08Observe(db, w)
		if g2 := os.Getenv("C08_GEN2"); g2 != "" {
			// second generation: what this (restarted, continued) node has on disk right now
			c08CopyDir(dir, g2)
		}
		c08CloseChain(db)
		time.Sleep(10 * time.Millisecond)
		_, msg := SafeMsg(func() string {
			db = c08OpenChain(dir)
			return ""
		})
		if msg != "" {
			out.Notes = append(out.Notes, "second reopen panics: "+msg)
		} else {
			out.Reopen2 = c08Observe(db, w)
			c08CloseChain(db)
		}
	} else {
		c08CloseChain(db)
	}
	emit()
}

type c08Image struct {
	name      string // crash point description
	class     string // where the cut lies (coverage statistics)
	cause     string // root-cause class of the crash point: part of every signature raised on this image
	dir       string
	completed int // last promotion that had completed when the process died
	inflight  int // promotion in flight (-1: none)
	replay    map[string]interface{}
	// candsOld >= 0: the image tests the atomic replacement of context.data only: the candidate list read
	// back must be EXACTLY the list as of promotion candsOld or as of candsOld+1 (old or new file), and the
	// workload is not continued on it
	candsOld int
	gen2     string // if set: the child copies its directory there after continuing (second-generation image)
	upTo     int    // continue the workload up to this block (0 = default H)
}

var c08ChildHangs int32

func c08RunChild(c *Ctx, img *c08Image, wl, H, upTo int) (*c08ChildOut, string) {
	// three reopen processes have hung already (each costs its watchdog's 25 s): the remaining images of the run are not
	// reopened any more — the hangs are reported, the run must end in time
	if atomic.LoadInt32(&c08ChildHangs) >= 3 {
		return nil, "skipped: three reopen processes already hung"
	}
	ctx, cancel := context.WithTimeout(context.Background(), 45*time.Second)
	defer cancel()
	c08MarkFor("child-reopen", 60*time.Second) // (children run four at a time: the newest announcement wins; each has its own 45 s limit)
	defer c08Unmark()
	outDir := img.dir + ".out"
	os.MkdirAll(outDir, 0755)
	defer os.RemoveAll(outDir)
	cmd := exec.CommandContext(ctx, os.Args[0], "c08child", "-seed", fmt.Sprint(c.Seed), "-out", outDir)
	cmd.Env = append(os.Environ(), "C08_DIR="+img.dir, fmt.Sprintf("C08_WL=%d", wl), fmt.Sprintf("C08_H=%d", H), fmt.Sprintf("C08_UPTO=%d", upTo), "C08_GEN2="+img.gen2)
	var stdout, stderr bytes.Buffer
	cmd.Stdout = &stdout
	cmd.Stderr = &stderr
	err := cmd.Run()
	for _, line := range strings.Split(stdout.String(), "\n") {
		if strings.HasPrefix(line, "C08CHILD ") {
			var o c08ChildOut
			if json.Unmarshal([]byte(line[9:]), &o) == nil {
				if o.Hang != "" {
					atomic.AddInt32(&c08ChildHangs, 1)
					return nil, "HANG " + o.Hang + " " + o.HangInfo
				}
				return &o, ""
			}
		}
	}
	// the process died (panic in a goroutine of the store, or timeout)
	msg := stderr.String()
	if i := strings.Index(msg, "panic:"); i >= 0 {
		msg = msg[i:]
	}
	if j := strings.Index(msg, "\n"); j >= 0 {
		msg = msg[:j]
	}
	if ctx.Err() != nil {
		msg = "timeout (hang)"
		atomic.AddInt32(&c08ChildHangs, 1)
	}
	return nil, fmt.Sprintf("%v: %s", err, msg)
}

func c08MapEq(a, b map[string]string) bool {
	if len(a) != len(b) {
		return false
	}
	for k, v := range a {
		if b[k] != v {
			return false
		}
	}
	return true
}

func c08MapDiff(got, want map[string]string) string {
	var ks []string
	for k := range want {
		ks = append(ks, k)
	}
	for k := range got {
		if _, ok := want[k]; !ok {
			ks = append(ks, k)
		}
	}
	sort.Strings(ks)
	var parts []string
	for _, k := range ks {
		if got[k] != want[k] {
			parts = append(parts, fmt.Sprintf("%s..:got %s want %s", k[:10], got[k], want[k]))
		}
	}
	return strings.Join(parts, "; ")
}

// c08CheckDump checks one observation against the property; returns the failure classes found.
func c08CheckDump(c *Ctx, w *c08Workload, img *c08Image, d *c08Dump, phase string, minStable, maxStable int) []string {
	var fails []string
	fail := func(sig, detail string) {
		fails = append(fails, sig)
		if img.cause != "" {
			sig = sig + "/" + img.cause
		}
		c08Fail(c, sig, fmt.Sprintf("[%s; %s] %s", img.name, phase, detail), img.replay)
	}
	if !d.Idle {
		fail("c08/recovery-hang", "write-ahead queue never drains after reopen")
	}
	if d.Stable < minStable {
		fail("c08/stable-regressed", fmt.Sprintf("stable block after reopen is %d, last completed promotion was %d", d.Stable, minStable))
		return fails
	}
	if d.Stable > maxStable {
		fail("c08/stable-ahead", fmt.Sprintf("stable %d > %d", d.Stable, maxStable))
		return fails
	}
	s := d.Stable
	if s >= 0 && d.StableHash != w.Blocks[s].Hash().Hex() {
		fail("c08/stable-wrong-block", "stable hash is not the workload's block at that height")
	}
	for h := 0; h <= s; h++ {
		if d.ByHeight[h] != w.Blocks[h].Hash().Hex() {
			fail("c08/block-unreadable", fmt.Sprintf("GetBlockByHeight(%d) = %s (stable %d)", h, d.ByHeight[h], s))
		}
		if d.ByHash[h] != "ok" {
			fail("c08/block-unreadable", fmt.Sprintf("GetBlockByHash(block %d) = %s (stable %d)", h, d.ByHash[h], s))
		}
	}
	if s >= 0 {
		if !c08MapEq(d.Accounts, w.Exp[s]) {
			unreadable := false
			for _, v := range d.Accounts {
				if strings.HasPrefix(v, "err") || v == "panic" || strings.HasPrefix(v, "Err") {
					unreadable = true
				}
			}
			if unreadable {
				fail("c08/account-unreadable", fmt.Sprintf("stable block is %d but accounts cannot be read: %s", s, c08MapDiff(d.Accounts, w.Exp[s])))
			} else {
				fail("c08/account-mismatch", fmt.Sprintf("stable block is %d but account data is not as of that block: %s", s, c08MapDiff(d.Accounts, w.Exp[s])))
			}
		}
		for h := 0; h <= s && h < len(d.Codes); h++ {
			if d.Codes[h] != "ok" {
				fail("c08/code-unreadable", fmt.Sprintf("contract code written while block %d was executed: GetContractCode = %s (stable %d)", h, d.Codes[h], s))
			}
			if d.Tries[h] != "ok" {
				fail("c08/trie-unreadable", fmt.Sprintf("version trie of block %d read from its root: %s (stable %d)", h, d.Tries[h], s))
			}
		}
		// the start-up rebuild of the vote top (NewChainDataBase: context.data filtered by the accounts' profiles);
		// only right after a (re)open: the workload does not call CandidatesRanking, so a running node's Top is not maintained
		if strings.Contains(phase, "reopen") && img.candsOld < 0 && d.Top != nil && c08MapEq(d.Cands, w.Cand[s]) && !c08MapEq(d.Top, w.Cand[s]) {
			fail("c08/candidates-top-mismatch", fmt.Sprintf("stable %d: context.data holds the right candidates but GetCandidatesTop differs: %s", s, c08MapDiff(d.Top, w.Cand[s])))
		}
		if img.candsOld >= 0 {
			if !c08MapEq(d.Cands, w.Cand[img.candsOld]) && !c08MapEq(d.Cands, w.Cand[img.candsOld+1]) {
				fail("c08/candidates-mismatch", fmt.Sprintf("candidate list is neither the old one (as of %d) nor the new one: vs old %s", img.candsOld, c08MapDiff(d.Cands, w.Cand[img.candsOld])))
			}
		} else if !c08MapEq(d.Cands, w.Cand[s]) {
			fail("c08/candidates-mismatch", fmt.Sprintf("stable %d: candidate list %s", s, c08MapDiff(d.Cands, w.Cand[s])))
		}
	}
	return fails
}

// c08CtxProto: the file-system protocol RunContext was OBSERVED to follow (inotify on the data directory)
type c08CtxProto struct {
	InPlace      bool   // an existing context.data receives writes under its own name
	EmptyVisible bool   // on the first start context.data is created under its final name before it is written
	TmpName      string // name of the file that is renamed onto context.data ("" if none)
	First, Again []string
}

func c08InotifyRun(dir string, f func()) []string {
	return c08InotifyRunDirs([]string{dir}, []string{""}, f)
}

// c08InotifyRunDirs watches several directories with ONE inotify instance: the events of all watches arrive in one
// queue, in the order in which they happened; names are prefixed per directory.
func c08InotifyRunDirs(dirs []string, prefixes []string, f func()) []string {
	fd, err := syscall.InotifyInit()
	if err != nil {
		panic("inotify: " + err.Error())
	}
	defer syscall.Close(fd)
	wdPrefix := map[int32]string{}
	for i, dir := range dirs {
		wd, err := syscall.InotifyAddWatch(fd, dir, syscall.IN_CREATE|syscall.IN_MODIFY|syscall.IN_MOVED_FROM|syscall.IN_MOVED_TO|syscall.IN_CLOSE_WRITE|syscall.IN_DELETE)
		if err != nil {
			panic("inotify watch: " + err.Error())
		}
		wdPrefix[int32(wd)] = prefixes[i]
	}
	f()
	syscall.SetNonblock(fd, true)
	var evs []string
	buf := make([]byte, 1<<16)
	for {
		n, err := syscall.Read(fd, buf)
		if n <= 0 || err != nil {
			break
		}
		for off := 0; off+syscall.SizeofInotifyEvent <= n; {
			mask := binary.LittleEndian.Uint32(buf[off+4:])
			nameLen := int(binary.LittleEndian.Uint32(buf[off+12:]))
			name := wdPrefix[int32(binary.LittleEndian.Uint32(buf[off:]))] + strings.TrimRight(string(buf[off+syscall.SizeofInotifyEvent:off+syscall.SizeofInotifyEvent+nameLen]), "\x00")
			off += syscall.SizeofInotifyEvent + nameLen
			for _, m := range []struct {
				bit uint32
				s   string
			}{{syscall.IN_CREATE, "create"}, {syscall.IN_MODIFY, "modify"}, {syscall.IN_MOVED_FROM, "moved-from"}, {syscall.IN_MOVED_TO, "moved-to"}, {syscall.IN_CLOSE_WRITE, "close-write"}, {syscall.IN_DELETE, "delete"}} {
				if mask&m.bit != 0 {
					evs = append(evs, m.s+":"+name)
				}
			}
		}
	}
	return evs
}

func c08ObserveCtxProto(base string) *c08CtxProto {
	dir := filepath.Join(base, "ctxproto")
	os.MkdirAll(dir, 0755)
	defer os.RemoveAll(dir)
	p := &c08CtxProto{}
	var rc *store.RunContext
	p.First = c08InotifyRun(dir, func() { rc = store.NewRunContext(dir) })
	p.Again = c08InotifyRun(dir, func() {
		rc.SetCandidates([]*store.Candidate{{Address: c08Addr(200), Total: big.NewInt(5)}})
		if err := rc.Flush(); err != nil {
			panic("context flush: " + err.Error())
		}
	})
	created := false
	for _, e := range p.First {
		if e == "create:context.data" {
			created = true
		}
		if created && e == "modify:context.data" {
			p.EmptyVisible = true
		}
	}
	var from string
	for _, e := range p.Again {
		if e == "modify:context.data" {
			p.InPlace = true
		}
		if strings.HasPrefix(e, "moved-from:") {
			from = strings.TrimPrefix(e, "moved-from:")
		}
		if e == "moved-to:context.data" && from != "" {
			p.TmpName = from
		}
	}
	return p
}

func c08ChainOracle(c *Ctx, base string) {
	proto := c08ObserveCtxProto(base)
	{
		kind := "inplace"
		if !proto.InPlace && !proto.EmptyVisible && proto.TmpName != "" {
			kind = "rename tmp-ignored"
		}
		// the model (Wal.lean, `ctxFlush`) is of the write-temp-then-rename protocol
		c.Op("ctxproto", kind)
		c.Count("ctxproto:" + strings.ReplaceAll(kind, " ", "-"))
		c.Samples = append(c.Samples, "context.data first start: "+strings.Join(proto.First, " ")+" | re-flush: "+strings.Join(proto.Again, " "))
	}
	H := 3
	nWl := 1
	if c.Tier == "thorough" {
		H = 4
		nWl = 3
	}
	for wl := 0; wl < nWl; wl++ {
		w := c08MakeWorkload(c.Seed, wl, H)
		live := filepath.Join(base, fmt.Sprintf("live%d", wl))
		os.MkdirAll(live, 0755)
		db := c08OpenChain(live)
		snaps := make([]string, H+1)
		batches := make([][]byte, H+1)
		for h := 0; h <= H; h++ {
			sb, ss := w.apply(db, h)
			if sb != "ok" || ss != "ok" {
				c08Fail(c, "c08/workload", fmt.Sprintf("continuous node rejects block %d: %s/%s", h, sb, ss), nil)
			}
			if !c08QueueIdle(db.Beansdb.Queue, 20*time.Second) {
				panic(c08HangPanic{"writer-drain", "live queue does not drain"})
			}
			snaps[h] = filepath.Join(base, fmt.Sprintf("snap%d_%d", wl, h))
			c08CopyDir(live, snaps[h])
			batches[h], _ = os.ReadFile(filepath.Join(snaps[h], "tmp.data"))
		}
		cont := c08Observe(db, w) // the never-stopped node
		c08CloseChain(db)
		if f := c08CheckDump(c, w, &c08Image{name: "continuous node", candsOld: -1}, cont, "no crash", H, H); len(f) > 0 {
			c.Count("chain:continuous-node-inconsistent")
		}

		var images []*c08Image
		n := 0
		newImg := func(from string, name, class, cause string, completed, inflight int) *c08Image {
			n++
			img := &c08Image{candsOld: -1, name: name, class: class, cause: cause, dir: filepath.Join(base, fmt.Sprintf("img%d_%d", wl, n)), completed: completed, inflight: inflight}
			c08CopyDir(from, img.dir)
			img.replay = map[string]interface{}{"level": "ChainDatabase", "workload": wl, "H": H, "seed": c.Seed, "crash_point": name}
			images = append(images, img)
			return img
		}
		for h := 1; h <= H; h++ {
			if c.Tier == "quick" && h == 1 {
				continue
			}
			batch := batches[h]
			// record layout of the batch of promotion h
			// (tmp.data may start with records written while block h was executed — contract code, trie nodes —
			// if the writer had not drained them before the batch was appended; the batch starts at the block record)
			recs := c08Layout(batch)
			batchStart := -1
			for ri, rp := range recs {
				if rp.flg == leveldb.ItemFlagBlock {
					batchStart = ri
					break
				}
			}
			if len(recs) == 0 {
				c08Fail(c, "c08/harness/no-record-in-wal", fmt.Sprintf("promotion %d: tmp.data of the snapshot holds no readable record (%d bytes)", h, len(batch)), nil)
				continue
			}
			batch = batch[:recs[len(recs)-1].end] // what the reader can see; anything behind is not part of the promotion
			// the batch of promotion h must hold exactly: block h, height index h, the accounts block h changes
			if batchStart >= 0 {
				real, _, _, _ := store.VerifScanFile(filepath.Join(snaps[h], "tmp.data"))
				var got, want []string
				for ri, r := range real {
					if ri >= batchStart {
						got = append(got, fmt.Sprintf("%d:%x", r.Flg, r.Key))
					}
				}
				want = append(want, fmt.Sprintf("%d:%x", leveldb.ItemFlagBlock, w.Blocks[h].Hash().Bytes()), fmt.Sprintf("%d:%x", leveldb.ItemFlagBlockHeight, leveldb.EncodeNumber(uint32(h))))
				for _, a := range w.Changes[h] {
					want = append(want, fmt.Sprintf("%d:%x", leveldb.ItemFlagAct, a.Address.Bytes()))
				}
				sort.Strings(got)
				sort.Strings(want)
				if strings.Join(got, ",") != strings.Join(want, ",") {
					c08Fail(c, "c08/batch-content", fmt.Sprintf("promotion %d: the batch in tmp.data holds the keys %v, the promotion must write exactly %v", h, got, want), nil)
				}
			}
			if batchStart < 0 {
				batchStart = 0
			}
			c.Count(fmt.Sprintf("chain:insert-time-records-in-wal=%d", batchStart))
			// clean: snapshot after promotion h-1 exactly as it is on disk (tmp.data still holds batch h-1: redelivery)
			newImg(snaps[h-1], fmt.Sprintf("after promotion %d completed (tmp.data still holds its batch)", h-1), "clean", "redelivery-of-applied-batch", h-1, -1)
			// crash inside emptyFile: tmp.data removed, not yet recreated
			im := newImg(snaps[h-1], fmt.Sprintf("promotion %d: tmp.data removed by emptyFile, not yet recreated", h), "wal-removed", "wal-removed-not-recreated", h-1, h)
			os.Remove(filepath.Join(im.dir, "tmp.data"))
			for j, r := range recs {
				cuts := []struct {
					off   int
					class string
				}{
					{r.start + 7, "head"},
					{r.start + 18, "head-complete"},
					{r.start + 18 + r.body/2, "body"},
					{r.start + 18 + r.body, "pad"},
					{r.end, "record-boundary"},
				}
				if c.Tier == "quick" && j >= 3 {
					cuts = cuts[2:]
				}
				for _, ct := range cuts {
					class := ct.class
					if ct.off == len(batch) {
						class = "batch-durable-pointer-not-moved"
					}
					// root cause = how many records of the batch are completely (head + body) in the file
					complete := 0
					for _, rp := range recs[batchStart:] {
						if ct.off >= rp.start+18+rp.body {
							complete++
						}
					}
					nb := len(recs) - batchStart
					cause := "batch-torn-between-records"
					switch {
					case j < batchStart:
						cause = "insert-time-record-torn"
					case complete == 0:
						cause = "first-record-of-batch-torn"
					case complete == nb:
						cause = "batch-durable-pointer-not-moved"
					}
					im := newImg(snaps[h-1], fmt.Sprintf("promotion %d: tmp.data append cut at byte %d of %d (inside record %d of %d: %s; %d of the %d records of the batch complete)", h, ct.off, len(batch), j+1, len(recs), class, complete, nb), class, cause, h-1, h)
					os.WriteFile(filepath.Join(im.dir, "tmp.data"), batch[:min(ct.off, len(batch))], 0644)
					im.replay["cut"] = ct.off
					im.replay["batch_len"] = len(batch)
				}
			}
			// context.data (flush is the last step of promotion h, after SetCurrentBlock). The crash points are
			// derived from the file-system protocol the REAL code was observed to follow (inotify trace, c08CtxProto).
			newCtx, _ := os.ReadFile(filepath.Join(snaps[h], "context.data"))
			oldCtx, _ := os.ReadFile(filepath.Join(snaps[h-1], "context.data"))
			if !bytes.Equal(newCtx, oldCtx) {
				// both protocols: pointer moved, flush not started yet -> the old file, complete
				im := newImg(snaps[h], fmt.Sprintf("promotion %d: SetCurrentBlock executed, Context.Flush not started: context.data is still the file of promotion %d", h, h-1), "context-not-flushed", "pointer-moved-context-not-flushed", h, -1)
				os.WriteFile(filepath.Join(im.dir, "context.data"), oldCtx, 0644)
			}
			if proto.InPlace && len(newCtx) != len(oldCtx) && len(oldCtx) >= 14 {
				im := newImg(snaps[h], fmt.Sprintf("promotion %d: context.data rewritten in place, crash after the head write (new length %d, old body %d)", h, len(newCtx), len(oldCtx)), "context-head-only", "context-rewritten-in-place", h, -1)
				mixed := append(append([]byte{}, newCtx[:14]...), oldCtx[14:]...)
				os.WriteFile(filepath.Join(im.dir, "context.data"), mixed, 0644)
				im2 := newImg(snaps[h], fmt.Sprintf("promotion %d: context.data body write torn in the middle of the new candidate slot", h), "context-body-torn", "context-rewritten-in-place", h, -1)
				os.WriteFile(filepath.Join(im2.dir, "context.data"), newCtx[:len(oldCtx)+20], 0644)
				// body torn inside the 8-byte {Pos,Len} prefix of the last 64-byte candidate slot
				nslots := (len(newCtx) - 22) / 64
				if nslots >= 1 {
					cut := 22 + 64*(nslots-1) + 2
					im3 := newImg(snaps[h], fmt.Sprintf("promotion %d: context.data body write torn at byte %d of %d (inside the position prefix of candidate slot %d)", h, cut, len(newCtx), nslots), "context-slot-torn", "context-rewritten-in-place", h, -1)
					os.WriteFile(filepath.Join(im3.dir, "context.data"), newCtx[:cut], 0644)
				}
			}
			if !proto.InPlace && proto.TmpName != "" && !bytes.Equal(newCtx, oldCtx) {
				// write-temp-then-rename: a crash before the rename leaves the old file intact and the temp
				// file in any state (absent is the image above); after the rename the new file is complete
				// (= the snapshot itself, class "clean")
				nslots := (len(newCtx) - 22) / 64
				cuts := []int{0, 7, 14, 18, len(newCtx) / 2, len(newCtx)}
				if nslots >= 1 {
					cuts = append(cuts, 22+64*(nslots-1)+2)
				}
				for _, cut := range cuts {
					if cut > len(newCtx) {
						continue
					}
					im := newImg(snaps[h], fmt.Sprintf("promotion %d: crash before the rename: context.data = old file, %s = first %d of %d bytes of the new one", h, proto.TmpName, cut, len(newCtx)), "context-tmp-torn", "context-temp-file-left-behind", h, -1)
					os.WriteFile(filepath.Join(im.dir, "context.data"), oldCtx, 0644)
					os.WriteFile(filepath.Join(im.dir, proto.TmpName), newCtx[:cut], 0644)
					im.candsOld = h - 1
				}
			}
		}
		// first start
		fresh := filepath.Join(base, "fresh")
		if proto.EmptyVisible {
			// context.data is created under its final name and written afterwards: crash in between
			os.MkdirAll(fresh, 0755)
			os.WriteFile(filepath.Join(fresh, "context.data"), nil, 0644)
			newImg(fresh, "first start: context.data created by createFile, crash before the first Flush", "context-empty", "context-created-not-flushed", -1, -1)
			os.RemoveAll(fresh)
		} else if proto.TmpName != "" {
			// the file only ever appears by rename: crash before the first rename = no context.data, torn temp file
			for _, cut := range []int{0, 9, 22} {
				os.MkdirAll(fresh, 0755)
				os.WriteFile(filepath.Join(fresh, proto.TmpName), make([]byte, cut), 0644)
				newImg(fresh, fmt.Sprintf("first start: crash before the first rename: no context.data, %s holds %d bytes", proto.TmpName, cut), "context-first-tmp", "context-temp-file-left-behind", -1, -1)
				os.RemoveAll(fresh)
			}
		}

		// a few first-generation images also produce a second-generation image: the child continues by ONE block only
		var gen2s []*c08Image
		{
			picked := map[string]bool{}
			for _, img := range images {
				if (img.cause == "first-record-of-batch-torn" || img.cause == "wal-removed-not-recreated" || img.cause == "insert-time-record-torn") && !picked[img.cause] && img.inflight >= 0 && img.inflight < H {
					picked[img.cause] = true
					img.gen2 = img.dir + ".gen2"
					img.upTo = img.inflight
					gen2s = append(gen2s, &c08Image{name: img.name, dir: img.gen2, completed: img.inflight})
				}
			}
		}
		// run the children (4 at a time)
		type result struct {
			out *c08ChildOut
			die string
		}
		results := make([]result, len(images))
		var hangs int32
		var wg sync.WaitGroup
		sem := make(chan struct{}, 4)
		for i, img := range images {
			wg.Add(1)
			go func(i int, img *c08Image) {
				defer wg.Done()
				sem <- struct{}{}
				defer func() { <-sem }()
				if atomic.LoadInt32(&hangs) >= 3 {
					results[i] = result{nil, "skipped: three reopen processes already hung"}
					os.RemoveAll(img.dir)
					return
				}
				upTo := H
				if img.candsOld >= 0 {
					upTo = -1
				}
				if img.upTo > 0 {
					upTo = img.upTo
				}
				o, die := c08RunChild(c, img, wl, H, upTo)
				if o == nil && (strings.Contains(die, "timeout (hang)") || strings.HasPrefix(die, "HANG ")) {
					atomic.AddInt32(&hangs, 1)
				}
				results[i] = result{o, die}
				os.RemoveAll(img.dir)
			}(i, img)
		}
		wg.Wait()
		for i, img := range images {
			i, img := i, img
			c08Guard(c, "image-check", func() {
				r := results[i]
				if r.out == nil {
					c.Count("chain:" + img.class + ":process-died")
					c08ChildDied(c, img, r.die)
					return
				}
				if r.out.OpenPanic != "" {
					c.Count("chain:" + img.class + ":reopen-panic")
					c08Fail(c, "c08/reopen-panic/"+img.cause, fmt.Sprintf("[%s] NewChainDataBase panics: %s", img.name, r.out.OpenPanic), img.replay)
					return
				}
				maxSt := img.completed
				if img.inflight >= 0 {
					maxSt = img.inflight
				}
				fails := c08CheckDump(c, w, img, r.out.First, "after reopen", img.completed, maxSt)
				// restart equivalence: the restarted node must accept the same subsequent blocks and end like the continuous node
				if len(fails) == 0 || r.out.First.Stable >= 0 {
					for _, s := range r.out.Cont {
						if !strings.HasSuffix(s, ":ok/ok") {
							fails = append(fails, "c08/restart-rejects-block")
							c08Fail(c, "c08/restart-rejects-block/"+img.cause, fmt.Sprintf("[%s] restarted node (stable %d) re-applies the workload's next blocks: %v — the continuous node accepted all of them", img.name, r.out.First.Stable, r.out.Cont), img.replay)
							break
						}
					}
					end := H
					if img.upTo > 0 {
						end = img.upTo
					}
					if r.out.Second != nil && len(fails) == 0 {
						fails = append(fails, c08CheckDump(c, w, img, r.out.Second, "after continuing", end, end)...)
					}
					if r.out.Reopen2 != nil && len(fails) == 0 {
						fails = append(fails, c08CheckDump(c, w, img, r.out.Reopen2, "second clean reopen", end, end)...)
					}
					for _, nt := range r.out.Notes {
						fails = append(fails, "c08/reopen-panic")
						c08Fail(c, "c08/reopen-panic/second-reopen", fmt.Sprintf("[%s] %s", img.name, nt), img.replay)
					}
				}
				if len(fails) == 0 {
					c.Count("chain:" + img.class + ":intact")
				} else {
					sort.Strings(fails)
					c.Count("chain:" + img.class + ":" + strings.TrimPrefix(fails[0], "c08/"))
				}
			})
		}
		// second-generation crash images: a node that was restarted from a crash image and continued dies again
		// with a torn tmp.data
		for gi, g2 := range gen2s {
			data, err := os.ReadFile(filepath.Join(g2.dir, "tmp.data"))
			if err != nil || len(data) < 512 {
				os.RemoveAll(g2.dir)
				continue
			}
			// cut inside the body of the last record
			lay := c08Layout(data)
			if len(lay) == 0 {
				os.RemoveAll(g2.dir)
				continue
			}
			last, lastBody := lay[len(lay)-1].start, lay[len(lay)-1].body
			cut := last + 18 + lastBody/2
			os.WriteFile(filepath.Join(g2.dir, "tmp.data"), data[:min(cut, len(data))], 0644)
			img := &c08Image{candsOld: -1, name: fmt.Sprintf("second generation: the node restarted from [%s], continued to block %d and died again with tmp.data cut at byte %d of %d", g2.name, g2.completed, cut, len(data)), class: "second-generation", cause: "second-generation-torn-wal", dir: g2.dir, completed: g2.completed, inflight: -1}
			img.replay = map[string]interface{}{"level": "ChainDatabase", "generation": 2, "first": g2.name, "cut": cut}
			o, die := c08RunChild(c, img, wl, H, H)
			os.RemoveAll(g2.dir)
			_ = gi
			if o == nil {
				c.Count("chain:second-generation:process-died")
				c08ChildDied(c, img, die)
				continue
			}
			if o.OpenPanic != "" {
				c.Count("chain:second-generation:reopen-panic")
				c08Fail(c, "c08/reopen-panic/"+img.cause, fmt.Sprintf("[%s] NewChainDataBase panics: %s", img.name, o.OpenPanic), img.replay)
				continue
			}
			fails := c08CheckDump(c, w, img, o.First, "after reopen", img.completed, img.completed)
			if len(fails) == 0 && o.Second != nil {
				for _, s := range o.Cont {
					if !strings.HasSuffix(s, ":ok/ok") {
						fails = append(fails, "c08/restart-rejects-block")
						c08Fail(c, "c08/restart-rejects-block/"+img.cause, fmt.Sprintf("[%s] %v", img.name, o.Cont), img.replay)
						break
					}
				}
				if len(fails) == 0 {
					fails = append(fails, c08CheckDump(c, w, img, o.Second, "after continuing to block H", H, H)...)
				}
			}
			if len(fails) == 0 {
				c.Count("chain:second-generation:intact")
			} else {
				c.Count("chain:second-generation:" + strings.TrimPrefix(fails[0], "c08/"))
			}
		}
		for _, s := range snaps {
			os.RemoveAll(s)
		}
		os.RemoveAll(live)
	}
}

// c08Layout lists the records a file really holds, the way the reader walks it: it stops at the first head whose
// body is not completely in the file, whose length is 0 or whose checksum does not match. Nothing read from the
// file (it was written by the code under test) is used as a slice bound without a check.
type c08RecPos struct {
	start, body, end int
	flg              uint32
}

func c08Layout(data []byte) []c08RecPos {
	var recs []c08RecPos
	for off := 0; off+18 <= len(data); {
		bl := int(binary.LittleEndian.Uint32(data[off+4:]))
		if bl <= 0 || bl > len(data) || off+18+bl > len(data) {
			break
		}
		if store.CheckSum(data[off+18:off+18+bl]) != binary.LittleEndian.Uint16(data[off+16:]) {
			break
		}
		adv := int(store.FileUtilsAlign(uint32(18 + bl)))
		if adv <= 0 {
			break
		}
		end := off + adv
		if end > len(data) {
			end = len(data)
		}
		recs = append(recs, c08RecPos{off, bl, end, binary.LittleEndian.Uint32(data[off:])})
		off += adv
	}
	return recs
}

// c08Guard runs one oracle family (or the check of one image); a panic of the HARNESS is reported as a failure of
// its own instead of killing the run.
func c08Guard(c *Ctx, what string, f func()) {
	defer func() {
		if r := recover(); r != nil {
			c08Unmark()
			if hp, ok := r.(c08HangPanic); ok {
				c.Count("hang:" + hp.kind)
				c08Fail(c, "c08/hang/"+hp.kind, fmt.Sprintf("[%s] %s: the asynchronous writer of the live store does not get there within its time limit (family %s given up)", c08Wd.caseNm, hp.what, what), map[string]interface{}{"level": "watchdog", "case": c08Wd.caseNm, "op_kind": hp.kind, "ops": append([]string{}, c08Wd.notes...)})
				return
			}
			c.Count("harness-panic:" + what)
			c08Fail(c, "c08/harness/"+what+"-panicked", fmt.Sprintf("the harness itself panicked in %s: %v (the code under test produced something the harness did not expect)", what, r), nil)
		}
	}()
	f()
}

func c08Oracles(c *Ctx, base string) {
	for _, f := range []struct {
		name string
		run  func(*Ctx, string)
	}{
		{"overwrite-oracle", c08OverwriteOracle}, // crash with overwrites of indexed keys pending (c08_overwrite.go)
		{"beans-oracle", c08BeansOracle},
		{"chain-oracle", c08ChainOracle},
		{"lag-oracle", c08LagOracle},
		{"rewind-oracle", c08RewindOracle},
		{"step-oracle", c08StepOracle},
	} {
		f := f
		c08Family(f.name)
		c08Guard(c, f.name, func() { f.run(c, base) })
	}
}

var _ = hex.EncodeToString

package main

// C08 — overwrite-lag crash family (ChainDatabase level): the process dies while the asynchronous writer LAGS behind
// fsynced writes that OVERWRITE keys which already have a position in the index.
//
// Keys of a node's store are of two kinds: content-addressed / new ones (a new block, the height index of a new
// block, trie nodes, a new account) and OVERWRITTEN ones — an account record (key = address) is rewritten by every
// stable block that changes the account, a block record is rewritten by SetConfirms when confirm packages arrive
// after the block became stable. Start-up recovery has to hand EVERY record of tmp.data that the writer has not
// written back to the writer, whatever the position index already holds for its key: for an overwritten key the
// index points at the OLD value.
//
// Scenario (one live node, real goroutines): genesis writes X, Y; block 1 changes X; both are promoted and the queue
// drains (X, Y and block 1's record are in the data files, their keys indexed). Then the writer is held (exported
// BitCask.RW lock of the bucket of its next record, never altered) and, with the writer standing still:
//   SetStableBlock(block 2)        batch: block 2, height index 2, X (overwrite), Y (overwrite), Z (new)   -> fsynced, pointer moved
//   SetConfirms(block 1, 2 sigs)   block 1's record rewritten (its key is indexed: overwrite)
//   SetConfirms(block 2, 1 sig)    block 2's record rewritten (second record of that key in one tmp.data)
// The data directory is copied = crash image; the writer is released record by record and the directory copied at
// every stop position. The live node then runs on (writer released, block 3 which changes only Z) — it is the node
// that NEVER crashed. Every image is restarted in a child process by the real start-up code and compared with it:
// stable block, account VALUES, confirm signatures of every block, then block 3 is applied to the restarted node and
// everything is compared again (and once more after a clean restart).
// Direct check per image (root cause): a detached queue is started on a copy of the image by the real checkFile /
// scanFile; every record of tmp.data whose value the bitcasks do not hold must be among the records it hands to the
// writer.
// Signatures: c08/account-mismatch/<cause>, c08/confirms-mismatch/<cause>, c08/restart-differs-from-continuous-node/<cause>,
// c08/acked-record-not-redelivered/<cause> with <cause> = overwritten-key-not-redelivered when the direct check
// confirms that root cause, writer-lag-overwrite otherwise.

import (
	"encoding/binary"
	"fmt"
	"math/big"
	"os"
	"path/filepath"
	"sort"
	"strings"
	"sync"
	"time"

	"github.com/LemoFoundationLtd/lemochain-core/chain/types"
	"github.com/LemoFoundationLtd/lemochain-core/common"
	"github.com/LemoFoundationLtd/lemochain-core/store"
	"github.com/LemoFoundationLtd/lemochain-core/store/leveldb"
)

// genesis: X, Y; block 1: X; block 2: X, Y and the new account Z; block 3: only Z (nothing later repairs X or Y).
// Confirms[1], Confirms[2]: signatures that arrive after the block became stable.
func c08MakeOverwriteWorkload(seed int64, idx int, H int) *c08Workload {
	w := &c08Workload{H: H}
	for i := 0; i < 3; i++ {
		w.Addrs = append(w.Addrs, c08Addr(i+11*idx))
	}
	state := map[string]string{}
	var parent common.Hash
	for h := 0; h <= H; h++ {
		hdr := &types.Header{Height: uint32(h), ParentHash: parent, Time: uint32(1600000000 + h)}
		binary.BigEndian.PutUint64(hdr.VersionRoot[0:], uint64(seed))
		binary.BigEndian.PutUint32(hdr.VersionRoot[8:], uint32(idx))
		binary.BigEndian.PutUint32(hdr.VersionRoot[12:], uint32(h+1))
		blk := &types.Block{}
		blk.SetHeader(hdr)
		parent = blk.Hash()
		w.Blocks = append(w.Blocks, blk)
		var ch []*types.AccountData
		for i, a := range w.Addrs {
			var touch bool
			switch h {
			case 0:
				touch = i != 2
			case 1:
				touch = i == 0
			case 2:
				touch = true
			default:
				touch = i == 2
			}
			if !touch {
				continue
			}
			acc := &types.AccountData{
				Address:       a,
				Balance:       big.NewInt(int64(1000*(h+1) + i)),
				NewestRecords: map[types.ChangeLogType]types.VersionRecord{1: {Version: uint32(h + 1), Height: uint32(h)}},
				Candidate:     types.Candidate{Votes: new(big.Int), Profile: make(types.Profile)},
			}
			state[a.Hex()] = c08AccDigest(acc)
			ch = append(ch, acc)
		}
		w.Changes = append(w.Changes, ch)
		cp := map[string]string{}
		for k, v := range state {
			cp[k] = v
		}
		w.Exp = append(w.Exp, cp)
		w.Cand = append(w.Cand, map[string]string{})
		var sigs []types.SignData
		nsig := map[int]int{1: 2, 2: 1}[h]
		for j := 0; j < nsig; j++ {
			var sg types.SignData
			for b := range sg {
				sg[b] = byte(fnv32([]byte{byte(idx), byte(h), byte(j), byte(b)}))
			}
			sigs = append(sigs, sg)
		}
		w.Confirms = append(w.Confirms, sigs)
	}
	return w
}

func c08ConfirmStr(sigs []types.SignData) string {
	var all []byte
	for _, sg := range sigs {
		all = append(all, sg[:]...)
	}
	return fmt.Sprintf("%d:%d", len(sigs), fnv32(all))
}

type c08OwImage struct {
	img       *c08Image
	persisted int      // records of tmp.data the writer had written when the image was taken
	unwritten []c08Rec // records of tmp.data whose value the bitcasks do not hold (at image time)
	indexed   int      // … of which for keys that already have a position (overwrites)
}

func c08OverwriteOracle(c *Ctx, base string) {
	n := 1
	if c.Tier == "thorough" {
		n = 3 // other block hashes: other bitcask buckets, other stop positions of the writer
	}
	for i := 0; i < n; i++ {
		i := i
		c08Guard(c, "overwrite-oracle", func() { c08OverwriteRun(c, base, 400+13*i) })
	}
}

func c08OverwriteRun(c *Ctx, base string, wl int) {
	H := 3
	// the workload index is searched (deterministically) so that block 1's record lies in another bitcask than block
	// 2's: SetConfirms(block 1) reads it through its bitcask while the writer is held in front of block 2's record
	var w *c08Workload
	for last := wl + 12; wl < last; wl++ {
		w = c08MakeOverwriteWorkload(c.Seed, wl, H)
		b1 := store.Byte2Uint32(w.Blocks[1].Hash().Bytes()) >> 24
		b2 := store.Byte2Uint32(w.Blocks[2].Hash().Bytes()) >> 24
		if b1 != b2 {
			break
		}
	}
	c08Case(fmt.Sprintf("overwrite-lag workload %d", wl))
	live := filepath.Join(base, "ow-live")
	os.MkdirAll(live, 0755)
	defer os.RemoveAll(live)
	db := c08OpenChain(live)
	q := db.Beansdb.Queue
	sf := q.SyncFileDB
	walPath := filepath.Join(live, "tmp.data")
	replay := map[string]interface{}{"level": "ChainDatabase", "family": "overwrite-lag", "workload": wl, "seed": c.Seed,
		"recipe": "genesis X,Y; block 1 changes X; both promoted, queue drained; writer held; SetStableBlock(block 2: X,Y overwritten, Z new); SetConfirms(block 1); SetConfirms(block 2); copy the data directory; restart on the copy; compare with the node that ran on"}
	for h := 0; h <= 1; h++ {
		if sb, ss := w.applyNoConfirms(db, h); sb != "ok" || ss != "ok" {
			c08Fail(c, "c08/workload", fmt.Sprintf("continuous node rejects block %d of the overwrite workload: %s/%s", h, sb, ss), nil)
			c08CloseChain(db)
			return
		}
		if !c08QueueIdle(q, 20*time.Second) {
			panic(c08HangPanic{"writer-drain", fmt.Sprintf("overwrite-lag: block %d promoted, the queue does not drain", h)})
		}
	}
	// blocks 2 and 3 arrive (memory only) before the writer is held: SetBlock reads through the bitcasks
	for h := 2; h <= 3; h++ {
		blk := w.Blocks[h]
		c08Mark("set-block")
		err := db.SetBlock(blk.Hash(), blk)
		c08Unmark()
		if err != nil {
			panic("overwrite-lag: SetBlock: " + err.Error())
		}
		act, _ := db.GetActDatabase(blk.Hash())
		for _, a := range w.Changes[h] {
			act.Put(a, uint32(h))
		}
	}
	scanWal := func(path string) []c08Rec {
		recs, _, _, _ := store.VerifScanFile(path)
		var out []c08Rec
		for _, r := range recs {
			out = append(out, c08Rec{r.Flg, r.Key, r.Val})
		}
		return out
	}
	// hold the writer in front of the first record it will get: block 2's record
	held := c08Bucket(db, w.Blocks[2].Hash().Bytes())
	sf.BitCasks[held].RW.Lock()
	unlockHeld := func() {
		if held >= 0 {
			sf.BitCasks[held].RW.Unlock()
			held = -1
		}
	}
	defer unlockHeld()
	c08Note("writer held; SetStableBlock(block 2)")
	c08Mark("set-stable-block")
	_, err := db.SetStableBlock(w.Blocks[2].Hash())
	c08Unmark()
	if err != nil {
		panic("overwrite-lag: SetStableBlock(2): " + err.Error())
	}
	for _, h := range []int{1, 2} {
		c08Note(fmt.Sprintf("SetConfirms(block %d, %d signatures) with the writer held", h, len(w.Confirms[h])))
		c08Mark("set-confirms")
		_, err := db.SetConfirms(w.Blocks[h].Hash(), w.Confirms[h])
		c08Unmark()
		if err != nil {
			panic(fmt.Sprintf("overwrite-lag: SetConfirms(%d): %v", h, err))
		}
	}
	fifo := scanWal(walPath) // tmp.data was emptied by the promotion (the queue was idle): exactly the records queued since
	// the batch and the two rewritten block records, as the harness expects them
	{
		var got []string
		for _, r := range fifo {
			got = append(got, fmt.Sprintf("%d:%x", r.Flg, r.Key))
		}
		want := []string{fmt.Sprintf("%d:%x", leveldb.ItemFlagBlock, w.Blocks[2].Hash().Bytes()), fmt.Sprintf("%d:%x", leveldb.ItemFlagBlockHeight, leveldb.EncodeNumber(2))}
		for _, a := range w.Changes[2] {
			want = append(want, fmt.Sprintf("%d:%x", leveldb.ItemFlagAct, a.Address.Bytes()))
		}
		want = append(want, fmt.Sprintf("%d:%x", leveldb.ItemFlagBlock, w.Blocks[1].Hash().Bytes()), fmt.Sprintf("%d:%x", leveldb.ItemFlagBlock, w.Blocks[2].Hash().Bytes()))
		g2, w2 := append([]string{}, got...), append([]string{}, want...)
		sort.Strings(g2)
		sort.Strings(w2)
		if strings.Join(g2, ",") != strings.Join(w2, ",") {
			c08Fail(c, "c08/batch-content", fmt.Sprintf("overwrite-lag: promotion of block 2 and two SetConfirms with the writer held: tmp.data holds the keys %v, expected %v", got, want), replay)
		}
	}
	c.Count(fmt.Sprintf("overwrite:wal-records=%d", len(fifo)))
	// stop positions: the writer can be held in front of record p iff its bitcask differs from the one held before
	stops := []int{0}
	{
		cur := c08Bucket(db, fifo[0].Key)
		for p := 1; p < len(fifo); p++ {
			if b := c08Bucket(db, fifo[p].Key); b != cur {
				stops = append(stops, p)
				cur = b
			}
		}
	}
	c.Count(fmt.Sprintf("overwrite:stops=%d", len(stops)))
	var images []*c08OwImage
	take := func(persisted int) {
		name := fmt.Sprintf("overwrite-lag: block 2 promoted (X, Y overwritten, Z new) and confirms of blocks 1, 2 stored with the writer held; the writer has written %d of the %d records of tmp.data; the process dies", persisted, len(fifo))
		img := &c08Image{candsOld: -1, name: name, class: "overwrite-lag", cause: "writer-lag-overwrite", dir: filepath.Join(base, fmt.Sprintf("owimg-%d", persisted)), completed: 2, inflight: -1}
		c08CopyDir(live, img.dir)
		img.replay = map[string]interface{}{}
		for k, v := range replay {
			img.replay[k] = v
		}
		img.replay["records_in_wal"] = len(fifo)
		img.replay["records_written_by_the_writer"] = persisted
		oi := &c08OwImage{img: img, persisted: persisted}
		for _, r := range fifo {
			v, _ := q.VerifPersisted(r.Flg, r.Key)
			if string(v) != string(r.Val) {
				oi.unwritten = append(oi.unwritten, r)
				if v != nil {
					oi.indexed++
				}
			}
		}
		if oi.indexed > 0 {
			c.Count("overwrite:image-with-overwrite-of-indexed-key-pending")
		}
		images = append(images, oi)
	}
	take(0)
	for si := 1; si < len(stops); si++ {
		next := stops[si]
		nb := c08Bucket(db, fifo[next].Key)
		sf.BitCasks[nb].RW.Lock()
		old := held
		held = nb
		sf.BitCasks[old].RW.Unlock()
		want := len(fifo) - next - 1
		c08MarkFor("writer-advance", 30*time.Second)
		ok := c08WaitFor("writer advanced", func() bool { return len(sf.WriteChan) == want && len(q.DoneChan) == 0 })
		c08Unmark()
		if !ok {
			panic(c08HangPanic{"writer-drain", fmt.Sprintf("overwrite-lag: the writer, released up to record %d of %d, does not advance", next, len(fifo))})
		}
		for g := 0; g < 3; g++ {
			q.IndexRW.Lock()
			q.IndexRW.Unlock()
			time.Sleep(2 * time.Millisecond)
		}
		take(next)
	}
	// the node that never crashed: the writer runs on, then block 3
	unlockHeld()
	if !c08QueueIdle(q, 20*time.Second) {
		panic(c08HangPanic{"writer-drain", "overwrite-lag: the released writer does not drain"})
	}
	contMid := c08Observe(db, w)
	c08Mark("set-stable-block")
	_, err = db.SetStableBlock(w.Blocks[3].Hash())
	c08Unmark()
	if err != nil {
		panic("overwrite-lag: SetStableBlock(3): " + err.Error())
	}
	if !c08QueueIdle(q, 20*time.Second) {
		panic(c08HangPanic{"writer-drain", "overwrite-lag: block 3 promoted, the queue does not drain"})
	}
	contEnd := c08Observe(db, w)
	c08CloseChain(db)
	// the never-stopped node itself against the workload (independent expectation)
	contImg := &c08Image{name: "continuous node (overwrite-lag workload)", candsOld: -1, replay: replay}
	c08CheckDump(c, w, contImg, contMid, "no crash, block 2 stable", 2, 2)
	c08CheckDump(c, w, contImg, contEnd, "no crash, block 3 stable", 3, 3)
	for h := 1; h <= 2; h++ {
		if h < len(contEnd.Confirms) && contEnd.Confirms[h] != c08ConfirmStr(w.Confirms[h]) {
			c08Fail(c, "c08/confirms-mismatch/continuous-node", fmt.Sprintf("the node that never stopped serves confirms %s for block %d, SetConfirms stored %s", contEnd.Confirms[h], h, c08ConfirmStr(w.Confirms[h])), replay)
		}
	}

	// quick tier: the image with nothing written and three more, spread over the stop positions
	if c.Tier == "quick" && len(images) > 4 {
		pick := []*c08OwImage{images[0], images[len(images)/3], images[2*len(images)/3], images[len(images)-1]}
		for _, oi := range images {
			keep := false
			for _, p := range pick {
				keep = keep || p == oi
			}
			if !keep {
				os.RemoveAll(oi.img.dir)
			}
		}
		images = pick
	}
	// direct check per image: what the real start-up scan hands to the writer (detached queue on a copy)
	for _, oi := range images {
		oi := oi
		c08Guard(c, "overwrite-redelivery", func() {
			cp := oi.img.dir + ".scan"
			os.RemoveAll(cp)
			c08CopyDir(oi.img.dir, cp)
			defer os.RemoveAll(cp)
			var ldb *leveldb.LevelDBDatabase
			var dq *store.FileQueue
			var err error
			st := ""
			c08Do("queue-restart", func() {
				st = Safe(func() string {
					ldb = leveldb.NewLevelDBDatabase(filepath.Join(cp, "index"), 16, 16)
					dq, err = store.VerifNewDetachedQueueDB(cp, ldb)
					if err != nil {
						return c08ErrName(err)
					}
					return "ok"
				})
			})
			defer func() {
				if dq != nil {
					dq.Close()
				}
				if ldb != nil {
					c08Do("leveldb-close", func() { Safe(func() string { ldb.Close(); return "" }) })
				}
			}()
			if st != "ok" {
				c.Count("overwrite:detached-restart-fails")
				return // the child's reopen reports it
			}
			var got []c08Rec
			for op := c08Recv(dq, 0); op != nil; op = c08Recv(dq, 0) {
				got = append(got, c08Rec{op.Flg, op.Key, op.Val})
			}
			if c08Subseq(oi.unwritten, got) {
				c.Count("overwrite:unwritten-records-redelivered")
				return
			}
			var missing []string
			for _, r := range oi.unwritten {
				if !c08Subseq([]c08Rec{r}, got) {
					missing = append(missing, fmt.Sprintf("%d:%x", r.Flg, r.Key))
				}
			}
			c.Count("overwrite:unwritten-record-not-redelivered")
			if oi.indexed > 0 {
				oi.img.cause = "overwritten-key-not-redelivered"
			} else {
				oi.img.cause = "record-in-wal-not-redelivered"
			}
			c08Fail(c, "c08/acked-record-not-redelivered/"+oi.img.cause, fmt.Sprintf("[%s] tmp.data holds %d records; %d of them carry a value the data files do not hold (%d overwrite keys that already have a position in the index); the real start-up scan (checkFile on a copy of the image) hands %d records to the writer and NOT %v: their acknowledged values are never written", oi.img.name, len(fifo), len(oi.unwritten), oi.indexed, len(got), missing), oi.img.replay)
		})
	}
	// restart every image in a child process and compare with the node that ran on
	type result struct {
		out *c08ChildOut
		die string
	}
	results := make([]result, len(images))
	var wg sync.WaitGroup
	sem := make(chan struct{}, 4)
	for i, oi := range images {
		wg.Add(1)
		go func(i int, img *c08Image) {
			defer wg.Done()
			sem <- struct{}{}
			defer func() { <-sem }()
			o, die := c08RunChild(c, img, wl, H, H)
			results[i] = result{o, die}
			os.RemoveAll(img.dir)
		}(i, oi.img)
	}
	wg.Wait()
	for i, oi := range images {
		i, img := i, oi.img
		c08Guard(c, "image-check", func() {
			r := results[i]
			if r.out == nil {
				c.Count("chain:" + img.class + ":process-died")
				c08ChildDied(c, img, r.die)
				return
			}
			if r.out.OpenPanic != "" {
				c.Count("chain:" + img.class + ":reopen-panic")
				c08Fail(c, "c08/reopen-panic/"+img.cause, fmt.Sprintf("[%s] NewChainDataBase panics: %s", img.name, r.out.OpenPanic), img.replay)
				return
			}
			fails := c08CheckDump(c, w, img, r.out.First, "after reopen", 2, 2)
			fails = append(fails, c08CompareWithContinuous(c, img, r.out.First, contMid, "after reopen", len(fails) > 0)...)
			if len(fails) == 0 {
				for _, s := range r.out.Cont {
					if !strings.HasSuffix(s, ":ok/ok") {
						fails = append(fails, "c08/restart-rejects-block")
						c08Fail(c, "c08/restart-rejects-block/"+img.cause, fmt.Sprintf("[%s] restarted node re-applies the next blocks: %v — the node that never stopped accepted block 3", img.name, r.out.Cont), img.replay)
						break
					}
				}
			}
			if r.out.Second != nil && len(fails) == 0 {
				fails = append(fails, c08CheckDump(c, w, img, r.out.Second, "after continuing to block 3", H, H)...)
				fails = append(fails, c08CompareWithContinuous(c, img, r.out.Second, contEnd, "after continuing to block 3", len(fails) > 0)...)
			}
			if r.out.Reopen2 != nil && len(fails) == 0 {
				fails = append(fails, c08CheckDump(c, w, img, r.out.Reopen2, "second clean reopen", H, H)...)
				fails = append(fails, c08CompareWithContinuous(c, img, r.out.Reopen2, contEnd, "second clean reopen", len(fails) > 0)...)
			}
			if len(fails) == 0 {
				c.Count("chain:" + img.class + ":intact")
			} else {
				sort.Strings(fails)
				c.Count("chain:" + img.class + ":" + strings.TrimPrefix(fails[0], "c08/"))
			}
		})
	}
}

// applyNoConfirms: apply() without the SetConfirms calls (this family issues them itself, with the writer held)
func (w *c08Workload) applyNoConfirms(db *store.ChainDatabase, h int) (string, string) {
	saved := w.Confirms
	w.Confirms = nil
	defer func() { w.Confirms = saved }()
	return w.apply(db, h)
}

// c08CompareWithContinuous: "a restarted node behaves exactly like a node that never stopped" — the observables of
// the restarted node against the ones of the live node that ran on: stable block, account VALUES, confirm signatures
// of every block, blocks by height. `quiet`: c08CheckDump has already reported this dump (only the confirms, which it
// does not look at, are compared).
func c08CompareWithContinuous(c *Ctx, img *c08Image, got, cont *c08Dump, phase string, quiet bool) []string {
	var fails []string
	fail := func(sig, detail string) {
		fails = append(fails, sig)
		c08Fail(c, sig+"/"+img.cause, fmt.Sprintf("[%s; %s] %s", img.name, phase, detail), img.replay)
	}
	// only what is durable by the property: blocks up to the stable one (an unconfirmed block lives in memory only)
	upto := func(l []string, d *c08Dump) []string {
		if d.Stable+1 < len(l) {
			return l[:d.Stable+1]
		}
		return l
	}
	got = &c08Dump{Stable: got.Stable, StableHash: got.StableHash, Accounts: got.Accounts, ByHeight: upto(got.ByHeight, got), Confirms: upto(got.Confirms, got)}
	cont = &c08Dump{Stable: cont.Stable, StableHash: cont.StableHash, Accounts: cont.Accounts, ByHeight: upto(cont.ByHeight, cont), Confirms: upto(cont.Confirms, cont)}
	if !quiet {
		if got.Stable != cont.Stable || got.StableHash != cont.StableHash {
			fail("c08/restart-differs-from-continuous-node", fmt.Sprintf("stable block %d (%s), the node that never stopped: %d (%s)", got.Stable, got.StableHash, cont.Stable, cont.StableHash))
		} else if !c08MapEq(got.Accounts, cont.Accounts) {
			fail("c08/account-mismatch", fmt.Sprintf("stable block is %d on both, but the restarted node's account values differ from the ones of the node that never stopped: %s", got.Stable, c08MapDiff(got.Accounts, cont.Accounts)))
		} else if strings.Join(got.ByHeight, ",") != strings.Join(cont.ByHeight, ",") {
			fail("c08/restart-differs-from-continuous-node", fmt.Sprintf("blocks by height %v, the node that never stopped: %v", got.ByHeight, cont.ByHeight))
		}
	}
	if strings.Join(got.Confirms, ",") != strings.Join(cont.Confirms, ",") {
		fail("c08/confirms-mismatch", fmt.Sprintf("confirm signatures per block (count:fingerprint) %v, the node that never stopped serves %v: a block record rewritten by SetConfirms (acknowledged, fsynced in tmp.data) came back with its OLD content", got.Confirms, cont.Confirms))
	}
	return fails
}

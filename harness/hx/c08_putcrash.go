package main

// C08 — a crash INSIDE one BitCask.Put, and during the redelivery that follows it.
//
// BitCask.Put makes three durable steps per record: (1) the record is written into the bitcask data file AT the
// in-memory cursor, (2) leveldb.SetPos(key -> cursor), (3) leveldb.SetCurrentPos(cursor + length). This family
// produces REAL crash images at each of those step boundaries, without any call-site hook:
//   * the queue is the detached one (store.VerifNewDetachedQueueDB: real tmp.data, real bitcask files, real
//     LevelDB; the harness plays the writer goroutine record by record with VerifWriterPut / VerifAfterPut);
//   * step 2 or step 3 of the put is made to FAIL THROUGH THE ENVIRONMENT: the LevelDB is switched read-only
//     (goleveldb DB.SetReadOnly) either before the put (step 2 fails: "file written, position and cursor not") or
//     by the LevelDB wrapper's own write meter at the second LevelDB write of the put (step 3 fails: "position
//     written, cursor not"). The write meter is the existing instrumentation point of
//     store/leveldb.LevelDBDatabase.Put (`db.writeMeter.Mark` runs before every write); it is installed through
//     the code's own switch (metrics.Enabled + LevelDBDatabase.Meter(), which fetches the meter registered under
//     metrics.LevelDb_write_meterName from go-metrics' default registry);
//   * the data directory is copied at that instant = the disk image of a process that died there; the image is
//     reopened by the real start-up code (NewBitCask: cursor from LevelDB; checkFile: scan + redelivery), the
//     redelivery is itself interrupted by further crashes, and the last image is opened by the REAL BeansDB
//     (real writer and queue goroutines), drained, written to again — all keys are chosen by the real route
//     hash so that they live in ONE bitcask —, read back, restarted cleanly and read back again.
// Correspondence: the same op lines (bput / bdone / bcrash k / bget / bdrain / bputd / brestart) drive
// LemoModel.Bitcask; persisted cursor, data-file size, position of the record in flight, number of redelivered
// records and every read result are compared.
// Direct oracle (independent of the model): every key ever acknowledged reads back its last acknowledged value
// and the cursor is the end of the data file whenever the writer is idle.

import (
	"bytes"
	"fmt"
	"io"
	"os"
	"path/filepath"
	"strings"
	"sync"
	"time"

	"github.com/LemoFoundationLtd/lemochain-core/metrics"
	"github.com/LemoFoundationLtd/lemochain-core/store"
	"github.com/LemoFoundationLtd/lemochain-core/store/leveldb"
	gometrics "github.com/rcrowley/go-metrics"
)

// c08FaultMeter is a go-metrics Meter: LevelDBDatabase.Put marks it before every write.
type c08FaultMeter struct {
	mu    sync.Mutex
	left  int
	fire  func()
	marks int64
}

func (m *c08FaultMeter) Mark(int64) {
	m.mu.Lock()
	m.marks++
	var f func()
	if m.left > 0 {
		m.left--
		if m.left == 0 {
			f, m.fire = m.fire, nil
		}
	}
	m.mu.Unlock()
	if f != nil {
		f()
	}
}

// arm: the n-th LevelDB write from now runs f first
func (m *c08FaultMeter) arm(n int, f func()) {
	m.mu.Lock()
	m.left, m.fire = n, f
	m.mu.Unlock()
}
func (m *c08FaultMeter) Count() int64              { return m.marks }
func (m *c08FaultMeter) Rate1() float64            { return 0 }
func (m *c08FaultMeter) Rate5() float64            { return 0 }
func (m *c08FaultMeter) Rate15() float64           { return 0 }
func (m *c08FaultMeter) RateMean() float64         { return 0 }
func (m *c08FaultMeter) Snapshot() gometrics.Meter { return m }
func (m *c08FaultMeter) Stop()                     {}

var c08Meter = &c08FaultMeter{}
var c08MeterOnce sync.Once

// c08OpenMeteredLDB opens a LevelDB whose wrapper reports every write to c08Meter.
func c08OpenMeteredLDB(path string) *leveldb.LevelDBDatabase {
	c08MeterOnce.Do(func() {
		gometrics.DefaultRegistry.Unregister(metrics.LevelDb_write_meterName)
		if err := gometrics.DefaultRegistry.Register(metrics.LevelDb_write_meterName, c08Meter); err != nil {
			panic("register write meter: " + err.Error())
		}
	})
	ldb := leveldb.NewLevelDBDatabase(path, 16, 16)
	old := metrics.Enabled
	metrics.Enabled = true
	ldb.Meter()
	metrics.Enabled = old
	return ldb
}

// the wrapper's Close waits for its metrics goroutine, which may have returned already: close the handle itself
func c08CloseMeteredLDB(ldb *leveldb.LevelDBDatabase) {
	if ldb != nil {
		Safe(func() string { ldb.LDB().Close(); return "" })
	}
}

type c08PC struct {
	c         *Ctx
	base      string
	it        int
	gen       int
	dir       string
	ldb       *leveldb.LevelDBDatabase
	q         *store.FileQueue // detached queue (phases A, B)
	b         *c08Beans        // real BeansDB (phase C)
	tb        int              // the bitcask every key is routed to
	keys      [][]byte
	flags     []uint32
	want      map[int][]byte  // last acknowledged value per key index
	pend      []int           // key indexes of the records handed to the writer (detached phases), oldest first
	inbox     []*store.Inject // the records the code under test REALLY handed to the writer and that the harness (playing the writer) has not stored yet, oldest first
	lastTaken *store.Inject
	dead      bool // the case was given up (the code under test did not hand over a record the harness had to store)
	trace     []string
	nval      int
	tornLen   int // bytes of the record written by the last torn data-file write
	lastKi    int // key index of the record that was in flight at the last crash
}

func (x *c08PC) op(op, out string) {
	x.trace = append(x.trace, op)
	c08Note(op)
	x.c.Op(op, out)
}

// take: everything the queue has handed to the writer's channel since the last look (never blocks)
func (x *c08PC) take() {
	if x.q == nil {
		return
	}
	for op := c08Recv(x.q, 0); op != nil; op = c08Recv(x.q, 0) {
		x.inbox = append(x.inbox, op)
	}
}

// next: the oldest record handed to the writer and not yet stored; nil = the code under test has handed over fewer
// records than tmp.data holds unpersisted (the harness cannot play the writer any further: the case ends, the reads
// of phase C are skipped; the op line that showed the missing hand-over is a correspondence diff)
func (x *c08PC) next(what string) *store.Inject {
	x.take()
	if len(x.inbox) == 0 {
		x.dead = true
		x.c.Count("putcrash:record-not-handed-to-writer")
		c08Fail(x.c, "c08/acked-record-not-redelivered/bitcask-put-crash", fmt.Sprintf("%s: tmp.data holds %d record(s) that are acknowledged and not yet stored completely, but the code under test has handed none of them to the writer (its channel is empty). Ops: %s", what, len(x.pend), strings.Join(x.trace, "; ")), x.replay())
		return nil
	}
	op := x.inbox[0]
	x.inbox = x.inbox[1:]
	x.lastTaken = op
	return op
}

func (x *c08PC) dataFile() string {
	return filepath.Join(x.dir, fmt.Sprintf("%02d", x.tb>>4), fmt.Sprintf("%02d", x.tb&0xf), "000.data")
}

func (x *c08PC) curSize(ldb *leveldb.LevelDBDatabase) (cur int64, size int64) {
	p, err := leveldb.GetCurrentPos(ldb, x.tb)
	if err != nil {
		return -1, -1
	}
	size = -1
	if fi, err := os.Stat(x.dataFile()); err == nil {
		size = fi.Size()
	}
	return int64(p), size
}

func (x *c08PC) state(ldb *leveldb.LevelDBDatabase) string {
	cur, size := x.curSize(ldb)
	return fmt.Sprintf("cur=%d size=%d", cur, size)
}

func (x *c08PC) posOf(ldb *leveldb.LevelDBDatabase, ki int) string {
	if ki < 0 {
		return "none"
	}
	p, err := leveldb.GetPos(ldb, x.flags[ki], x.keys[ki])
	if err != nil {
		return "err"
	}
	if p == nil {
		return "none"
	}
	return fmt.Sprintf("%d", p.Offset)
}

func c08GetStr(val []byte, err error) string {
	switch {
	case err == io.EOF:
		return "err:EOF"
	case err != nil && os.IsNotExist(err):
		return "err:NoSuchFile"
	case err != nil:
		return c08ErrName(err)
	case val == nil:
		return "none"
	}
	return fmt.Sprintf("ok %d:%d", len(val), fnv32(val))
}

func (x *c08PC) newVal() []byte {
	x.nval++
	n := []int{1, 3, 30, 200, 250, 500, 900}[x.c.Rnd.Intn(7)]
	v := c08RandBytes(x.c, n)
	v[0] = byte(x.nval) | 1 // never empty, never all zero
	return v
}

func (x *c08PC) recWord(ki int, val []byte) string {
	return fmt.Sprintf("%d:%s:%s", x.flags[ki], hexOrDash(x.keys[ki]), hexOrDash(val))
}

// ---- detached phases: the harness is the writer goroutine ----

func (x *c08PC) put(ki int) {
	val := x.newVal()
	c08Do("queue-put", func() {
		if err := x.q.Put(x.flags[ki], x.keys[ki], val); err != nil {
			panic("queue put: " + err.Error())
		}
	})
	x.want[ki] = val
	x.pend = append(x.pend, ki)
	x.take()
	recs, _, _, _ := store.VerifScanFile(filepath.Join(x.dir, "tmp.data"))
	x.op("bput "+x.recWord(ki, val), fmt.Sprintf("pend=%d wal=%d", len(x.inbox), len(recs)))
	x.c.Count("putcrash:put")
}

func (x *c08PC) done() bool {
	op := x.next("the writer is to store the oldest pending record")
	if op == nil {
		return false
	}
	ki := x.kiOf(op)
	if len(x.pend) > 0 {
		x.pend = x.pend[1:]
	}
	c08Do("writer-put", func() {
		if err := x.q.VerifWriterPut(op); err != nil {
			panic("bitcask put: " + err.Error())
		}
	})
	c08Do("queue-afterput", func() { x.q.VerifAfterPut(op) })
	x.op("bdone", x.state(x.ldb)+" pos="+x.posOf(x.ldb, ki))
	x.c.Count("putcrash:done")
	return true
}

func (x *c08PC) kiOf(op *store.Inject) int {
	for i, key := range x.keys {
		if bytes.Equal(key, op.Key) {
			return i
		}
	}
	return -1
}

func (x *c08PC) get(ki int) {
	var val []byte
	var err error
	st := ""
	c08Do("bitcask-get", func() {
		st = Safe(func() string { val, err = x.q.SyncFileDB.Get(x.flags[ki], x.keys[ki]); return "ok" })
	})
	out := "panic"
	if st == "ok" {
		out = c08GetStr(val, err)
	}
	x.op(fmt.Sprintf("bget %d:%s", x.flags[ki], hexOrDash(x.keys[ki])), out)
	x.c.Count("putcrash:get-detached:" + strings.SplitN(out, " ", 2)[0])
}

// die: the process dies after k durable steps of the put of the oldest pending record (k = 0: between two puts);
// the data directory as it is at that instant becomes x.dir. Returns the key index of the record in flight.
// k = -1: the process dies INSIDE step 1, in the middle of the data-file write: the image is the one of k = 1 with
// only the first x.tornLen bytes of the record written (synthesised from the file before and after the real write:
// a write cannot be made to tear through the environment).
func (x *c08PC) die(k int) (ki int) {
	ki = -1
	if len(x.pend) == 0 {
		k = 0
	}
	torn := k == -1
	var before []byte
	if torn {
		k = 1
		before, _ = os.ReadFile(x.dataFile())
	}
	if len(x.pend) > 0 {
		ki = x.pend[0] // the oldest pending record: its position is reported with the image
	}
	if k > 0 {
		op := x.next(fmt.Sprintf("the process is to die after durable step %d of the put of the oldest pending record", k))
		if op == nil {
			k = 0 // nothing to be in flight: the image is the one of a process that dies between two puts
		}
	}
	if k > 0 {
		op := x.lastTaken
		ki = x.kiOf(op)
		var perr error
		c08Mark("writer-put")
		switch k {
		case 1:
			x.ldb.LDB().SetReadOnly() // every LevelDB write fails from now on: the put stops after the data-file write
			perr = x.q.VerifWriterPut(op)
		case 2:
			ldb := x.ldb
			c08Meter.arm(2, func() { ldb.LDB().SetReadOnly() }) // SetPos goes through, SetCurrentPos fails
			perr = x.q.VerifWriterPut(op)
			c08Meter.arm(0, nil)
		default:
			perr = x.q.VerifWriterPut(op) // all three steps; the Done is never processed
		}
		c08Unmark()
		if (k < 3) != (perr != nil) {
			x.c.Count("putcrash:fault-not-hit")
			c08Fail(x.c, "c08/harness/put-fault-not-hit", fmt.Sprintf("BitCask.Put was to stop after durable step %d, it returned %v", k, perr), nil)
		}
	}
	x.c.Count(fmt.Sprintf("putcrash:crash-after-step-%d", k))
	x.gen++
	img := filepath.Join(x.base, fmt.Sprintf("pc%d-g%d", x.it, x.gen))
	os.RemoveAll(img)
	c08CopyDir(x.dir, img)
	if torn {
		old := x.dir
		x.dir = img
		after, _ := os.ReadFile(x.dataFile())
		cur, _ := x.curSize(x.ldb)
		x.tornLen = 0
		data := append([]byte{}, before...)
		if int(cur) <= len(before) && len(after) > int(cur)+1 {
			x.tornLen = 1 + x.c.Rnd.Intn(len(after)-int(cur)-1)
			if x.c.Rnd.Intn(4) == 0 {
				x.tornLen = 1 + x.c.Rnd.Intn(20) // inside the head
			}
			end := int(cur) + x.tornLen
			for len(data) < end {
				data = append(data, 0)
			}
			copy(data[cur:end], after[cur:end])
		}
		if err := os.WriteFile(x.dataFile(), data, 0644); err != nil {
			panic(err)
		}
		x.dir = old
		x.c.Count("putcrash:crash-inside-file-write")
	}
	x.q.Close()
	c08CloseMeteredLDB(x.ldb)
	os.RemoveAll(x.dir)
	x.dir, x.q, x.ldb, x.pend, x.inbox = img, nil, nil, nil, nil
	x.lastKi = ki
	return ki
}

// crash + restart with the detached queue again: real NewBitCask (cursor recovery) and real checkFile (redelivery)
func (x *c08PC) crashName(k int) string {
	if k == -1 {
		return fmt.Sprintf("btorn %d", x.tornLen)
	}
	return fmt.Sprintf("bcrash %d", k)
}

func (x *c08PC) crash(k int) bool {
	if len(x.pend) == 0 {
		k = 0
	}
	ki := x.die(k)
	x.ldb = c08OpenMeteredLDB(filepath.Join(x.dir, "index"))
	var err error
	st := ""
	c08Do("queue-restart", func() {
		st = Safe(func() string {
			x.q, err = store.VerifNewDetachedQueueDB(x.dir, x.ldb)
			if err != nil {
				return "error: " + err.Error()
			}
			return "ok"
		})
	})
	if st != "ok" {
		x.op(x.crashName(k), "restart-fails")
		c08Fail(x.c, "c08/bitcask-put-crash/reopen-panics", fmt.Sprintf("crash after durable step %d (-1: inside step 1) of a BitCask.Put: bitcask / queue start-up fails on the image (%s)", k, st), x.replay())
		return false
	}
	// what tmp.data holds (mirror) and what checkFile REALLY redelivered (inbox)
	recs, _, _, _ := store.VerifScanFile(filepath.Join(x.dir, "tmp.data"))
	for _, r := range recs {
		for i, key := range x.keys {
			if bytes.Equal(key, r.Key) {
				x.pend = append(x.pend, i)
			}
		}
	}
	x.take()
	if len(x.inbox) != len(recs) {
		x.c.Count("putcrash:restart-redelivers-other-than-wal")
	}
	x.op(x.crashName(k), fmt.Sprintf("%s pend=%d pos=%s", x.state(x.ldb), len(x.inbox), x.posOf(x.ldb, ki)))
	return true
}

func (x *c08PC) replay() interface{} {
	return map[string]interface{}{"level": "FileQueue+BitCask (detached) then BeansDB", "family": "bitcask-put-crash", "case": x.it, "bitcask": x.tb, "ops": append([]string{}, x.trace...)}
}

// ---- phase C: the real BeansDB ----

func (x *c08PC) readAll(when string) {
	bad := 0
	for ki := range x.keys {
		var val []byte
		var err error
		st := ""
		c08Do("beansdb-get", func() {
			st = Safe(func() string { val, err = x.b.db.Get(x.flags[ki], x.keys[ki]); return "ok" })
		})
		out := "panic"
		if st == "ok" {
			out = c08GetStr(val, err)
		}
		x.op(fmt.Sprintf("bget %d:%s", x.flags[ki], hexOrDash(x.keys[ki])), out)
		want, written := x.want[ki]
		cls := "ok"
		switch {
		case !written && (st != "ok" || err != nil || val != nil):
			cls = "phantom-value"
		case !written:
			cls = "absent"
		case st != "ok" || err != nil || val == nil:
			cls = "record-unreadable"
		case !bytes.Equal(val, want):
			cls = "wrong-value"
		}
		x.c.Count("putcrash:read:" + cls)
		if cls != "ok" && cls != "absent" {
			bad++
			c08Fail(x.c, "c08/bitcask-put-crash/"+cls, fmt.Sprintf("%s: key %x (flag %d, bitcask %d) was acknowledged with a %d-byte value; the real Get answers %s. Ops: %s", when, x.keys[ki], x.flags[ki], x.tb, len(want), out, strings.Join(x.trace, "; ")), x.replay())
		}
	}
	cur, size := x.curSize(x.b.ldb)
	if cur != size {
		x.c.Count("putcrash:cursor-not-at-file-end")
		c08Fail(x.c, "c08/bitcask-put-crash/cursor-not-at-file-end", fmt.Sprintf("%s: the writer is idle, the persisted cursor of bitcask %d is %d, its data file is %d bytes long: the next record is written at one place and indexed at another. Ops: %s", when, x.tb, cur, size, strings.Join(x.trace, "; ")), x.replay())
	} else if bad == 0 {
		x.c.Count("putcrash:state-intact")
	}
}

// inspect: the crash image as it lies on disk, before any start-up code touches it (the LevelDB is read from a copy
// of index/): persisted cursor, size of the data file, records in tmp.data, position of the record in flight
func (x *c08PC) inspect(k int, ki int) {
	tmp := x.dir + "-index-copy"
	os.RemoveAll(tmp)
	c08CopyDir(filepath.Join(x.dir, "index"), tmp)
	ldb := leveldb.NewLevelDBDatabase(tmp, 16, 16)
	recs, _, _, _ := store.VerifScanFile(filepath.Join(x.dir, "tmp.data"))
	cur, size := x.curSize(ldb)
	x.op(x.crashName(k), fmt.Sprintf("cur=%d size=%d pend=%d pos=%s", cur, size, len(recs), x.posOf(ldb, ki)))
	ldb.Close()
	os.RemoveAll(tmp)
	switch {
	case k == 1 || k == 2 || (k == -1 && x.tornLen > 0):
		if size <= cur && k != -1 && !x.dead { // (a dead case: the harness had no record to put in flight)
			c08Fail(x.c, "c08/harness/put-fault-not-hit", fmt.Sprintf("image after durable step %d of a put: data file %d bytes, cursor %d — the file is not ahead of the cursor", k, size, cur), nil)
		}
		x.c.Count("putcrash:image:file-ahead-of-cursor")
	default:
		x.c.Count("putcrash:image:file-at-cursor")
	}
}

func (x *c08PC) openBeans(opname string, sig string) bool {
	var st string
	x.b, st = c08OpenBeans(x.dir)
	if st != "ok" {
		x.op(opname, "restart-fails")
		c08Fail(x.c, "c08/bitcask-put-crash/"+sig, fmt.Sprintf("%s: BeansDB does not come up (%s). Ops: %s", opname, st, strings.Join(x.trace, "; ")), x.replay())
		x.b.close()
		x.b = nil
		return false
	}
	c08MarkFor("writer-drain", 25*time.Second)
	idle := c08QueueIdle(x.b.db.Queue, 15*time.Second)
	c08Unmark()
	if !idle {
		x.op(opname, "hang")
		c08Fail(x.c, "c08/bitcask-put-crash/recovery-hang", fmt.Sprintf("%s: the redelivery does not complete. Ops: %s", opname, strings.Join(x.trace, "; ")), x.replay())
		return false
	}
	x.op(opname, x.state(x.b.ldb)+" pend=0")
	return true
}

func (x *c08PC) putDrained(ki int) bool {
	val := x.newVal()
	c08Do("beansdb-put", func() {
		if err := x.b.db.Put(x.flags[ki], x.keys[ki], val); err != nil {
			panic("beansdb put: " + err.Error())
		}
	})
	x.want[ki] = val
	c08MarkFor("writer-drain", 25*time.Second)
	idle := c08QueueIdle(x.b.db.Queue, 15*time.Second)
	c08Unmark()
	if !idle {
		x.op("bputd "+x.recWord(ki, val), "hang")
		c08Fail(x.c, "c08/bitcask-put-crash/recovery-hang", "a Put after the restart is never acknowledged by the writer. Ops: "+strings.Join(x.trace, "; "), x.replay())
		return false
	}
	x.op("bputd "+x.recWord(ki, val), x.state(x.b.ldb)+" pos="+x.posOf(x.b.ldb, ki))
	x.c.Count("putcrash:put-after-restart")
	return true
}

func c08PutCrashCase(c *Ctx, base string, it int) {
	x := &c08PC{c: c, base: base, it: it, want: map[int][]byte{}}
	x.tb = c.Rnd.Intn(256)
	x.dir = filepath.Join(base, fmt.Sprintf("pc%d-g0", it))
	os.RemoveAll(x.dir)
	os.MkdirAll(x.dir, 0755)
	defer func() {
		if x.q != nil {
			x.q.Close()
		}
		c08CloseMeteredLDB(x.ldb)
		if x.b != nil {
			x.b.close()
		}
		os.RemoveAll(x.dir)
	}()
	x.ldb = c08OpenMeteredLDB(filepath.Join(x.dir, "index"))
	q, err := store.VerifNewDetachedQueueDB(x.dir, x.ldb)
	if err != nil {
		panic(err)
	}
	x.q = q
	// keys routed to bitcask tb by the real hash (SyncFileDB.route: Byte2Uint32(key) >> ((8-Height)*4))
	shift := (8 - q.SyncFileDB.Height) * 4
	flagPool := []uint32{4, 4, 3, 7, 4, 6}
	for i := 0; len(x.keys) < 6 && i < 1<<20; i++ {
		k := []byte{0xbc, byte(it), byte(i >> 16), byte(i >> 8), byte(i)}
		if int(store.Byte2Uint32(k)>>shift) == x.tb {
			x.keys = append(x.keys, k)
			x.flags = append(x.flags, flagPool[len(x.flags)%len(flagPool)])
		}
	}
	x.op("bnew", "ok")

	// ---- phases A/B: puts, completed puts, crashes inside a put, restarts, crashes inside the redelivery ----
	finalK := 1 + c.Rnd.Intn(4)
	if finalK == 4 {
		finalK = -1
	}
	switch it {
	case 0: // put a, stored; put b; the process dies after step 1 of b's put
		x.put(0)
		x.done()
		x.put(1)
		finalK = 1
	case 1: // ... after step 2
		x.put(0)
		x.done()
		x.put(1)
		finalK = 2
	case 2: // two records in tmp.data; crash inside the second put; crash again inside the redelivery of the first
		x.put(0)
		x.put(1)
		x.done()
		if !x.crash(1) {
			return
		}
		x.get(1)
		if !x.crash(2) {
			return
		}
		x.done()
		x.get(0)
		finalK = 1
	case 3: // ... after step 3 (everything durable, the Done lost)
		x.put(0)
		x.done()
		x.put(1)
		x.put(0)
		finalK = 3
	case 4: // the process dies in the middle of the data-file write of b
		x.put(0)
		x.done()
		x.put(1)
		finalK = -1
	case 5: // position of b written, cursor not; restart; the redelivery of a (first in tmp.data) is torn over b's bytes
		x.put(0)
		x.put(1)
		x.done()
		if !x.crash(2) {
			return
		}
		x.get(1)
		if !x.crash(-1) {
			return
		}
		x.get(1) // b's position points at a mixture of a's and b's bytes
		x.get(0)
		finalK = 2
	case 6: // a STORED key is overwritten: the new value is acknowledged (fsynced in tmp.data), the writer has not touched it
		// when the process dies between two puts; the key has a position in the index (of the old value)
		x.put(0)
		x.done()
		x.put(0)
		x.put(1)
		finalK = 0
		c.Count("putcrash:overwrite-of-indexed-key-pending-at-crash")
	case 7: // the same, restarted by the detached queue first (the redelivery is compared record by record), then a
		// crash inside the redelivered put of the overwriting record
		x.put(0)
		x.done()
		x.put(0)
		if !x.crash(0) {
			return
		}
		x.put(2)
		x.done()
		x.get(0)
		finalK = 1
		c.Count("putcrash:overwrite-of-indexed-key-pending-at-crash")
	default:
		gens := 1 + c.Rnd.Intn(3)
		for g := 0; g < gens; g++ {
			n := 1 + c.Rnd.Intn(6)
			for i := 0; i < n; i++ {
				switch r := c.Rnd.Intn(10); {
				case r < 5 || (g == 0 && i == 0):
					x.put(c.Rnd.Intn(4)) // keys 4, 5 stay unwritten for later
				case r < 8:
					if len(x.pend) > 0 {
						x.done()
					}
				default:
					x.get(c.Rnd.Intn(5))
				}
			}
			if g < gens-1 {
				if !x.crash(c.Rnd.Intn(5) - 1) {
					return
				}
				if x.lastKi >= 0 && c.Rnd.Intn(2) == 0 {
					x.get(x.lastKi) // what the bitcask holds for the record that was in flight (torn / dangling position)
				}
			}
		}
		if len(x.pend) == 0 {
			x.put(c.Rnd.Intn(4))
		}
	}

	// ---- phase C: the last crash image is opened by the real BeansDB ----
	if len(x.pend) == 0 {
		finalK = 0
	}
	if x.dead {
		c.Count("putcrash:case-with-missing-hand-over")
	}
	ki := x.die(finalK)
	x.inspect(finalK, ki)
	if !x.openBeans("bdrain", "reopen-panics") {
		return
	}
	x.readAll("after crash-restart and complete redelivery")
	// further records routed to the SAME bitcask: a new key, the key that was in flight, another old key
	more := []int{4}
	if ki >= 0 {
		more = append(more, ki)
	}
	more = append(more, c.Rnd.Intn(4))
	for _, k := range more {
		if !x.putDrained(k) {
			return
		}
	}
	x.readAll("after further writes to the same bitcask")
	for round := 0; round < 1+it%2; round++ {
		x.b.close()
		x.b = nil
		if !x.openBeans("brestart", "restart-panics") {
			return
		}
		x.readAll("after a clean restart")
		if round == 0 && it%2 == 1 {
			if !x.putDrained(5) || !x.putDrained(c.Rnd.Intn(5)) {
				return
			}
		}
	}
	x.c.Count("putcrash:case-completed")
}

func c08PutCrashFamily(c *Ctx, base string) {
	n := 10
	if c.Tier == "thorough" {
		n = 40 + c.N/10
	}
	for it := 0; it < n; it++ {
		it := it
		c08Case(fmt.Sprintf("bitcask-put-crash case %d", it))
		c08Guard(c, "putcrash", func() { c08PutCrashCase(c, base, it) })
	}
}

package main

// C08 — the pending index of the write-ahead queue (FileQueue.Index / refCnt / emptyFile).
//
// Correspondence (c): op sequences put / batch / done / crash are run on the REAL FileQueue code
// (Put, PutBatch -> emptyFile, FileUtilsFlush, setIndex; afterPut -> delIndex) through the verif hook
// store.VerifNewDetachedQueue: the asynchronous writer is not started, the harness plays its role
// ("done" = take the oldest record out of the writer's channel and acknowledge it). After EVERY op the
// index (key:flag:refCnt), the number of pending records and the records really present in tmp.data
// (real scanFile) are compared with LemoModel.Wal.qStep; "crash" compares what a restart would serve.
// "qrestart" (sampled) starts a detached queue WITH the real bitcask files and LevelDB position index on a copy of the
// directory — the keys of the acknowledged records are indexed there — and compares the rebuilt pending index and the
// records handed to the writer again, in order, with LemoModel.Wal.qRestart.
// Direct oracle: a record whose Put/PutBatch returned must be recoverable at every instant, and every acknowledged
// record the writer has not persisted must be among the records a restart hands to the writer.

import (
	"bytes"
	"encoding/hex"
	"fmt"
	"os"
	"path/filepath"
	"sort"
	"strings"
	"time"

	"github.com/LemoFoundationLtd/lemochain-core/store"
	"github.com/LemoFoundationLtd/lemochain-core/store/leveldb"
)

type c08Q struct {
	q         *store.FileQueue
	ldb       *leveldb.LevelDBDatabase
	dir       string
	staleTail bool     // tmp.data holds records BEHIND the pending ones (set by crash())
	pend      []c08Rec // mirror of the writer's channel (oldest first)
	done      []c08Rec // acknowledged by the "writer", in order
}

func (x *c08Q) show() string {
	path := filepath.Join(x.dir, "tmp.data")
	var sb strings.Builder
	fmt.Fprintf(&sb, "idx=[%s] pending=%d", strings.Join(x.q.VerifIndexDump(), ","), len(x.q.SyncFileDB.WriteChan))
	recs, _, _, err := store.VerifScanFile(path)
	if err != nil && err != store.ErrEOF {
		fmt.Fprintf(&sb, " wal=error(%s)", c08ErrName(err))
		return sb.String()
	}
	fmt.Fprintf(&sb, " wal=%d", len(recs))
	for _, r := range recs {
		sb.WriteByte(' ')
		sb.WriteString(c08RecStr(r.Flg, r.Key, r.Val))
	}
	return sb.String()
}

func (x *c08Q) walRecs() []c08Rec {
	recs, _, _, _ := store.VerifScanFile(filepath.Join(x.dir, "tmp.data"))
	var out []c08Rec
	for _, r := range recs {
		out = append(out, c08Rec{r.Flg, r.Key, r.Val})
	}
	return out
}

type c08SK struct {
	flg uint32
	key string
}

func c08Replay(m map[c08SK][]byte, rs []c08Rec) {
	for _, r := range rs {
		m[c08SK{r.Flg, string(r.Key)}] = r.Val
	}
}

// crash: what a restart now would serve (bitcask = replay of done, then redelivery of tmp.data) against
// what the acknowledged writes promise (done ++ pending)
func (x *c08Q) crash() (line string, lost []string, pendingNotInWal bool) {
	wal := x.walRecs()
	rec := map[c08SK][]byte{}
	c08Replay(rec, x.done)
	c08Replay(rec, wal)
	prom := map[c08SK][]byte{}
	c08Replay(prom, x.done)
	c08Replay(prom, x.pend)
	var lines []string
	for k, pv := range prom {
		name := fmt.Sprintf("%d:%s", k.flg, hexOrDash([]byte(k.key)))
		rv, ok := rec[k]
		val := "none"
		if ok {
			val = fmt.Sprintf("%d:%d", len(rv), fnv32(rv))
		}
		lines = append(lines, name+"="+val)
		if !ok || !bytes.Equal(rv, pv) {
			lost = append(lost, name)
		}
	}
	sort.Strings(lines)
	sort.Strings(lost)
	// every acknowledged-but-unpersisted record must still be in tmp.data (as a suffix, in order)
	if len(x.pend) > len(wal) || !c08SameRecs(wal[len(wal)-min(len(wal), len(x.pend)):], x.pend) {
		pendingNotInWal = true
		// the pending records ARE in the file, but other (older) records follow them: not a removed file but
		// stale records behind a rewound write position
		for i := 0; i+len(x.pend) < len(wal); i++ {
			if len(x.pend) > 0 && c08SameRecs(wal[i:i+len(x.pend)], x.pend) {
				x.staleTail = true
				break
			}
		}
	}
	return fmt.Sprintf("rec=[%s] lost=[%s]", strings.Join(lines, ","), strings.Join(lost, ",")), lost, pendingNotInWal
}

// realRestart: the data directory as it is NOW (bitcask files, LevelDB index, tmp.data) is copied and opened by the
// real BeansDB start-up code (scan, redelivery, async writer); every promised key is read back through the real Get.
// Independent of the harness mirrors that `crash()` computes from: returns the keys whose value differs from the promise.
func (x *c08Q) realRestart(base string) (lost []string, status string) {
	img := filepath.Join(base, "qimg")
	os.RemoveAll(img)
	c08CopyDir(x.dir, img)
	defer os.RemoveAll(img)
	b, st := c08OpenBeans(img)
	defer b.close()
	if st != "ok" {
		return nil, "reopen-panic"
	}
	c08MarkFor("writer-drain", 20*time.Second)
	idle := c08QueueIdle(b.db.Queue, 10*time.Second)
	c08Unmark()
	if !idle {
		return nil, "recovery-hang"
	}
	prom := map[c08SK][]byte{}
	c08Replay(prom, x.done)
	c08Replay(prom, x.pend)
	for k, pv := range prom {
		var got []byte
		var err error
		c08Do("beansdb-get", func() { got, err = b.db.Get(k.flg, []byte(k.key)) })
		if err != nil || !bytes.Equal(got, pv) {
			lost = append(lost, fmt.Sprintf("%d:%s", k.flg, hexOrDash([]byte(k.key))))
		}
	}
	sort.Strings(lost)
	return lost, "ok"
}

// restartOp: op `qrestart` — the queue's directory as it is NOW (tmp.data, the bitcask files and the LevelDB position
// index the "writer" has filled: keys of acknowledged records ARE indexed) is copied and a detached queue is started on
// the copy by the real start-up code (NewBitCask x 256, checkFile -> scanFile -> deliver). Answer: the pending index
// and the records handed to the writer again, in order. Model: LemoModel.Wal.qRestart.
func (x *c08Q) restartOp(base string) (line string, recs []c08Rec, status string) {
	img := filepath.Join(base, "qrimg")
	os.RemoveAll(img)
	c08CopyDir(x.dir, img)
	defer os.RemoveAll(img)
	var ldb *leveldb.LevelDBDatabase
	var q *store.FileQueue
	var err error
	st := ""
	c08Do("queue-restart", func() {
		st = Safe(func() string {
			ldb = leveldb.NewLevelDBDatabase(filepath.Join(img, "index"), 16, 16)
			q, err = store.VerifNewDetachedQueueDB(img, ldb)
			if err != nil {
				return c08ErrName(err)
			}
			return "ok"
		})
	})
	defer func() {
		if q != nil {
			q.Close()
		}
		if ldb != nil {
			c08Do("leveldb-close", func() { Safe(func() string { ldb.Close(); return "" }) })
		}
	}()
	if st != "ok" {
		return "fail:" + st, nil, "fail"
	}
	for op := c08Recv(q, 0); op != nil; op = c08Recv(q, 0) {
		recs = append(recs, c08Rec{op.Flg, op.Key, op.Val})
	}
	var sb strings.Builder
	fmt.Fprintf(&sb, "idx=[%s] redelivered=%d", strings.Join(q.VerifIndexDump(), ","), len(recs))
	for _, r := range recs {
		sb.WriteByte(' ')
		sb.WriteString(c08RecStr(r.Flg, r.Key, r.Val))
	}
	return sb.String(), recs, "ok"
}

// c08Subseq: is `a` a subsequence of `b` (records compared completely)?
func c08Subseq(a, b []c08Rec) bool {
	j := 0
	for i := range b {
		if j < len(a) && c08SameRecs(a[j:j+1], b[i:i+1]) {
			j++
		}
	}
	return j == len(a)
}

func c08QueueTie(c *Ctx, base string) {
	nSeq := 12 + c.N/2
	if c.Tier == "thorough" {
		nSeq = 40 + c.N/4
	}
	keys := [][]byte{{0xa1, 0x01}, {0xa2, 0x02, 0x03}, {0xb3}, {0xc4, 0xc4, 0xc4, 0xc4}}
	flagOf := []uint32{4, 4, 3, 7} // account, account, trie node, kv (BeansDB.After has nothing to do for these)
	nval := 0
	mixedFlags := false // the current sequence contains a key written under two flags: a real restart would die in delIndex too
	newRec := func(forceKey int) c08Rec {
		ki := forceKey
		if ki < 0 {
			ki = c.Rnd.Intn(len(keys))
			if c.Rnd.Intn(3) == 0 {
				ki = 0 // make key 0 hot: queued several times
			}
		}
		nval++
		val := []byte{byte(nval >> 8), byte(nval), byte(c.Rnd.Intn(256))}
		if c.Rnd.Intn(6) == 0 {
			val = append(val, c08RandBytes(c, c.Rnd.Intn(300))...)
		}
		flg := flagOf[ki]
		// (until /repo 14469b9 one draw in 40 wrote the same key bytes under another flag: the index was keyed by the key bytes alone and
		// delIndex panicked on the mismatch — which the index MODEL, keyed the same way, reproduced. The index is now keyed by flag and key;
		// the model keeps its guard "one flag per key bytes" (OpOK), so mixed flags are no longer generated here. The crash itself — a
		// contract whose code equals a trie node of the same block — is watched on the real engine by hx c15 (c15/panic/file-queue-flag-clash).)
		_ = mixedFlags
		return c08Rec{flg, keys[ki], val}
	}
	for seq := 0; seq < nSeq; seq++ {
		dir := filepath.Join(base, fmt.Sprintf("q%d", seq))
		os.MkdirAll(dir, 0755)
		ldb := leveldb.NewLevelDBDatabase(filepath.Join(dir, "index"), 16, 16)
		q, err := store.VerifNewDetachedQueueDB(dir, ldb)
		if err != nil {
			panic(err)
		}
		x := &c08Q{q: q, ldb: ldb, dir: dir}
		c.Op("qnew", "ok")
		c08Case(fmt.Sprintf("queue-tie sequence %d", seq))
		c08Note("qnew")
		mixedFlags = false
		nops := 8 + c.Rnd.Intn(30)
		reported := false
		panicked := false
		for i := 0; i < nops && !panicked; i++ {
			kind := c.Rnd.Intn(10)
			if seq%4 == 0 && i < 6 {
				// scripted prefix: the same key queued twice, first copy acknowledged, then another write
				kind = []int{0, 0, 7, 0, 9, 7}[i]
			}
			switch {
			case kind <= 3: // put
				fk := -1
				if seq%4 == 0 && i < 2 {
					fk = 0
				}
				if seq%4 == 0 && i == 3 {
					fk = 2
				}
				r := newRec(fk)
				c08Note(fmt.Sprintf("qput %d:%s:%s", r.Flg, hexOrDash(r.Key), hexOrDash(r.Val)))
				c08Do("queue-put", func() {
					if err := q.Put(r.Flg, r.Key, r.Val); err != nil {
						panic(err)
					}
				})
				x.pend = append(x.pend, r)
				c.Op(fmt.Sprintf("qput %d:%s:%s", r.Flg, hexOrDash(r.Key), hexOrDash(r.Val)), x.show())
				c.Count("q:put")
			case kind <= 5: // batch
				n := 1 + c.Rnd.Intn(4)
				var items []*store.BatchItem
				var words []string
				var rs []c08Rec
				for j := 0; j < n; j++ {
					r := newRec(-1)
					rs = append(rs, r)
					items = append(items, &store.BatchItem{Flg: r.Flg, Key: r.Key, Val: r.Val})
					words = append(words, fmt.Sprintf("%d:%s:%s", r.Flg, hexOrDash(r.Key), hexOrDash(r.Val)))
				}
				c08Note("qbatch " + strings.Join(words, " "))
				c08Do("queue-putbatch", func() {
					if err := q.PutBatch(items); err != nil {
						panic(err)
					}
				})
				x.pend = append(x.pend, rs...)
				c.Op("qbatch "+strings.Join(words, " "), x.show())
				c.Count("q:batch")
			case kind <= 8: // done
				if len(q.SyncFileDB.WriteChan) == 0 {
					c.Op("qdone", x.show())
					c.Count("q:done-idle")
					break
				}
				op := c08Recv(q, 0) // len(WriteChan) > 0 was checked above: never blocks
				c08Note("qdone")
				// the record the real queue hands to the writer must be the oldest acknowledged one (FIFO)
				if op.Flg != x.pend[0].Flg || !bytes.Equal(op.Key, x.pend[0].Key) || !bytes.Equal(op.Val, x.pend[0].Val) {
					c08Fail(c, "c08/queue-not-fifo", fmt.Sprintf("sequence %d op %d: the writer receives %s, the oldest acknowledged record is %s", seq, i, c08RecStr(op.Flg, op.Key, op.Val), c08RecStr(x.pend[0].Flg, x.pend[0].Key, x.pend[0].Val)), nil)
				}
				x.done = append(x.done, x.pend[0])
				x.pend = x.pend[1:]
				// what the writer goroutine does: bitcask file + LevelDB position + cursor, then Done -> afterPut
				c08Do("writer-put", func() {
					if err := q.VerifWriterPut(op); err != nil {
						panic("bitcask put: " + err.Error())
					}
				})
				st := ""
				c08Do("queue-afterput", func() { st = Safe(func() string { q.VerifAfterPut(op); return "ok" }) })
				if st == "panic" {
					c.Op("qdone", "panic "+x.show())
					c.Count("q:done-panic")
					panicked = true // the real process is dead here
				} else {
					c.Op("qdone", x.show())
					c.Count("q:done")
				}
			default:
			}
			// a crash can happen after every op
			line, lost, pnw := x.crash()
			c.Op("qcrash", line)
			if pnw {
				c.Count("q:pending-not-in-wal")
			}
			// sampled: the same question answered by the real start-up code on a copy of the directory
			sampled := (seq%4 == 0 && i == 3) || i == nops-1 || (c.Tier == "thorough" && c.Rnd.Intn(6) == 0)
			// op `qrestart`: what the real start-up code hands to the writer again on a copy of the directory — the keys of
			// the records acknowledged so far have a position in the LevelDB index (VerifWriterPut wrote it)
			every := 10
			if c.Tier == "thorough" {
				every = 4
			}
			if !panicked && (sampled || c.Rnd.Intn(every) == 0) {
				c08Note("qrestart")
				rline, rrecs, rst := x.restartOp(base)
				c.Op("qrestart", rline)
				c.Count("q:restart:" + rst)
				wal := x.walRecs()
				indexed := 0
				for _, r := range wal {
					if v, _ := q.VerifPersisted(r.Flg, r.Key); v != nil {
						indexed++
					}
				}
				if indexed > 0 {
					c.Count("q:restart:wal-record-of-indexed-key")
				}
				// direct oracle: every acknowledged record the writer has not persisted yet must be handed to it again,
				// in order (whatever else the start-up code chooses to redeliver)
				if rst == "ok" && !c08Subseq(x.pend, rrecs) {
					c.Count("q:restart:pending-not-redelivered")
					cause := "record-in-wal-not-redelivered"
					if len(x.pend) > len(wal) || !c08SameRecs(wal[len(wal)-min(len(wal), len(x.pend)):], x.pend) {
						cause = "wal-removed-with-record-pending"
					} else if indexed > 0 {
						cause = "overwritten-key-not-redelivered"
					}
					c08Fail(c, "c08/acked-record-not-redelivered/"+cause, fmt.Sprintf("FileQueue restart (sequence %d, after op %d): %d acknowledged record(s) are not yet persisted by the writer and all lie in tmp.data (%d records, %d of them for keys that already have a position in the index), but the start-up scan hands only %d record(s) to the writer — not all of the unpersisted ones: %s", seq, i, len(x.pend), len(wal), indexed, len(rrecs), rline[:min(len(rline), 300)]),
						map[string]interface{}{"level": "FileQueue restart (detached queue, real bitcask files + LevelDB index)", "sequence": seq, "op": i, "ops": append([]string{}, c08Wd.notes...)})
				}
			}
			if !mixedFlags && sampled {
				rlost, rst := x.realRestart(base)
				c.Count("q:real-restart:" + rst)
				if rst != "ok" {
					c08Fail(c, "c08/"+rst+"/queue-restart", fmt.Sprintf("sequence %d op %d: BeansDB does not come up on a copy of the queue's directory", seq, i), nil)
				} else if strings.Join(rlost, ",") != strings.Join(lost, ",") {
					// the mirror-based answer and the real restart disagree: the tie's fed values are wrong
					c08Fail(c, "c08/qcrash-mirror-differs", fmt.Sprintf("sequence %d op %d: keys lost according to the harness mirrors %v, according to a real restart %v", seq, i, lost, rlost), nil)
				}
				if len(rlost) > 0 && !reported {
					reported = true
					rsig := "c08/acked-record-lost/wal-removed-with-record-pending"
					if !pnw {
						// every unpersisted record IS in tmp.data: the restart did not bring it back
						rsig = "c08/acked-record-lost/record-in-wal-not-redelivered"
					}
					if x.staleTail {
						rsig = "c08/stale-record-redelivered/stale-records-behind-rewound-offset"
					}
					c08Fail(c, rsig, fmt.Sprintf("FileQueue + real restart: after op %d of sequence %d (index %v, %d record(s) pending) a restart on a copy of the directory serves other values than acknowledged for %v", i, seq, q.VerifIndexDump(), len(x.pend), rlost), map[string]interface{}{"level": "FileQueue+BeansDB restart", "sequence": seq, "op": i})
				}
			}
			if (len(lost) > 0 || pnw) && !reported {
				reported = true
				sig := "c08/acked-record-lost"
				if pnw {
					sig += "/wal-removed-with-record-pending"
				}
				if x.staleTail {
					sig = "c08/stale-record-redelivered/stale-records-behind-rewound-offset"
				}
				c08Fail(c, sig, fmt.Sprintf("FileQueue: after op %d of sequence %d the index is %v with %d record(s) still only in the writer's channel; tmp.data holds %d record(s); a crash now loses acknowledged writes of %v", i, seq, q.VerifIndexDump(), len(x.pend), len(x.walRecs()), lost), map[string]interface{}{"level": "FileQueue", "sequence": seq, "op": i})
			}
		}
		q.Close()
		c08Do("leveldb-close", func() { ldb.Close() })
		os.RemoveAll(dir)
	}
}

// ---------------------------------------------------------------------------------------------
// overwrite-remnant family: torn tail, restart, a shorter Put while the redelivered records are
// still pending (index not empty -> emptyFile keeps the file), restart again.
// FileUtilsFlush seeks to Offset and writes WITHOUT truncating: unless checkFile cuts the torn tail
// off, the remnant of the torn record stays behind the new record at a 256-aligned offset, and a
// torn record whose VALUE embeds an encoded record (payload bytes an attacker controls: tx data
// inside a block) is then delivered on the next restart although it was never written.
// ---------------------------------------------------------------------------------------------

type c08W struct {
	dir  string
	q    *store.FileQueue
	pend []*store.Inject // handed to the writer, not yet acknowledged
	// withDB: the queue has the real bitcask files and the real LevelDB position index behind it and drain() persists
	// the records the way the writer goroutine does (BitCask.Put) before it acknowledges them — so the keys written in
	// earlier rounds HAVE a position in the index when the next restart scans tmp.data
	withDB bool
	ldb    *leveldb.LevelDBDatabase
}

func (w *c08W) path() string { return filepath.Join(w.dir, "tmp.data") }

func (w *c08W) close() {
	if w.q != nil {
		w.q.Close()
	}
	if w.ldb != nil {
		c08Do("leveldb-close", func() { Safe(func() string { w.ldb.Close(); return "" }) })
		w.ldb = nil
	}
}

// restart = a new detached queue on the directory (real checkFile -> scanFile)
func (w *c08W) restart() (line string, recs []c08Rec) {
	if w.q != nil {
		w.q.Close()
	}
	w.pend = nil
	var err error
	st := ""
	c08Note("wrestart")
	c08Do("queue-restart", func() {
		st = Safe(func() string {
			if w.withDB {
				if w.ldb == nil {
					w.ldb = leveldb.NewLevelDBDatabase(filepath.Join(w.dir, "index"), 16, 16)
				}
				w.q, err = store.VerifNewDetachedQueueDB(w.dir, w.ldb)
			} else {
				w.q, err = store.VerifNewDetachedQueue(w.dir)
			}
			if err != nil {
				return c08ErrName(err)
			}
			return "ok"
		})
	})
	if st != "ok" {
		return "fail:" + st, nil
	}
	for op := c08Recv(w.q, 0); op != nil; op = c08Recv(w.q, 0) {
		recs = append(recs, c08Rec{op.Flg, op.Key, op.Val})
		w.pend = append(w.pend, op) // stays pending until drain()
	}
	fi, _ := os.Stat(w.path())
	var sb strings.Builder
	fmt.Fprintf(&sb, "ok off=%d size=%d n=%d", w.q.Offset, fi.Size(), len(recs))
	for _, r := range recs {
		sb.WriteByte(' ')
		sb.WriteString(c08RecStr(r.Flg, r.Key, r.Val))
	}
	return sb.String(), recs
}

func (w *c08W) put(r c08Rec) string {
	var err error
	c08Note(fmt.Sprintf("wput %d:%s:%d bytes", r.Flg, hexOrDash(r.Key), len(r.Val)))
	c08Do("queue-put", func() { err = w.q.Put(r.Flg, r.Key, r.Val) })
	if err != nil {
		return "err " + err.Error()
	}
	op := c08Recv(w.q, time.Second)
	if op == nil {
		return "ok not-handed-to-writer"
	}
	w.pend = append(w.pend, op) // stays pending in the index until drain()
	fi, _ := os.Stat(w.path())
	return fmt.Sprintf("ok off=%d size=%d", w.q.Offset, fi.Size())
}

// drain: the writer has persisted and acknowledged everything (real afterPut -> delIndex): the index is empty
func (w *c08W) drain() string {
	c08Note("wdrain")
	for _, op := range w.pend {
		if w.withDB {
			c08Do("writer-put", func() {
				if err := w.q.VerifWriterPut(op); err != nil {
					panic("bitcask put: " + err.Error())
				}
			})
		}
		c08Do("queue-afterput", func() { w.q.VerifAfterPut(op) })
	}
	w.pend = nil
	return fmt.Sprintf("ok idx=%d", len(w.q.VerifIndexDump()))
}

// c08RewindTie: writes, the queue drains (index empty), more writes (emptyFile: the file must be emptied, the write
// position goes back to 0), restart: the scan must deliver exactly the records written since the queue was idle.
func c08RewindTie(c *Ctx, base string) {
	nCases := 6 + c.N/8
	for it := 0; it < nCases; it++ {
		dir := filepath.Join(base, fmt.Sprintf("rw%d", it))
		os.MkdirAll(dir, 0755)
		w := &c08W{dir: dir, withDB: it%3 != 2}
		c08Case(fmt.Sprintf("rewind-tie case %d (position index behind the queue: %v)", it, w.withDB))
		os.WriteFile(w.path(), nil, 0644)
		c.Op("wload -", "len 0")
		line, _ := w.restart()
		c.Op("wrestart", line)
		keyN := 0
		put := func(ki int, vlen int) c08Rec {
			keyN++
			r := c08Rec{4, []byte{0x30, byte(ki)}, append([]byte{byte(keyN)}, c08RandBytes(c, vlen)...)}
			c.Op(fmt.Sprintf("wput %d:%s:%s", r.Flg, hexOrDash(r.Key), hexOrDash(r.Val)), w.put(r))
			return r
		}
		rounds := 2 + c.Rnd.Intn(3)
		var since []c08Rec
		for rd := 0; rd < rounds; rd++ {
			since = nil
			// fewer (and same-shaped) records in every round: the previous round's records would line up behind them
			n := rounds - rd + c.Rnd.Intn(2)
			for j := 0; j < n; j++ {
				since = append(since, put((j+rd)%3, 10+c.Rnd.Intn(150)))
			}
			if rd < rounds-1 {
				c.Op("wdrain", w.drain())
			}
		}
		if it%2 == 1 {
			c.Op("wdrain", w.drain())
			since = append([]c08Rec{}, put(1, 20)) // a single short record after the last drain
		}
		// which of the records written since the queue was last idle are for keys that already have a position
		indexedKeys := 0
		if w.withDB {
			for _, r := range since {
				if v, _ := w.q.VerifPersisted(r.Flg, r.Key); v != nil {
					indexedKeys++
				}
			}
			if indexedKeys > 0 {
				c.Count("rewind-tie:restart-with-indexed-keys")
			}
		}
		line, recs := w.restart()
		c.Op("wrestart", line)
		if c08SameRecs(recs, since) {
			c.Count("rewind-tie:intact")
		} else if len(recs) < len(since) && c08Subseq(recs, since) {
			// fewer records than written: the unpersisted records are in tmp.data but the scan does not hand all of them over
			c.Count("rewind-tie:not-redelivered")
			cause := "record-in-wal-not-redelivered"
			if indexedKeys > 0 {
				cause = "overwritten-key-not-redelivered"
			}
			c08Fail(c, "c08/acked-record-not-redelivered/"+cause, fmt.Sprintf("FileQueue: %d rounds of writes with the queue drained (records persisted, keys indexed) in between; %d record(s) were written since the queue was last idle (%d of them overwrite keys that already have a position in the index), none of them persisted yet — a restart hands only %d of them to the writer (%s): the last acknowledged values of the others are lost", rounds, len(since), indexedKeys, len(recs), line[:min(len(line), 160)]),
				map[string]interface{}{"level": "FileQueue", "rounds": rounds, "written_since_idle": len(since), "of_indexed_keys": indexedKeys, "delivered": len(recs), "ops": append([]string{}, c08Wd.notes...)})
		} else {
			c.Count("rewind-tie:stale-redelivered")
			c08Fail(c, "c08/stale-record-redelivered/stale-records-behind-rewound-offset", fmt.Sprintf("FileQueue: %d rounds of writes with the queue drained in between; %d record(s) were written since the queue was last idle, a restart delivers %d: records of earlier rounds lie behind the rewound write position and are redelivered AFTER the newer versions of their keys (%s)", rounds, len(since), len(recs), line[:min(len(line), 160)]),
				map[string]interface{}{"level": "FileQueue", "rounds": rounds, "written_since_idle": len(since), "delivered": len(recs)})
		}
		w.close()
		os.RemoveAll(dir)
	}
}

func c08RemnantFamily(c *Ctx, base string) {
	nCases := 6 + c.N/8
	for it := 0; it < nCases; it++ {
		dir := filepath.Join(base, fmt.Sprintf("w%d", it))
		os.MkdirAll(dir, 0755)
		w := &c08W{dir: dir}
		c08Case(fmt.Sprintf("remnant case %d", it))
		// what has been written and acknowledged
		nGood := 1 + c.Rnd.Intn(2)
		var file []byte
		var written []c08Rec
		for i := 0; i < nGood; i++ {
			r := c08Rec{4, []byte{0x10, byte(i)}, c08RandBytes(c, 5+c.Rnd.Intn(300))}
			raw, _ := c08Encode(r)
			file = append(file, raw...)
			written = append(written, r)
		}
		// the record in flight: a block-like record whose value embeds an encoded record at a 256-aligned offset
		forged := c08Rec{4, []byte{0x66, 0x6f, 0x72, 0x67, 0x65, 0x64}, []byte("forged account state")}
		emb, _ := c08Encode(forged)
		key := c08RandBytes(c, 32)
		key[0] |= 0x80
		// outer layout: head 18 | list header 3 | key header 1 + 32 | value header 3 | value …
		const valStart = 18 + 3 + 33 + 3
		m := 1 + c.Rnd.Intn(2)
		val := append(append(c08RandBytes(c, 256*m-valStart), emb...), c08RandBytes(c, 120+c.Rnd.Intn(300))...)
		embedded := it%3 != 2
		if !embedded {
			val = c08RandBytes(c, len(val)) // control: an ordinary value
		}
		outer := c08Rec{1, key, val}
		rawOuter, _ := c08Encode(outer)
		bodyLen := c08BodyLen(rawOuter)
		// torn behind the embedded record, inside the body
		cut := 256*m + 256 + c.Rnd.Intn(18+bodyLen-(256*m+256))
		torn := append(append([]byte{}, file...), rawOuter[:cut]...)
		os.WriteFile(w.path(), torn, 0644)
		c.Op("wload "+hex.EncodeToString(torn), fmt.Sprintf("len %d", len(torn)))
		// restart 1
		line, recs := w.restart()
		c.Op("wrestart", line)
		if !c08SameRecs(recs, written) {
			c08Fail(c, "c08/torn-record-phantom", "restart after a torn tail does not deliver exactly the old records: "+line[:min(len(line), 200)], nil)
		}
		// a shorter Put arrives while the redelivered records are still pending
		short := c08Rec{4, []byte{0x20, byte(it)}, c08RandBytes(c, 256*(m-1)+100+c.Rnd.Intn(100))} // encodes to exactly 256*m bytes
		if it%5 == 4 {
			short.Val = c08RandBytes(c, 3+c.Rnd.Intn(60)) // ends before the embedded record: garbage of the value follows
		}
		c.Op(fmt.Sprintf("wput %d:%s:%s", short.Flg, hexOrDash(short.Key), hexOrDash(short.Val)), w.put(short))
		written = append(written, short)
		// crash, restart 2
		line, recs = w.restart()
		c.Op("wrestart", line)
		cls := "control"
		if embedded {
			cls = "embedded"
		}
		if c08SameRecs(recs, written) {
			c.Count("remnant:" + cls + ":intact")
		} else {
			c.Count("remnant:" + cls + ":phantom")
			c08Fail(c, "c08/phantom-record/torn-remnant-not-truncated", fmt.Sprintf("tmp.data = %d acknowledged records + a torn %d-byte block record (cut at byte %d) (cut at record byte, file offset of the record %d) whose value embeds an encoded record at file offset %d; restart (Offset = start of the torn record), Put of a %d-byte record while the redelivered ones are pending (no truncate), restart: the scan delivers %d records, the last one is flag %d key %x value %q — it was never written", nGood, len(rawOuter), cut, len(file), len(file)+256*m, 256*m, len(recs), recs[len(recs)-1].Flg, recs[len(recs)-1].Key, string(recs[len(recs)-1].Val)),
				map[string]interface{}{"level": "FileQueue", "good": nGood, "cut": cut, "embedded_at": len(file) + 256*m})
		}
		// a third restart must be a fixed point (crash during recovery / right after it)
		line3, recs3 := w.restart()
		c.Op("wrestart", line3)
		if !c08SameRecs(recs3, recs) {
			c08Fail(c, "c08/restart-not-idempotent", "two restarts in a row deliver different records", nil)
		}
		w.close()
		os.RemoveAll(dir)
	}
}

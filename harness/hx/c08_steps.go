package main

// C08 — the ORDER of the durable steps of one promotion, observed, and REAL crash images at the step boundaries.
//
// blockCommit (store/chain_database.go) performs three durable steps: the batch is appended to tmp.data and
// fsynced ("wal"), LEMO-CURRENT-BLOCK is written to LevelDB ("pointer"), context.data is replaced ("context").
// The synthesised crash images of c08ChainOracle assume this order; here it is (1) OBSERVED — one inotify
// instance on the data directory and on index/ while one real SetStableBlock runs with the async writer held in
// front of its first record (so the only LevelDB write is the pointer) — and compared with the model's step list
// (op `steps`), and (2) exercised with REAL images: each step is made to fail through the environment (tmp.data
// replaced by a non-empty directory / LevelDB switched read-only / a directory in the place of context.data.tmp),
// so the real SetStableBlock stops exactly at that step boundary; the data directory is copied at that moment and
// goes through the restart oracles.

import (
	"encoding/binary"
	"fmt"
	"math/big"
	"os"
	"path/filepath"
	"sort"
	"strings"
	"time"

	"github.com/LemoFoundationLtd/lemochain-core/chain/types"
	"github.com/LemoFoundationLtd/lemochain-core/common"
	"github.com/LemoFoundationLtd/lemochain-core/store"
)

// genesis: X, Y; block 1: X registers as candidate, Y changes; block 2: Y changes
func c08MakeStepWorkload(seed int64, idx int, H int) *c08Workload {
	w := &c08Workload{H: H}
	for i := 0; i < 2; i++ {
		w.Addrs = append(w.Addrs, c08Addr(i+7*idx))
	}
	state := map[string]string{}
	cands := map[string]string{}
	var parent common.Hash
	for h := 0; h <= H; h++ {
		hdr := &types.Header{Height: uint32(h), ParentHash: parent, Time: uint32(1600000000 + h)}
		binary.BigEndian.PutUint64(hdr.VersionRoot[0:], uint64(seed))
		binary.BigEndian.PutUint32(hdr.VersionRoot[8:], uint32(idx))
		binary.BigEndian.PutUint32(hdr.VersionRoot[12:], uint32(h+1))
		blk := &types.Block{}
		blk.SetHeader(hdr)
		parent = blk.Hash()
		w.Blocks = append(w.Blocks, blk)
		var ch []*types.AccountData
		for i, a := range w.Addrs {
			if h >= 2 && i == 0 {
				continue
			}
			acc := &types.AccountData{
				Address:       a,
				Balance:       big.NewInt(int64(1000*(h+1) + i)),
				NewestRecords: map[types.ChangeLogType]types.VersionRecord{1: {Version: uint32(h + 1), Height: uint32(h)}},
				Candidate:     types.Candidate{Votes: new(big.Int), Profile: make(types.Profile)},
			}
			if i == 0 && h >= 1 {
				acc.Candidate.Profile[types.CandidateKeyIsCandidate] = types.IsCandidateNode
				acc.Candidate.Votes = big.NewInt(int64(100*h + 7))
				cands[a.Hex()] = acc.Candidate.Votes.String()
			}
			state[a.Hex()] = c08AccDigest(acc)
			ch = append(ch, acc)
		}
		w.Changes = append(w.Changes, ch)
		cp := map[string]string{}
		for k, v := range state {
			cp[k] = v
		}
		w.Exp = append(w.Exp, cp)
		cc := map[string]string{}
		for k, v := range cands {
			cc[k] = v
		}
		w.Cand = append(w.Cand, cc)
	}
	return w
}

// c08StepSetup: a live node with genesis promoted and drained, block 1 inserted (memory only), the async writer
// held in front of block 1's first record.
func c08StepSetup(w *c08Workload, live string) (db *store.ChainDatabase, unlock func()) {
	os.MkdirAll(live, 0755)
	db = c08OpenChain(live)
	if sb, ss := w.apply(db, 0); sb != "ok" || ss != "ok" {
		panic("step workload: genesis rejected")
	}
	if !c08QueueIdle(db.Beansdb.Queue, 20*time.Second) {
		panic(c08HangPanic{"writer-drain", "step: genesis does not drain"})
	}
	blk := w.Blocks[1]
	c08Mark("set-block")
	defer c08Unmark()
	if err := db.SetBlock(blk.Hash(), blk); err != nil {
		panic("step: SetBlock: " + err.Error())
	}
	act, _ := db.GetActDatabase(blk.Hash())
	for _, a := range w.Changes[1] {
		act.Put(a, 1)
	}
	held := c08Bucket(db, blk.Hash().Bytes())
	db.Beansdb.Queue.SyncFileDB.BitCasks[held].RW.Lock()
	return db, func() { db.Beansdb.Queue.SyncFileDB.BitCasks[held].RW.Unlock() }
}

func c08StepOracle(c *Ctx, base string) {
	wl := 300
	H := 2
	w := c08MakeStepWorkload(c.Seed, wl, H)

	// (1) the observed order of the durable steps
	{
		live := filepath.Join(base, "step-live-order")
		db, unlock := c08StepSetup(w, live)
		var perr error
		evs := c08InotifyRunDirs([]string{live, filepath.Join(live, "index")}, []string{"", "index/"}, func() {
			c08Mark("set-stable-block")
			_, perr = db.SetStableBlock(w.Blocks[1].Hash())
			c08Unmark()
		})
		unlock()
		c08QueueIdle(db.Beansdb.Queue, 20*time.Second)
		c08CloseChain(db)
		os.RemoveAll(live)
		if perr != nil {
			panic("step: promotion failed: " + perr.Error())
		}
		var steps []string
		add := func(s string) {
			if len(steps) == 0 || steps[len(steps)-1] != s {
				steps = append(steps, s)
			}
		}
		for _, e := range evs {
			switch {
			case e == "modify:tmp.data":
				add("wal")
			case strings.HasPrefix(e, "modify:index/"):
				add("pointer") // the writer is held: the only LevelDB write of the promotion is LEMO-CURRENT-BLOCK
			case e == "moved-to:context.data" || e == "modify:context.data":
				add("context")
			}
		}
		c.Op("steps", strings.Join(steps, " "))
		c.Count("steps:" + strings.Join(steps, "-"))
		c.Samples = append(c.Samples, "durable steps of one promotion (inotify): "+strings.Join(evs, " "))
	}

	// (2) real images at the step boundaries
	type fault struct {
		name, cause     string
		completed, infl int
		inject          func(live string, db *store.ChainDatabase) (restore func(img string))
	}
	faults := []fault{
		{"wal", "crash-before-wal-batch", 0, -1, func(live string, db *store.ChainDatabase) func(string) {
			// tmp.data becomes a non-empty directory: emptyFile cannot remove it, FileUtilsFlush cannot open it
			orig, _ := os.ReadFile(filepath.Join(live, "tmp.data"))
			os.Remove(filepath.Join(live, "tmp.data"))
			os.MkdirAll(filepath.Join(live, "tmp.data", "x"), 0755)
			return func(img string) {
				os.RemoveAll(filepath.Join(img, "tmp.data"))
				os.WriteFile(filepath.Join(img, "tmp.data"), orig, 0644)
			}
		}},
		{"pointer", "batch-durable-pointer-not-moved", 0, 1, func(live string, db *store.ChainDatabase) func(string) {
			db.LevelDB.LDB().SetReadOnly() // every LevelDB write fails from now on (the writer is held)
			return func(img string) {}
		}},
		{"context", "pointer-moved-context-not-flushed", 1, -1, func(live string, db *store.ChainDatabase) func(string) {
			os.MkdirAll(filepath.Join(live, "context.data.tmp", "x"), 0755)
			return func(img string) { os.RemoveAll(filepath.Join(img, "context.data.tmp")) }
		}},
	}
	for _, f := range faults {
		f := f
		c08Guard(c, "step-image", func() {
			live := filepath.Join(base, "step-live-"+f.name)
			db, unlock := c08StepSetup(w, live)
			restore := f.inject(live, db)
			c08Mark("set-stable-block")
			_, perr := db.SetStableBlock(w.Blocks[1].Hash())
			c08Unmark()
			img := &c08Image{candsOld: -1, class: "step-" + f.name, cause: f.cause, dir: filepath.Join(base, "stepimg-"+f.name), completed: f.completed, inflight: f.infl}
			img.name = fmt.Sprintf("REAL image: SetStableBlock(block 1) stopped at the durable step '%s' (that step made to fail through the environment: %v); data directory copied at that moment", f.name, perr)
			img.replay = map[string]interface{}{"level": "ChainDatabase", "family": "step-boundary", "step": f.name, "workload": wl, "seed": c.Seed}
			c08CopyDir(live, img.dir)
			restore(img.dir)
			unlock()
			time.Sleep(20 * time.Millisecond)
			Safe(func() string { c08CloseChain(db); return "" })
			os.RemoveAll(live)
			if perr == nil {
				c.Count("step:" + f.name + ":fault-not-hit")
				c08Fail(c, "c08/harness/step-fault-not-hit", fmt.Sprintf("step '%s' was made to fail but SetStableBlock succeeded: the step is not performed where the harness expects it", f.name), nil)
			}
			o, die := c08RunChild(c, img, wl, H, H)
			os.RemoveAll(img.dir)
			if o == nil {
				c.Count("chain:" + img.class + ":process-died")
				c08ChildDied(c, img, die)
				return
			}
			if o.OpenPanic != "" {
				c.Count("chain:" + img.class + ":reopen-panic")
				c08Fail(c, "c08/reopen-panic/"+img.cause, fmt.Sprintf("[%s] NewChainDataBase panics: %s", img.name, o.OpenPanic), img.replay)
				return
			}
			maxSt := img.completed
			if img.inflight >= 0 {
				maxSt = img.inflight
			}
			fails := c08CheckDump(c, w, img, o.First, "after reopen", img.completed, maxSt)
			if len(fails) == 0 {
				for _, s := range o.Cont {
					if !strings.HasSuffix(s, ":ok/ok") {
						fails = append(fails, "c08/restart-rejects-block")
						c08Fail(c, "c08/restart-rejects-block/"+img.cause, fmt.Sprintf("[%s] restarted node (stable %d) re-applies the workload's next blocks: %v — the continuous node accepted all of them", img.name, o.First.Stable, o.Cont), img.replay)
						break
					}
				}
				if o.Second != nil && len(fails) == 0 {
					fails = append(fails, c08CheckDump(c, w, img, o.Second, "after continuing to block H", H, H)...)
				}
			}
			if len(fails) == 0 {
				c.Count("chain:" + img.class + ":intact")
			} else {
				sort.Strings(fails)
				c.Count("chain:" + img.class + ":" + strings.TrimPrefix(fails[0], "c08/"))
			}
		})
	}
}

package main

// C08 — watchdog of the harness.
//
// Every call into the code under test that can BLOCK (FileQueue.Put / PutBatch, the writer's BitCask.Put, afterPut,
// FileQueue.Start = restart, BeansDB.Start / Close, NewChainDataBase, SetBlock / SetStableBlock / SetConfirms, Close,
// reads that take a bitcask lock, waiting for the asynchronous writer to drain, reopening an image in a child
// process) is announced with c08Do(kind, f) / c08Mark(kind). One watchdog goroutine looks at the announcement:
// a call that has not come back after c08HangLimit is reported as the oracle failure
//
//	c08/hang/<op-kind>
//
// with the current family case and its op sequence (the lines noted with c08Note since c08Case) as the replay; the
// evidence files are flushed, the scratch directories removed and the process EXITS WITH STATUS 0, so that ./check
// reads the failures found so far (and this one) instead of waiting for its 600 s timeout and naming nothing.
// Receives from the writer's channel never block the harness: c08Recv gives up after a second.

import (
	"fmt"
	"os"
	"strings"
	"sync"
	"time"

	"github.com/LemoFoundationLtd/lemochain-core/store"
)

const (
	c08HangLimit  = 25 * time.Second  // one announced call of the code under test
	c08QuietLimit = 180 * time.Second // no announcement at all (harness-only work between two calls)
)

var c08Wd struct {
	mu      sync.Mutex
	c       *Ctx
	on      bool
	fired   bool
	kind    string // "" = no call of the code under test is in flight
	limit   time.Duration
	since   time.Time
	caseNm  string
	notes   []string
	dirs    []string // removed before the process exits
	child   func(kind string, detail string)
	timing  bool
	famName string
	famT0   time.Time
}

// c08WatchStart starts the watchdog (parent: failures go to the evidence; child: `child` prints what it has).
func c08WatchStart(c *Ctx, child func(kind, detail string), dirs ...string) {
	w := &c08Wd
	w.mu.Lock()
	w.c, w.on, w.child, w.dirs = c, true, child, append(w.dirs, dirs...)
	w.since = time.Now()
	w.timing = os.Getenv("C08_TIMING") != ""
	w.mu.Unlock()
	go func() {
		for {
			time.Sleep(200 * time.Millisecond)
			w.mu.Lock()
			if !w.on {
				w.mu.Unlock()
				return
			}
			limit := w.limit
			if w.kind == "" {
				limit = c08QuietLimit
			}
			if time.Since(w.since) > limit {
				c08WatchFire() // never returns; the mutex stays locked: a call that comes back now waits for the exit
			}
			w.mu.Unlock()
		}
	}()
}

func c08WatchStop() {
	c08Wd.mu.Lock()
	c08Wd.on = false
	c08Wd.mu.Unlock()
}

// called with the mutex held
func c08WatchFire() {
	w := &c08Wd
	w.fired = true
	kind := w.kind
	if kind == "" {
		kind = "unattributed"
	}
	waited := time.Since(w.since).Round(time.Second)
	detail := fmt.Sprintf("[%s] the call `%s` into the code under test has not returned for %v (watchdog); ops of this case so far: %s", w.caseNm, kind, waited, strings.Join(w.notes, "; "))
	if w.kind == "" {
		detail = fmt.Sprintf("[%s] the harness made no call into the code under test for %v (watchdog); ops of this case so far: %s", w.caseNm, waited, strings.Join(w.notes, "; "))
	}
	if w.child != nil {
		w.child(kind, detail)
		os.Exit(0)
	}
	c := w.c
	c.Count("hang:" + kind)
	c08Fail(c, "c08/hang/"+kind, detail, map[string]interface{}{"level": "watchdog", "case": w.caseNm, "op_kind": kind, "waited_s": int(waited.Seconds()), "ops": append([]string{}, w.notes...)})
	c.Close()
	for _, d := range w.dirs {
		os.RemoveAll(d)
	}
	fmt.Fprintf(os.Stderr, "c08: watchdog: %s\n", detail)
	os.Exit(0)
}

// c08Case: a new case of an oracle / correspondence family starts; the op notes start again.
func c08Case(name string) {
	w := &c08Wd
	w.mu.Lock()
	w.caseNm, w.notes = name, nil
	w.kind, w.since = "", time.Now()
	w.mu.Unlock()
}

// c08Family: c08Case + wall time per family on stderr when C08_TIMING is set
func c08Family(name string) {
	w := &c08Wd
	if w.timing {
		if w.famName != "" {
			fmt.Fprintf(os.Stderr, "c08 timing: %-22s %6.2fs\n", w.famName, time.Since(w.famT0).Seconds())
		}
		w.famName, w.famT0 = name, time.Now()
	}
	c08Case(name)
}

// c08Note: one op of the current case (replay of a hang)
func c08Note(op string) {
	w := &c08Wd
	w.mu.Lock()
	if len(op) > 160 {
		op = op[:160] + "…"
	}
	if len(w.notes) >= 80 {
		w.notes = append(w.notes[:1], w.notes[len(w.notes)-60:]...)
		w.notes[0] = "…"
	}
	w.notes = append(w.notes, op)
	w.mu.Unlock()
}

// c08Mark: a call of this kind into the code under test starts now; c08Unmark: it came back
func c08Mark(kind string) { c08MarkFor(kind, c08HangLimit) }

func c08MarkFor(kind string, limit time.Duration) {
	w := &c08Wd
	w.mu.Lock()
	w.kind, w.limit, w.since = kind, limit, time.Now()
	w.mu.Unlock()
}

func c08Unmark() {
	w := &c08Wd
	w.mu.Lock()
	w.kind, w.since = "", time.Now()
	w.mu.Unlock()
}

// c08Do runs one call into the code under test under the watchdog
func c08Do(kind string, f func()) {
	c08Mark(kind)
	defer c08Unmark()
	f()
}

// c08Recv takes the next record out of the writer's channel; nil when none arrives (the harness never blocks on the
// code under test handing a record over)
func c08Recv(q *store.FileQueue, wait time.Duration) *store.Inject {
	select {
	case op := <-q.SyncFileDB.WriteChan:
		return op
	default:
	}
	if wait <= 0 {
		return nil
	}
	select {
	case op := <-q.SyncFileDB.WriteChan:
		return op
	case <-time.After(wait):
		return nil
	}
}

// c08Idle waits for the real writer and queue goroutines to drain; a queue that does not drain is the oracle failure
// c08/hang/writer-drain (the family gives this case up, the run goes on)
func c08Idle(c *Ctx, q *store.FileQueue, wait time.Duration, what string, replay interface{}) bool {
	c08MarkFor("writer-drain", wait+10*time.Second)
	ok := c08QueueIdle(q, wait)
	c08Unmark()
	if !ok {
		c.Count("hang:writer-drain")
		q.IndexRW.RLock()
		n := len(q.Index)
		q.IndexRW.RUnlock()
		c08Fail(c, "c08/hang/writer-drain", fmt.Sprintf("[%s] %s: the asynchronous writer does not drain within %v (pending index %d entries, %d record(s) in the writer's channel, %d unprocessed Done)", c08Wd.caseNm, what, wait, n, len(q.SyncFileDB.WriteChan), len(q.DoneChan)), replay)
	}
	return ok
}

// c08HangPanic: a family gives up because the live store's writer does not drain / advance (c08Guard reports it as
// c08/hang/<kind> instead of a harness panic)
type c08HangPanic struct{ kind, what string }

func c08OpenChain(dir string) (db *store.ChainDatabase) {
	c08Note("NewChainDataBase")
	c08Mark("chaindb-open")
	defer c08Unmark()
	return store.NewChainDataBase(dir)
}

func c08CloseChain(db *store.ChainDatabase) {
	c08Mark("chaindb-close")
	defer c08Unmark()
	db.Close()
}

// c08ChildDied: the child process that reopened an image did not deliver its observations
func c08ChildDied(c *Ctx, img *c08Image, die string) {
	if strings.HasPrefix(die, "skipped:") {
		c.Count("chain:image-not-reopened-after-three-hangs")
		return
	}
	if strings.HasPrefix(die, "HANG ") {
		f := strings.SplitN(die, " ", 3)
		info := ""
		if len(f) == 3 {
			info = f[2]
		}
		c.Count("hang:" + f[1])
		c08Fail(c, "c08/hang/"+f[1]+"/"+img.cause, fmt.Sprintf("[%s] the process reopening the data directory hangs: %s", img.name, info), img.replay)
		return
	}
	c08Fail(c, "c08/reopen-crash/"+img.cause, fmt.Sprintf("[%s] the process reopening the data directory dies: %s", img.name, die), img.replay)
}
